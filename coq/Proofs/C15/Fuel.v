(* C15: fuel adequacy.  Every loop of model.py that follows links (the ancestor walk of push_child,
   __iter__/__len__, dfs_iterator, root()) is given fuel in Model/Heap.v; running out of fuel is the
   outcome EFuel.  On a well-formed heap a chain of parents has no repetition (acyclicity), so it is
   shorter than the number of elements: `nnodes h` units of fuel are enough for every walk, and no call
   ever returns EFuel. *)
From Coq Require Import List Arith Bool Lia.
From TT Require Import Base.HeapTypes Model.Heap Model.HeapRep Spec.ModelWF
  Proofs.C15.HeapLemmas Proofs.C15.Links Proofs.C15.Tree Proofs.C15.Frames Proofs.C15.LinkOps Proofs.C15.Values
  Proofs.C15.Dfs Proofs.C15.Users Proofs.C15.AttrCalls Proofs.C15.LinkCalls Proofs.C15.SetDoc Proofs.C15.Step Proofs.C15.Atomic.
Import ListNotations.

(* the proper ancestors of an element, nearest first *)
Inductive Path (h : heap) : nat -> list nat -> Prop :=
| Path_root i : n_parent (nd h i) = None -> Path h i []
| Path_step i p l : n_parent (nd h i) = Some p -> Path h p l -> Path h i (p :: l).

Lemma Rooted_Path h i : Rooted h i -> exists l, Path h i l.
Proof.
  induction 1 as [i Hi|i p Hi R [l IH]]; [exists []; constructor; exact Hi|exists (p :: l); econstructor; eauto].
Qed.
Lemma Path_up h i l : Path h i l -> forall a, In a l -> up h i a.
Proof.
  induction 1 as [i Hi|i p l Hi P IH]; intros a Ha; [destruct Ha|].
  destruct Ha as [<-|Ha]; [constructor; exact Hi|eapply up_step; [exact Hi|apply IH; exact Ha]].
Qed.

Section Bound.
  Variable h : heap.
  Hypothesis HC : Closed h.
  Hypothesis HA : WF_acyclic h.

  Lemma Path_NoDup i l : Path h i l -> NoDup (i :: l).
  Proof.
    induction 1 as [i Hi|i p l Hi P IH]; [constructor; [intros []|constructor]|].
    constructor; [|exact IH]. intro Hin.
    apply (no_self_up h HA i). apply (Path_up h i (p :: l)); [econstructor; eauto|exact Hin].
  Qed.
  Lemma Path_range i l : i < nnodes h -> Path h i l -> forall x, In x (i :: l) -> x < nnodes h.
  Proof.
    intros Hi P. revert Hi. induction P as [i E|i p l E P IH]; intros Hi x [<-|Hx]; auto; [destruct Hx|].
    apply IH; [|exact Hx]. pose proof (proj1 HC i Hi) as (R & _). rewrite E in R. exact R.
  Qed.
  (* an element and its ancestors are distinct elements of the universe *)
  Lemma Path_length i l : i < nnodes h -> Path h i l -> S (length l) <= nnodes h.
  Proof.
    intros Hi P. change (S (length l)) with (length (i :: l)).
    apply NoDup_bounded_length; [apply Path_NoDup; exact P|apply Path_range; assumption].
  Qed.
  Lemma has_Path i : i < nnodes h -> exists l, Path h i l /\ S (length l) <= nnodes h.
  Proof. intro Hi. destruct (Rooted_Path h i (HA i Hi)) as [l P]. exists l. split; [exact P|apply (Path_length i l Hi P)]. Qed.
End Bound.

(* ---- each walk ends within the fuel `length of the path` (+1 where the walk tests before moving) ---- *)
Lemma anc_walk_total h c : forall i l, Path h i l -> forall fuel, length l < fuel -> anc_walk fuel h (Some i) c <> None.
Proof.
  induction 1 as [i Hi|i p l Hi P IH]; intros fuel Hf; (destruct fuel as [|k]; [lia|]); simpl;
    destruct (Nat.eqb i c); try discriminate; rewrite Hi.
  - destruct k; discriminate.
  - apply IH. simpl in Hf. lia.
Qed.
Lemma root_walk_total h : forall i l, Path h i l -> forall fuel, length l <= fuel -> root_walk fuel h i <> None.
Proof.
  induction 1 as [i Hi|i p l Hi P IH]; intros fuel Hf.
  - destruct fuel; simpl; rewrite Hi; discriminate.
  - destruct fuel as [|k]; [simpl in Hf; lia|]. simpl. rewrite Hi. apply IH. simpl in Hf. lia.
Qed.
Lemma climb_total h : forall i l, Path h i l -> forall fuel, length l <= fuel -> climb h fuel i = true.
Proof.
  induction 1 as [i Hi|i p l Hi P IH]; intros fuel Hf.
  - destruct fuel; simpl; rewrite Hi; reflexivity.
  - destruct fuel as [|k]; [simpl in Hf; lia|]. simpl. rewrite Hi. apply IH. simpl in Hf. lia.
Qed.

Lemma dfs_list_total (f : nat -> option (list nat)) cs : (forall c, In c cs -> f c <> None) -> dfs_list f cs <> None.
Proof.
  induction cs as [|c t IH]; intro H; simpl; [discriminate|].
  destruct (f c) eqn:E; [|exfalso; apply (H c (or_introl eq_refl)); exact E].
  destruct (dfs_list f t) eqn:E2; [discriminate|]. exfalso. apply IH; [|reflexivity]. intros; apply H; right; assumption.
Qed.

Section DfsTotal.
  Variable h : heap.
  Hypothesis HC : Closed h.
  Hypothesis HK : Kids h.
  Hypothesis HA : WF_acyclic h.

  (* the deeper the element, the less fuel its subtree needs *)
  Lemma dfs_total_at : forall k s l, s < nnodes h -> Path h s l -> nnodes h <= k + length l -> dfs k h s <> None.
  Proof.
    induction k as [|k IH]; intros s l Hs P B.
    - pose proof (Path_length h HC HA s l Hs P). simpl in B. lia.
    - rewrite dfs_S. destruct (HK s Hs) as [cs C]. rewrite (Children_kids _ _ _ C).
      destruct (dfs_list (dfs k h) cs) eqn:E; [discriminate|]. exfalso. revert E. apply dfs_list_total.
      intros c Hc. destruct (Children_member _ _ _ _ C Hc) as [Rc Pc].
      apply (IH c (s :: l) Rc); [econstructor; eauto|simpl; lia].
  Qed.
  (* as many units of fuel as there are elements are enough *)
  Theorem dfs_total k s : s < nnodes h -> nnodes h <= k -> dfs k h s <> None.
  Proof.
    intros Hs B. destruct (has_Path h HC HA s Hs) as (l & P & _). apply (dfs_total_at k s l Hs P). lia.
  Qed.
  Theorem anc_walk_fuel k s c : s < nnodes h -> nnodes h <= k -> anc_walk k h (Some s) c <> None.
  Proof. intros Hs B. destruct (has_Path h HC HA s Hs) as (l & P & L). apply (anc_walk_total h c s l P). lia. Qed.
  Theorem root_walk_fuel k s : s < nnodes h -> nnodes h <= S k -> root_walk k h s <> None.
  Proof. intros Hs B. destruct (has_Path h HC HA s Hs) as (l & P & L). apply (root_walk_total h s l P). lia. Qed.
  Theorem kids_fuel s : s < nnodes h -> kids h s <> None.
  Proof. intro Hs. destruct (HK s Hs) as [cs C]. rewrite (Children_kids _ _ _ C). discriminate. Qed.
End DfsTotal.

(* ---- no call returns EFuel ---- *)
Definition NoFuel (r : res) : Prop := forall h', r <> RErr h' EFuel.
Lemma NoFuel_ok h : NoFuel (ROk h). Proof. intros h'. discriminate. Qed.
Lemma NoFuel_bind r f : NoFuel r -> (forall h1, r = ROk h1 -> NoFuel (f h1)) -> NoFuel (r >>= f).
Proof. intros A B h'. destruct r as [h1|h1 e]; simpl; [apply (B h1 eq_refl)|apply A]. Qed.
Ltac nofuel := repeat match goal with |- context [match ?x with _ => _ end] => destruct x end; unfold NoFuel; intros; discriminate.
Lemma nf_set_begin h s v : NoFuel (set_begin_m h s v). Proof. unfold set_begin_m. nofuel. Qed.
Lemma nf_set_end h s v : NoFuel (set_end_m h s v). Proof. unfold set_end_m. nofuel. Qed.
Lemma nf_set_id h s v : NoFuel (set_id_m h s v). Proof. unfold set_id_m. nofuel. Qed.
Lemma nf_set_lang h s v : NoFuel (set_lang_m h s v). Proof. unfold set_lang_m. nofuel. Qed.
Lemma nf_set_space h s v : NoFuel (set_space_m h s v). Proof. unfold set_space_m. nofuel. Qed.
Lemma nf_set_text h s v : NoFuel (set_text_m h s v). Proof. unfold set_text_m. nofuel. Qed.
Lemma store_value_nf d p v : store_value d p v <> inr EFuel.
Proof. unfold store_value. destruct p; [|discriminate]. destruct v; [|discriminate]. destruct (validate p s); discriminate. Qed.
Lemma nf_set_style h s p v : NoFuel (set_style_m h s p v).
Proof.
  unfold set_style_m. pose proof (store_value_nf (n_styles (nd h s)) p v) as N.
  destruct (kind_of h s); try (destruct (store_value _ _ _) as [|[]]; unfold NoFuel; intros; try discriminate; congruence).
  destruct (is_some v); unfold NoFuel; intros; discriminate.
Qed.
Lemma nf_add_anim h s p v : NoFuel (add_anim_m h s p v). Proof. unfold add_anim_m. nofuel. Qed.
Lemma nf_remove_anim h s p v : NoFuel (remove_anim_m h s p v). Proof. unfold remove_anim_m. nofuel. Qed.
Lemma nf_set_region h s r : NoFuel (set_region_m h s r). Proof. unfold set_region_m. nofuel. Qed.
Lemma nf_set_body h d b : NoFuel (set_body_m h d b). Proof. unfold set_body_m. nofuel. Qed.
Lemma nf_put_initial h d p v : NoFuel (put_initial h d p v).
Proof.
  unfold put_initial. pose proof (store_value_nf (d_initials (dc h d)) p v) as N.
  destruct (store_value _ _ _) as [|[]]; unfold NoFuel; intros; try discriminate; congruence.
Qed.
Lemma nf_remove_initial h d p : NoFuel (remove_initial h d p). Proof. unfold remove_initial. nofuel. Qed.
Lemma nf_set_active h d v : NoFuel (set_active_m h d v). Proof. unfold set_active_m. nofuel. Qed.
Lemma nf_set_dar h d v : NoFuel (set_dar_m h d v). Proof. unfold set_dar_m. nofuel. Qed.
Lemma nf_set_cell h d v : NoFuel (set_cell_m h d v). Proof. unfold set_cell_m. nofuel. Qed.
Lemma nf_set_px h d v : NoFuel (set_px_m h d v). Proof. unfold set_px_m. nofuel. Qed.
Lemma nf_set_dlang h d v : NoFuel (set_dlang_m h d v). Proof. unfold set_dlang_m. nofuel. Qed.

Lemma nf_copy_styles s dst : forall h, NoFuel (copy_styles s dst h).
Proof.
  intro h. unfold copy_styles. generalize (n_styles (nd h s)) as l. intro l. revert h.
  induction l as [|[p v] t IH]; intro h; [apply NoFuel_ok|]. apply NoFuel_bind; [apply nf_set_style|intros; apply IH].
Qed.
Lemma nf_copy_anims s dst h : Nat.eqb s dst = false -> NoFuel (copy_anims s dst h).
Proof. intro N. unfold copy_anims. rewrite N. simpl. apply NoFuel_ok. Qed.
Lemma nf_copy_to h s dst : NoFuel (copy_to h s dst).
Proof.
  unfold copy_to. destruct (kind_of h s); try apply nf_set_text;
    (destruct (Nat.eqb s dst) eqn:N; [apply NoFuel_ok|]);
    repeat (apply NoFuel_bind; [|intros]);
    first [apply nf_copy_anims; exact N | apply nf_copy_styles | apply nf_set_begin | apply nf_set_end | apply nf_set_id
          | apply nf_set_lang | apply nf_set_space].
Qed.
Lemma nf_doc_copy_to h d dst : NoFuel (doc_copy_to h d dst).
Proof.
  unfold doc_copy_to. apply NoFuel_bind.
  - destruct (Nat.eqb d dst); [apply NoFuel_ok|].
    repeat (apply NoFuel_bind; [|intros]);
      first [apply nf_set_active | apply nf_set_cell | apply nf_set_dar | apply nf_set_dlang | apply nf_set_px].
  - intros h1 _. generalize (d_initials (dc h1 d)) as l. intro l. revert h1.
    induction l as [|[p v] t IH]; intro h1; [apply NoFuel_ok|]. apply NoFuel_bind; [apply nf_put_initial|intros; apply IH].
Qed.

Lemma WFx_parts h : WFx h -> Closed h /\ Kids h /\ WF_acyclic h.
Proof. intros (C & K & _ & A & _). auto. Qed.

Lemma nf_ce_push_child h s c : WFx h -> s < nnodes h -> NoFuel (ce_push_child h s c).
Proof.
  intros WX Hs h'. destruct (WFx_parts h WX) as (C & K & A). unfold ce_push_child.
  destruct (is_some _); [discriminate|]. destruct (negb _); [discriminate|].
  destruct (anc_walk (S (nnodes h)) h (Some s) c) as [[|]|] eqn:E; try discriminate.
  exfalso. revert E. apply anc_walk_fuel; auto.
Qed.
Lemma nf_push_child h s c : WFx h -> s < nnodes h -> NoFuel (push_child h s c).
Proof. intros WX Hs. unfold push_child. destruct (push_guard h s c) as [[]|] eqn:G; try (unfold NoFuel; intros; discriminate); [|apply nf_ce_push_child; assumption].
  (* the guards never answer EFuel *)
  exfalso. unfold push_guard in G. repeat match type of G with context [match ?x with _ => _ end] => destruct x end; discriminate.
Qed.
Lemma nf_ce_remove_child h s c : WFx h -> s < nnodes h -> NoFuel (ce_remove_child h s c).
Proof.
  intros WX Hs h'. destruct (WFx_parts h WX) as (C & K & A). unfold ce_remove_child.
  destruct (kids h s) eqn:E; [destruct (negb _); discriminate|]. exfalso. revert E. apply kids_fuel; auto.
Qed.

(* a loop of pushes under one element, over heaps that stay well formed up to the content model *)
Lemma nf_each_push s : forall l h cs0, WFx h -> s < nnodes h -> (forall x, In x l -> x < nnodes h) ->
  Children h s cs0 -> ContentExcept h s -> forall h' e, each (fun h c => ce_push_child h s c) l h = RErr h' e -> e <> EFuel.
Proof.
  intros l h cs0 WX Hs Hl C CE h' e E.
  destruct (each_push_prefix s l h h' e E) as (l1 & l2 & -> & E1).
  assert (Hl1 : forall x, In x l1 -> x < nnodes h) by (intros x Hx; apply Hl; apply in_app_iff; left; exact Hx).
  destruct (each_push_ok s l1 h h' cs0 WX Hs Hl1 C CE E1) as (WX' & _ & _ & _ & HN).
  (* the first rejected push happens in h' *)
  clear E1. revert E. generalize h as h0. intros h0 E.
  assert (G : forall l h0, each (fun h c => ce_push_child h s c) l h0 = RErr h' e -> exists c, ce_push_child h' s c = RErr h' e).
  { clear. induction l as [|c t IH]; intros h0 E; simpl in E; [discriminate|].
    destruct (ce_push_child h0 s c) as [h1|h1 e1] eqn:P; simpl in E; [apply (IH h1 E)|].
    injection E as <- <-. exists c. rewrite (ce_push_child_err _ _ _ _ _ P) in P |- *. exact P. }
  destruct (G _ _ E) as (c & P). intros ->. apply (nf_ce_push_child h' s c WX' ltac:(rewrite HN; exact Hs) h'). exact P.
Qed.

Lemma nf_push_all_or_undo h s cs undo : WF h -> s < nnodes h -> (forall x, In x cs -> x < nnodes h) ->
  n_first (nd h s) = None -> (forall h', nnodes h' = nnodes h -> undo h' = remove_children h' s) ->
  NoFuel (push_all_or_undo h s cs undo).
Proof.
  intros HW Hs Hcs F U h2. unfold push_all_or_undo.
  destruct (WF_kids h s HW Hs) as [cs0 C0]. apply (Children_nil_first _ _ _ C0) in F. subst cs0.
  destruct (each (fun h' c => ce_push_child h' s c) cs h) as [h'|h' e] eqn:E; [discriminate|].
  pose proof (nf_each_push s cs h [] (WF_WFx h HW) Hs Hcs C0 (WF_ContentExcept h s HW) h' e E) as NE.
  destruct (each_push_prefix s cs h h' e E) as (l1 & l2 & -> & E1).
  assert (Hl1 : forall x, In x l1 -> x < nnodes h) by (intros x Hx; apply Hcs; apply in_app_iff; left; exact Hx).
  destruct (each_push_ok s l1 h h' [] (WF_WFx h HW) Hs Hl1 C0 (WF_ContentExcept h s HW) E1) as (WX & CS & CE & SK & HN).
  simpl in CS. rewrite (U h' HN). unfold remove_children. rewrite (Children_kids _ _ _ CS).
  destruct (each_remove_ok s l1 h' WX ltac:(rewrite HN; exact Hs) CS CE) as (h3 & E2 & _).
  rewrite E2. intros [= _ ->]. apply NE. reflexivity.
Qed.

Lemma nf_each (P : heap -> Prop) (f : heap -> nat -> res) l :
  (forall h x, In x l -> P h -> P (heap_of (f h x)) /\ NoFuel (f h x)) -> forall h, P h -> NoFuel (each f l h).
Proof.
  induction l as [|x t IH]; intros Hf h Hp; simpl; [apply NoFuel_ok|].
  destruct (Hf h x (or_introl eq_refl) Hp) as [A B]. apply NoFuel_bind; [exact B|].
  intros h1 E. rewrite E in A. simpl in A. apply IH; [|exact A]. intros; apply Hf; [right|]; assumption.
Qed.

Lemma nf_push_children h s cs : WF h -> s < nnodes h -> (forall x, In x cs -> x < nnodes h) -> NoFuel (push_children h s cs).
Proof.
  intros HW Hs Hcs. unfold push_children.
  assert (GEN : NoFuel (each (fun h' c => push_child h' s c) cs h)).
  { apply (nf_each (fun h0 => WF h0 /\ nnodes h0 = nnodes h)); [|auto].
    intros h0 x Hx (W0 & N0). destruct (push_child_size h0 s x) as [N1 _]. split.
    - split; [apply push_child_WF; [exact W0|rewrite N0; exact Hs|rewrite N0; apply Hcs; exact Hx]|congruence].
    - apply nf_push_child; [apply WF_WFx; exact W0|rewrite N0; exact Hs]. }
  destruct (kind_of h s) eqn:K; try exact GEN.
  - destruct (is_some (n_first (nd h s))) eqn:F; [unfold NoFuel; intros; discriminate|].
    destruct (negb _); [unfold NoFuel; intros; discriminate|]. apply is_some_false in F.
    apply nf_push_all_or_undo; auto.
  - destruct (negb _); [unfold NoFuel; intros; discriminate|].
    destruct (is_some (n_first (nd h s))) eqn:F; [unfold NoFuel; intros; discriminate|]. apply is_some_false in F.
    rewrite (kids_no_first' _ _ F). apply nf_push_all_or_undo; auto.
Qed.

Lemma nf_remove_child h s c : WF h -> s < nnodes h -> NoFuel (remove_child h s c).
Proof.
  intros HW Hs. unfold remove_child. destruct (kind_of h s); try (unfold NoFuel; intros; discriminate); apply nf_ce_remove_child; auto; apply WF_WFx; exact HW.
Qed.
Lemma nf_remove h s : WF h -> s < nnodes h -> NoFuel (remove h s).
Proof.
  intros HW Hs. unfold remove. destruct (n_parent (nd h s)) as [p|] eqn:E; [|apply NoFuel_ok].
  apply nf_remove_child; [exact HW|].
  destruct HW as (((C1 & _) & _) & _). destruct (C1 s Hs) as (R & _). rewrite E in R. exact R.
Qed.
Lemma nf_remove_children h s : WF h -> s < nnodes h -> NoFuel (remove_children h s).
Proof.
  intros HW Hs h'. unfold remove_children. destruct (WF_kids h s HW Hs) as [cs C]. rewrite (Children_kids _ _ _ C).
  destruct (each_remove_ok s cs h (WF_WFx h HW) Hs C (WF_ContentExcept h s HW)) as (h2 & E & _). rewrite E. discriminate.
Qed.
Lemma nf_set_doc h s d : WF h -> Rep h -> s < nnodes h -> NoFuel (set_doc_m h s d).
Proof.
  intros HW HR Hs h' E. destruct (WFx_parts h (WF_WFx h HW)) as (C & K & A).
  destruct (set_doc_cases h s d HW HR Hs) as [(e1 & R1 & F1)|(l & h1 & _ & _ & R1 & _)]; rewrite R1 in E; [|discriminate].
  injection E as _ ->. apply (dfs_total h C K A (S (nnodes h)) s Hs); [lia|]. apply F1. reflexivity.
Qed.
Lemma nf_query h q : WF h -> query_ok h q = true -> forall h', exec h (CQuery q) <> RErr h' EFuel.
Proof.
  intros HW OK h'. destruct (WFx_parts h (WF_WFx h HW)) as (C & K & A).
  destruct q; cbn [exec ask query_ok of_list] in *; unfold node_ok in OK; try apply ltb_lt' in OK;
    try discriminate;
    try (destruct (kids h s) eqn:E; [|exfalso; revert E; apply kids_fuel; auto]; cbn [of_list];
         repeat match goal with |- context [if ?x then _ else _] => destruct x end; discriminate).
  - destruct (dfs (S (nnodes h)) h s) eqn:E; [discriminate|]. exfalso. revert E. apply dfs_total; auto.
  - destruct (root_walk (nnodes h) h s) eqn:E; [discriminate|]. exfalso. revert E. apply root_walk_fuel; auto.
  - destruct (kind_of h s); discriminate.
Qed.

Theorem exec_no_fuel h c : Inv h -> call_ok h c = true -> forall h', exec h c <> RErr h' EFuel.
Proof.
  intros [HW HR] OK.
  destruct c; try (apply nf_query; [exact HW|exact OK]); cbn [exec call_ok] in *; unfold node_ok, doc_ok in OK;
    repeat match goal with H : _ && _ = true |- _ => apply andb_true_iff in H; destruct H end;
    repeat match goal with H : (_ <? _) = true |- _ => apply ltb_lt' in H end.
  - apply nf_push_child; auto. apply WF_WFx; exact HW.
  - apply nf_push_children; auto. intros x Hx. rewrite forallb_forall in H0. apply ltb_lt'. apply (H0 x Hx).
  - apply nf_remove; auto.
  - apply nf_remove_child; auto.
  - apply nf_remove_children; auto.
  - apply nf_set_doc; auto.
  - apply nf_set_region.
  - intros h' E. destruct (put_region_Inv h d r HW HR) as (_ & _ & A); auto. destruct (A h' EFuel E) as [_ N]. apply N; reflexivity.
  - intros h' E. destruct (remove_region_Inv h d id HW HR) as (_ & _ & A); auto. destruct (A h' EFuel E) as [_ N]. apply N; reflexivity.
  - apply nf_set_body.
  - apply nf_set_style.
  - apply nf_add_anim.
  - intros h'. discriminate.
  - apply nf_put_initial.
  - apply nf_copy_to.
  - apply nf_set_begin.
  - apply nf_set_end.
  - apply nf_set_id.
  - apply nf_set_lang.
  - apply nf_set_space.
  - apply nf_remove_anim.
  - apply nf_remove_initial.
  - apply nf_set_text.
  - apply nf_set_active.
  - apply nf_set_cell.
  - apply nf_set_px.
  - apply nf_set_dar.
  - apply nf_set_dlang.
  - apply nf_doc_copy_to.
Qed.

Theorem step_no_fuel h c : Inv h -> snd (step h c) <> ORaised EFuel.
Proof.
  intro HI. unfold step. destruct (call_ok h c) eqn:OK; [|discriminate]. cbn [snd].
  destruct (exec h c) as [h1|h1 e] eqn:E; [discriminate|]. simpl. intros [= ->]. exact (exec_no_fuel h c HI OK h1 E).
Qed.

Theorem WF_dfs_total h k s : WF h -> s < nnodes h -> nnodes h <= k -> dfs k h s <> None.
Proof. intros HW. destruct (WFx_parts h (WF_WFx h HW)) as (C & K & A). apply dfs_total; assumption. Qed.
Theorem WF_Path_length h i l : WF h -> i < nnodes h -> Path h i l -> S (length l) <= nnodes h.
Proof. intros HW. destruct (WFx_parts h (WF_WFx h HW)) as (C & K & A). apply Path_length; assumption. Qed.
