(* C15, tree layer: acyclicity (every parent chain ends at a root) and "one document per tree" under
   the two link operations; the guard of push_child (walk from self to the root looking for the
   child) is exactly what acyclicity needs. *)
From Coq Require Import List Arith Bool Lia.
From TT Require Import Base.HeapTypes Model.Heap Spec.ModelWF Proofs.C15.HeapLemmas.
Import ListNotations.

(* the parent chain from a ends at a root without meeting c *)
Inductive Avoid (h : heap) (c : nat) : nat -> Prop :=
| Av_root a : a <> c -> n_parent (nd h a) = None -> Avoid h c a
| Av_step a p : a <> c -> n_parent (nd h a) = Some p -> Avoid h c p -> Avoid h c a.

Lemma anc_walk_avoid h c : forall fuel a, anc_walk fuel h (Some a) c = Some false -> Avoid h c a.
Proof.
  induction fuel as [|k IH]; intros a H; simpl in H; destruct (Nat.eqb a c) eqn:Eac; try discriminate.
  apply Nat.eqb_neq in Eac. rename Eac into N.
  destruct (n_parent (nd h a)) as [p|] eqn:E.
  - eapply Av_step; eauto.
  - apply Av_root; assumption.
Qed.

Lemma Rooted_frame h h' : (forall j, n_parent (nd h' j) = n_parent (nd h j)) -> forall x, Rooted h x -> Rooted h' x.
Proof.
  intros E x R. induction R as [i Hi|i p Hi R IH].
  - apply Rooted_root. rewrite E. exact Hi.
  - eapply Rooted_step; [rewrite E; exact Hi|exact IH].
Qed.

Section SetParent.
  Variables (h h' : heap) (c s : nat).
  Hypothesis HP : forall j, n_parent (nd h' j) = if Nat.eq_dec j c then Some s else n_parent (nd h j).

  Lemma Avoid_Rooted a : Avoid h c a -> Rooted h' a.
  Proof.
    induction 1 as [a N E|a p N E A IH].
    - apply Rooted_root. rewrite HP. destruct (Nat.eq_dec a c); [contradiction|exact E].
    - eapply Rooted_step; [|exact IH]. rewrite HP. destruct (Nat.eq_dec a c); [contradiction|exact E].
  Qed.
  Lemma Rooted_set_parent : Avoid h c s -> forall x, Rooted h x -> Rooted h' x.
  Proof.
    intros A. assert (Rc : Rooted h' c).
    { eapply Rooted_step; [rewrite HP; destruct (Nat.eq_dec c c); [reflexivity|congruence]|]. apply Avoid_Rooted. exact A. }
    intros x R. induction R as [i Hi|i p Hi R IH].
    - destruct (Nat.eq_dec i c) as [->|N]; [exact Rc|]. apply Rooted_root. rewrite HP. destruct (Nat.eq_dec i c); [contradiction|exact Hi].
    - destruct (Nat.eq_dec i c) as [->|N]; [exact Rc|]. eapply Rooted_step; [|exact IH]. rewrite HP. destruct (Nat.eq_dec i c); [contradiction|exact Hi].
  Qed.
End SetParent.

Lemma Rooted_clear_parent h h' c :
  (forall j, n_parent (nd h' j) = if Nat.eq_dec j c then None else n_parent (nd h j)) -> forall x, Rooted h x -> Rooted h' x.
Proof.
  intros HP x R. induction R as [i Hi|i p Hi R IH].
  - apply Rooted_root. rewrite HP. destruct (Nat.eq_dec i c); [reflexivity|exact Hi].
  - destruct (Nat.eq_dec i c) as [->|N].
    + apply Rooted_root. rewrite HP. destruct (Nat.eq_dec c c); [reflexivity|congruence].
    + eapply Rooted_step; [|exact IH]. rewrite HP. destruct (Nat.eq_dec i c); [contradiction|exact Hi].
Qed.

(* nobody is its own ancestor in an acyclic heap *)
Lemma Rooted_no_cycle h x : Rooted h x -> ~ up h x x.
Proof.
  intro R. induction R as [i Hi|i p Hi R IH]; intro U.
  - inversion U; congruence.
  - apply IH. clear IH R.
    assert (G : forall a b, up h a b -> forall q, n_parent (nd h a) = Some q -> q = b \/ up h q b).
    { intros a b U1. induction U1 as [a b E|a b c0 E U1 _]; intros q Eq; rewrite Eq in E; injection E as ->; auto. }
    destruct (G _ _ U p Hi) as [->|U2].
    + constructor. exact Hi.
    + assert (T : forall a b, up h a b -> forall c0, n_parent (nd h b) = Some c0 -> up h a c0).
      { intros a b U1. induction U1 as [a b E|a b c0 E U1 IH]; intros c1 E1.
        - eapply up_step; [exact E|constructor; exact E1].
        - eapply up_step; [exact E|apply IH; exact E1]. }
      eapply T; eauto.
Qed.
