(* C15: facts about dfs_iterator (as transcribed) on a heap whose child lists are well formed *)
From Coq Require Import List Arith Bool Lia.
From TT Require Import Base.HeapTypes Model.Heap Spec.ModelWF
  Proofs.C15.HeapLemmas Proofs.C15.Links Proofs.C15.Tree Proofs.C15.Frames.
Import ListNotations.

Definition dfs_list (f : nat -> option (list nat)) : list nat -> option (list nat) :=
  fix go (l : list nat) : option (list nat) :=
    match l with
    | [] => Some []
    | c :: t => match f c, go t with Some a, Some b => Some (a ++ b) | _, _ => None end
    end.
Lemma dfs_S k h i : dfs (S k) h i =
  match kids h i with None => None | Some cs => option_map (cons i) (dfs_list (dfs k h) cs) end.
Proof. reflexivity. Qed.

Lemma dfs_list_range (f : nat -> option (list nat)) (P : nat -> Prop) cs :
  (forall c l, In c cs -> f c = Some l -> forall x, In x l -> P x) ->
  forall l, dfs_list f cs = Some l -> forall x, In x l -> P x.
Proof.
  induction cs as [|c t IH]; intros Hf l E x Hx; simpl in E.
  - injection E as <-. destruct Hx.
  - destruct (f c) as [a|] eqn:Ea; [|discriminate]. destruct (dfs_list f t) as [b|] eqn:Eb; [|discriminate].
    injection E as <-. apply in_app_iff in Hx. destruct Hx as [Hx|Hx].
    + eapply Hf; [left; reflexivity|exact Ea|exact Hx].
    + eapply IH; [|reflexivity|exact Hx]. intros; eapply Hf; [right; eassumption|eassumption|assumption].
Qed.

Lemma dfs_range h : Kids h -> forall fuel i l, i < nnodes h -> dfs fuel h i = Some l -> forall x, In x l -> x < nnodes h.
Proof.
  intros K. induction fuel as [|k IH]; intros i l Hi E x Hx; [discriminate|].
  rewrite dfs_S in E. destruct (K i Hi) as [cs C]. rewrite (Children_kids _ _ _ C) in E.
  destruct (dfs_list (dfs k h) cs) as [l'|] eqn:El; [|discriminate]. injection E as <-.
  destruct Hx as [<-|Hx]; [exact Hi|].
  eapply (dfs_list_range (dfs k h) (fun x => x < nnodes h) cs); [|exact El|exact Hx].
  intros c lc Hc Ec y Hy. eapply IH; [|exact Ec|exact Hy]. apply (Children_member _ _ _ _ C Hc).
Qed.
