(* C15: set_doc.  Detaching (set_doc(None)) a root without children and attaching an element without
   children are handled here; the recorded call shapes 4 and 5 are excluded by their triggers. *)
From Coq Require Import List Arith Bool Lia.
From TT Require Import Base.HeapTypes Model.Heap Model.HeapTriggers Spec.ModelWF
  Proofs.C15.HeapLemmas Proofs.C15.Links Proofs.C15.Tree Proofs.C15.Frames Proofs.C15.LinkOps Proofs.C15.Values
  Proofs.C15.Dfs Proofs.C15.AttrCalls Proofs.C15.LinkCalls.
Import ListNotations.

Lemma set_doc_rec_S k h s d : set_doc_rec (S k) h s d =
  (match d with
   | None => if is_some (n_parent (nd h s)) then RErr h ERuntime else set_region_m h s None
   | Some _ => match dfs (S k) h s with
               | None => RErr h EFuel
               | Some l => if existsb (fun e => is_some (n_doc (nd h e))) l then RErr h ERuntime else ROk h
               end
   end) >>= fun h1 =>
  let h2 := updn h1 s (HeapTypes.set_doc d) in
  match kids h2 s with
  | None => RErr h2 EFuel
  | Some cs => each (fun h' c => set_doc_rec k h' c d) cs h2
  end.
Proof. reflexivity. Qed.

Lemma walk_None h fuel : walk h fuel None = Some [].
Proof. destruct fuel; reflexivity. Qed.
Lemma kids_no_first h s : n_first (nd h s) = None -> kids h s = Some [].
Proof. intro E. unfold kids. rewrite E. apply walk_None. Qed.

(* changing the document of a root that has no children and references no region *)
Lemma set_doc_update_WF h s d : WF h -> s < nnodes h -> odoc_ok h d = true ->
  n_parent (nd h s) = None -> n_first (nd h s) = None -> n_region (nd h s) = None ->
  WF (updn h s (HeapTypes.set_doc d)).
Proof.
  intros HW Hs Hd Hp Hf Hr. pose proof HW as ((C & K & _) & _ & D & _ & (W1 & W2 & W3) & V).
  destruct (K s Hs) as [cs Cs]. assert (cs = []) by (apply (Children_nil_first _ _ _ Cs); exact Hf). subst cs.
  apply (WF_struct h); auto; try apply nnodes_updn; try (apply same_updn; reflexivity).
  - destruct C as [C1 C2]. split; [|intros d0 Hd0; unfold ref_ok; rewrite nnodes_updn; apply (C2 d0 Hd0)].
    intros i Hi. rewrite nnodes_updn in Hi. destruct (C1 i Hi) as (R1 & R2 & R3 & R4 & R5 & R6 & R7). unfold ref_ok, dref_ok in *.
    rewrite !(proj_updn n_parent), !(proj_updn n_first), !(proj_updn n_last), !(proj_updn n_next), !(proj_updn n_prev),
      !(proj_updn n_region), nnodes_updn by reflexivity.
    repeat split; auto. destruct (Nat.eq_dec i s) as [->|N]; [|rewrite nd_updn_other by auto; exact R7].
    rewrite nd_updn_same by assumption. simpl. destruct d as [dd|]; [|exact I]. simpl in Hd. apply Nat.ltb_lt. exact Hd.
  - intros c p Hc. rewrite nnodes_updn in Hc. rewrite (proj_updn n_parent) by reflexivity. intro E.
    assert (c <> s) by (intros ->; congruence).
    assert (p <> s).
    { intros ->. destruct Cs as (_ & _ & _ & _ & All). destruct (All c Hc E). }
    rewrite !nd_updn_other by auto. apply D; assumption.
  - split; [|split; [|exact W3]].
    + intros i r Hi. rewrite nnodes_updn in Hi. rewrite (proj_updn n_region), (proj_updn n_kind) by reflexivity.
      intro E. assert (i <> s) by (intros ->; congruence).
      destruct (W1 i r Hi E) as [Cp (d1 & id & E1 & E2 & E3)]. split; [exact Cp|]. exists d1, id.
      rewrite (proj_updn n_id) by reflexivity. rewrite nd_updn_other by auto. auto.
    + intros d1 id r Hd1. rewrite (proj_updn n_kind), (proj_updn n_id) by reflexivity. apply W2. exact Hd1.
  - apply (values_frame h); auto; try apply nnodes_updn; try (apply same_updn; reflexivity). apply dsame_updn.
Qed.

(* the body of set_doc for an element without children *)
Lemma set_doc_leaf k h1 s d : n_first (nd h1 s) = None ->
  (let h2 := updn h1 s (HeapTypes.set_doc d) in
   match kids h2 s with None => RErr h2 EFuel | Some cs => each (fun h' c => set_doc_rec k h' c d) cs h2 end)
  = ROk (updn h1 s (HeapTypes.set_doc d)).
Proof.
  intro E. cbv zeta. rewrite kids_no_first; [reflexivity|]. rewrite (proj_updn n_first) by reflexivity. exact E.
Qed.

Theorem set_doc_none_WF h s : WF h -> s < nnodes h -> t_set_doc_none_children h s = false ->
  WF (heap_of (set_doc_m h s None)).
Proof.
  intros HW Hs T. unfold set_doc_m. rewrite set_doc_rec_S.
  destruct (is_some (n_parent (nd h s))) eqn:P; [exact HW|].
  unfold t_set_doc_none_children in T. rewrite P in T. simpl in T. apply is_some_false in T. apply is_some_false in P.
  pose proof (set_region_WF h s None HW Hs eq_refl ltac:(intros rr [=])) as W1.
  pose proof (set_region_none_keeps h s) as (SZ & _ & _ & SK & _ & KR).
  assert (SL : same lk h (heap_of (set_region_m h s None))).
  { unfold set_region_m. destruct (kind_of h s); simpl; try apply same_refl; apply same_updn; reflexivity. }
  destruct (set_region_m h s None) as [h1|h1 e] eqn:E; [|exact W1]. simpl in *.
  assert (F1 : n_first (nd h1 s) = None) by (rewrite (lk_first h h1 SL); exact T).
  assert (P1 : n_parent (nd h1 s) = None) by (rewrite (lk_parent h h1 SL); exact P).
  rewrite (set_doc_leaf _ _ _ _ F1). simpl.
  destruct SZ as [N1 _].
  apply set_doc_update_WF; auto; [rewrite N1; exact Hs|].
  (* the element's own region was cleared (or it could not have one) *)
  destruct (n_region (nd h1 s)) as [r|] eqn:R; [|reflexivity]. exfalso.
  pose proof W1 as (_ & _ & _ & _ & (Q1 & _) & _). destruct (Q1 s r ltac:(rewrite N1; exact Hs) R) as [Cp _].
  revert E R. unfold set_region_m, kind_of. rewrite SK in Cp.
  destruct (n_kind (nd h s)); try discriminate Cp; simpl; intros [= <-]; rewrite nd_updn_same by assumption; simpl; discriminate.
Qed.

Theorem set_doc_some_leaf_WF h s d : WF h -> s < nnodes h -> d < ndocs h -> t_set_doc_on_child h s = false ->
  n_first (nd h s) = None -> WF (heap_of (set_doc_m h s (Some d))).
Proof.
  intros HW Hs Hd T F. unfold set_doc_m. rewrite set_doc_rec_S.
  rewrite dfs_S, (kids_no_first _ _ F). simpl dfs_list. simpl option_map. cbn [existsb]. rewrite orb_false_r.
  destruct (is_some (n_doc (nd h s))) eqn:A; [exact HW|]. simpl bind.
  rewrite (set_doc_leaf _ _ _ _ F). simpl. apply is_some_false in A.
  unfold t_set_doc_on_child in T. rewrite A in T. simpl in T. rewrite andb_true_r in T. apply is_some_false in T.
  apply set_doc_update_WF; auto.
  - simpl. apply Nat.ltb_lt. exact Hd.
  - destruct (n_region (nd h s)) as [r|] eqn:R; [|reflexivity]. exfalso.
    pose proof HW as (_ & _ & _ & _ & (Q1 & _) & _). destruct (Q1 s r Hs R) as [_ (d1 & _ & E1 & _)]. congruence.
Qed.
