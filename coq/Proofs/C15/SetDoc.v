(* C15: set_doc.  After the checks (the element is a root; when attaching, nothing under it is attached)
   one pass over dfs_iterator() stores the document in every element of the tree and, when detaching,
   clears its region first.  The pass never raises, so a rejected set_doc leaves the model unchanged,
   and whole trees change document together, which is what "one document per tree" needs. *)
From Coq Require Import List Arith Bool Lia.
From TT Require Import Base.HeapTypes Model.Heap Model.HeapRep Spec.ModelWF
  Proofs.C15.HeapLemmas Proofs.C15.Links Proofs.C15.Tree Proofs.C15.Frames Proofs.C15.LinkOps Proofs.C15.Values
  Proofs.C15.Dfs Proofs.C15.Users Proofs.C15.AttrCalls Proofs.C15.LinkCalls.
Import ListNotations.

(* ---- ancestors ---- *)
Lemma parent_in_range h c p : n_parent (nd h c) = Some p -> c < nnodes h.
Proof.
  intro E. destruct (lt_dec c (nnodes h)); [assumption|]. exfalso.
  unfold nd in E. rewrite nth_overflow in E by (unfold nnodes in *; lia). discriminate.
Qed.
Lemma up_snoc h a b c : up h a b -> n_parent (nd h b) = Some c -> up h a c.
Proof.
  induction 1 as [a b E|a b c0 E U IH]; intro E1.
  - eapply up_step; [exact E|constructor; exact E1].
  - eapply up_step; [exact E|apply IH; exact E1].
Qed.
Lemma up_first h a b q : up h a b -> n_parent (nd h a) = Some q -> q = b \/ up h q b.
Proof. destruct 1 as [a b E|a b c E U]; intro Eq; rewrite Eq in E; injection E as ->; auto. Qed.
Lemma up_trans h a b c : up h a b -> up h b c -> up h a c.
Proof. induction 1; intros; [eapply up_step; eauto|eapply up_step; eauto]. Qed.
Lemma up_linear h x a b : up h x a -> up h x b -> a = b \/ up h a b \/ up h b a.
Proof.
  intro Ua. revert b. induction Ua as [x a E|x p a E Ua IH]; intros b Ub.
  - destruct (up_first _ _ _ _ Ub E) as [->|U]; [left; reflexivity|right; left; exact U].
  - destruct (up_first _ _ _ _ Ub E) as [->|U]; [right; right; exact Ua|apply IH; exact U].
Qed.

Definition sub (h : heap) (x s : nat) : Prop := x = s \/ up h x s.

Section TreeFacts.
  Variable h : heap.
  Hypothesis HA : WF_acyclic h.

  Lemma no_self_up x : ~ up h x x.
  Proof.
    intro U. assert (Hx : x < nnodes h) by (inversion U; subst; eapply parent_in_range; eauto).
    exact (Rooted_no_cycle h x (HA x Hx) U).
  Qed.
  Lemma parent_not_sub c s : n_parent (nd h c) = Some s -> ~ sub h s c.
  Proof.
    intros E [->|U]; [apply (no_self_up c); constructor; exact E|].
    apply (no_self_up c). eapply up_step; [exact E|exact U].
  Qed.
  Lemma siblings_disjoint x c c' s : n_parent (nd h c) = Some s -> n_parent (nd h c') = Some s -> c <> c' ->
    sub h x c -> sub h x c' -> False.
  Proof.
    intros E E' N S S'.
    assert (G : forall a b, n_parent (nd h a) = Some s -> n_parent (nd h b) = Some s -> up h a b -> False).
    { intros a b Ea Eb U. destruct (up_first _ _ _ _ U Ea) as [->|U2].
      - apply (no_self_up b). constructor. exact Eb.
      - apply (no_self_up b). eapply up_step; [exact Eb|exact U2]. }
    destruct S as [->|U], S' as [->|U'].
    - congruence.
    - eapply G; [exact E|exact E'|exact U'].
    - eapply G; [exact E'|exact E|exact U].
    - destruct (up_linear _ _ _ _ U U') as [?|[U2|U2]]; [congruence|eapply G; [exact E|exact E'|exact U2]|eapply G; [exact E'|exact E|exact U2]].
  Qed.
End TreeFacts.

(* ---- list(self) and dfs_iterator only read the links ---- *)
Lemma walk_frame h h' : same lk h h' -> forall fuel cur, walk h' fuel cur = walk h fuel cur.
Proof.
  intros S. induction fuel as [|k IH]; intros [c|]; simpl; try reflexivity.
  rewrite (lk_next h h' S), IH. reflexivity.
Qed.
Lemma kids_frame h h' : nnodes h' = nnodes h -> same lk h h' -> forall s, kids h' s = kids h s.
Proof. intros N S s. unfold kids. rewrite N, (lk_first h h' S). apply walk_frame. exact S. Qed.
Lemma dfs_list_ext (f g : nat -> option (list nat)) cs : (forall c, In c cs -> f c = g c) -> dfs_list f cs = dfs_list g cs.
Proof.
  induction cs as [|c t IH]; intro E; simpl; [reflexivity|].
  rewrite (E c (or_introl eq_refl)), IH; [reflexivity|]. intros; apply E; right; assumption.
Qed.
Lemma dfs_frame h h' : nnodes h' = nnodes h -> same lk h h' -> forall fuel s, dfs fuel h' s = dfs fuel h s.
Proof.
  intros N S. induction fuel as [|k IH]; intro s; [reflexivity|].
  rewrite !dfs_S, (kids_frame h h' N S). destruct (kids h s) as [cs|]; [|reflexivity].
  rewrite (dfs_list_ext (dfs k h') (dfs k h) cs); [reflexivity|]. intros; apply IH.
Qed.

(* ---- what dfs enumerates ---- *)
Lemma dfs_list_In (f : nat -> option (list nat)) cs l : dfs_list f cs = Some l ->
  forall x, In x l <-> exists c lc, In c cs /\ f c = Some lc /\ In x lc.
Proof.
  revert l. induction cs as [|c t IH]; intros l E x; simpl in E.
  - injection E as <-. split; [intros []|intros (c & lc & [] & _)].
  - destruct (f c) as [a|] eqn:Ea; [|discriminate]. destruct (dfs_list f t) as [b|] eqn:Eb; [|discriminate].
    injection E as <-. rewrite in_app_iff, (IH b eq_refl x). split.
    + intros [H|(c' & lc & H1 & H2 & H3)]; [exists c, a; repeat split; [left; reflexivity|exact Ea|exact H]|exists c', lc; repeat split; [right; exact H1|exact H2|exact H3]].
    + intros (c' & lc & [<-|H1] & H2 & H3); [left; congruence|right; exists c', lc; repeat split; assumption].
Qed.
Lemma dfs_list_each (f : nat -> option (list nat)) cs l : dfs_list f cs = Some l -> forall c, In c cs -> exists lc, f c = Some lc.
Proof.
  revert l. induction cs as [|c t IH]; intros l E c0 Hc; [destruct Hc|]. simpl in E.
  destruct (f c) as [a|] eqn:Ea; [|discriminate]. destruct (dfs_list f t) as [b|] eqn:Eb; [|discriminate].
  destruct Hc as [<-|Hc]; [eauto|eapply IH; eauto].
Qed.

Section DfsFacts.
  Variable h : heap.
  Hypothesis HK : Kids h.

  Lemma dfs_sound : forall fuel s l, s < nnodes h -> dfs fuel h s = Some l -> forall x, In x l -> sub h x s.
  Proof.
    induction fuel as [|k IH]; intros s l Hs E x Hx; [discriminate|].
    rewrite dfs_S in E. destruct (HK s Hs) as [cs C]. rewrite (Children_kids _ _ _ C) in E.
    destruct (dfs_list (dfs k h) cs) as [l'|] eqn:El; [|discriminate]. injection E as <-.
    destruct Hx as [<-|Hx]; [left; reflexivity|].
    apply (dfs_list_In _ _ _ El) in Hx. destruct Hx as (c & lc & Hc & Ec & Hxc).
    destruct (Children_member _ _ _ _ C Hc) as [Rc Pc].
    right. destruct (IH c lc Rc Ec x Hxc) as [->|U]; [constructor; exact Pc|eapply up_snoc; eauto].
  Qed.
  (* every enumerated element other than the root has its parent enumerated *)
  Lemma dfs_parent_closed : forall fuel s l, s < nnodes h -> dfs fuel h s = Some l ->
    In s l /\ forall x, In x l -> x = s \/ exists p, n_parent (nd h x) = Some p /\ In p l.
  Proof.
    induction fuel as [|k IH]; intros s l Hs E; [discriminate|].
    rewrite dfs_S in E. destruct (HK s Hs) as [cs C]. rewrite (Children_kids _ _ _ C) in E.
    destruct (dfs_list (dfs k h) cs) as [l'|] eqn:El; [|discriminate]. injection E as <-.
    split; [left; reflexivity|]. intros x [<-|Hx]; [left; reflexivity|]. right.
    apply (dfs_list_In _ _ _ El) in Hx. destruct Hx as (c & lc & Hc & Ec & Hxc).
    destruct (Children_member _ _ _ _ C Hc) as [Rc Pc].
    destruct (IH c lc Rc Ec) as [_ Cl]. destruct (Cl x Hxc) as [->|(p & Ep & Hp)].
    - exists s. split; [exact Pc|left; reflexivity].
    - exists p. split; [exact Ep|]. right. apply (dfs_list_In _ _ _ El). exists c, lc. auto.
  Qed.
  (* the children of an enumerated element are enumerated *)
  Lemma dfs_child_closed : forall fuel s l, s < nnodes h -> dfs fuel h s = Some l ->
    forall p c, In p l -> n_parent (nd h c) = Some p -> In c l.
  Proof.
    induction fuel as [|k IH]; intros s l Hs E p c Hp Ec; [discriminate|].
    rewrite dfs_S in E. destruct (HK s Hs) as [cs C]. rewrite (Children_kids _ _ _ C) in E.
    destruct (dfs_list (dfs k h) cs) as [l'|] eqn:El; [|discriminate]. injection E as <-.
    destruct Hp as [<-|Hp].
    - right. destruct C as (_ & _ & _ & _ & All). pose proof (All c (parent_in_range _ _ _ Ec) Ec) as Hc.
      destruct (dfs_list_each _ _ _ El c Hc) as [lc Elc]. apply (dfs_list_In _ _ _ El). exists c, lc. repeat split; auto.
      apply (dfs_parent_closed k c lc (parent_in_range _ _ _ Ec) Elc).
    - right. apply (dfs_list_In _ _ _ El) in Hp. destruct Hp as (c0 & lc & Hc0 & Ec0 & Hpc).
      apply (dfs_list_In _ _ _ El). exists c0, lc. repeat split; auto.
      eapply IH; [apply (Children_member _ _ _ _ C Hc0)|exact Ec0|exact Hpc|exact Ec].
  Qed.
End DfsFacts.

Definition EffectOn (l : list nat) (d0 : nat) (h0 h' : heap) : Prop :=
  nnodes h' = nnodes h0 /\ h_docs h' = h_docs h0 /\
  forall j, nd h' j = HeapTypes.set_doc (if memb j l then Some d0 else n_doc (nd h0 j)) (nd h0 j).

Lemma set_doc_id n : HeapTypes.set_doc (n_doc n) n = n.
Proof. destruct n; reflexivity. Qed.

Lemma EffectOn_nil d0 h : EffectOn [] d0 h h.
Proof. split; [reflexivity|split; [reflexivity|]]. intro j. simpl. symmetry. apply set_doc_id. Qed.
Lemma EffectOn_one d0 h s : s < nnodes h -> EffectOn [s] d0 h (updn h s (HeapTypes.set_doc (Some d0))).
Proof.
  intro Hs. split; [apply nnodes_updn|split; [reflexivity|]]. intro j. simpl. rewrite orb_false_r.
  destruct (Nat.eqb_spec j s) as [->|N].
  - rewrite nd_updn_same by assumption. reflexivity.
  - rewrite nd_updn_other by auto. symmetry. apply set_doc_id.
Qed.
Lemma EffectOn_trans d0 a b h0 h1 h2 : EffectOn a d0 h0 h1 -> EffectOn b d0 h1 h2 -> EffectOn (a ++ b) d0 h0 h2.
Proof.
  intros (N1 & D1 & E1) (N2 & D2 & E2). split; [congruence|split; [congruence|]]. intro j.
  rewrite E2, E1, memb_app. simpl. destruct (memb j a), (memb j b); reflexivity.
Qed.
Lemma EffectOn_lk l d0 h0 h' : EffectOn l d0 h0 h' -> same lk h0 h'.
Proof. intros (_ & _ & E) j. rewrite E. reflexivity. Qed.
Lemma EffectOn_doc l d0 h0 h' : EffectOn l d0 h0 h' -> forall j, n_doc (nd h' j) = if memb j l then Some d0 else n_doc (nd h0 j).
Proof. intros (_ & _ & E) j. rewrite E. reflexivity. Qed.
Lemma EffectOn_same {X} (pi : node -> X) l d0 h0 h' : (forall v n, pi (HeapTypes.set_doc v n) = pi n) -> EffectOn l d0 h0 h' -> same pi h0 h'.
Proof. intros P (_ & _ & E) j. rewrite E. apply P. Qed.


(* ---- attaching: the pass stores the document in every enumerated element ---- *)
Definition pass (d : option nat) (h' : heap) (e : nat) : res :=
  (if negb (is_some d) && is_some (n_region (nd h' e)) then set_region_m h' e None else ROk h')
  >>= fun h2 => ROk (updn h2 e (HeapTypes.set_doc d)).

Lemma attach_pass d0 : forall l h, (forall e, In e l -> e < nnodes h) ->
  exists h', each (pass (Some d0)) l h = ROk h' /\ EffectOn l d0 h h'.
Proof.
  induction l as [|e t IH]; intros h Hl.
  - exists h. split; [reflexivity|apply EffectOn_nil].
  - assert (He : e < nnodes h) by (apply Hl; left; reflexivity).
    pose proof (EffectOn_one d0 h e He) as E1.
    destruct (IH (updn h e (HeapTypes.set_doc (Some d0)))) as (h' & R & E2).
    + intros x Hx. rewrite nnodes_updn. apply Hl. right; exact Hx.
    + exists h'. split; [simpl; exact R|]. exact (EffectOn_trans d0 [e] t _ _ _ E1 E2).
Qed.

(* ---- detaching: region and document of every enumerated element are cleared ---- *)
Definition strip2 (n : node) : node := HeapTypes.set_doc None (strip n).
Lemma strip2_proj {X} (pi : node -> X) : (forall v n, pi (set_users v n) = pi n) -> (forall v n, pi (set_region v n) = pi n) ->
  (forall v n, pi (HeapTypes.set_doc v n) = pi n) -> forall a b, strip2 a = strip2 b -> pi a = pi b.
Proof.
  intros P1 P2 P3 a b E. rewrite <- (P2 None a), <- (P1 [] (set_region None a)), <- (P3 None (set_users [] (set_region None a))).
  fold (strip a). fold (strip2 a). rewrite E. unfold strip2, strip. rewrite P3, P1, P2. reflexivity.
Qed.
Definition DetachOn (l : list nat) (h h' : heap) : Prop :=
  nnodes h' = nnodes h /\ h_docs h' = h_docs h /\ (forall j, strip2 (nd h' j) = strip2 (nd h j)) /\
  (forall j, n_region (nd h' j) = if memb j l then None else n_region (nd h j)) /\
  (forall j, n_doc (nd h' j) = if memb j l then None else n_doc (nd h j)) /\ UsersOK h'.

Lemma strip_strip2 a b : strip a = strip b -> strip2 a = strip2 b.
Proof. intro E. unfold strip2. rewrite E. reflexivity. Qed.

Lemma detach_pass : forall l h, (forall e, In e l -> e < nnodes h) ->
  (forall e r, In e l -> n_region (nd h e) = Some r -> region_capable (n_kind (nd h e)) = true) ->
  RefsOK h -> UsersOK h ->
  exists h', each (pass None) l h = ROk h' /\ DetachOn l h h'.
Proof.
  induction l as [|e t IH]; intros h Hl Hcap HR HU.
  - exists h. split; [reflexivity|]. refine (conj eq_refl (conj eq_refl (conj _ (conj _ (conj _ HU))))); intro; reflexivity.
  - assert (He : e < nnodes h) by (apply Hl; left; reflexivity).
    (* the region is cleared *)
    assert (S1 : exists h1, (if negb (is_some (@None nat)) && is_some (n_region (nd h e)) then set_region_m h e None else ROk h) = ROk h1 /\
                 nnodes h1 = nnodes h /\ h_docs h1 = h_docs h /\ same_strip h h1 /\
                 (forall j, n_region (nd h1 j) = if Nat.eqb j e then None else n_region (nd h j)) /\ UsersOK h1).
    { simpl. destruct (n_region (nd h e)) as [r|] eqn:Er; simpl.
      - pose proof (Hcap e r (or_introl eq_refl) Er) as Cp.
        assert (A : set_region_m h e None = ROk (link_region h e None)).
        { unfold set_region_m, kind_of. destruct (n_kind (nd h e)); try discriminate Cp; reflexivity. }
        exists (link_region h e None). split; [exact A|]. split; [apply link_region_nnodes|]. split; [apply link_region_docs|].
        split; [apply link_region_strip|]. split.
        + intro j. rewrite link_region_region by exact He. destruct (Nat.eq_dec j e) as [->|N]; [rewrite Nat.eqb_refl; reflexivity|].
          apply Nat.eqb_neq in N. rewrite N. reflexivity.
        + apply link_region_UsersOK; auto; [intros r0 E; apply (HR e r0 He E)|intros rr [=]].
      - exists h. refine (conj eq_refl (conj eq_refl (conj eq_refl (conj _ (conj _ HU))))); [intro; reflexivity|].
        intro j. destruct (Nat.eqb_spec j e) as [->|N]; [exact Er|reflexivity]. }
    destruct S1 as (h1 & E1 & N1 & D1 & SS1 & R1 & U1).
    set (h2 := updn h1 e (HeapTypes.set_doc None)).
    assert (He1 : e < nnodes h1) by (rewrite N1; exact He).
    assert (SD1 : same n_doc h h1) by (apply same_strip_same; [reflexivity|reflexivity|exact SS1]).
    assert (SK1 : same n_kind h h1) by (apply same_strip_same; [reflexivity|reflexivity|exact SS1]).
    assert (R2 : forall j, n_region (nd h2 j) = if Nat.eqb j e then None else n_region (nd h j)).
    { intro j. unfold h2. rewrite (proj_updn n_region) by reflexivity. apply R1. }
    assert (DOC2 : forall j, n_doc (nd h2 j) = if Nat.eqb j e then None else n_doc (nd h j)).
    { intro j. unfold h2. rewrite (nd_updn_cases n_doc) by exact He1.
      destruct (Nat.eq_dec j e) as [->|N]; [rewrite Nat.eqb_refl; reflexivity|]. apply Nat.eqb_neq in N. rewrite N. apply SD1. }
    assert (ST2 : forall j, strip2 (nd h2 j) = strip2 (nd h j)).
    { intro j. unfold h2. destruct (Nat.eq_dec j e) as [->|N].
      - rewrite nd_updn_same by exact He1. rewrite <- (strip_strip2 _ _ (SS1 e)). destruct (nd h1 e); reflexivity.
      - rewrite nd_updn_other by auto. apply strip_strip2. apply SS1. }
    assert (U2 : UsersOK h2) by (apply (users_frame h1); [apply nnodes_updn|apply same_updn; reflexivity|apply same_updn; reflexivity|exact U1]).
    destruct (IH h2) as (h3 & E3 & N3 & D3 & ST3 & R3 & DOC3 & U3).
    + intros x Hx. unfold h2. rewrite nnodes_updn, N1. apply Hl. right; exact Hx.
    + intros x r Hx. rewrite R2. unfold h2. rewrite (proj_updn n_kind) by reflexivity. rewrite SK1.
      destruct (Nat.eqb x e); [discriminate|]. apply Hcap. right; exact Hx.
    + intros j r0 Hj. unfold h2 in Hj. rewrite nnodes_updn, N1 in Hj. rewrite R2. unfold h2. rewrite nnodes_updn, N1.
      destruct (Nat.eqb j e); [discriminate|]. apply HR. exact Hj.
    + exact U2.
    + exists h3. split.
      * simpl each. unfold pass at 1. rewrite E1. simpl bind. exact E3.
      * unfold h2 in N3. rewrite nnodes_updn in N3.
        refine (conj _ (conj _ (conj _ (conj _ (conj _ U3))))).
        -- congruence.
        -- rewrite D3. exact D1.
        -- intro j. rewrite ST3. apply ST2.
        -- intro j. rewrite R3, R2. simpl. destruct (Nat.eqb j e), (memb j t); reflexivity.
        -- intro j. rewrite DOC3, DOC2. simpl. destruct (Nat.eqb j e), (memb j t); reflexivity.
Qed.

(* ---- the outcome of set_doc ---- *)
Lemma set_doc_cases h s d : WF h -> Rep h -> s < nnodes h ->
  (exists e, set_doc_m h s d = RErr h e /\ (e = EFuel -> dfs (S (nnodes h)) h s = None)) \/
  (exists l h', n_parent (nd h s) = None /\ dfs (S (nnodes h)) h s = Some l /\ set_doc_m h s d = ROk h' /\
     match d with
     | Some d0 => (forall x, In x l -> n_doc (nd h x) = None) /\ EffectOn l d0 h h'
     | None => DetachOn l h h'
     end).
Proof.
  intros HW [HU _] Hs. pose proof HW as ((_ & K & _) & _ & _ & _ & (W1 & _) & _).
  unfold set_doc_m. destruct (is_some (n_parent (nd h s))) eqn:P; [left; eexists; split; [reflexivity|discriminate]|]. apply is_some_false in P.
  destruct (dfs (S (nnodes h)) h s) as [l|] eqn:E; [|left; eexists; split; reflexivity].
  assert (Hl : forall e, In e l -> e < nnodes h) by (intros e He; eapply (dfs_range h K); eauto).
  destruct d as [d0|].
  - simpl andb. destruct (existsb (fun e => is_some (n_doc (nd h e))) l) eqn:X; [left; eexists; split; [reflexivity|discriminate]|].
    right. destruct (attach_pass d0 l h Hl) as (h' & R & Ef). exists l, h'.
    split; [exact P|]. split; [reflexivity|]. split; [exact R|]. split; [|exact Ef].
    intros x Hx. destruct (n_doc (nd h x)) eqn:Dx; [|reflexivity]. exfalso.
    assert (existsb (fun e => is_some (n_doc (nd h e))) l = true) by (apply existsb_exists; exists x; rewrite Dx; auto). congruence.
  - simpl andb. right. destruct (detach_pass l h Hl) as (h' & R & Ef).
    + intros e r He Er. apply (W1 e r (Hl e He) Er).
    + intros j r0 Hj Er. eapply region_in_range; eauto.
    + exact HU.
    + exists l, h'. auto.
Qed.

Lemma set_doc_err h s d h' e : WF h -> Rep h -> s < nnodes h -> set_doc_m h s d = RErr h' e -> h' = h.
Proof.
  intros HW HR Hs R. destruct (set_doc_cases h s d HW HR Hs) as [(e1 & R1 & _)|(l & h1 & _ & _ & R1 & _)]; rewrite R1 in R.
  - injection R as <- _. reflexivity.
  - discriminate.
Qed.

(* the enumerated elements are closed under parent (except at the root) and under children *)
Lemma tree_membership h s l : Kids h -> s < nnodes h -> n_parent (nd h s) = None -> dfs (S (nnodes h)) h s = Some l ->
  forall c p, n_parent (nd h c) = Some p -> memb c l = memb p l.
Proof.
  intros K Hs Proot E c p Ep.
  destruct (dfs_parent_closed h K _ _ _ Hs E) as [Hsl Hpc]. pose proof (dfs_child_closed h K _ _ _ Hs E) as Hcc.
  destruct (memb p l) eqn:Mp.
  - apply memb_In. apply memb_In in Mp. eapply Hcc; eauto.
  - destruct (memb c l) eqn:Mc; [|reflexivity]. apply memb_In in Mc. exfalso.
    destruct (Hpc c Mc) as [->|(q & Eq & Hq)]; [congruence|].
    rewrite Ep in Eq. injection Eq as <-. apply memb_false in Mp. contradiction.
Qed.

Theorem set_doc_some_WF h s d : WF h -> Rep h -> s < nnodes h -> d < ndocs h ->
  WF (heap_of (set_doc_m h s (Some d))) /\ Rep (heap_of (set_doc_m h s (Some d))).
Proof.
  intros HW HR Hs Hd. destruct (set_doc_cases h s (Some d) HW HR Hs) as [(e & R & _)|(l & h' & Proot & E & R & Hnone & Ef)]; rewrite R; [split; assumption|]. simpl.
  pose proof HW as ((C & K & _) & A & D & _ & (W1 & W2 & W3) & V).
  pose proof (tree_membership h s l K Hs Proot E) as TM.
  pose proof (EffectOn_lk _ _ _ _ Ef) as SL. pose proof (EffectOn_doc _ _ _ _ Ef) as DOC. destruct Ef as (N' & D' & Efj).
  assert (Ef : EffectOn l d h h') by (split; [exact N'|split; [exact D'|exact Efj]]).
  split.
  - apply (WF_struct h); auto.
  + apply (EffectOn_same n_kind _ _ _ _ ltac:(reflexivity) Ef).
  + destruct C as [C1 C2]. split.
    * intros i Hi. rewrite N' in Hi. destruct (C1 i Hi) as (R1 & R2 & R3 & R4 & R5 & R6 & R7). unfold ref_ok, dref_ok in *.
      rewrite (lk_parent h h' SL), (lk_first h h' SL), (lk_last h h' SL), (lk_next h h' SL), (lk_prev h h' SL), N', DOC.
      rewrite (EffectOn_same n_region _ _ _ _ ltac:(reflexivity) Ef). rewrite (ndocs_docs _ _ D').
      repeat split; auto. destruct (memb i l); [exact Hd|exact R7].
    * intros d1 Hd1. rewrite (ndocs_docs _ _ D') in Hd1. unfold ref_ok, dc. rewrite D', N'. apply C2. exact Hd1.
  + intros c p Hc. rewrite N' in Hc. rewrite (lk_parent h h' SL), !DOC. intro Ep.
    rewrite (TM c p Ep). destruct (memb p l); [reflexivity|apply D; assumption].
  + split; [|split].
    * intros i r Hi. rewrite N' in Hi. rewrite (EffectOn_same n_region _ _ _ _ ltac:(reflexivity) Ef), (EffectOn_same n_kind _ _ _ _ ltac:(reflexivity) Ef), DOC.
      intro Er. destruct (W1 i r Hi Er) as [Cp (d1 & id & E1 & E2 & E3)]. split; [exact Cp|].
      destruct (memb i l) eqn:Mi.
      -- apply memb_In in Mi. rewrite (Hnone i Mi) in E1. discriminate.
      -- exists d1, id. rewrite (EffectOn_same n_id _ _ _ _ ltac:(reflexivity) Ef). unfold dc. rewrite D'. auto.
    * intros d1 id r Hd1. rewrite (ndocs_docs _ _ D') in Hd1. unfold dc. rewrite D'.
      rewrite (EffectOn_same n_kind _ _ _ _ ltac:(reflexivity) Ef), (EffectOn_same n_id _ _ _ _ ltac:(reflexivity) Ef). apply W2. exact Hd1.
    * intros d1 Hd1. rewrite (ndocs_docs _ _ D') in Hd1. unfold dc. rewrite D'. apply W3. exact Hd1.
  + apply (values_frame h); auto; [apply ndocs_docs; exact D'|apply (EffectOn_same n_styles _ _ _ _ ltac:(reflexivity) Ef)
      |apply (EffectOn_same n_anims _ _ _ _ ltac:(reflexivity) Ef)|apply dsame_docs; exact D'].
  - apply (rep_frame h); auto;
      [apply (EffectOn_same n_region _ _ _ _ ltac:(reflexivity) Ef)|apply (EffectOn_same n_users _ _ _ _ ltac:(reflexivity) Ef)
      |apply (EffectOn_same n_kind _ _ _ _ ltac:(reflexivity) Ef)|apply (EffectOn_same n_id _ _ _ _ ltac:(reflexivity) Ef)].
Qed.

Theorem set_doc_none_WF h s : WF h -> Rep h -> s < nnodes h ->
  WF (heap_of (set_doc_m h s None)) /\ Rep (heap_of (set_doc_m h s None)).
Proof.
  intros HW HR Hs. destruct (set_doc_cases h s None HW HR Hs) as [(e & R & _)|(l & h' & Proot & E & R & Ef)]; rewrite R; [split; assumption|]. simpl.
  pose proof HW as ((C & K & _) & A & D & _ & (W1 & W2 & W3) & V).
  pose proof (tree_membership h s l K Hs Proot E) as TM.
  destruct Ef as (N' & D' & ST & REG & DOC & U').
  assert (SL : same lk h h') by (intro j; apply (strip2_proj lk); try reflexivity; apply ST).
  assert (SK : same n_kind h h') by (intro j; apply (strip2_proj n_kind); try reflexivity; apply ST).
  assert (SI : same n_id h h') by (intro j; apply (strip2_proj n_id); try reflexivity; apply ST).
  split.
  - apply (WF_struct h); auto.
  + destruct C as [C1 C2]. split.
    * intros i Hi. rewrite N' in Hi. destruct (C1 i Hi) as (R1 & R2 & R3 & R4 & R5 & R6 & R7). unfold ref_ok, dref_ok in *.
      rewrite (lk_parent h h' SL), (lk_first h h' SL), (lk_last h h' SL), (lk_next h h' SL), (lk_prev h h' SL), N', DOC, REG.
      rewrite (ndocs_docs _ _ D'). repeat split; auto; destruct (memb i l); auto; exact I.
    * intros d1 Hd1. rewrite (ndocs_docs _ _ D') in Hd1. unfold ref_ok, dc. rewrite D', N'. apply C2. exact Hd1.
  + intros c p Hc. rewrite N' in Hc. rewrite (lk_parent h h' SL), !DOC. intro Ep.
    rewrite (TM c p Ep). destruct (memb p l); [reflexivity|apply D; assumption].
  + split; [|split].
    * intros i r Hi. rewrite N' in Hi. rewrite REG, SK, DOC. destruct (memb i l); [discriminate|].
      intro Er. destruct (W1 i r Hi Er) as [Cp (d1 & id & E1 & E2 & E3)]. split; [exact Cp|].
      exists d1, id. rewrite SI. unfold dc. rewrite D'. auto.
    * intros d1 id r Hd1. rewrite (ndocs_docs _ _ D') in Hd1. unfold dc. rewrite D', SK, SI. apply W2. exact Hd1.
    * intros d1 Hd1. rewrite (ndocs_docs _ _ D') in Hd1. unfold dc. rewrite D'. apply W3. exact Hd1.
  + apply (values_frame h); auto; [apply ndocs_docs; exact D'| | |apply dsame_docs; exact D'];
      intro j; [apply (strip2_proj n_styles)|apply (strip2_proj n_anims)]; try reflexivity; apply ST.
  - destruct HR as [_ RI]. split; [exact U'|]. apply (region_ids_frame h); auto.
Qed.
