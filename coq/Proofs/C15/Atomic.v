(* C15: a rejected single-element call leaves the model unchanged (outside finding 4) *)
From Coq Require Import List Arith Bool Lia.
From TT Require Import Base.HeapTypes Model.Heap Model.HeapTriggers Spec.ModelWF
  Proofs.C15.HeapLemmas Proofs.C15.Links Proofs.C15.Tree Proofs.C15.Frames Proofs.C15.LinkOps Proofs.C15.Values
  Proofs.C15.Dfs Proofs.C15.AttrCalls Proofs.C15.LinkCalls Proofs.C15.SetDoc Proofs.C15.SetDocTree Proofs.C15.Step.
Import ListNotations.

Ltac crush_err :=
  repeat match goal with
         | |- context [match ?x with _ => _ end] => destruct x
         end;
  let E := fresh "E" in intro E; try discriminate E; injection E as <-; reflexivity.

Lemma push_child_err h s c h' e : push_child h s c = RErr h' e -> h' = h.
Proof.
  unfold push_child. destruct (push_guard h s c); [intros [= <- _]; reflexivity|apply ce_push_child_err].
Qed.
Lemma remove_child_err h s c h' e : remove_child h s c = RErr h' e -> h' = h.
Proof.
  unfold remove_child. destruct (kind_of h s); try apply ce_remove_child_err; intros [= <- _]; reflexivity.
Qed.
Lemma remove_err h s h' e : remove h s = RErr h' e -> h' = h.
Proof. unfold remove. destruct (n_parent (nd h s)); [apply remove_child_err|discriminate]. Qed.
Lemma set_region_err h s r h' e : set_region_m h s r = RErr h' e -> h' = h.
Proof. unfold set_region_m. crush_err. Qed.
Lemma put_region_err h d r h' e : put_region h d r = RErr h' e -> h' = h.
Proof. unfold put_region. crush_err. Qed.
Lemma set_body_err h d b h' e : set_body_m h d b = RErr h' e -> h' = h.
Proof. unfold set_body_m. crush_err. Qed.
Lemma set_style_err h s p v h' e : set_style_m h s p v = RErr h' e -> h' = h.
Proof. unfold set_style_m. crush_err. Qed.
Lemma add_anim_err h s p v h' e : add_anim_m h s p v = RErr h' e -> h' = h.
Proof. unfold add_anim_m. crush_err. Qed.
Lemma put_initial_err h d p v h' e : put_initial h d p v = RErr h' e -> h' = h.
Proof. unfold put_initial. crush_err. Qed.
Lemma set_begin_err h s v h' e : set_begin_m h s v = RErr h' e -> h' = h.
Proof. unfold set_begin_m. crush_err. Qed.
Lemma set_end_err h s v h' e : set_end_m h s v = RErr h' e -> h' = h.
Proof. unfold set_end_m. crush_err. Qed.
Lemma set_id_err h s v h' e : set_id_m h s v = RErr h' e -> h' = h.
Proof. unfold set_id_m. crush_err. Qed.
Lemma set_lang_err h s v h' e : set_lang_m h s v = RErr h' e -> h' = h.
Proof. unfold set_lang_m. crush_err. Qed.
Lemma set_space_err h s v h' e : set_space_m h s v = RErr h' e -> h' = h.
Proof. unfold set_space_m. crush_err. Qed.

(* remove_region: in a well-formed heap the clearing loop never raises *)
Lemma clear_if_no_err id h x h' e : WF h -> x < nnodes h -> clear_if id h x <> RErr h' e.
Proof.
  intros HW Hx. unfold clear_if. destruct (n_region (nd h x)) as [r|] eqn:R; [|discriminate].
  destruct (onat_eqb _ _); [|discriminate].
  pose proof HW as (_ & _ & _ & _ & (W1 & _) & _). destruct (W1 x r Hx R) as [Cp _].
  unfold set_region_m, kind_of. destruct (n_kind (nd h x)); try discriminate Cp; discriminate.
Qed.
Lemma clear_loop_no_err id : forall l h h' e, WF h -> (forall x, In x l -> x < nnodes h) -> each (clear_if id) l h <> RErr h' e.
Proof.
  induction l as [|x t IH]; intros h h' e HW Hl; simpl; [discriminate|].
  assert (Hx : x < nnodes h) by (apply Hl; left; reflexivity).
  destruct (clear_if id h x) as [hx|hx ex] eqn:E; simpl.
  - pose proof (clear_if_WF id h x HW Hx) as Wx. pose proof (clear_if_keeps id h x) as ((N & _) & _). rewrite E in Wx, N. simpl in Wx, N.
    apply IH; [exact Wx|]. intros y Hy. rewrite N. apply Hl. right; exact Hy.
  - exfalso. eapply clear_if_no_err; eauto.
Qed.
Lemma remove_region_err h d id h' e : WF h -> d < ndocs h -> remove_region h d id = RErr h' e -> h' = h.
Proof.
  intros HW Hd. unfold remove_region. destruct (dict_get Nat.eqb (d_regions (dc h d)) id); [|discriminate].
  destruct (d_body (dc h d)) as [b|] eqn:B; [|discriminate].
  destruct (dfs (S (nnodes h)) h b) as [l|] eqn:D; [|intros [= <- _]; reflexivity].
  change (each (clear_if id) l h >>= (fun h1 => ROk (updd h1 d (fun x => set_regions (dict_del Nat.eqb (d_regions x) id) x))) = RErr h' e -> h' = h).
  destruct (each (clear_if id) l h) as [h1|h1 e1] eqn:E; simpl; [discriminate|].
  exfalso. eapply (clear_loop_no_err id l h h1 e1); eauto.
  pose proof HW as ((C & K & _) & _). destruct C as [_ C2]. destruct (C2 d Hd) as [Rb _]. rewrite B in Rb.
  intros x Hx. eapply (dfs_range h K); [exact Rb|exact D|exact Hx].
Qed.

(* set_doc on an element without children, or detaching a non-root *)
Lemma set_doc_err h s d h' e : (d = None -> t_set_doc_none_children h s = false) ->
  (d <> None -> n_first (nd h s) = None) -> set_doc_m h s d = RErr h' e -> h' = h.
Proof.
  intros T4 O. unfold set_doc_m. rewrite set_doc_rec_S. destruct d as [d|].
  - specialize (O ltac:(discriminate)).
    destruct (dfs (S (nnodes h)) h s) as [l|]; [|intros [= <- _]; reflexivity].
    destruct (existsb _ l); [intros [= <- _]; reflexivity|]. simpl bind. rewrite (set_doc_leaf _ _ _ _ O). discriminate.
  - specialize (T4 eq_refl). unfold t_set_doc_none_children in T4.
    destruct (is_some (n_parent (nd h s))) eqn:P; [intros [= <- _]; reflexivity|]. simpl in T4. apply is_some_false in T4.
    destruct (set_region_m h s None) as [h1|h1 e1] eqn:E; simpl bind.
    + assert (F1 : n_first (nd h1 s) = None).
      { revert E. unfold set_region_m. destruct (kind_of h s); simpl; intros [= <-]; try exact T4; rewrite (proj_updn n_first) by reflexivity; exact T4. }
      rewrite (set_doc_leaf _ _ _ _ F1). discriminate.
    + intros [= <- _]. eapply set_region_err; eauto.
Qed.

Theorem step_atomic h c e : WF h -> single_element c = true -> trigger h c <> Some 4 ->
  snd (step h c) = ORaised e -> fst (step h c) = h.
Proof.
  intros HW S T. unfold step. destruct (call_ok h c) eqn:OK; [|reflexivity]. cbn [fst snd].
  destruct (exec h c) as [h1|h1 e1] eqn:E; [discriminate|]. intros _. simpl.
  unfold trigger in T. rewrite OK in T. cbn [negb] in T.
  destruct c; cbn [exec call_ok single_element] in *; try discriminate S; unfold node_ok, doc_ok in OK;
    repeat match goal with H : _ && _ = true |- _ => apply andb_true_iff in H; destruct H end;
    repeat match goal with H : (_ <? _) = true |- _ => apply ltb_lt' in H end.
  - eapply push_child_err; eauto.
  - eapply remove_err; eauto.
  - eapply remove_child_err; eauto.
  - destruct d as [d|]; [eapply set_doc_some_err; eauto|].
    eapply set_doc_err; [| |exact E].
    + intros _. destruct (t_set_doc_none_children h s); [congruence|reflexivity].
    + intro N. congruence.
  - eapply set_region_err; eauto.
  - eapply put_region_err; eauto.
  - eapply remove_region_err; eauto.
  - eapply set_body_err; eauto.
  - eapply set_style_err; eauto.
  - eapply add_anim_err; eauto.
  - injection E as <- _. reflexivity.
  - eapply put_initial_err; eauto.
  - eapply set_begin_err; eauto.
  - eapply set_end_err; eauto.
  - eapply set_id_err; eauto.
  - eapply set_lang_err; eauto.
  - eapply set_space_err; eauto.
Qed.
