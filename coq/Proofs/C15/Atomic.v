(* C15: a rejected single-element call leaves the model unchanged *)
From Coq Require Import List Arith Bool Lia.
From TT Require Import Base.HeapTypes Model.Heap Model.HeapRep Spec.ModelWF
  Proofs.C15.HeapLemmas Proofs.C15.Links Proofs.C15.Tree Proofs.C15.Frames Proofs.C15.LinkOps Proofs.C15.Values
  Proofs.C15.Dfs Proofs.C15.Users Proofs.C15.AttrCalls Proofs.C15.LinkCalls Proofs.C15.SetDoc Proofs.C15.Step.
Import ListNotations.

Ltac crush_err :=
  repeat match goal with
         | |- context [match ?x with _ => _ end] => destruct x
         end;
  let E := fresh "E" in intro E; try discriminate E; injection E as <-; reflexivity.

Lemma push_child_err h s c h' e : push_child h s c = RErr h' e -> h' = h.
Proof.
  unfold push_child. destruct (push_guard h s c); [intros [= <- _]; reflexivity|apply ce_push_child_err].
Qed.
Lemma remove_child_err h s c h' e : remove_child h s c = RErr h' e -> h' = h.
Proof.
  unfold remove_child. destruct (kind_of h s); try apply ce_remove_child_err; intros [= <- _]; reflexivity.
Qed.
Lemma remove_err h s h' e : remove h s = RErr h' e -> h' = h.
Proof. unfold remove. destruct (n_parent (nd h s)); [apply remove_child_err|discriminate]. Qed.
Lemma set_region_err h s r h' e : set_region_m h s r = RErr h' e -> h' = h.
Proof. unfold set_region_m. crush_err. Qed.
Lemma set_body_err h d b h' e : set_body_m h d b = RErr h' e -> h' = h.
Proof. unfold set_body_m. crush_err. Qed.
Lemma set_style_err h s p v h' e : set_style_m h s p v = RErr h' e -> h' = h.
Proof. unfold set_style_m. crush_err. Qed.
Lemma add_anim_err h s p v h' e : add_anim_m h s p v = RErr h' e -> h' = h.
Proof. unfold add_anim_m. crush_err. Qed.
Lemma remove_anim_err h s p v h' e : remove_anim_m h s p v = RErr h' e -> h' = h.
Proof. unfold remove_anim_m. crush_err. Qed.
Lemma put_initial_err h d p v h' e : put_initial h d p v = RErr h' e -> h' = h.
Proof. unfold put_initial. crush_err. Qed.
Lemma remove_initial_err h d p h' e : remove_initial h d p = RErr h' e -> h' = h.
Proof. unfold remove_initial. crush_err. Qed.
Lemma set_begin_err h s v h' e : set_begin_m h s v = RErr h' e -> h' = h.
Proof. unfold set_begin_m. crush_err. Qed.
Lemma set_end_err h s v h' e : set_end_m h s v = RErr h' e -> h' = h.
Proof. unfold set_end_m. crush_err. Qed.
Lemma set_id_err h s v h' e : set_id_m h s v = RErr h' e -> h' = h.
Proof. unfold set_id_m. crush_err. Qed.
Lemma set_lang_err h s v h' e : set_lang_m h s v = RErr h' e -> h' = h.
Proof. unfold set_lang_m. crush_err. Qed.
Lemma set_space_err h s v h' e : set_space_m h s v = RErr h' e -> h' = h.
Proof. unfold set_space_m. crush_err. Qed.
Lemma set_text_err h s v h' e : set_text_m h s v = RErr h' e -> h' = h.
Proof. unfold set_text_m. crush_err. Qed.
Lemma set_active_err h d v h' e : set_active_m h d v = RErr h' e -> h' = h.
Proof. unfold set_active_m. crush_err. Qed.
Lemma set_dar_err h d v h' e : set_dar_m h d v = RErr h' e -> h' = h.
Proof. unfold set_dar_m. crush_err. Qed.
Lemma set_cell_err h d v h' e : set_cell_m h d v = RErr h' e -> h' = h.
Proof. unfold set_cell_m. crush_err. Qed.
Lemma set_px_err h d v h' e : set_px_m h d v = RErr h' e -> h' = h.
Proof. unfold set_px_m. crush_err. Qed.
Lemma set_dlang_err h d v h' e : set_dlang_m h d v = RErr h' e -> h' = h.
Proof. unfold set_dlang_m. crush_err. Qed.
(* the read-only methods never change anything *)
Lemma query_pure h q : heap_of (exec h (CQuery q)) = h.
Proof. simpl. destruct (ask h q); reflexivity. Qed.

Theorem exec_atomic h c h' e : Inv h -> call_ok h c = true -> single_element c = true -> exec h c = RErr h' e -> h' = h.
Proof.
  intros [HW HR] OK S E.
  destruct c; cbn [exec call_ok single_element] in *; try discriminate S; unfold node_ok, doc_ok in OK;
    repeat match goal with H : _ && _ = true |- _ => apply andb_true_iff in H; destruct H end;
    repeat match goal with H : (_ <? _) = true |- _ => apply ltb_lt' in H end.
  - eapply push_child_err; eauto.
  - eapply remove_err; eauto.
  - eapply remove_child_err; eauto.
  - eapply set_doc_err; eauto.
  - eapply set_region_err; eauto.
  - destruct (put_region_Inv h d r HW HR) as (_ & _ & A); auto. apply (A h' e E).
  - destruct (remove_region_Inv h d id HW HR) as (_ & _ & A); auto. apply (A h' e E).
  - eapply set_body_err; eauto.
  - eapply set_style_err; eauto.
  - eapply add_anim_err; eauto.
  - injection E as <- _. reflexivity.
  - eapply put_initial_err; eauto.
  - eapply set_begin_err; eauto.
  - eapply set_end_err; eauto.
  - eapply set_id_err; eauto.
  - eapply set_lang_err; eauto.
  - eapply set_space_err; eauto.
  - eapply remove_anim_err; eauto.
  - eapply remove_initial_err; eauto.
  - eapply set_text_err; eauto.
  - eapply set_active_err; eauto.
  - eapply set_cell_err; eauto.
  - eapply set_px_err; eauto.
  - eapply set_dar_err; eauto.
  - eapply set_dlang_err; eauto.
  - destruct (ask h q); try discriminate E. injection E as <- _. reflexivity.
Qed.

Theorem step_atomic h c e : Inv h -> single_element c = true -> snd (step h c) = ORaised e -> fst (step h c) = h.
Proof.
  intros HI S. unfold step. destruct (call_ok h c) eqn:OK; [|reflexivity]. cbn [fst snd].
  destruct (exec h c) as [h1|h1 e1] eqn:E; [discriminate|]. intros _. simpl.
  eapply exec_atomic; eauto.
Qed.
Theorem step_query_pure h q : fst (step h (CQuery q)) = h.
Proof. unfold step. destruct (call_ok h (CQuery q)); [|reflexivity]. cbn [fst]. apply query_pure. Qed.
