(* C15: the bookkeeping of Region._users by ContentElement.set_region (link_region), field by field, and
   the representation invariant (Model/HeapRep.v) under it and under operations that leave regions alone. *)
From Coq Require Import List Arith Bool Lia.
From TT Require Import Base.HeapTypes Model.Heap Model.HeapRep Spec.ModelWF
  Proofs.C15.HeapLemmas Proofs.C15.Links Proofs.C15.Tree Proofs.C15.Frames.
Import ListNotations.

Definition memb (x : nat) (l : list nat) : bool := existsb (Nat.eqb x) l.
Lemma memb_app x a b : memb x (a ++ b) = memb x a || memb x b.
Proof. apply existsb_app. Qed.
Lemma memb_In x l : memb x l = true <-> In x l.
Proof. apply existsb_eqb_In. Qed.
Lemma memb_false x l : memb x l = false <-> ~ In x l.
Proof. rewrite <- memb_In. destruct (memb x l); split; intros; congruence. Qed.

Lemma In_uins x l i : In i (uins x l) <-> i = x \/ In i l.
Proof.
  induction l as [|y t IH]; simpl; [intuition|].
  destruct (x <? y); [simpl; intuition|]. destruct (Nat.eqb_spec x y) as [->|N]; simpl; [intuition|].
  rewrite IH. intuition.
Qed.
Lemma In_udel x l i : In i (udel x l) <-> In i l /\ i <> x.
Proof.
  unfold udel. rewrite filter_In. split; intros [H1 H2]; split; auto.
  - intros ->. rewrite Nat.eqb_refl in H2. discriminate.
  - apply negb_true_iff. apply Nat.eqb_neq. exact H2.
Qed.

(* ---- frames ---- *)
Lemma users_frame h h' : nnodes h' = nnodes h -> same n_region h h' -> same n_users h h' -> UsersOK h -> UsersOK h'.
Proof. intros HN S1 S2 U r i Hr. rewrite HN in *. rewrite S1, S2. apply U. exact Hr. Qed.
Lemma region_ids_frame h h' : nnodes h' = nnodes h -> same n_kind h h' -> same n_id h h' -> RegionIds h -> RegionIds h'.
Proof. intros HN S1 S2 U i Hi. rewrite HN in Hi. rewrite S1, S2. apply U. exact Hi. Qed.
Lemma rep_frame h h' : nnodes h' = nnodes h -> same n_region h h' -> same n_users h h' -> same n_kind h h' -> same n_id h h' ->
  Rep h -> Rep h'.
Proof. intros HN S1 S2 S3 S4 [U R]. split; [eapply users_frame; eauto|eapply region_ids_frame; eauto]. Qed.
Lemma rep_updd h d f : Rep h -> Rep (updd h d f).
Proof. apply rep_frame; try reflexivity; apply same_updd. Qed.
Lemma rep_updn h i f : (forall n, n_region (f n) = n_region n) -> (forall n, n_users (f n) = n_users n) ->
  (forall n, n_kind (f n) = n_kind n) -> (forall n, n_id (f n) = n_id n) -> Rep h -> Rep (updn h i f).
Proof. intros. apply (rep_frame h); try apply nnodes_updn; try (apply same_updn; assumption). assumption. Qed.

(* ---- link_region ---- *)
Definition drop_user (s : nat) : node -> node := fun n => set_users (udel s (n_users n)) n.
Definition add_user (s : nat) : node -> node := fun n => set_users (uins s (n_users n)) n.
Definition lr1 h s := match n_region (nd h s) with Some r0 => updn h r0 (drop_user s) | None => h end.
Definition lr2 h s (r : option nat) := match r with Some rr => updn (lr1 h s) rr (add_user s) | None => lr1 h s end.
Lemma link_region_eq h s r : link_region h s r = updn (lr2 h s r) s (set_region r).
Proof. reflexivity. Qed.

Lemma lr1_nnodes h s : nnodes (lr1 h s) = nnodes h.
Proof. unfold lr1. destruct (n_region (nd h s)); [apply nnodes_updn|reflexivity]. Qed.
Lemma lr2_nnodes h s r : nnodes (lr2 h s r) = nnodes h.
Proof. unfold lr2. destruct r; rewrite ?nnodes_updn; apply lr1_nnodes. Qed.
Lemma link_region_nnodes h s r : nnodes (link_region h s r) = nnodes h.
Proof. rewrite link_region_eq, nnodes_updn. apply lr2_nnodes. Qed.
Lemma link_region_docs h s r : h_docs (link_region h s r) = h_docs h.
Proof. unfold link_region. destruct (n_region (nd h s)), r; reflexivity. Qed.

(* every field except _region and _users is untouched *)
Lemma link_region_other {X} (pi : node -> X) h s r :
  (forall v n, pi (set_users v n) = pi n) -> (forall v n, pi (set_region v n) = pi n) ->
  forall j, pi (nd (link_region h s r) j) = pi (nd h j).
Proof.
  intros P1 P2 j. rewrite link_region_eq. rewrite (proj_updn pi) by (intro; apply P2).
  unfold lr2. assert (E1 : pi (nd (lr1 h s) j) = pi (nd h j)).
  { unfold lr1. destruct (n_region (nd h s)); [apply proj_updn; intro; apply P1|reflexivity]. }
  destruct r; [rewrite (proj_updn pi) by (intro; apply P1)|]; exact E1.
Qed.
Lemma link_region_same {X} (pi : node -> X) h s r :
  (forall v n, pi (set_users v n) = pi n) -> (forall v n, pi (set_region v n) = pi n) -> same pi h (link_region h s r).
Proof. intros P1 P2 j. apply link_region_other; assumption. Qed.

Lemma link_region_region h s r j : s < nnodes h ->
  n_region (nd (link_region h s r) j) = if Nat.eq_dec j s then r else n_region (nd h j).
Proof.
  intro Hs. rewrite link_region_eq. rewrite (nd_updn_cases n_region) by (rewrite lr2_nnodes; exact Hs).
  destruct (Nat.eq_dec j s); [reflexivity|].
  unfold lr2. assert (E1 : n_region (nd (lr1 h s) j) = n_region (nd h j)).
  { unfold lr1. destruct (n_region (nd h s)); [apply (proj_updn n_region); reflexivity|reflexivity]. }
  destruct r; [rewrite (proj_updn n_region) by reflexivity|]; exact E1.
Qed.

Lemma link_region_users_In h s r j i : s < nnodes h ->
  (forall r0, n_region (nd h s) = Some r0 -> r0 < nnodes h) -> (forall rr, r = Some rr -> rr < nnodes h) ->
  (In i (n_users (nd (link_region h s r) j)) <->
   (r = Some j /\ i = s) \/ (In i (n_users (nd h j)) /\ ~ (n_region (nd h s) = Some j /\ i = s))).
Proof.
  intros Hs H0 H1. rewrite link_region_eq. rewrite (proj_updn n_users) by reflexivity.
  assert (E1 : In i (n_users (nd (lr1 h s) j)) <-> In i (n_users (nd h j)) /\ ~ (n_region (nd h s) = Some j /\ i = s)).
  { unfold lr1. destruct (n_region (nd h s)) as [r0|] eqn:E0.
    - rewrite (nd_updn_cases n_users) by (apply H0; reflexivity). destruct (Nat.eq_dec j r0) as [->|N].
      + unfold drop_user. simpl. rewrite In_udel. intuition congruence.
      + intuition congruence.
    - intuition congruence. }
  unfold lr2. destruct r as [rr|].
  - rewrite (nd_updn_cases n_users) by (rewrite lr1_nnodes; apply H1; reflexivity). destruct (Nat.eq_dec j rr) as [->|N].
    + unfold add_user. simpl. rewrite In_uins, E1. intuition congruence.
    + rewrite E1. intuition congruence.
  - rewrite E1. intuition congruence.
Qed.

Lemma link_region_UsersOK h s r : s < nnodes h ->
  (forall r0, n_region (nd h s) = Some r0 -> r0 < nnodes h) -> (forall rr, r = Some rr -> rr < nnodes h) ->
  UsersOK h -> UsersOK (link_region h s r).
Proof.
  intros Hs H0 H1 U j i Hj. rewrite link_region_nnodes in *.
  rewrite (link_region_users_In h s r j i Hs H0 H1), (link_region_region h s r i Hs), (U j i Hj).
  destruct (Nat.eq_dec i s) as [->|N]; intuition congruence.
Qed.
Lemma link_region_Rep h s r : s < nnodes h ->
  (forall r0, n_region (nd h s) = Some r0 -> r0 < nnodes h) -> (forall rr, r = Some rr -> rr < nnodes h) ->
  Rep h -> Rep (link_region h s r).
Proof.
  intros Hs H0 H1 [U R]. split; [apply link_region_UsersOK; assumption|].
  apply (region_ids_frame h); [apply link_region_nnodes|apply link_region_same; reflexivity|apply link_region_same; reflexivity|exact R].
Qed.
