(* C15: ContentDocument.copy_to is total on well-formed heaps *)
From Coq Require Import List Arith Bool Lia.
From TT Require Import Base.HeapTypes Model.Heap Model.HeapRep Spec.ModelWF
  Proofs.C15.HeapLemmas Proofs.C15.Links Proofs.C15.Tree Proofs.C15.Frames Proofs.C15.LinkOps Proofs.C15.Values
  Proofs.C15.Dfs Proofs.C15.Users Proofs.C15.AttrCalls Proofs.C15.LinkCalls Proofs.C15.SetDoc Proofs.C15.Step Proofs.C15.Atomic.
Import ListNotations.
(* ContentDocument.copy_to never raises: the parameters it copies were accepted by the same setters and the
   initial values it copies are valid (WF), hence accepted by validate (validate_complete) *)
Definition OkI (h : heap) (r : res) : Prop := exists h', r = ROk h' /\ forall j, d_initials (dc h' j) = d_initials (dc h j).
Lemma OkI_bind h r f : OkI h r -> (forall h1, OkI h1 (f h1)) -> OkI h (r >>= f).
Proof. intros (h1 & -> & E1) F. destruct (F h1) as (h2 & E & E2). exists h2. split; [exact E|]. intro j. rewrite E2. apply E1. Qed.
Lemma OkI_updd h i f : (forall x, d_initials (f x) = d_initials x) -> OkI h (ROk (updd h i f)).
Proof. intro F. eexists. split; [reflexivity|]. intro j. apply (proj_updd d_initials). exact F. Qed.

Theorem doc_copy_to_total h d dst : WF h -> d < ndocs h -> exists h', doc_copy_to h d dst = ROk h'.
Proof.
  intros HW Hd. pose proof HW as (_ & _ & _ & _ & _ & (_ & V2)).
  unfold doc_copy_to.
  assert (A : OkI h (if Nat.eqb d dst then ROk h
     else set_active_m h dst (darg_of (d_active (dc h d))) >>= fun h0 => set_cell_m h0 dst (DVal (d_cell (dc h0 d))) >>= fun h2 =>
          set_dar_m h2 dst (darg_of (d_dar (dc h2 d))) >>= fun h3 => set_dlang_m h3 dst (DVal (d_dlang (dc h3 d))) >>= fun h4 =>
          set_px_m h4 dst (DVal (d_px (dc h4 d))))).
  { destruct (Nat.eqb d dst); [exists h; auto|].
    assert (L1 : forall h0 o, OkI h0 (set_active_m h0 dst (darg_of o))) by (intros h0 [k|]; apply OkI_updd; reflexivity).
    assert (L2 : forall h0 o, OkI h0 (set_dar_m h0 dst (darg_of o))) by (intros h0 [k|]; apply OkI_updd; reflexivity).
    assert (L3 : forall h0 k, OkI h0 (set_cell_m h0 dst (DVal k))) by (intros; apply OkI_updd; reflexivity).
    assert (L4 : forall h0 k, OkI h0 (set_dlang_m h0 dst (DVal k))) by (intros; apply OkI_updd; reflexivity).
    assert (L5 : forall h0 k, OkI h0 (set_px_m h0 dst (DVal k))) by (intros; apply OkI_updd; reflexivity).
    apply OkI_bind; [apply L1|intro h1]. apply OkI_bind; [apply L3|intro h2].
    apply OkI_bind; [apply L2|intro h3]. apply OkI_bind; [apply L4|intro h4]. apply L5. }
  destruct A as (h1 & -> & EI). simpl bind. rewrite EI.
  assert (G : forall l, all_valid l -> forall h0, exists h', (fix go (l : list (prop * sval)) (h : heap) : res :=
     match l with [] => ROk h | (p, v) :: t => put_initial h dst (PValid p) (Some v) >>= go t end) l h0 = ROk h').
  { induction l as [|[p v] t IH]; intros AV h0; [eexists; reflexivity|].
    unfold put_initial at 1. unfold store_value. rewrite (validate_complete p v (AV p v (or_introl eq_refl))). simpl.
    apply IH. intros q w Hq. apply AV. right; exact Hq. }
  apply G. apply V2. exact Hd.
Qed.
