(* C15: the calls that do not change the tree (styles, animation steps, initial values, attribute
   setters, document parameters, set_region, put_region, remove_region, set_body, copy_to) preserve WF
   and the representation invariant. *)
From Coq Require Import List Arith Bool Lia.
From TT Require Import Base.HeapTypes Model.Heap Model.HeapRep Spec.ModelWF
  Proofs.C15.HeapLemmas Proofs.C15.Links Proofs.C15.Tree Proofs.C15.Frames Proofs.C15.LinkOps Proofs.C15.Values Proofs.C15.Dfs
  Proofs.C15.Users.
Import ListNotations.

(* ---- an operation that leaves links and kinds alone: only four clauses remain to be shown ---- *)
Lemma WF_struct h h' : WF h -> nnodes h' = nnodes h -> same lk h h' -> same n_kind h h' ->
  Closed h' -> WF_doc h' -> WF_regions h' -> WF_values h' -> WF h'.
Proof.
  intros ((C & K & R) & A & D & Ct & Rg & V) HN SL SK C' D' Rg' V'.
  refine (conj (conj C' (conj _ _)) (conj _ (conj D' (conj _ (conj Rg' V'))))).
  - apply (Kids_frame h h' HN SL). exact K.
  - apply (Roots_frame h h' HN SL). exact R.
  - apply (acyclic_frame h h' HN SL). exact A.
  - apply (content_frame h h' HN SL SK). exact Ct.
Qed.

(* ---- dictionaries ---- *)
Lemma dict_get_lookup l k : dict_get Nat.eqb l k = lookup l k.
Proof. induction l as [|[k' v] t IH]; simpl; [reflexivity|]. rewrite IH. reflexivity. Qed.
Lemma dict_has_get {V} (l : list (nat * V)) k : dict_has Nat.eqb l k = true <-> dict_get Nat.eqb l k <> None.
Proof.
  induction l as [|[k' v] t IH]; simpl; [split; [discriminate|congruence]|].
  destruct (Nat.eqb k k'); simpl; [split; [discriminate|reflexivity]|exact IH].
Qed.
Lemma lookup_set l k v k' : lookup (dict_set Nat.eqb l k v) k' = if Nat.eqb k' k then Some v else lookup l k'.
Proof.
  induction l as [|[k0 v0] t IH]; simpl.
  - destruct (Nat.eqb k' k); reflexivity.
  - destruct (Nat.eqb_spec k k0) as [->|N]; simpl.
    + destruct (Nat.eqb k' k0); reflexivity.
    + rewrite IH. destruct (Nat.eqb_spec k' k0) as [->|N']; [|reflexivity].
      destruct (Nat.eqb_spec k0 k); [congruence|reflexivity].
Qed.
Lemma lookup_None_notin l k : lookup l k = None -> ~ In k (map fst l).
Proof.
  induction l as [|[k0 v0] t IH]; simpl; [tauto|]. destruct (Nat.eqb_spec k k0); [discriminate|].
  intros H [E|E]; [congruence|apply IH; assumption].
Qed.
Lemma lookup_notin (l : list (nat * nat)) k : ~ In k (map fst l) -> lookup l k = None.
Proof.
  induction l as [|[a b] t IH]; simpl; [reflexivity|]. intro H.
  destruct (Nat.eqb_spec k a) as [E|E]; [exfalso; apply H; left; congruence|apply IH; tauto].
Qed.
Lemma lookup_del l k : forall k', NoDup (map fst l) -> lookup (dict_del Nat.eqb l k) k' = if Nat.eqb k' k then None else lookup l k'.
Proof.
  induction l as [|[k0 v0] t IH]; simpl; intros k' ND.
  - destruct (Nat.eqb k' k); reflexivity.
  - inversion ND as [|? ? NI ND']; subst. destruct (Nat.eqb_spec k k0) as [E|N]; simpl.
    + subst k0. destruct (Nat.eqb_spec k' k) as [E'|N']; [|reflexivity]. subst k'. apply lookup_notin. exact NI.
    + rewrite IH by assumption. destruct (Nat.eqb_spec k' k0) as [E'|N']; [|reflexivity].
      subst k'. destruct (Nat.eqb_spec k0 k); [congruence|reflexivity].
Qed.
Lemma keys_set (l : list (nat * nat)) k v : NoDup (map fst l) -> NoDup (map fst (dict_set Nat.eqb l k v)).
Proof.
  induction l as [|[k0 v0] t IH]; simpl; intro ND; [constructor; [intros []|constructor]|].
  inversion ND as [|? ? NI ND']; subst. destruct (Nat.eqb_spec k k0) as [->|N]; simpl; [exact ND|].
  constructor; [|apply IH; exact ND'].
  intro H. apply NI. clear - H N. induction t as [|[a b] t IH]; simpl in *.
  - destruct H as [H|[]]. congruence.
  - destruct (Nat.eqb_spec k a); simpl in *; [exact H|]. destruct H as [H|H]; [left; exact H|right; auto].
Qed.
Lemma keys_del (l : list (nat * nat)) k : NoDup (map fst l) -> NoDup (map fst (dict_del Nat.eqb l k)).
Proof.
  induction l as [|[k0 v0] t IH]; simpl; intro ND; [constructor|].
  inversion ND as [|? ? NI ND']; subst. destruct (Nat.eqb k k0); simpl; [exact ND'|].
  constructor; [|apply IH; exact ND'].
  intro H. apply NI. clear - H. induction t as [|[a b] t IH]; simpl in *; [exact H|].
  destruct (Nat.eqb k a); simpl in *; [right; exact H|]. destruct H as [H|H]; [left; exact H|right; auto].
Qed.
Lemma In_dict_set (l : list (nat * nat)) k v x : In x (dict_set Nat.eqb l k v) -> In x l \/ x = (k, v).
Proof.
  induction l as [|[k0 v0] t IH]; simpl.
  - intros [<-|[]]. auto.
  - destruct (Nat.eqb_spec k k0) as [->|N]; simpl; intros [H|H]; auto. destruct (IH H); auto.
Qed.

(* style dictionaries *)
Lemma In_pdict_del (d : list (prop * sval)) p x : In x (dict_del prop_eqb d p) -> In x d.
Proof.
  induction d as [|[k v] t IH]; simpl; [tauto|]. destruct (prop_eqb p k); simpl; [auto|]. intros [H|H]; auto.
Qed.
Lemma In_pdict_set (d : list (prop * sval)) p v x : In x (dict_set prop_eqb d p v) -> In x d \/ x = (p, v).
Proof.
  induction d as [|[k w] t IH]; simpl.
  - intros [<-|[]]. auto.
  - destruct (prop_eqb p k) eqn:E; simpl; intros [H|H]; auto.
    + apply prop_eqb_true in E. subst. auto.
    + destruct (IH H); auto.
Qed.
Lemma store_value_valid d p v d' : all_valid d -> store_value d p v = inl d' -> all_valid d'.
Proof.
  intros A. unfold store_value. destruct p as [p|]; [|discriminate]. destruct v as [v|].
  - destruct (validate p v) eqn:V; try discriminate. intros [= <-] q w H.
    destruct (In_pdict_set _ _ _ _ H) as [H'|[= -> ->]]; [apply A; exact H'|apply validate_sound; exact V].
  - intros [= <-] q w H. apply A. eapply In_pdict_del; eauto.
Qed.

(* ---- updates of one node that keep links, kind, doc, region and id ---- *)
Section NodeAttr.
  Variables (h : heap) (s : nat) (f : node -> node).
  Hypothesis HW : WF h.
  Hypothesis F_lk : forall n, lk (f n) = lk n.
  Hypothesis F_kind : forall n, n_kind (f n) = n_kind n.
  Hypothesis F_doc : forall n, n_doc (f n) = n_doc n.
  Hypothesis F_region : forall n, n_region (f n) = n_region n.

  Lemma attr_update_WF :
    (WF_regions h -> WF_regions (updn h s f)) -> (WF_values h -> WF_values (updn h s f)) -> WF (updn h s f).
  Proof.
    intros HR HV. pose proof HW as ((C & _) & _ & D & _ & Rg & V).
    apply (WF_struct h); auto; try apply nnodes_updn; try (apply same_updn; assumption).
    - apply (closed_frame h); auto; try apply nnodes_updn; try (apply same_updn; assumption); apply dsame_updn.
    - apply (doc_frame h); auto; try apply nnodes_updn; apply same_updn; assumption.
  Qed.
  Lemma attr_regions_frame : (forall n, n_id (f n) = n_id n) -> WF_regions h -> WF_regions (updn h s f).
  Proof.
    intros F_id. apply regions_frame; try apply nnodes_updn; try reflexivity; try (apply same_updn; assumption). apply dsame_updn.
  Qed.
  Lemma attr_values_frame : (forall n, n_styles (f n) = n_styles n) -> (forall n, n_anims (f n) = n_anims n) ->
    WF_values h -> WF_values (updn h s f).
  Proof.
    intros F1 F2. apply values_frame; try apply nnodes_updn; try reflexivity; try (apply same_updn; assumption). apply dsame_updn.
  Qed.
End NodeAttr.

Lemma values_of h : WF h -> WF_values h. Proof. intros (_ & _ & _ & _ & _ & V). exact V. Qed.
Lemma regions_of h : WF h -> WF_regions h. Proof. intros (_ & _ & _ & _ & R & _). exact R. Qed.

Ltac attr_tac HW :=
  simpl; apply attr_update_WF;
  [exact HW|reflexivity|reflexivity|reflexivity|reflexivity|apply attr_regions_frame; reflexivity|apply attr_values_frame; reflexivity].

Theorem set_begin_WF h s v : WF h -> WF (heap_of (set_begin_m h s v)).
Proof.
  intro HW. unfold set_begin_m. destruct (kind_of h s); first [exact HW | destruct v; exact HW | attr_tac HW].
Qed.
Theorem set_end_WF h s v : WF h -> WF (heap_of (set_end_m h s v)).
Proof.
  intro HW. unfold set_end_m. destruct (kind_of h s); first [exact HW | destruct v; exact HW | attr_tac HW].
Qed.
Theorem set_lang_WF h s v : WF h -> WF (heap_of (set_lang_m h s v)).
Proof.
  intro HW. unfold set_lang_m. destruct (kind_of h s); first [exact HW | destruct v; exact HW | attr_tac HW].
Qed.
Theorem set_space_WF h s v : WF h -> WF (heap_of (set_space_m h s v)).
Proof.
  intro HW. unfold set_space_m. destruct (kind_of h s); first [exact HW | destruct v; exact HW | attr_tac HW].
Qed.

(* set_id never touches a Region, and only Regions are referenced or registered *)
Lemma set_id_regions h s v : s < nnodes h -> n_kind (nd h s) <> KRegion -> WF_regions h -> WF_regions (updn h s (set_id v)).
Proof.
  intros Hs NK (W1 & W2 & W3).
  assert (IDR : forall r, n_kind (nd h r) = KRegion -> n_id (nd (updn h s (set_id v)) r) = n_id (nd h r)).
  { intros r Kr. destruct (Nat.eq_dec s r) as [->|N]; [congruence|]. rewrite nd_updn_other by assumption. reflexivity. }
  split; [|split].
  - intros i r Hi. rewrite nnodes_updn in Hi. rewrite !(proj_updn n_region), !(proj_updn n_kind), !(proj_updn n_doc) by reflexivity.
    intro E. destruct (W1 i r Hi E) as [C (d & id & E1 & E2 & E3)]. split; [exact C|]. exists d, id.
    assert (Hd : d < ndocs h).
    { destruct (lt_dec d (ndocs h)); [assumption|]. exfalso. unfold dc in E3. rewrite nth_overflow in E3 by (unfold ndocs in *; lia). discriminate. }
    destruct (W2 d id r Hd E3) as [Kr _]. rewrite (IDR r Kr). auto.
  - intros d id r Hd. rewrite (proj_updn n_kind) by reflexivity. intro E.
    destruct (W2 d id r Hd E) as [Kr Ir]. rewrite (IDR r Kr). auto.
  - exact W3.
Qed.
Theorem set_id_WF h s v : WF h -> s < nnodes h -> WF (heap_of (set_id_m h s v)).
Proof.
  intros HW Hs. unfold set_id_m, kind_of.
  destruct (n_kind (nd h s)) eqn:K; destruct v;
    first [exact HW
          | destruct (onat_eqb _ _); exact HW
          | simpl; apply attr_update_WF;
            [exact HW|reflexivity|reflexivity|reflexivity|reflexivity
            |apply set_id_regions; [assumption|congruence]|apply attr_values_frame; reflexivity]].
Qed.

Theorem set_style_WF h s p v : WF h -> s < nnodes h -> WF (heap_of (set_style_m h s p v)).
Proof.
  intros HW Hs. unfold set_style_m.
  assert (G : WF (heap_of match store_value (n_styles (nd h s)) p v with inl d => ROk (updn h s (set_styles d)) | inr e => RErr h e end)).
  { destruct (store_value (n_styles (nd h s)) p v) as [d|e] eqn:E; [|exact HW]. simpl.
    apply attr_update_WF; [exact HW|reflexivity|reflexivity|reflexivity|reflexivity|apply attr_regions_frame; reflexivity|].
    intros (V1 & V2). split; [|exact V2]. intros i Hi. rewrite nnodes_updn in Hi.
    rewrite (proj_updn n_anims) by reflexivity. split; [|apply V1; exact Hi].
    destruct (Nat.eq_dec i s) as [->|N]; [|rewrite nd_updn_other by auto; apply V1; exact Hi].
    rewrite nd_updn_same by assumption. simpl. eapply store_value_valid; [|exact E]. apply V1. exact Hs. }
  destruct (kind_of h s); try exact G. destruct (is_some v); exact HW.
Qed.

Theorem add_anim_WF h s p v : WF h -> s < nnodes h -> WF (heap_of (add_anim_m h s p v)).
Proof.
  intros HW Hs. unfold add_anim_m. destruct p as [p|]; [|exact HW]. destruct v as [v|]; [|exact HW].
  destruct (validate p v) eqn:V; try exact HW. simpl.
  apply attr_update_WF; [exact HW|reflexivity|reflexivity|reflexivity|reflexivity|apply attr_regions_frame; reflexivity|].
  intros (V1 & V2). split; [|exact V2]. intros i Hi. rewrite nnodes_updn in Hi.
  rewrite (proj_updn n_styles) by reflexivity. split; [apply V1; exact Hi|].
  destruct (Nat.eq_dec i s) as [->|N]; [|rewrite nd_updn_other by auto; apply V1; exact Hi].
  rewrite nd_updn_same by assumption. simpl. intros q w H. apply in_app_iff in H. destruct H as [H|[[= <- <-]|[]]].
  - apply (proj2 (V1 s Hs)). exact H.
  - apply validate_sound. exact V.
Qed.

(* ---- updates of one document record ---- *)
Lemma doc_update_WF h d f : WF h -> Closed (updd h d f) -> WF_regions (updd h d f) -> WF_values (updd h d f) -> WF (updd h d f).
Proof.
  intros HW C R V. pose proof HW as (_ & _ & D & _).
  apply (WF_struct h); auto; try reflexivity; try apply same_updd.
Qed.

Theorem put_initial_WF h d p v : WF h -> d < ndocs h -> WF (heap_of (put_initial h d p v)).
Proof.
  intros HW Hd. unfold put_initial. destruct (store_value (d_initials (dc h d)) p v) as [x|e] eqn:E; [|exact HW]. simpl.
  pose proof HW as ((C & _) & _ & _ & _ & Rg & (V1 & V2)).
  apply doc_update_WF; auto.
  - apply (closed_frame h); auto; try reflexivity; try apply same_updd; try apply ndocs_updd; apply dsame_updd; reflexivity.
  - apply (regions_frame h); auto; try reflexivity; try apply same_updd; try apply ndocs_updd; apply dsame_updd; reflexivity.
  - split; [exact V1|]. intros d' Hd'. rewrite ndocs_updd in Hd'.
    destruct (Nat.eq_dec d d') as [<-|N]; [|rewrite dc_updd_other by assumption; apply V2; exact Hd'].
    rewrite dc_updd_same by assumption. simpl. eapply store_value_valid; [|exact E]. apply V2. exact Hd.
Qed.

Theorem set_body_WF h d b : WF h -> d < ndocs h -> onode_ok h b = true -> WF (heap_of (set_body_m h d b)).
Proof.
  intros HW Hd Hb. unfold set_body_m.
  assert (G : WF (updd h d (HeapTypes.set_body b))).
  { pose proof HW as ((C & _) & _ & _ & _ & Rg & V).
    apply doc_update_WF; auto.
    - destruct C as [C1 C2]. split; [intros i Hi; unfold dref_ok; rewrite ndocs_updd; apply (C1 i Hi)|]. intros d' Hd'. rewrite ndocs_updd in Hd'.
      destruct (Nat.eq_dec d d') as [<-|N]; [|rewrite dc_updd_other by assumption; apply C2; exact Hd'].
      rewrite dc_updd_same by assumption. simpl. split; [|apply C2; exact Hd].
      unfold ref_ok. destruct b as [bb|]; [|exact I]. simpl in Hb. apply Nat.ltb_lt in Hb. exact Hb.
    - apply (regions_frame h); auto; try reflexivity; try apply same_updd; try apply ndocs_updd; apply dsame_updd; reflexivity.
    - apply (values_frame h); auto; try reflexivity; try apply same_updd; try apply ndocs_updd; apply dsame_updd; reflexivity. }
  destruct b as [bb|]; [|exact G].
  destruct (negb _); [exact HW|]. destruct (is_some _); [exact HW|]. destruct (negb _); [exact HW|exact G].
Qed.

(* ---- sizes ---- *)
Definition same_size (h h' : heap) : Prop := nnodes h' = nnodes h /\ ndocs h' = ndocs h.
Lemma same_size_refl h : same_size h h. Proof. split; reflexivity. Qed.
Lemma same_size_trans a b c : same_size a b -> same_size b c -> same_size a c.
Proof. intros [A1 A2] [B1 B2]. split; congruence. Qed.
Lemma size_updn h i f : same_size h (updn h i f). Proof. split; [apply nnodes_updn|reflexivity]. Qed.
Lemma size_updd h i f : same_size h (updd h i f). Proof. split; [reflexivity|apply ndocs_updd]. Qed.
Lemma size_link h s r : same_size h (link_region h s r).
Proof. split; [apply link_region_nnodes|apply ndocs_docs, link_region_docs]. Qed.

Ltac size_tac := repeat first [apply same_size_refl | apply size_updn | apply size_updd | apply size_link
                              | match goal with |- context [match ?x with _ => _ end] => destruct x end].
Lemma set_begin_size h s v : same_size h (heap_of (set_begin_m h s v)). Proof. unfold set_begin_m. size_tac. Qed.
Lemma set_end_size h s v : same_size h (heap_of (set_end_m h s v)). Proof. unfold set_end_m. size_tac. Qed.
Lemma set_lang_size h s v : same_size h (heap_of (set_lang_m h s v)). Proof. unfold set_lang_m. size_tac. Qed.
Lemma set_space_size h s v : same_size h (heap_of (set_space_m h s v)). Proof. unfold set_space_m. size_tac. Qed.
Lemma set_id_size h s v : same_size h (heap_of (set_id_m h s v)). Proof. unfold set_id_m. size_tac. Qed.
Lemma set_text_size h s v : same_size h (heap_of (set_text_m h s v)). Proof. unfold set_text_m. size_tac. Qed.
Lemma set_style_size h s p v : same_size h (heap_of (set_style_m h s p v)). Proof. unfold set_style_m. size_tac. Qed.
Lemma set_region_size h s r : same_size h (heap_of (set_region_m h s r)).
Proof. unfold set_region_m. destruct (kind_of h s); cbv zeta; size_tac. Qed.
Lemma put_initial_size h d p v : same_size h (heap_of (put_initial h d p v)). Proof. unfold put_initial. size_tac. Qed.

(* ---- the representation invariant under the calls above (none of them touches _region or _users) ---- *)
Ltac rep_tac HR :=
  repeat first [exact HR | apply rep_updd | (apply rep_updn; [reflexivity|reflexivity|reflexivity|reflexivity|])
               | match goal with |- context [match ?x with _ => _ end] => destruct x end].
Lemma set_begin_Rep h s v : Rep h -> Rep (heap_of (set_begin_m h s v)). Proof. intro HR. unfold set_begin_m. rep_tac HR. Qed.
Lemma set_end_Rep h s v : Rep h -> Rep (heap_of (set_end_m h s v)). Proof. intro HR. unfold set_end_m. rep_tac HR. Qed.
Lemma set_lang_Rep h s v : Rep h -> Rep (heap_of (set_lang_m h s v)). Proof. intro HR. unfold set_lang_m. rep_tac HR. Qed.
Lemma set_space_Rep h s v : Rep h -> Rep (heap_of (set_space_m h s v)). Proof. intro HR. unfold set_space_m. rep_tac HR. Qed.
Lemma set_text_Rep h s v : Rep h -> Rep (heap_of (set_text_m h s v)). Proof. intro HR. unfold set_text_m. rep_tac HR. Qed.
Lemma set_style_Rep h s p v : Rep h -> Rep (heap_of (set_style_m h s p v)). Proof. intro HR. unfold set_style_m. rep_tac HR. Qed.
Lemma add_anim_Rep h s p v : Rep h -> Rep (heap_of (add_anim_m h s p v)). Proof. intro HR. unfold add_anim_m. rep_tac HR. Qed.
Lemma remove_anim_Rep h s p v : Rep h -> Rep (heap_of (remove_anim_m h s p v)). Proof. intro HR. unfold remove_anim_m. rep_tac HR. Qed.
Lemma put_initial_Rep h d p v : Rep h -> Rep (heap_of (put_initial h d p v)). Proof. intro HR. unfold put_initial. rep_tac HR. Qed.
Lemma remove_initial_Rep h d p : Rep h -> Rep (heap_of (remove_initial h d p)). Proof. intro HR. unfold remove_initial. rep_tac HR. Qed.
Lemma set_body_Rep h d b : Rep h -> Rep (heap_of (set_body_m h d b)). Proof. intro HR. unfold set_body_m. rep_tac HR. Qed.
Lemma set_active_Rep h d v : Rep h -> Rep (heap_of (set_active_m h d v)). Proof. intro HR. unfold set_active_m. rep_tac HR. Qed.
Lemma set_dar_Rep h d v : Rep h -> Rep (heap_of (set_dar_m h d v)). Proof. intro HR. unfold set_dar_m. rep_tac HR. Qed.
Lemma set_cell_Rep h d v : Rep h -> Rep (heap_of (set_cell_m h d v)). Proof. intro HR. unfold set_cell_m. rep_tac HR. Qed.
Lemma set_px_Rep h d v : Rep h -> Rep (heap_of (set_px_m h d v)). Proof. intro HR. unfold set_px_m. rep_tac HR. Qed.
Lemma set_dlang_Rep h d v : Rep h -> Rep (heap_of (set_dlang_m h d v)). Proof. intro HR. unfold set_dlang_m. rep_tac HR. Qed.
(* set_id never changes the id of a Region *)
Lemma set_id_Rep h s v : Rep h -> Rep (heap_of (set_id_m h s v)).
Proof.
  intros [U R]. unfold set_id_m, kind_of. 
  assert (G : forall w, n_kind (nd h s) <> KRegion -> Rep (updn h s (set_id w))).
  { intros w NK. split.
    - apply (users_frame h); [apply nnodes_updn|apply same_updn; reflexivity|apply same_updn; reflexivity|exact U].
    - intros i Hi. rewrite nnodes_updn in Hi. rewrite (proj_updn n_kind) by reflexivity. intro K.
      destruct (Nat.eq_dec s i) as [->|N]; [congruence|]. rewrite nd_updn_other by assumption. apply R; assumption. }
  destruct (n_kind (nd h s)) eqn:K; destruct v; simpl;
    first [exact (conj U R) | destruct (onat_eqb _ _); exact (conj U R) | apply G; congruence].
Qed.

(* ---- more calls that update one node or one document record ---- *)
Theorem set_text_WF h s v : WF h -> WF (heap_of (set_text_m h s v)).
Proof.
  intro HW. unfold set_text_m. destruct (kind_of h s); try exact HW. destruct v; [|exact HW]. attr_tac HW.
Qed.
Lemma list_remove_In x l l' y : list_remove x l = Some l' -> In y l' -> In y l.
Proof.
  revert l'. induction l as [|z t IH]; intros l' E H; simpl in E; [discriminate|].
  destruct (pv_eqb z x); [injection E as <-; right; exact H|].
  destruct (list_remove x t) as [t'|]; [|discriminate]. injection E as <-.
  destruct H as [<-|H]; [left; reflexivity|right; eapply IH; eauto].
Qed.
Theorem remove_anim_WF h s p v : WF h -> s < nnodes h -> WF (heap_of (remove_anim_m h s p v)).
Proof.
  intros HW Hs. unfold remove_anim_m. destruct (list_remove (p, v) (n_anims (nd h s))) as [l|] eqn:E; [|exact HW]. simpl.
  apply attr_update_WF; [exact HW|reflexivity|reflexivity|reflexivity|reflexivity|apply attr_regions_frame; reflexivity|].
  intros (V1 & V2). split; [|exact V2]. intros i Hi. rewrite nnodes_updn in Hi.
  rewrite (proj_updn n_styles) by reflexivity. split; [apply V1; exact Hi|].
  destruct (Nat.eq_dec i s) as [->|N]; [|rewrite nd_updn_other by auto; apply V1; exact Hi].
  rewrite nd_updn_same by assumption. simpl. intros q w H. apply (proj2 (V1 s Hs)). eapply list_remove_In; eauto.
Qed.
Theorem remove_initial_WF h d p : WF h -> d < ndocs h -> WF (heap_of (remove_initial h d p)).
Proof.
  intros HW Hd. unfold remove_initial. destruct p as [p|]; [|exact HW]. simpl.
  pose proof HW as ((C & _) & _ & _ & _ & Rg & (V1 & V2)).
  apply doc_update_WF; auto.
  - apply (closed_frame h); auto; try reflexivity; try apply same_updd; try apply ndocs_updd; apply dsame_updd; reflexivity.
  - apply (regions_frame h); auto; try reflexivity; try apply same_updd; try apply ndocs_updd; apply dsame_updd; reflexivity.
  - split; [exact V1|]. intros d' Hd'. rewrite ndocs_updd in Hd'.
    destruct (Nat.eq_dec d d') as [<-|N]; [|rewrite dc_updd_other by assumption; apply V2; exact Hd'].
    rewrite dc_updd_same by assumption. simpl. intros q w H. apply (V2 d Hd). eapply In_pdict_del; eauto.
Qed.
(* a document parameter: nothing that WF reads changes *)
Lemma doc_param_WF h d f : WF h -> (forall x, d_regions (f x) = d_regions x) -> (forall x, d_body (f x) = d_body x) ->
  (forall x, d_initials (f x) = d_initials x) -> WF (updd h d f).
Proof.
  intros HW F1 F2 F3. pose proof HW as ((C & _) & _ & _ & _ & Rg & V).
  apply doc_update_WF; auto.
  - apply (closed_frame h); auto; try reflexivity; try apply same_updd; try apply ndocs_updd; apply dsame_updd; assumption.
  - apply (regions_frame h); auto; try reflexivity; try apply same_updd; try apply ndocs_updd; apply dsame_updd; assumption.
  - apply (values_frame h); auto; try reflexivity; try apply same_updd; try apply ndocs_updd; apply dsame_updd; assumption.
Qed.
Ltac param_tac HW := repeat first [exact HW | (apply doc_param_WF; [|reflexivity|reflexivity|reflexivity])
                                  | match goal with |- context [match ?x with _ => _ end] => destruct x end].
Theorem set_active_WF h d v : WF h -> WF (heap_of (set_active_m h d v)). Proof. intro HW. unfold set_active_m. param_tac HW. Qed.
Theorem set_dar_WF h d v : WF h -> WF (heap_of (set_dar_m h d v)). Proof. intro HW. unfold set_dar_m. param_tac HW. Qed.
Theorem set_cell_WF h d v : WF h -> WF (heap_of (set_cell_m h d v)). Proof. intro HW. unfold set_cell_m. param_tac HW. Qed.
Theorem set_px_WF h d v : WF h -> WF (heap_of (set_px_m h d v)). Proof. intro HW. unfold set_px_m. param_tac HW. Qed.
Theorem set_dlang_WF h d v : WF h -> WF (heap_of (set_dlang_m h d v)). Proof. intro HW. unfold set_dlang_m. param_tac HW. Qed.
Lemma set_active_size h d v : same_size h (heap_of (set_active_m h d v)). Proof. unfold set_active_m. size_tac. Qed.
Lemma set_dar_size h d v : same_size h (heap_of (set_dar_m h d v)). Proof. unfold set_dar_m. size_tac. Qed.
Lemma set_cell_size h d v : same_size h (heap_of (set_cell_m h d v)). Proof. unfold set_cell_m. size_tac. Qed.
Lemma set_px_size h d v : same_size h (heap_of (set_px_m h d v)). Proof. unfold set_px_m. size_tac. Qed.
Lemma set_dlang_size h d v : same_size h (heap_of (set_dlang_m h d v)). Proof. unfold set_dlang_m. size_tac. Qed.

(* ---- set_region ---- *)
Lemma set_region_update_WF h s r : WF h -> s < nnodes h -> onode_ok h r = true ->
  (forall rr, r = Some rr -> region_capable (n_kind (nd h s)) = true /\
     exists d id, n_doc (nd h s) = Some d /\ n_id (nd h rr) = Some id /\ lookup (d_regions (dc h d)) id = Some rr) ->
  WF (updn h s (set_region r)).
Proof.
  intros HW Hs Hr HR. pose proof HW as ((C & _) & _ & D & _ & (W1 & W2 & W3) & V).
  apply (WF_struct h); auto; try apply nnodes_updn; try (apply same_updn; reflexivity).
  - destruct C as [C1 C2]. split; [|intros d0 Hd0; unfold ref_ok; rewrite nnodes_updn; apply (C2 d0 Hd0)]. intros i Hi. rewrite nnodes_updn in Hi.
    destruct (C1 i Hi) as (R1 & R2 & R3 & R4 & R5 & R6 & R7). unfold ref_ok, dref_ok in *.
    rewrite !(proj_updn n_parent), !(proj_updn n_first), !(proj_updn n_last), !(proj_updn n_next), !(proj_updn n_prev),
      !(proj_updn n_doc), nnodes_updn by reflexivity.
    repeat split; auto. destruct (Nat.eq_dec i s) as [->|N]; [|rewrite nd_updn_other by auto; exact R6].
    rewrite nd_updn_same by assumption. simpl. destruct r as [rr|]; [|exact I]. simpl in Hr. apply Nat.ltb_lt. exact Hr.
  - apply (doc_frame h); auto; try apply nnodes_updn; apply same_updn; reflexivity.
  - split; [|split; [|exact W3]].
    + intros i r0 Hi. rewrite nnodes_updn in Hi. rewrite (proj_updn n_kind), (proj_updn n_doc) by reflexivity.
      assert (IDS : forall j, n_id (nd (updn h s (set_region r)) j) = n_id (nd h j)) by (intro; apply (proj_updn n_id); reflexivity).
      destruct (Nat.eq_dec i s) as [->|N].
      * rewrite nd_updn_same by assumption. simpl. intros ->. destruct (HR r0 eq_refl) as [Cp (d & id & E1 & E2 & E3)].
        split; [exact Cp|]. exists d, id. rewrite IDS. auto.
      * rewrite nd_updn_other by auto. intro E. destruct (W1 i r0 Hi E) as [Cp (d & id & E1 & E2 & E3)].
        split; [exact Cp|]. exists d, id. rewrite IDS. auto.
    + intros d id r0 Hd. rewrite (proj_updn n_kind), (proj_updn n_id) by reflexivity. apply W2. exact Hd.
  - apply (values_frame h); auto; try apply nnodes_updn; try (apply same_updn; reflexivity). apply dsame_updn.
Qed.

(* the users sets are not read by WF *)
Lemma users_update_WF h j g : WF h -> WF (updn h j (fun n => set_users (g n) n)).
Proof.
  intro HW. apply attr_update_WF; [exact HW|reflexivity|reflexivity|reflexivity|reflexivity|apply attr_regions_frame; reflexivity|apply attr_values_frame; reflexivity].
Qed.
Lemma lr2_WF h s r : WF h -> WF (lr2 h s r).
Proof.
  intro HW. unfold lr2. assert (W1 : WF (lr1 h s)) by (unfold lr1; destruct (n_region (nd h s)); [apply users_update_WF; exact HW|exact HW]).
  destruct r; [apply (users_update_WF (lr1 h s) n (fun m => uins s (n_users m))); exact W1|exact W1].
Qed.
Lemma lr2_other {X} (pi : node -> X) h s r : (forall v n, pi (set_users v n) = pi n) -> forall j, pi (nd (lr2 h s r) j) = pi (nd h j).
Proof.
  intros P1 j. unfold lr2. assert (E1 : pi (nd (lr1 h s) j) = pi (nd h j)).
  { unfold lr1. destruct (n_region (nd h s)); [apply proj_updn; intro; apply P1|reflexivity]. }
  destruct r; [rewrite (proj_updn pi) by (intro; apply P1)|]; exact E1.
Qed.
Lemma lr2_docs h s r : h_docs (lr2 h s r) = h_docs h.
Proof. unfold lr2, lr1. destruct r, (n_region (nd h s)); reflexivity. Qed.

Lemma link_region_WF h s r : WF h -> s < nnodes h -> onode_ok h r = true ->
  (forall rr, r = Some rr -> region_capable (n_kind (nd h s)) = true /\
     exists d id, n_doc (nd h s) = Some d /\ n_id (nd h rr) = Some id /\ lookup (d_regions (dc h d)) id = Some rr) ->
  WF (link_region h s r).
Proof.
  intros HW Hs Hr HR. rewrite link_region_eq. apply set_region_update_WF.
  - apply lr2_WF. exact HW.
  - rewrite lr2_nnodes. exact Hs.
  - destruct r as [rr|]; [|reflexivity]. unfold onode_ok, node_ok in *. rewrite lr2_nnodes. exact Hr.
  - intros rr E. destruct (HR rr E) as [Cp (d & id & E1 & E2 & E3)].
    rewrite (lr2_other n_kind), (lr2_other n_doc), (lr2_other n_id) by reflexivity. split; [exact Cp|].
    exists d, id. unfold dc. rewrite lr2_docs. auto.
Qed.
Lemma region_in_range h s r0 : WF h -> s < nnodes h -> n_region (nd h s) = Some r0 -> r0 < nnodes h.
Proof. intros (((C1 & _) & _) & _) Hs E. destruct (C1 s Hs) as (_ & _ & _ & _ & _ & R & _). rewrite E in R. exact R. Qed.
Lemma link_region_Rep' h s r : WF h -> Rep h -> s < nnodes h -> onode_ok h r = true -> Rep (link_region h s r).
Proof.
  intros HW HR Hs Hr. apply link_region_Rep; auto.
  - intros r0 E. eapply region_in_range; eauto.
  - intros rr ->. simpl in Hr. apply Nat.ltb_lt. exact Hr.
Qed.

(* what an accepted set_region(r) has checked *)
Lemma get_region_lookup h d id rr : onat_eqb (get_region h d id) (Some rr) = true ->
  exists k, id = Some k /\ lookup (d_regions (dc h d)) k = Some rr.
Proof.
  intro E. apply onat_eqb_true in E. unfold get_region in E. destruct id as [k|]; [|discriminate].
  exists k. split; [reflexivity|]. rewrite <- dict_get_lookup. exact E.
Qed.

Theorem set_region_WF h s r : WF h -> s < nnodes h -> onode_ok h r = true -> WF (heap_of (set_region_m h s r)).
Proof.
  intros HW Hs Hr. unfold set_region_m.
  assert (G : region_capable (kind_of h s) = true \/ r = None ->
    WF (heap_of match r with
                | None => ROk (link_region h s None)
                | Some rr => match n_doc (nd h s) with
                             | None => RErr h EValue
                             | Some d => if onat_eqb (get_region h d (n_id (nd h rr))) (Some rr) then ROk (link_region h s r) else RErr h EValue
                             end
                end)).
  { intro Cap. destruct r as [rr|].
    - destruct (n_doc (nd h s)) as [d|] eqn:Ed; [|exact HW].
      destruct (onat_eqb (get_region h d (n_id (nd h rr))) (Some rr)) eqn:Hh; [|exact HW]. simpl.
      apply link_region_WF; auto. intros r0 [= <-].
      destruct Cap as [Cap|]; [|discriminate]. split; [exact Cap|].
      destruct (get_region_lookup _ _ _ _ Hh) as (k & Ek & El). exists d, k. auto.
    - simpl. apply link_region_WF; auto. intros rr [=]. }
  unfold kind_of in *. destruct (n_kind (nd h s)) eqn:K; try (apply G; left; reflexivity).
  - destruct r; simpl; [exact HW|]. apply G. right; reflexivity.
  - exact HW.
  - destruct r; exact HW.
Qed.
Theorem set_region_Rep h s r : WF h -> Rep h -> s < nnodes h -> onode_ok h r = true -> Rep (heap_of (set_region_m h s r)).
Proof.
  intros HW HR Hs Hr. unfold set_region_m.
  assert (L : forall r', r' = r \/ r' = None -> Rep (link_region h s r')).
  { intros r' [->| ->]; apply link_region_Rep'; auto. }
  destruct (kind_of h s); cbv zeta;
    repeat match goal with |- context [match ?x with _ => _ end] => destruct x end; simpl; auto.
Qed.

(* ---- `for e in list(region._users): if e.get_doc() is self: e.set_region(to)` ---- *)
(* a node up to its region and its users *)
Definition strip (n : node) : node := set_users [] (set_region None n).
Lemma strip_proj {X} (pi : node -> X) : (forall v n, pi (set_users v n) = pi n) -> (forall v n, pi (set_region v n) = pi n) ->
  forall a b, strip a = strip b -> pi a = pi b.
Proof.
  intros P1 P2 a b E. rewrite <- (P2 None a), <- (P1 [] (set_region None a)). fold (strip a). rewrite E.
  unfold strip. rewrite P1, P2. reflexivity.
Qed.
Definition same_strip (h h' : heap) : Prop := forall j, strip (nd h' j) = strip (nd h j).
Lemma same_strip_same {X} (pi : node -> X) h h' : (forall v n, pi (set_users v n) = pi n) -> (forall v n, pi (set_region v n) = pi n) ->
  same_strip h h' -> same pi h h'.
Proof. intros P1 P2 S j. apply strip_proj; auto. Qed.
Lemma link_region_strip h s r : same_strip h (link_region h s r).
Proof. intro j. apply (link_region_other strip); reflexivity. Qed.

Definition RefsOK (h : heap) : Prop := forall j r0, j < nnodes h -> n_region (nd h j) = Some r0 -> r0 < nnodes h.

Lemma retarget_loop d to : forall us h,
  (forall e, In e us -> e < nnodes h) ->
  (forall e, In e us -> n_doc (nd h e) = Some d -> region_capable (n_kind (nd h e)) = true) ->
  (forall rr, to = Some rr -> rr < nnodes h /\ onat_eqb (get_region h d (n_id (nd h rr))) (Some rr) = true) ->
  RefsOK h -> UsersOK h ->
  exists h', each (retarget d to) us h = ROk h' /\ nnodes h' = nnodes h /\ h_docs h' = h_docs h /\ same_strip h h' /\
    (forall j, n_region (nd h' j) = if memb j us && onat_eqb (n_doc (nd h j)) (Some d) then to else n_region (nd h j)) /\
    UsersOK h'.
Proof.
  induction us as [|e t IH]; intros h Hus Hcap Hto HR HU.
  - exists h. simpl. refine (conj eq_refl (conj eq_refl (conj eq_refl (conj _ (conj _ HU))))); intro; reflexivity.
  - assert (He : e < nnodes h) by (apply Hus; left; reflexivity).
    (* the first iteration *)
    assert (STEP : exists h1, retarget d to h e = ROk h1 /\ nnodes h1 = nnodes h /\ h_docs h1 = h_docs h /\ same_strip h h1 /\
              (forall j, n_region (nd h1 j) = if Nat.eqb j e && onat_eqb (n_doc (nd h j)) (Some d) then to else n_region (nd h j)) /\
              UsersOK h1).
    { unfold retarget. destruct (onat_eqb (n_doc (nd h e)) (Some d)) eqn:Ed.
      - assert (A : set_region_m h e to = ROk (link_region h e to)).
        { apply onat_eqb_true in Ed. pose proof (Hcap e (or_introl eq_refl) Ed) as Cp.
          unfold set_region_m, kind_of. destruct to as [rr|].
          - destruct (Hto rr eq_refl) as [_ Hg]. rewrite Ed, Hg. destruct (n_kind (nd h e)); try discriminate Cp; reflexivity.
          - destruct (n_kind (nd h e)); try discriminate Cp; reflexivity. }
        exists (link_region h e to). split; [exact A|]. split; [apply link_region_nnodes|]. split; [apply link_region_docs|].
        split; [apply link_region_strip|]. split.
        + intro j. rewrite link_region_region by exact He. destruct (Nat.eq_dec j e) as [->|N].
          * rewrite Nat.eqb_refl, Ed. reflexivity.
          * apply Nat.eqb_neq in N. rewrite N. reflexivity.
        + apply link_region_UsersOK; auto; [intros r0 E; apply (HR e r0 He E)|intros rr E; apply (Hto rr E)].
      - exists h. refine (conj eq_refl (conj eq_refl (conj eq_refl (conj _ (conj _ HU))))); [intro; reflexivity|].
        intro j. destruct (Nat.eqb_spec j e) as [->|N]; [rewrite Ed|]; reflexivity. }
    destruct STEP as (h1 & E1 & N1 & D1 & S1 & R1 & U1).
    assert (SD : same n_doc h h1) by (apply same_strip_same; [reflexivity|reflexivity|exact S1]).
    assert (SK : same n_kind h h1) by (apply same_strip_same; [reflexivity|reflexivity|exact S1]).
    assert (SI : same n_id h h1) by (apply same_strip_same; [reflexivity|reflexivity|exact S1]).
    destruct (IH h1) as (h2 & E2 & N2 & D2 & S2 & R2 & U2).
    + intros x Hx. rewrite N1. apply Hus. right; exact Hx.
    + intros x Hx. rewrite SD, SK. apply Hcap. right; exact Hx.
    + intros rr E. destruct (Hto rr E) as [A B]. split; [rewrite N1; exact A|].
      unfold get_region, dc in *. rewrite D1, SI. exact B.
    + intros j r0 Hj. rewrite N1 in *. rewrite R1.
      destruct (Nat.eqb j e && onat_eqb (n_doc (nd h j)) (Some d)); [intro E; apply (Hto r0 E)|apply HR; exact Hj].
    + exact U1.
    + exists h2. simpl. rewrite E1. simpl. split; [exact E2|]. split; [congruence|]. split; [congruence|].
      split; [intro j; rewrite S2; apply S1|]. split; [|exact U2].
      intro j. rewrite R2, R1, SD. simpl.
      destruct (Nat.eqb_spec e j) as [->|N]; simpl.
      * rewrite Nat.eqb_refl. simpl. destruct (memb j t), (onat_eqb (n_doc (nd h j)) (Some d)); reflexivity.
      * assert (Nat.eqb j e = false) as -> by (apply Nat.eqb_neq; auto). simpl. reflexivity.
Qed.

Lemma dc_docs h h' j : h_docs h' = h_docs h -> dc h' j = dc h j.
Proof. intro E. unfold dc. rewrite E. reflexivity. Qed.
Lemma lookup_In_regs (l : list (nat * nat)) k v : lookup l k = Some v -> In (k, v) l.
Proof.
  induction l as [|[a b] t IH]; simpl; [discriminate|]. destruct (Nat.eqb_spec k a) as [->|N].
  - intros [= ->]. left; reflexivity.
  - intro H. right. apply IH. exact H.
Qed.
Lemma lookup_in_range h d id x : lookup (d_regions (dc h d)) id = Some x -> d < ndocs h.
Proof.
  intro E. destruct (lt_dec d (ndocs h)); [assumption|]. exfalso. unfold dc in E.
  rewrite nth_overflow in E by (unfold ndocs in *; lia). discriminate.
Qed.

(* a heap that differs from a well-formed one only in region references, users sets and the registry
   of one document is well formed when its region references are registered *)
Lemma regions_changed_WF h h2 d (regs : list (nat * nat)) :
  WF h -> d < ndocs h -> nnodes h2 = nnodes h -> ndocs h2 = ndocs h -> same_strip h h2 ->
  (forall d', d_body (dc h2 d') = d_body (dc h d') /\ d_initials (dc h2 d') = d_initials (dc h d') /\
              d_regions (dc h2 d') = if Nat.eq_dec d d' then regs else d_regions (dc h d')) ->
  (forall id x, In (id, x) regs -> x < nnodes h) -> NoDup (map fst regs) ->
  (forall id x, lookup regs id = Some x -> n_kind (nd h x) = KRegion /\ n_id (nd h x) = Some id) ->
  (forall i ri, i < nnodes h -> n_region (nd h2 i) = Some ri ->
     ri < nnodes h /\ region_capable (n_kind (nd h i)) = true /\
     exists di id, n_doc (nd h i) = Some di /\ n_id (nd h ri) = Some id /\ lookup (d_regions (dc h2 di)) id = Some ri) ->
  WF h2.
Proof.
  intros HW Hd HN HD SS DOCS RANGE ND REGOK REFS.
  pose proof HW as ((C & _) & _ & D & _ & (W1 & W2 & W3) & V).
  assert (SL : same lk h h2) by (apply same_strip_same; [reflexivity|reflexivity|exact SS]).
  assert (SK : same n_kind h h2) by (apply same_strip_same; [reflexivity|reflexivity|exact SS]).
  assert (SD : same n_doc h h2) by (apply same_strip_same; [reflexivity|reflexivity|exact SS]).
  assert (SI : same n_id h h2) by (apply same_strip_same; [reflexivity|reflexivity|exact SS]).
  apply (WF_struct h); auto.
  - destruct C as [C1 C2]. split.
    + intros i Hi. rewrite HN in Hi. destruct (C1 i Hi) as (R1 & R2 & R3 & R4 & R5 & R6 & R7). unfold ref_ok, dref_ok in *.
      rewrite (lk_parent h h2 SL), (lk_first h h2 SL), (lk_last h h2 SL), (lk_next h h2 SL), (lk_prev h h2 SL), SD, HN, HD.
      repeat split; auto. destruct (n_region (nd h2 i)) as [ri|] eqn:E; [|exact I]. apply (REFS i ri Hi E).
    + intros d' Hd'. rewrite HD in Hd'. destruct (DOCS d') as (B1 & _ & B3). unfold ref_ok. rewrite B1, B3, HN.
      split; [apply C2; exact Hd'|]. destruct (Nat.eq_dec d d'); [exact RANGE|apply C2; exact Hd'].
  - apply (doc_frame h); auto.
  - split; [|split].
    + intros i ri Hi E. rewrite HN in Hi. destruct (REFS i ri Hi E) as (_ & Cp & di & id & E1 & E2 & E3).
      rewrite SK, SD. split; [exact Cp|]. exists di, id. rewrite SI. auto.
    + intros d' id x Hd'. rewrite HD in Hd'. destruct (DOCS d') as (_ & _ & B3). rewrite B3, SK, SI.
      destruct (Nat.eq_dec d d'); [apply REGOK|apply W2; exact Hd'].
    + intros d' Hd'. rewrite HD in Hd'. destruct (DOCS d') as (_ & _ & B3). rewrite B3.
      destruct (Nat.eq_dec d d'); [exact ND|apply W3; exact Hd'].
  - destruct V as [V1 V2]. split.
    + intros i Hi. rewrite HN in Hi.
      rewrite (same_strip_same n_styles h h2 ltac:(reflexivity) ltac:(reflexivity) SS), (same_strip_same n_anims h h2 ltac:(reflexivity) ltac:(reflexivity) SS).
      apply V1. exact Hi.
    + intros d' Hd'. rewrite HD in Hd'. destruct (DOCS d') as (_ & B2 & _). rewrite B2. apply V2. exact Hd'.
Qed.

Lemma Rep_changed h h2 : nnodes h2 = nnodes h -> same_strip h h2 -> UsersOK h2 -> Rep h -> Rep h2.
Proof.
  intros HN SS U [_ R]. split; [exact U|].
  apply (region_ids_frame h); auto; apply same_strip_same; try reflexivity; exact SS.
Qed.

(* ---- put_region ---- *)
Theorem put_region_Inv h d r : WF h -> Rep h -> d < ndocs h -> r < nnodes h ->
  WF (heap_of (put_region h d r)) /\ Rep (heap_of (put_region h d r)) /\
  (forall h' e, put_region h d r = RErr h' e -> h' = h /\ e <> EFuel).
Proof.
  intros HW HR Hd Hr. unfold put_region.
  destruct (kind_eqb (kind_of h r) KRegion) eqn:K; [|split; [exact HW|split; [exact HR|intros h' e [= <- <-]; split; [reflexivity|discriminate]]]]. simpl.
  destruct (onat_eqb (n_doc (nd h r)) (Some d)) eqn:Dd; [|split; [exact HW|split; [exact HR|intros h' e [= <- <-]; split; [reflexivity|discriminate]]]]. simpl.
  apply kind_eqb_true in K. apply onat_eqb_true in Dd. unfold kind_of in K.
  destruct (n_id (nd h r)) as [k|] eqn:Ek; [|exfalso; exact (proj2 HR r Hr K Ek)].
  pose proof HW as ((C & _) & _ & _ & _ & (W1 & W2 & W3) & V). pose proof HR as [HU HI].
  set (f := fun x => set_regions (dict_set Nat.eqb (d_regions x) k r) x).
  set (h1 := updd h d f).
  assert (DOCS1 : forall d', d_body (dc h1 d') = d_body (dc h d') /\ d_initials (dc h1 d') = d_initials (dc h d') /\
                  d_regions (dc h1 d') = if Nat.eq_dec d d' then dict_set Nat.eqb (d_regions (dc h d)) k r else d_regions (dc h d')).
  { intro d'. unfold h1. rewrite (proj_updd d_body), (proj_updd d_initials) by reflexivity. split; [reflexivity|split; [reflexivity|]].
    destruct (Nat.eq_dec d d') as [<-|N]; [rewrite dc_updd_same by assumption; reflexivity|rewrite dc_updd_other by assumption; reflexivity]. }
  (* the loop (over no element when nothing is replaced) *)
  set (us := match dict_get Nat.eqb (d_regions (dc h d)) k with
             | Some r0 => if Nat.eqb r0 r then [] else n_users (nd h1 r0) | None => [] end).
  assert (RUN : match dict_get Nat.eqb (d_regions (dc h d)) k with
                | None => ROk h1
                | Some r0 => if Nat.eqb r0 r then ROk h1 else each (retarget d (Some r)) (n_users (nd h1 r0)) h1
                end = each (retarget d (Some r)) us h1).
  { unfold us. destruct (dict_get Nat.eqb (d_regions (dc h d)) k) as [r0|]; [destruct (Nat.eqb r0 r)|]; reflexivity. }
  rewrite RUN.
  assert (USERS : forall e, In e us -> e < nnodes h /\ exists r0, n_region (nd h e) = Some r0 /\ lookup (d_regions (dc h d)) k = Some r0).
  { unfold us. rewrite dict_get_lookup. destruct (lookup (d_regions (dc h d)) k) as [r0|] eqn:L; [|intros e []].
    destruct (Nat.eqb r0 r); [intros e []|]. intros e He. change (In e (n_users (nd h r0))) in He.
    assert (Hr0 : r0 < nnodes h) by (destruct C as [_ C2]; apply (proj2 (C2 d Hd) k r0); apply lookup_In_regs; exact L).
    apply (HU r0 e Hr0) in He. destruct He as [A B]. split; [exact A|]. exists r0. auto. }
  destruct (retarget_loop d (Some r) us h1) as (h2 & E2 & N2 & D2 & S2 & R2 & U2).
  - intros e He. apply (USERS e He).
  - intros e He _. destruct (USERS e He) as (A & r0 & B & _). apply (W1 e r0 A B).
  - intros rr [= <-]. split; [exact Hr|]. apply onat_eqb_true. unfold get_region. change (n_id (nd h1 r)) with (n_id (nd h r)). rewrite Ek.
    rewrite dict_get_lookup. destruct (DOCS1 d) as (_ & _ & B3). rewrite B3. destruct (Nat.eq_dec d d); [|congruence].
    rewrite lookup_set, Nat.eqb_refl. reflexivity.
  - intros j r0 Hj E. apply (region_in_range h j r0 HW Hj E).
  - apply (users_frame h); auto; apply same_updd.
  - rewrite E2. simpl. split; [|split; [|discriminate]].
    + apply (regions_changed_WF h h2 d (dict_set Nat.eqb (d_regions (dc h d)) k r)); auto.
      * unfold ndocs. rewrite D2. apply ndocs_updd.
      * intro d'. rewrite (dc_docs h1 h2 d' D2). apply DOCS1.
      * intros id x Hin. destruct (In_dict_set _ _ _ _ Hin) as [H|[= _ ->]]; [destruct C as [_ C2]; eapply (proj2 (C2 d Hd)); eauto|exact Hr].
      * apply keys_set. apply W3. exact Hd.
      * intros id x. rewrite lookup_set. destruct (Nat.eqb_spec id k) as [->|N]; [intros [= <-]; auto|apply W2; exact Hd].
      * intros i ri Hi. rewrite R2. change (nd h1 i) with (nd h i).
        destruct (memb i us && onat_eqb (n_doc (nd h i)) (Some d)) eqn:SI.
        { intros [= <-]. apply andb_true_iff in SI. destruct SI as [M Di]. apply memb_In in M. apply onat_eqb_true in Di.
          destruct (USERS i M) as (_ & r0 & B & _). destruct (W1 i r0 Hi B) as [Cp _].
          split; [exact Hr|split; [exact Cp|]]. exists d, k. repeat split; auto.
          rewrite (dc_docs h1 h2 d D2). destruct (DOCS1 d) as (_ & _ & B3). rewrite B3. destruct (Nat.eq_dec d d); [|congruence].
          rewrite lookup_set, Nat.eqb_refl. reflexivity. }
        intro E. destruct (W1 i ri Hi E) as [Cp (di & idi & E1 & E3 & E4)].
        split; [eapply region_in_range; eauto|split; [exact Cp|]]. exists di, idi. repeat split; auto.
        rewrite (dc_docs h1 h2 di D2). destruct (DOCS1 di) as (_ & _ & B3). rewrite B3.
        destruct (Nat.eq_dec d di) as [<-|N]; [|exact E4]. rewrite lookup_set.
        destruct (Nat.eqb_spec idi k) as [->|N]; [|exact E4]. f_equal.
        (* i references the region registered under k in d: either that is r, or i was redirected *)
        destruct (Nat.eq_dec ri r) as [|NE]; [auto|]. exfalso.
        assert (M : memb i us = true).
        { apply memb_In. unfold us. rewrite dict_get_lookup, E4. destruct (Nat.eqb_spec ri r); [contradiction|].
          change (In i (n_users (nd h ri))). apply (HU ri i (region_in_range h i ri HW Hi E)). auto. }
        rewrite M, (proj2 (onat_eqb_true _ _) E1) in SI. discriminate.
    + apply (Rep_changed h); auto.
Qed.

(* ---- remove_region ---- *)
Theorem remove_region_Inv h d id : WF h -> Rep h -> d < ndocs h ->
  WF (heap_of (remove_region h d id)) /\ Rep (heap_of (remove_region h d id)) /\
  (forall h' e, remove_region h d id = RErr h' e -> h' = h /\ e <> EFuel).
Proof.
  intros HW HR Hd. unfold remove_region.
  destruct (dict_get Nat.eqb (d_regions (dc h d)) id) as [r0|] eqn:G; [|split; [exact HW|split; [exact HR|discriminate]]].
  rewrite dict_get_lookup in G.
  pose proof HW as ((C & _) & _ & _ & _ & (W1 & W2 & W3) & V). pose proof HR as [HU HI].
  assert (Hr0 : r0 < nnodes h) by (destruct C as [_ C2]; apply (proj2 (C2 d Hd) id r0); apply lookup_In_regs; exact G).
  assert (USERS : forall e, In e (n_users (nd h r0)) -> e < nnodes h /\ n_region (nd h e) = Some r0) by (intros e He; apply (HU r0 e Hr0); exact He).
  destruct (retarget_loop d None (n_users (nd h r0)) h) as (h1 & E1 & N1 & D1 & S1 & R1 & U1).
  - intros e He. apply (USERS e He).
  - intros e He _. destruct (USERS e He) as (A & B). apply (W1 e r0 A B).
  - intros rr [=].
  - intros j r1 Hj E. eapply region_in_range; eauto.
  - exact HU.
  - rewrite E1. simpl.
    set (f := fun x => set_regions (dict_del Nat.eqb (d_regions x) id) x). set (h2 := updd h1 d f).
    assert (Hd1 : d < ndocs h1) by (unfold ndocs; rewrite D1; exact Hd).
    assert (DOCS2 : forall d', d_body (dc h2 d') = d_body (dc h d') /\ d_initials (dc h2 d') = d_initials (dc h d') /\
                    d_regions (dc h2 d') = if Nat.eq_dec d d' then dict_del Nat.eqb (d_regions (dc h d)) id else d_regions (dc h d')).
    { intro d'. unfold h2. rewrite (proj_updd d_body), (proj_updd d_initials) by reflexivity. rewrite !(dc_docs h h1 d' D1).
      split; [reflexivity|split; [reflexivity|]].
      destruct (Nat.eq_dec d d') as [<-|N]; [rewrite dc_updd_same by assumption; simpl; rewrite (dc_docs h h1 d D1); reflexivity
                                            |rewrite dc_updd_other by assumption; apply f_equal, dc_docs; exact D1]. }
    split; [|split; [|discriminate]].
    + apply (regions_changed_WF h h2 d (dict_del Nat.eqb (d_regions (dc h d)) id)); auto.
      * unfold h2. rewrite ndocs_updd. unfold ndocs. rewrite D1. reflexivity.
      * intros k x Hin. destruct C as [_ C2]. apply (proj2 (C2 d Hd) k x). clear - Hin.
        induction (d_regions (dc h d)) as [|[a b] t IH]; simpl in *; [exact Hin|].
        destruct (Nat.eqb id a); simpl in *; [right; exact Hin|]. destruct Hin as [H|H]; [left; exact H|right; auto].
      * apply keys_del. apply W3. exact Hd.
      * intros k x. rewrite lookup_del by (apply W3; exact Hd). destruct (Nat.eqb k id); [discriminate|]. apply W2. exact Hd.
      * intros i ri Hi. change (nd h2 i) with (nd h1 i). rewrite R1.
        destruct (memb i (n_users (nd h r0)) && onat_eqb (n_doc (nd h i)) (Some d)) eqn:SI; [discriminate|].
        intro E. destruct (W1 i ri Hi E) as [Cp (di & idi & E2 & E3 & E4)].
        split; [eapply region_in_range; eauto|split; [exact Cp|]]. exists di, idi. repeat split; auto.
        destruct (DOCS2 di) as (_ & _ & B3). rewrite B3.
        destruct (Nat.eq_dec d di) as [<-|N]; [|exact E4]. rewrite lookup_del by (apply W3; exact Hd).
        destruct (Nat.eqb_spec idi id) as [->|N]; [|exact E4]. exfalso.
        assert (ri = r0) by congruence. subst ri.
        assert (M : memb i (n_users (nd h r0)) = true) by (apply memb_In; apply (HU r0 i Hr0); auto).
        rewrite M, (proj2 (onat_eqb_true _ _) E2) in SI. discriminate.
    + apply rep_updd. apply (Rep_changed h); auto.
Qed.

(* ---- copy_to ---- *)
Definition Invn (n m : nat) (h : heap) : Prop := WF h /\ Rep h /\ nnodes h = n /\ ndocs h = m.
Lemma Invn_bind n m r (f : heap -> res) :
  Invn n m (heap_of r) -> (forall h1, Invn n m h1 -> Invn n m (heap_of (f h1))) -> Invn n m (heap_of (r >>= f)).
Proof. intros H1 H2. apply heap_of_bind_inv; [exact H1|]. intros h1 _ P. apply H2. exact P. Qed.
Lemma Invn_step n m h h' : Invn n m h -> WF h' -> Rep h' -> same_size h h' -> Invn n m h'.
Proof. intros (_ & _ & N & M) W R [S1 S2]. refine (conj W (conj R (conj _ _))); congruence. Qed.

Lemma copy_styles_Invn n m s dst h : dst < n -> Invn n m h -> Invn n m (heap_of (copy_styles s dst h)).
Proof.
  intros Hd. unfold copy_styles. generalize (n_styles (nd h s)) as l. intro l. revert h.
  induction l as [|[p v] t IH]; intros h P; [exact P|].
  apply Invn_bind; [|intros h1 P1; apply IH; exact P1].
  pose proof P as (W & R & N & M).
  apply (Invn_step n m h); [exact P|apply set_style_WF; [exact W|rewrite N; exact Hd]|apply set_style_Rep; exact R|apply set_style_size].
Qed.
Lemma copy_anims_Invn n m s dst h : dst < n -> s < n -> Invn n m h -> Invn n m (heap_of (copy_anims s dst h)).
Proof.
  intros Hd Hs P. pose proof P as (W & R & N & M). unfold copy_anims. destruct (_ && _); [exact P|]. simpl.
  apply (Invn_step n m h); [exact P| |apply rep_updn; [reflexivity|reflexivity|reflexivity|reflexivity|exact R]|apply size_updn].
  apply attr_update_WF; [exact W|reflexivity|reflexivity|reflexivity|reflexivity|apply attr_regions_frame; reflexivity|].
  intros (V1 & V2). split; [|exact V2]. intros i Hi. rewrite nnodes_updn in Hi.
  rewrite (proj_updn n_styles) by reflexivity. split; [apply V1; exact Hi|].
  destruct (Nat.eq_dec i dst) as [->|NE]; [|rewrite nd_updn_other by auto; apply V1; exact Hi].
  rewrite nd_updn_same by (rewrite N; exact Hd). simpl. intros q w H. apply in_app_iff in H. destruct H as [H|H].
  - apply (proj2 (V1 dst Hi)). exact H.
  - apply (proj2 (V1 s ltac:(rewrite N; exact Hs))). exact H.
Qed.

Theorem copy_to_Inv h s dst : WF h -> Rep h -> s < nnodes h -> dst < nnodes h ->
  WF (heap_of (copy_to h s dst)) /\ Rep (heap_of (copy_to h s dst)).
Proof.
  intros HW HR Hs Hd.
  assert (ST : forall n m (op : heap -> res), (forall h0, WF h0 -> nnodes h0 = n -> WF (heap_of (op h0))) ->
            (forall h0, Rep h0 -> Rep (heap_of (op h0))) -> (forall h0, same_size h0 (heap_of (op h0))) ->
            forall h0, Invn n m h0 -> Invn n m (heap_of (op h0))).
  { intros n m op A B C h0 P. pose proof P as (W & R & N & M). apply (Invn_step n m h0); auto. }
  assert (P0 : Invn (nnodes h) (ndocs h) h) by exact (conj HW (conj HR (conj eq_refl eq_refl))).
  assert (G : Invn (nnodes h) (ndocs h) (heap_of (copy_to h s dst))).
  { unfold copy_to. destruct (kind_of h s).
    all: try (destruct (Nat.eqb s dst); [exact P0|]).
    all: repeat (apply Invn_bind; [|intros]); try (apply copy_anims_Invn; assumption); try (apply copy_styles_Invn; assumption).
    all: first [ apply (ST _ _ (fun h0 => set_begin_m h0 dst _)); [intros; apply set_begin_WF; assumption|intros; apply set_begin_Rep; assumption|intros; apply set_begin_size|assumption]
               | apply (ST _ _ (fun h0 => set_end_m h0 dst _)); [intros; apply set_end_WF; assumption|intros; apply set_end_Rep; assumption|intros; apply set_end_size|assumption]
               | apply (ST _ _ (fun h0 => set_lang_m h0 dst _)); [intros; apply set_lang_WF; assumption|intros; apply set_lang_Rep; assumption|intros; apply set_lang_size|assumption]
               | apply (ST _ _ (fun h0 => set_space_m h0 dst _)); [intros; apply set_space_WF; assumption|intros; apply set_space_Rep; assumption|intros; apply set_space_size|assumption]
               | apply (ST _ _ (fun h0 => set_id_m h0 dst _)); [intros hh WW NN; apply set_id_WF; [assumption|rewrite NN; assumption]|intros; apply set_id_Rep; assumption|intros; apply set_id_size|assumption]
               | apply (ST _ _ (fun h0 => set_text_m h0 dst _)); [intros; apply set_text_WF; assumption|intros; apply set_text_Rep; assumption|intros; apply set_text_size|assumption] ]. }
  destruct G as (A & B & _). split; assumption.
Qed.

(* ---- ContentDocument.copy_to ---- *)
Theorem doc_copy_to_Inv h d dst : WF h -> Rep h -> d < ndocs h -> dst < ndocs h ->
  WF (heap_of (doc_copy_to h d dst)) /\ Rep (heap_of (doc_copy_to h d dst)).
Proof.
  intros HW HR Hd Hdst.
  assert (ST : forall n m (op : heap -> res), (forall h0, WF h0 -> ndocs h0 = m -> WF (heap_of (op h0))) ->
            (forall h0, Rep h0 -> Rep (heap_of (op h0))) -> (forall h0, same_size h0 (heap_of (op h0))) ->
            forall h0, Invn n m h0 -> Invn n m (heap_of (op h0))).
  { intros n m op A B C h0 P. pose proof P as (W & R & N & M). apply (Invn_step n m h0); auto. }
  assert (P0 : Invn (nnodes h) (ndocs h) h) by exact (conj HW (conj HR (conj eq_refl eq_refl))).
  assert (G : Invn (nnodes h) (ndocs h) (heap_of (doc_copy_to h d dst))).
  { unfold doc_copy_to. apply Invn_bind.
    - destruct (Nat.eqb d dst); [exact P0|].
      repeat (apply Invn_bind; [|intros]).
      all: first [ apply (ST _ _ (fun h0 => set_active_m h0 dst _)); [intros; apply set_active_WF; assumption|intros; apply set_active_Rep; assumption|intros; apply set_active_size|assumption]
                 | apply (ST _ _ (fun h0 => set_cell_m h0 dst _)); [intros; apply set_cell_WF; assumption|intros; apply set_cell_Rep; assumption|intros; apply set_cell_size|assumption]
                 | apply (ST _ _ (fun h0 => set_dar_m h0 dst _)); [intros; apply set_dar_WF; assumption|intros; apply set_dar_Rep; assumption|intros; apply set_dar_size|assumption]
                 | apply (ST _ _ (fun h0 => set_dlang_m h0 dst _)); [intros; apply set_dlang_WF; assumption|intros; apply set_dlang_Rep; assumption|intros; apply set_dlang_size|assumption]
                 | apply (ST _ _ (fun h0 => set_px_m h0 dst _)); [intros; apply set_px_WF; assumption|intros; apply set_px_Rep; assumption|intros; apply set_px_size|assumption] ].
    - intros h1 P1. generalize (d_initials (dc h1 d)) as l. intro l. revert h1 P1.
      induction l as [|[p v] t IH]; intros h1 P1; [exact P1|].
      apply Invn_bind; [|intros h2 P2; apply IH; exact P2].
      apply (ST _ _ (fun h0 => put_initial h0 dst (PValid p) (Some v)));
        [intros hh WW MM; apply put_initial_WF; [assumption|rewrite MM; assumption]|intros; apply put_initial_Rep; assumption|intros; apply put_initial_size|assumption]. }
  destruct G as (A & B & _). split; assumption.
Qed.
