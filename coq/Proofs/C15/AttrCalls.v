(* C15: the calls that do not change the tree (styles, animation steps, initial values, attribute
   setters, set_region, put_region, remove_region, set_body, copy_to) preserve WF, outside the
   recorded call shapes 1, 2, 3. *)
From Coq Require Import List Arith Bool Lia.
From TT Require Import Base.HeapTypes Model.Heap Model.HeapTriggers Spec.ModelWF
  Proofs.C15.HeapLemmas Proofs.C15.Links Proofs.C15.Tree Proofs.C15.Frames Proofs.C15.LinkOps Proofs.C15.Values Proofs.C15.Dfs.
Import ListNotations.

(* ---- an operation that leaves links and kinds alone: only four clauses remain to be shown ---- *)
Lemma WF_struct h h' : WF h -> nnodes h' = nnodes h -> same lk h h' -> same n_kind h h' ->
  Closed h' -> WF_doc h' -> WF_regions h' -> WF_values h' -> WF h'.
Proof.
  intros ((C & K & R) & A & D & Ct & Rg & V) HN SL SK C' D' Rg' V'.
  refine (conj (conj C' (conj _ _)) (conj _ (conj D' (conj _ (conj Rg' V'))))).
  - apply (Kids_frame h h' HN SL). exact K.
  - apply (Roots_frame h h' HN SL). exact R.
  - apply (acyclic_frame h h' HN SL). exact A.
  - apply (content_frame h h' HN SL SK). exact Ct.
Qed.

(* ---- dictionaries ---- *)
Lemma dict_get_lookup l k : dict_get Nat.eqb l k = lookup l k.
Proof. induction l as [|[k' v] t IH]; simpl; [reflexivity|]. rewrite IH. reflexivity. Qed.
Lemma dict_has_get {V} (l : list (nat * V)) k : dict_has Nat.eqb l k = true <-> dict_get Nat.eqb l k <> None.
Proof.
  induction l as [|[k' v] t IH]; simpl; [split; [discriminate|congruence]|].
  destruct (Nat.eqb k k'); simpl; [split; [discriminate|reflexivity]|exact IH].
Qed.
Lemma lookup_set l k v k' : lookup (dict_set Nat.eqb l k v) k' = if Nat.eqb k' k then Some v else lookup l k'.
Proof.
  induction l as [|[k0 v0] t IH]; simpl.
  - destruct (Nat.eqb k' k); reflexivity.
  - destruct (Nat.eqb_spec k k0) as [->|N]; simpl.
    + destruct (Nat.eqb k' k0); reflexivity.
    + rewrite IH. destruct (Nat.eqb_spec k' k0) as [->|N']; [|reflexivity].
      destruct (Nat.eqb_spec k0 k); [congruence|reflexivity].
Qed.
Lemma lookup_None_notin l k : lookup l k = None -> ~ In k (map fst l).
Proof.
  induction l as [|[k0 v0] t IH]; simpl; [tauto|]. destruct (Nat.eqb_spec k k0); [discriminate|].
  intros H [E|E]; [congruence|apply IH; assumption].
Qed.
Lemma lookup_notin (l : list (nat * nat)) k : ~ In k (map fst l) -> lookup l k = None.
Proof.
  induction l as [|[a b] t IH]; simpl; [reflexivity|]. intro H.
  destruct (Nat.eqb_spec k a) as [E|E]; [exfalso; apply H; left; congruence|apply IH; tauto].
Qed.
Lemma lookup_del l k : forall k', NoDup (map fst l) -> lookup (dict_del Nat.eqb l k) k' = if Nat.eqb k' k then None else lookup l k'.
Proof.
  induction l as [|[k0 v0] t IH]; simpl; intros k' ND.
  - destruct (Nat.eqb k' k); reflexivity.
  - inversion ND as [|? ? NI ND']; subst. destruct (Nat.eqb_spec k k0) as [E|N]; simpl.
    + subst k0. destruct (Nat.eqb_spec k' k) as [E'|N']; [|reflexivity]. subst k'. apply lookup_notin. exact NI.
    + rewrite IH by assumption. destruct (Nat.eqb_spec k' k0) as [E'|N']; [|reflexivity].
      subst k'. destruct (Nat.eqb_spec k0 k); [congruence|reflexivity].
Qed.
Lemma keys_set (l : list (nat * nat)) k v : NoDup (map fst l) -> NoDup (map fst (dict_set Nat.eqb l k v)).
Proof.
  induction l as [|[k0 v0] t IH]; simpl; intro ND; [constructor; [intros []|constructor]|].
  inversion ND as [|? ? NI ND']; subst. destruct (Nat.eqb_spec k k0) as [->|N]; simpl; [exact ND|].
  constructor; [|apply IH; exact ND'].
  intro H. apply NI. clear - H N. induction t as [|[a b] t IH]; simpl in *.
  - destruct H as [H|[]]. congruence.
  - destruct (Nat.eqb_spec k a); simpl in *; [exact H|]. destruct H as [H|H]; [left; exact H|right; auto].
Qed.
Lemma keys_del (l : list (nat * nat)) k : NoDup (map fst l) -> NoDup (map fst (dict_del Nat.eqb l k)).
Proof.
  induction l as [|[k0 v0] t IH]; simpl; intro ND; [constructor|].
  inversion ND as [|? ? NI ND']; subst. destruct (Nat.eqb k k0); simpl; [exact ND'|].
  constructor; [|apply IH; exact ND'].
  intro H. apply NI. clear - H. induction t as [|[a b] t IH]; simpl in *; [exact H|].
  destruct (Nat.eqb k a); simpl in *; [right; exact H|]. destruct H as [H|H]; [left; exact H|right; auto].
Qed.
Lemma In_dict_set (l : list (nat * nat)) k v x : In x (dict_set Nat.eqb l k v) -> In x l \/ x = (k, v).
Proof.
  induction l as [|[k0 v0] t IH]; simpl.
  - intros [<-|[]]. auto.
  - destruct (Nat.eqb_spec k k0) as [->|N]; simpl; intros [H|H]; auto. destruct (IH H); auto.
Qed.

(* style dictionaries *)
Lemma In_pdict_del (d : list (prop * sval)) p x : In x (dict_del prop_eqb d p) -> In x d.
Proof.
  induction d as [|[k v] t IH]; simpl; [tauto|]. destruct (prop_eqb p k); simpl; [auto|]. intros [H|H]; auto.
Qed.
Lemma In_pdict_set (d : list (prop * sval)) p v x : In x (dict_set prop_eqb d p v) -> In x d \/ x = (p, v).
Proof.
  induction d as [|[k w] t IH]; simpl.
  - intros [<-|[]]. auto.
  - destruct (prop_eqb p k) eqn:E; simpl; intros [H|H]; auto.
    + apply prop_eqb_true in E. subst. auto.
    + destruct (IH H); auto.
Qed.
Lemma store_value_valid d p v d' : all_valid d -> store_value d p v = inl d' -> all_valid d'.
Proof.
  intros A. unfold store_value. destruct p as [p|]; [|discriminate]. destruct v as [v|].
  - destruct (validate p v) eqn:V; try discriminate. intros [= <-] q w H.
    destruct (In_pdict_set _ _ _ _ H) as [H'|[= -> ->]]; [apply A; exact H'|apply validate_sound; exact V].
  - intros [= <-] q w H. apply A. eapply In_pdict_del; eauto.
Qed.

(* ---- updates of one node that keep links, kind, doc, region and id ---- *)
Section NodeAttr.
  Variables (h : heap) (s : nat) (f : node -> node).
  Hypothesis HW : WF h.
  Hypothesis F_lk : forall n, lk (f n) = lk n.
  Hypothesis F_kind : forall n, n_kind (f n) = n_kind n.
  Hypothesis F_doc : forall n, n_doc (f n) = n_doc n.
  Hypothesis F_region : forall n, n_region (f n) = n_region n.

  Lemma attr_update_WF :
    (WF_regions h -> WF_regions (updn h s f)) -> (WF_values h -> WF_values (updn h s f)) -> WF (updn h s f).
  Proof.
    intros HR HV. pose proof HW as ((C & _) & _ & D & _ & Rg & V).
    apply (WF_struct h); auto; try apply nnodes_updn; try (apply same_updn; assumption).
    - apply (closed_frame h); auto; try apply nnodes_updn; try (apply same_updn; assumption); apply dsame_updn.
    - apply (doc_frame h); auto; try apply nnodes_updn; apply same_updn; assumption.
  Qed.
  Lemma attr_regions_frame : (forall n, n_id (f n) = n_id n) -> WF_regions h -> WF_regions (updn h s f).
  Proof.
    intros F_id. apply regions_frame; try apply nnodes_updn; try reflexivity; try (apply same_updn; assumption). apply dsame_updn.
  Qed.
  Lemma attr_values_frame : (forall n, n_styles (f n) = n_styles n) -> (forall n, n_anims (f n) = n_anims n) ->
    WF_values h -> WF_values (updn h s f).
  Proof.
    intros F1 F2. apply values_frame; try apply nnodes_updn; try reflexivity; try (apply same_updn; assumption). apply dsame_updn.
  Qed.
End NodeAttr.

Lemma values_of h : WF h -> WF_values h. Proof. intros (_ & _ & _ & _ & _ & V). exact V. Qed.
Lemma regions_of h : WF h -> WF_regions h. Proof. intros (_ & _ & _ & _ & R & _). exact R. Qed.

Ltac attr_tac HW :=
  simpl; apply attr_update_WF;
  [exact HW|reflexivity|reflexivity|reflexivity|reflexivity|apply attr_regions_frame; reflexivity|apply attr_values_frame; reflexivity].

Theorem set_begin_WF h s v : WF h -> WF (heap_of (set_begin_m h s v)).
Proof.
  intro HW. unfold set_begin_m. destruct (kind_of h s); first [exact HW | destruct v; exact HW | attr_tac HW].
Qed.
Theorem set_end_WF h s v : WF h -> WF (heap_of (set_end_m h s v)).
Proof.
  intro HW. unfold set_end_m. destruct (kind_of h s); first [exact HW | destruct v; exact HW | attr_tac HW].
Qed.
Theorem set_lang_WF h s v : WF h -> WF (heap_of (set_lang_m h s v)).
Proof.
  intro HW. unfold set_lang_m. destruct (kind_of h s); first [exact HW | destruct v; exact HW | attr_tac HW].
Qed.
Theorem set_space_WF h s v : WF h -> WF (heap_of (set_space_m h s v)).
Proof.
  intro HW. unfold set_space_m. destruct (kind_of h s); first [exact HW | destruct v; exact HW | attr_tac HW].
Qed.

(* set_id never touches a Region, and only Regions are referenced or registered *)
Lemma set_id_regions h s v : s < nnodes h -> n_kind (nd h s) <> KRegion -> WF_regions h -> WF_regions (updn h s (set_id v)).
Proof.
  intros Hs NK (W1 & W2 & W3).
  assert (IDR : forall r, n_kind (nd h r) = KRegion -> n_id (nd (updn h s (set_id v)) r) = n_id (nd h r)).
  { intros r Kr. destruct (Nat.eq_dec s r) as [->|N]; [congruence|]. rewrite nd_updn_other by assumption. reflexivity. }
  split; [|split].
  - intros i r Hi. rewrite nnodes_updn in Hi. rewrite !(proj_updn n_region), !(proj_updn n_kind), !(proj_updn n_doc) by reflexivity.
    intro E. destruct (W1 i r Hi E) as [C (d & id & E1 & E2 & E3)]. split; [exact C|]. exists d, id.
    assert (Hd : d < ndocs h).
    { destruct (lt_dec d (ndocs h)); [assumption|]. exfalso. unfold dc in E3. rewrite nth_overflow in E3 by (unfold ndocs in *; lia). discriminate. }
    destruct (W2 d id r Hd E3) as [Kr _]. rewrite (IDR r Kr). auto.
  - intros d id r Hd. rewrite (proj_updn n_kind) by reflexivity. intro E.
    destruct (W2 d id r Hd E) as [Kr Ir]. rewrite (IDR r Kr). auto.
  - exact W3.
Qed.
Theorem set_id_WF h s v : WF h -> s < nnodes h -> WF (heap_of (set_id_m h s v)).
Proof.
  intros HW Hs. unfold set_id_m, kind_of.
  destruct (n_kind (nd h s)) eqn:K; destruct v;
    first [exact HW
          | destruct (onat_eqb _ _); exact HW
          | simpl; apply attr_update_WF;
            [exact HW|reflexivity|reflexivity|reflexivity|reflexivity
            |apply set_id_regions; [assumption|congruence]|apply attr_values_frame; reflexivity]].
Qed.

Theorem set_style_WF h s p v : WF h -> s < nnodes h -> WF (heap_of (set_style_m h s p v)).
Proof.
  intros HW Hs. unfold set_style_m.
  assert (G : WF (heap_of match store_value (n_styles (nd h s)) p v with inl d => ROk (updn h s (set_styles d)) | inr e => RErr h e end)).
  { destruct (store_value (n_styles (nd h s)) p v) as [d|e] eqn:E; [|exact HW]. simpl.
    apply attr_update_WF; [exact HW|reflexivity|reflexivity|reflexivity|reflexivity|apply attr_regions_frame; reflexivity|].
    intros (V1 & V2). split; [|exact V2]. intros i Hi. rewrite nnodes_updn in Hi.
    rewrite (proj_updn n_anims) by reflexivity. split; [|apply V1; exact Hi].
    destruct (Nat.eq_dec i s) as [->|N]; [|rewrite nd_updn_other by auto; apply V1; exact Hi].
    rewrite nd_updn_same by assumption. simpl. eapply store_value_valid; [|exact E]. apply V1. exact Hs. }
  destruct (kind_of h s); try exact G. destruct (is_some v); exact HW.
Qed.

Theorem add_anim_WF h s p v : WF h -> s < nnodes h -> WF (heap_of (add_anim_m h s p v)).
Proof.
  intros HW Hs. unfold add_anim_m. destruct p as [p|]; [|exact HW]. destruct v as [v|]; [|exact HW].
  destruct (validate p v) eqn:V; try exact HW. simpl.
  apply attr_update_WF; [exact HW|reflexivity|reflexivity|reflexivity|reflexivity|apply attr_regions_frame; reflexivity|].
  intros (V1 & V2). split; [|exact V2]. intros i Hi. rewrite nnodes_updn in Hi.
  rewrite (proj_updn n_styles) by reflexivity. split; [apply V1; exact Hi|].
  destruct (Nat.eq_dec i s) as [->|N]; [|rewrite nd_updn_other by auto; apply V1; exact Hi].
  rewrite nd_updn_same by assumption. simpl. intros q w H. apply in_app_iff in H. destruct H as [H|[[= <- <-]|[]]].
  - apply (proj2 (V1 s Hs)). exact H.
  - apply validate_sound. exact V.
Qed.

(* ---- updates of one document record ---- *)
Lemma doc_update_WF h d f : WF h -> Closed (updd h d f) -> WF_regions (updd h d f) -> WF_values (updd h d f) -> WF (updd h d f).
Proof.
  intros HW C R V. pose proof HW as (_ & _ & D & _).
  apply (WF_struct h); auto; try reflexivity; try apply same_updd.
Qed.

Theorem put_initial_WF h d p v : WF h -> d < ndocs h -> WF (heap_of (put_initial h d p v)).
Proof.
  intros HW Hd. unfold put_initial. destruct (store_value (d_initials (dc h d)) p v) as [x|e] eqn:E; [|exact HW]. simpl.
  pose proof HW as ((C & _) & _ & _ & _ & Rg & (V1 & V2)).
  apply doc_update_WF; auto.
  - apply (closed_frame h); auto; try reflexivity; try apply same_updd; try apply ndocs_updd; apply dsame_updd; reflexivity.
  - apply (regions_frame h); auto; try reflexivity; try apply same_updd; try apply ndocs_updd; apply dsame_updd; reflexivity.
  - split; [exact V1|]. intros d' Hd'. rewrite ndocs_updd in Hd'.
    destruct (Nat.eq_dec d d') as [<-|N]; [|rewrite dc_updd_other by assumption; apply V2; exact Hd'].
    rewrite dc_updd_same by assumption. simpl. eapply store_value_valid; [|exact E]. apply V2. exact Hd.
Qed.

Theorem set_body_WF h d b : WF h -> d < ndocs h -> onode_ok h b = true -> WF (heap_of (set_body_m h d b)).
Proof.
  intros HW Hd Hb. unfold set_body_m.
  assert (G : WF (updd h d (HeapTypes.set_body b))).
  { pose proof HW as ((C & _) & _ & _ & _ & Rg & V).
    apply doc_update_WF; auto.
    - destruct C as [C1 C2]. split; [intros i Hi; unfold dref_ok; rewrite ndocs_updd; apply (C1 i Hi)|]. intros d' Hd'. rewrite ndocs_updd in Hd'.
      destruct (Nat.eq_dec d d') as [<-|N]; [|rewrite dc_updd_other by assumption; apply C2; exact Hd'].
      rewrite dc_updd_same by assumption. simpl. split; [|apply C2; exact Hd].
      unfold ref_ok. destruct b as [bb|]; [|exact I]. simpl in Hb. apply Nat.ltb_lt in Hb. exact Hb.
    - apply (regions_frame h); auto; try reflexivity; try apply same_updd; try apply ndocs_updd; apply dsame_updd; reflexivity.
    - apply (values_frame h); auto; try reflexivity; try apply same_updd; try apply ndocs_updd; apply dsame_updd; reflexivity. }
  destruct b as [bb|]; [|exact G].
  destruct (negb _); [exact HW|]. destruct (is_some _); [exact HW|]. destruct (negb _); [exact HW|exact G].
Qed.

(* ---- set_region ---- *)
Lemma set_region_update_WF h s r : WF h -> s < nnodes h -> onode_ok h r = true ->
  (forall rr, r = Some rr -> region_capable (n_kind (nd h s)) = true /\
     exists d id, n_doc (nd h s) = Some d /\ n_id (nd h rr) = Some id /\ lookup (d_regions (dc h d)) id = Some rr) ->
  WF (updn h s (set_region r)).
Proof.
  intros HW Hs Hr HR. pose proof HW as ((C & _) & _ & D & _ & (W1 & W2 & W3) & V).
  apply (WF_struct h); auto; try apply nnodes_updn; try (apply same_updn; reflexivity).
  - destruct C as [C1 C2]. split; [|intros d0 Hd0; unfold ref_ok; rewrite nnodes_updn; apply (C2 d0 Hd0)]. intros i Hi. rewrite nnodes_updn in Hi.
    destruct (C1 i Hi) as (R1 & R2 & R3 & R4 & R5 & R6 & R7). unfold ref_ok, dref_ok in *.
    rewrite !(proj_updn n_parent), !(proj_updn n_first), !(proj_updn n_last), !(proj_updn n_next), !(proj_updn n_prev),
      !(proj_updn n_doc), nnodes_updn by reflexivity.
    repeat split; auto. destruct (Nat.eq_dec i s) as [->|N]; [|rewrite nd_updn_other by auto; exact R6].
    rewrite nd_updn_same by assumption. simpl. destruct r as [rr|]; [|exact I]. simpl in Hr. apply Nat.ltb_lt. exact Hr.
  - apply (doc_frame h); auto; try apply nnodes_updn; apply same_updn; reflexivity.
  - split; [|split; [|exact W3]].
    + intros i r0 Hi. rewrite nnodes_updn in Hi. rewrite (proj_updn n_kind), (proj_updn n_doc) by reflexivity.
      assert (IDS : forall j, n_id (nd (updn h s (set_region r)) j) = n_id (nd h j)) by (intro; apply (proj_updn n_id); reflexivity).
      destruct (Nat.eq_dec i s) as [->|N].
      * rewrite nd_updn_same by assumption. simpl. intros ->. destruct (HR r0 eq_refl) as [Cp (d & id & E1 & E2 & E3)].
        split; [exact Cp|]. exists d, id. rewrite IDS. auto.
      * rewrite nd_updn_other by auto. intro E. destruct (W1 i r0 Hi E) as [Cp (d & id & E1 & E2 & E3)].
        split; [exact Cp|]. exists d, id. rewrite IDS. auto.
    + intros d id r0 Hd. rewrite (proj_updn n_kind), (proj_updn n_id) by reflexivity. apply W2. exact Hd.
  - apply (values_frame h); auto; try apply nnodes_updn; try (apply same_updn; reflexivity). apply dsame_updn.
Qed.

Theorem set_region_WF h s r : WF h -> s < nnodes h -> onode_ok h r = true ->
  (forall rr, r = Some rr -> t_set_region_by_id h s rr = false) -> WF (heap_of (set_region_m h s r)).
Proof.
  intros HW Hs Hr T. unfold set_region_m.
  assert (G : region_capable (kind_of h s) = true \/ r = None ->
    WF (heap_of match r with
                | None => ROk (updn h s (set_region None))
                | Some rr => match n_doc (nd h s) with
                             | None => RErr h EValue
                             | Some d => if has_region h d (n_id (nd h rr)) then ROk (updn h s (set_region r)) else RErr h EValue
                             end
                end)).
  { intro Cap. destruct r as [rr|].
    - destruct (n_doc (nd h s)) as [d|] eqn:Ed; [|exact HW].
      destruct (has_region h d (n_id (nd h rr))) eqn:Hh; [|exact HW]. simpl.
      apply set_region_update_WF; auto. intros r0 [= <-].
      destruct Cap as [Cap|]; [|discriminate]. split; [exact Cap|].
      unfold has_region in Hh. destruct (n_id (nd h rr)) as [k|] eqn:Ek; [|discriminate].
      apply dict_has_get in Hh. specialize (T rr eq_refl). unfold t_set_region_by_id in T. rewrite Ed, Ek in T.
      exists d, k. repeat split; auto. rewrite <- dict_get_lookup.
      destruct (dict_get Nat.eqb (d_regions (dc h d)) k) as [r0|] eqn:Eg; [|congruence].
      unfold kind_of in *. destruct (n_kind (nd h s)); try discriminate Cap;
        apply negb_false_iff in T; apply Nat.eqb_eq in T; congruence.
    - simpl. apply set_region_update_WF; auto. intros rr [=]. }
  unfold kind_of in *. destruct (n_kind (nd h s)) eqn:K; try (apply G; left; reflexivity).
  - destruct r; simpl; [exact HW|]. apply G. right; reflexivity.
  - exact HW.
  - destruct r; exact HW.
Qed.

(* ---- put_region ---- *)
Theorem put_region_WF h d r : WF h -> d < ndocs h -> r < nnodes h -> t_put_region_replace h d r = false ->
  WF (heap_of (put_region h d r)).
Proof.
  intros HW Hd Hr T. unfold put_region.
  destruct (kind_eqb (kind_of h r) KRegion) eqn:K; [|exact HW]. simpl.
  destruct (onat_eqb (n_doc (nd h r)) (Some d)) eqn:Dd; [|exact HW]. simpl.
  destruct (n_id (nd h r)) as [k|] eqn:Ek; [|exact HW]. simpl.
  apply kind_eqb_true in K. apply onat_eqb_true in Dd.
  pose proof HW as ((C & _) & _ & _ & _ & (W1 & W2 & W3) & V).
  set (f := fun x => set_regions (dict_set Nat.eqb (d_regions x) k r) x).
  assert (REGS : forall d', d_regions (dc (updd h d f) d') = if Nat.eq_dec d d' then dict_set Nat.eqb (d_regions (dc h d)) k r else d_regions (dc h d')).
  { intro d'. destruct (Nat.eq_dec d d') as [<-|N]; [rewrite dc_updd_same by assumption; reflexivity|rewrite dc_updd_other by assumption; reflexivity]. }
  apply doc_update_WF; auto.
  - destruct C as [C1 C2]. split; [intros i Hi; unfold dref_ok; rewrite ndocs_updd; apply (C1 i Hi)|].
    intros d' Hd'. rewrite ndocs_updd in Hd'. rewrite REGS. rewrite (proj_updd d_body) by reflexivity.
    split; [apply C2; exact Hd'|]. destruct (Nat.eq_dec d d') as [<-|N]; [|apply C2; exact Hd'].
    intros id x Hin. destruct (In_dict_set _ _ _ _ Hin) as [H|[= _ ->]]; [eapply C2; eauto|exact Hr].
  - split; [|split].
    + intros i ri Hi E. change (i < nnodes h) in Hi. destruct (W1 i ri Hi E) as [Cp (di & idi & E1 & E2 & E3)].
      split; [exact Cp|]. exists di, idi. repeat split; auto. rewrite REGS.
      destruct (Nat.eq_dec d di) as [<-|N]; [|exact E3]. rewrite lookup_set.
      destruct (Nat.eqb_spec idi k) as [->|N]; [|exact E3]. f_equal.
      destruct (Nat.eq_dec ri r) as [|NE]; [auto|]. exfalso.
      unfold t_put_region_replace in T. rewrite K, Dd, Ek in T.
      rewrite kind_eqb_refl in T. rewrite (proj2 (onat_eqb_true _ _) eq_refl) in T. simpl in T.
      rewrite dict_get_lookup, E3 in T. apply andb_false_iff in T. destruct T as [T|T].
      * apply negb_false_iff in T. apply Nat.eqb_eq in T. congruence.
      * assert (X : existsb (fun i0 => onat_eqb (n_region (nd h i0)) (Some ri) && onat_eqb (n_doc (nd h i0)) (Some d)) (nodes h) = true).
        { apply existsb_exists. exists i. split; [apply in_seq; lia|].
          apply andb_true_iff; split; apply onat_eqb_true; [exact E|exact E1]. }
        congruence.
    + intros d' id x Hd'. rewrite ndocs_updd in Hd'. rewrite REGS.
      destruct (Nat.eq_dec d d') as [<-|N]; [|apply W2; exact Hd'].
      rewrite lookup_set. destruct (Nat.eqb_spec id k) as [->|N]; [|apply W2; exact Hd].
      intros [= <-]. auto.
    + intros d' Hd'. rewrite ndocs_updd in Hd'. rewrite REGS.
      destruct (Nat.eq_dec d d') as [<-|N]; [|apply W3; exact Hd']. apply keys_set. apply W3. exact Hd.
  - apply (values_frame h); auto; try reflexivity; try apply same_updd; try apply ndocs_updd. apply dsame_updd. reflexivity.
Qed.

(* ---- sizes ---- *)
Definition same_size (h h' : heap) : Prop := nnodes h' = nnodes h /\ ndocs h' = ndocs h.
Lemma same_size_refl h : same_size h h. Proof. split; reflexivity. Qed.
Lemma same_size_trans a b c : same_size a b -> same_size b c -> same_size a c.
Proof. intros [A1 A2] [B1 B2]. split; congruence. Qed.
Lemma size_updn h i f : same_size h (updn h i f). Proof. split; [apply nnodes_updn|reflexivity]. Qed.
Lemma size_updd h i f : same_size h (updd h i f). Proof. split; [reflexivity|apply ndocs_updd]. Qed.

Ltac size_tac := repeat first [apply same_size_refl | apply size_updn | apply size_updd
                              | match goal with |- context [match ?x with _ => _ end] => destruct x end].
Lemma set_begin_size h s v : same_size h (heap_of (set_begin_m h s v)). Proof. unfold set_begin_m. size_tac. Qed.
Lemma set_end_size h s v : same_size h (heap_of (set_end_m h s v)). Proof. unfold set_end_m. size_tac. Qed.
Lemma set_lang_size h s v : same_size h (heap_of (set_lang_m h s v)). Proof. unfold set_lang_m. size_tac. Qed.
Lemma set_space_size h s v : same_size h (heap_of (set_space_m h s v)). Proof. unfold set_space_m. size_tac. Qed.
Lemma set_id_size h s v : same_size h (heap_of (set_id_m h s v)). Proof. unfold set_id_m. size_tac. Qed.
Lemma set_style_size h s p v : same_size h (heap_of (set_style_m h s p v)). Proof. unfold set_style_m. size_tac. Qed.
Lemma set_region_size h s r : same_size h (heap_of (set_region_m h s r)). Proof. unfold set_region_m. size_tac. Qed.

(* ---- copy_to ---- *)
Definition WFn (n : nat) (h : heap) : Prop := WF h /\ nnodes h = n.
Lemma copy_styles_WFn n s dst h : dst < n -> WFn n h -> WFn n (heap_of (copy_styles s dst h)).
Proof.
  intros Hd. unfold copy_styles. generalize (n_styles (nd h s)) as l. intro l. revert h.
  induction l as [|[p v] t IH]; intros h P; [exact P|].
  apply heap_of_bind_inv.
  - destruct P as [W N]. split; [apply set_style_WF; [exact W|rewrite N; exact Hd]|].
    destruct (set_style_size h dst (PValid p) (Some v)) as [E _]. congruence.
  - intros h1 _ P1. apply IH. exact P1.
Qed.
Lemma copy_anims_WFn n s dst h : dst < n -> s < n -> WFn n h -> WFn n (heap_of (copy_anims s dst h)).
Proof.
  intros Hd Hs [W N]. unfold copy_anims. destruct (_ && _); [split; assumption|]. simpl.
  split; [|rewrite nnodes_updn; exact N].
  apply attr_update_WF; [exact W|reflexivity|reflexivity|reflexivity|reflexivity|apply attr_regions_frame; reflexivity|].
  intros (V1 & V2). split; [|exact V2]. intros i Hi. rewrite nnodes_updn in Hi.
  rewrite (proj_updn n_styles) by reflexivity. split; [apply V1; exact Hi|].
  destruct (Nat.eq_dec i dst) as [->|NE]; [|rewrite nd_updn_other by auto; apply V1; exact Hi].
  rewrite nd_updn_same by (rewrite N; exact Hd). simpl. intros q w H. apply in_app_iff in H. destruct H as [H|H].
  - apply (proj2 (V1 dst Hi)). exact H.
  - apply (proj2 (V1 s ltac:(rewrite N; exact Hs))). exact H.
Qed.

Theorem copy_to_WF h s dst : WF h -> s < nnodes h -> dst < nnodes h -> WF (heap_of (copy_to h s dst)).
Proof.
  intros HW Hs Hd.
  assert (B : forall n r (f : heap -> res), WFn n (heap_of r) -> (forall h1, WFn n h1 -> WFn n (heap_of (f h1))) -> WFn n (heap_of (r >>= f))).
  { intros n r f H1 H2. apply heap_of_bind_inv; [exact H1|]. intros h1 _ P. apply H2. exact P. }
  assert (Sb : forall n h v, dst < n -> WFn n h -> WFn n (heap_of (set_begin_m h dst v))).
  { intros n h0 v D [W N]. split; [apply set_begin_WF; exact W|]. destruct (set_begin_size h0 dst v). congruence. }
  assert (Se : forall n h v, dst < n -> WFn n h -> WFn n (heap_of (set_end_m h dst v))).
  { intros n h0 v D [W N]. split; [apply set_end_WF; exact W|]. destruct (set_end_size h0 dst v). congruence. }
  assert (Sl : forall n h v, dst < n -> WFn n h -> WFn n (heap_of (set_lang_m h dst v))).
  { intros n h0 v D [W N]. split; [apply set_lang_WF; exact W|]. destruct (set_lang_size h0 dst v). congruence. }
  assert (Ss : forall n h v, dst < n -> WFn n h -> WFn n (heap_of (set_space_m h dst v))).
  { intros n h0 v D [W N]. split; [apply set_space_WF; exact W|]. destruct (set_space_size h0 dst v). congruence. }
  assert (Si : forall n h v, dst < n -> WFn n h -> WFn n (heap_of (set_id_m h dst v))).
  { intros n h0 v D [W N]. split; [apply set_id_WF; [exact W|rewrite N; exact D]|]. destruct (set_id_size h0 dst v). congruence. }
  assert (P0 : WFn (nnodes h) h) by (split; [exact HW|reflexivity]).
  unfold copy_to. destruct (kind_of h s).
  all: try (destruct (Nat.eqb s dst); [exact HW|]).
  all: try (destruct (kind_eqb _ _); exact HW).
  all: refine (proj1 (_ : WFn (nnodes h) _)).
  all: repeat (apply B; [|intros]); try (apply copy_anims_WFn; assumption); try (apply copy_styles_WFn; assumption);
       first [apply Sb | apply Se | apply Sl | apply Ss | apply Si]; assumption.
Qed.

(* ---- remove_region ---- *)
Definition clear_if (id : nat) (h' : heap) (e : nat) : res :=
  match n_region (nd h' e) with
  | None => ROk h'
  | Some r => if onat_eqb (n_id (nd h' r)) (Some id) then set_region_m h' e None else ROk h'
  end.

(* what one clearing step keeps *)
Definition keeps (h h' : heap) : Prop :=
  same_size h h' /\ same n_id h h' /\ same n_doc h h' /\ same n_kind h h' /\ h_docs h' = h_docs h /\
  (forall j, n_region (nd h' j) = n_region (nd h j) \/ n_region (nd h' j) = None).
Lemma keeps_refl h : keeps h h.
Proof. repeat split; auto; intro; auto. Qed.
Lemma keeps_trans a b c : keeps a b -> keeps b c -> keeps a c.
Proof.
  intros (A1 & A2 & A3 & A4 & A5 & A6) (B1 & B2 & B3 & B4 & B5 & B6).
  refine (conj (same_size_trans _ _ _ A1 B1) (conj (same_trans _ _ _ _ A2 B2) (conj (same_trans _ _ _ _ A3 B3)
         (conj (same_trans _ _ _ _ A4 B4) (conj _ _))))); [congruence|].
  intro j. destruct (B6 j) as [E|E]; [rewrite E; apply A6|right; exact E].
Qed.
Lemma set_region_none_keeps h e : keeps h (heap_of (set_region_m h e None)).
Proof.
  unfold set_region_m.
  assert (G : keeps h (updn h e (set_region None))).
  { refine (conj (size_updn _ _ _) (conj _ (conj _ (conj _ (conj eq_refl _))))); try (apply same_updn; reflexivity).
    intro j. destruct (Nat.eq_dec e j) as [<-|N]; [|left; rewrite nd_updn_other by assumption; reflexivity].
    destruct (lt_dec e (nnodes h)); [right; rewrite nd_updn_same by assumption; reflexivity|left; rewrite updn_out by lia; reflexivity]. }
  destruct (kind_of h e); simpl; try exact G; apply keeps_refl.
Qed.
Lemma clear_if_keeps id h e : keeps h (heap_of (clear_if id h e)).
Proof.
  unfold clear_if. destruct (n_region (nd h e)); [|apply keeps_refl].
  destruct (onat_eqb _ _); [apply set_region_none_keeps|apply keeps_refl].
Qed.
Lemma clear_if_WF id h e : WF h -> e < nnodes h -> WF (heap_of (clear_if id h e)).
Proof.
  intros HW He. unfold clear_if. destruct (n_region (nd h e)); [|exact HW].
  destruct (onat_eqb _ _); [|exact HW]. apply set_region_WF; auto. intros rr [=].
Qed.
(* after an accepted clearing step the element no longer references a region with that id *)
Lemma clear_if_cleared id h e h' : WF h -> e < nnodes h -> clear_if id h e = ROk h' ->
  forall r, n_region (nd h' e) = Some r -> n_id (nd h r) <> Some id.
Proof.
  intros HW He. unfold clear_if. destruct (n_region (nd h e)) as [r0|] eqn:E.
  - destruct (onat_eqb (n_id (nd h r0)) (Some id)) eqn:I.
    + pose proof HW as (_ & _ & _ & _ & (W1 & _) & _). destruct (W1 e r0 He E) as [Cp _].
      unfold set_region_m, kind_of. destruct (n_kind (nd h e)); try discriminate Cp; simpl; intros [= <-] r;
        rewrite nd_updn_same by assumption; simpl; discriminate.
    + intros [= <-] r. rewrite E. intros [= <-]. apply onat_eqb_false in I. exact I.
  - intros [= <-] r. rewrite E. discriminate.
Qed.

Lemma clear_loop id : forall l h h1, WF h -> (forall e, In e l -> e < nnodes h) ->
  each (clear_if id) l h = ROk h1 ->
  WF h1 /\ keeps h h1 /\ forall e, In e l -> forall r, n_region (nd h1 e) = Some r -> n_id (nd h r) <> Some id.
Proof.
  induction l as [|x t IH]; intros h h1 HW Hl E; simpl in E.
  - injection E as <-. split; [exact HW|split; [apply keeps_refl|intros e []]].
  - apply bind_ok in E. destruct E as (hx & Ex & E).
    assert (Hx : x < nnodes h) by (apply Hl; left; reflexivity).
    pose proof (clear_if_WF id h x HW Hx) as Wx. pose proof (clear_if_keeps id h x) as Kx. rewrite Ex in Wx, Kx. simpl in Wx, Kx.
    assert (Hl' : forall e, In e t -> e < nnodes hx).
    { intros e He. destruct Kx as ((N & _) & _). rewrite N. apply Hl. right; exact He. }
    destruct (IH hx h1 Wx Hl' E) as (W1 & K1 & C1).
    split; [exact W1|split; [eapply keeps_trans; eauto|]].
    intros e [<-|He] r Er.
    + destruct K1 as (_ & _ & _ & _ & _ & R1). destruct (R1 x) as [R|R]; [|congruence].
      rewrite Er in R. symmetry in R. apply (clear_if_cleared id h x hx HW Hx Ex r R).
    + destruct Kx as (_ & I & _). rewrite <- I. apply (C1 e He r Er).
Qed.

Theorem remove_region_WF h d id : WF h -> d < ndocs h -> t_remove_region_outside_body h d id = false ->
  WF (heap_of (remove_region h d id)).
Proof.
  intros HW Hd T. unfold remove_region.
  destruct (dict_get Nat.eqb (d_regions (dc h d)) id) as [r0|] eqn:G; [|exact HW].
  rewrite dict_get_lookup in G.
  set (l := match d_body (dc h d) with None => [] | Some b => match dfs (S (nnodes h)) h b with Some l => l | None => [] end end).
  (* the loop, as `each clear_if` over the elements under the body *)
  assert (LOOP : forall l0, (forall e, In e l0 -> e < nnodes h) -> l0 = l ->
     WF (heap_of (each (clear_if id) l0 h >>= fun h1 => ROk (updd h1 d (fun x => set_regions (dict_del Nat.eqb (d_regions x) id) x))))).
  { intros l0 Hl0 El. destruct (each (clear_if id) l0 h) as [h1|h1 e] eqn:E.
    - simpl. destruct (clear_loop id l0 h h1 HW Hl0 E) as (W1 & (SZ & KI & KD & KK & KDocs & KR) & CL).
      destruct SZ as [N1 D1].
      assert (Hd1 : d < ndocs h1) by (rewrite D1; exact Hd).
      pose proof W1 as ((C & _) & _ & _ & _ & (R1 & R2 & R3) & V).
      set (f := fun x => set_regions (dict_del Nat.eqb (d_regions x) id) x).
      assert (REGS : forall d', d_regions (dc (updd h1 d f) d') = if Nat.eq_dec d d' then dict_del Nat.eqb (d_regions (dc h1 d)) id else d_regions (dc h1 d')).
      { intro d'. destruct (Nat.eq_dec d d') as [<-|N]; [rewrite dc_updd_same by assumption; reflexivity|rewrite dc_updd_other by assumption; reflexivity]. }
      assert (DC : forall d', dc h1 d' = dc h d') by (intro; unfold dc; rewrite KDocs; reflexivity).
      apply doc_update_WF; auto.
      + destruct C as [C1 C2]. split; [intros i Hi; unfold dref_ok; rewrite ndocs_updd; apply (C1 i Hi)|].
        intros d' Hd'. rewrite ndocs_updd in Hd'. rewrite REGS. rewrite (proj_updd d_body) by reflexivity.
        split; [apply C2; exact Hd'|]. destruct (Nat.eq_dec d d') as [<-|N]; [|apply C2; exact Hd'].
        intros k x Hin. apply (proj2 (C2 d Hd1) k x). clear - Hin.
        induction (d_regions (dc h1 d)) as [|[a b] t IH]; simpl in *; [exact Hin|].
        destruct (Nat.eqb id a); simpl in *; [right; exact Hin|]. destruct Hin as [H|H]; [left; exact H|right; auto].
      + split; [|split].
        * intros i ri Hi E1. change (i < nnodes h1) in Hi. change (n_region (nd h1 i) = Some ri) in E1.
          destruct (R1 i ri Hi E1) as [Cp (di & idi & E2 & E3 & E4)].
          split; [exact Cp|]. exists di, idi. repeat split; auto. rewrite REGS.
          destruct (Nat.eq_dec d di) as [<-|N]; [|exact E4]. rewrite lookup_del by (apply R3; exact Hd1).
          destruct (Nat.eqb_spec idi id) as [->|N]; [|exact E4]. exfalso.
          (* i references the removed region: it was under the body, hence cleared *)
          rewrite DC in E4. assert (ri = r0) by congruence. subst ri.
          assert (Rh : n_region (nd h i) = Some r0) by (destruct (KR i) as [R|R]; congruence).
          assert (Dh : n_doc (nd h i) = Some d) by (rewrite <- KD; exact E2).
          assert (Il : In i l0).
          { rewrite El. unfold t_remove_region_outside_body in T. rewrite dict_get_lookup, G in T. fold l in T.
            destruct (in_dec Nat.eq_dec i l) as [|NI]; [assumption|]. exfalso.
            assert (X : existsb (fun i0 => onat_eqb (n_region (nd h i0)) (Some r0) && onat_eqb (n_doc (nd h i0)) (Some d) && negb (memb i0 l)) (nodes h) = true).
            { apply existsb_exists. exists i. split; [apply in_seq; lia|].
              rewrite (proj2 (onat_eqb_true _ _) Rh), (proj2 (onat_eqb_true _ _) Dh). simpl.
              apply negb_true_iff. destruct (memb i l) eqn:M; [|reflexivity]. apply existsb_eqb_In in M. contradiction. }
            congruence. }
          apply (CL i Il r0 E1). rewrite <- KI. exact E3.
        * intros d' k x Hd'. rewrite ndocs_updd in Hd'. rewrite REGS.
          destruct (Nat.eq_dec d d') as [<-|N]; [|apply R2; exact Hd'].
          rewrite lookup_del by (apply R3; exact Hd1). destruct (Nat.eqb k id); [discriminate|]. apply R2. exact Hd1.
        * intros d' Hd'. rewrite ndocs_updd in Hd'. rewrite REGS.
          destruct (Nat.eq_dec d d') as [<-|N]; [|apply R3; exact Hd']. apply keys_del. apply R3. exact Hd1.
      + apply (values_frame h1); auto; try reflexivity; try apply same_updd; try apply ndocs_updd. apply dsame_updd. reflexivity.
    - simpl.
      assert (ST : forall h0 x, In x l0 -> WF h0 /\ nnodes h0 = nnodes h -> WF (heap_of (clear_if id h0 x)) /\ nnodes (heap_of (clear_if id h0 x)) = nnodes h).
      { intros h0 x Hx (W0 & N0). split; [apply clear_if_WF; [exact W0|rewrite N0; apply Hl0; exact Hx]|].
        destruct (clear_if_keeps id h0 x) as ((N & _) & _). congruence. }
      pose proof (each_inv (fun h0 => WF h0 /\ nnodes h0 = nnodes h) (clear_if id) l0 ST h (conj HW eq_refl)) as P.
      rewrite E in P. exact (proj1 P). }
  destruct (d_body (dc h d)) as [b|] eqn:B.
  - destruct (dfs (S (nnodes h)) h b) as [l'|] eqn:D; [|exact HW].
    change (WF (heap_of (each (clear_if id) l' h >>= fun h1 => ROk (updd h1 d (fun x => set_regions (dict_del Nat.eqb (d_regions x) id) x))))).
    apply LOOP; [|unfold l; reflexivity].
    pose proof HW as ((C & K & _) & _). destruct C as [_ C2]. destruct (C2 d Hd) as [Rb _]. rewrite B in Rb.
    intros e He. eapply (dfs_range h K); [exact Rb|exact D|exact He].
  - change (WF (heap_of (each (clear_if id) [] h >>= fun h1 => ROk (updd h1 d (fun x => set_regions (dict_del Nat.eqb (d_regions x) id) x))))).
    apply LOOP; [intros e []|reflexivity].
Qed.
