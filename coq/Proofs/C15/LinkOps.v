(* C15: ContentElement.push_child / remove_child preserve every clause of WF except the content model
   (which depends on the caller's guards and is handled per operation in Content.v). *)
From Coq Require Import List Arith Bool Lia.
From TT Require Import Base.HeapTypes Model.Heap Spec.ModelWF
  Proofs.C15.HeapLemmas Proofs.C15.Links Proofs.C15.Tree Proofs.C15.Frames.
Import ListNotations.

Definition WFx (h : heap) : Prop :=
  Closed h /\ Kids h /\ Roots h /\ WF_acyclic h /\ WF_doc h /\ WF_regions h /\ WF_values h.
Definition ContentAt (h : heap) (p : nat) : Prop :=
  forall cs, Children h p cs -> allowed (n_kind (nd h p)) (map (fun c => n_kind (nd h c)) cs) = true.
Definition ContentExcept (h : heap) (s : nat) : Prop := forall p, p < nnodes h -> p <> s -> ContentAt h p.

Lemma WF_split h : WF h <-> WFx h /\ forall p, p < nnodes h -> ContentAt h p.
Proof.
  unfold WF, WFx, WF_links, WF_content, ContentAt, Kids, Roots. split.
  - intros ((A & B & C) & D & E & F & G & H).
    split; [exact (conj A (conj B (conj C (conj D (conj E (conj G H))))))|intros p Hp cs Cs; apply F; assumption].
  - intros ((A & B & C & D & E & G & H) & F).
    refine (conj (conj A (conj B C)) (conj D (conj E (conj _ (conj G H))))). intros p cs Hp Cs. apply F; assumption.
Qed.

Lemma dsame_docs {X} (pi : docrec -> X) h h' : h_docs h' = h_docs h -> dsame pi h h'.
Proof. intros E j. unfold dc. rewrite E. reflexivity. Qed.
Lemma ndocs_docs h h' : h_docs h' = h_docs h -> ndocs h' = ndocs h.
Proof. intros E. unfold ndocs. rewrite E. reflexivity. Qed.

Lemma Avoid_ne h c a : Avoid h c a -> a <> c.
Proof. destruct 1; assumption. Qed.

(* content of the other elements is untouched when their child lists and all kinds are *)
Lemma ContentExcept_frame h h' s :
  nnodes h' = nnodes h -> same n_kind h h' -> Kids h ->
  (forall p l, p <> s -> Children h p l -> Children h' p l) ->
  ContentExcept h s -> ContentExcept h' s.
Proof.
  intros HN HK K HC CE p Hp Hps cs C. rewrite HN in Hp.
  destruct (K p Hp) as [l0 C0]. pose proof (HC p l0 Hps C0) as C1.
  rewrite (Children_unique _ _ _ _ C C1). rewrite HK.
  rewrite (map_ext (fun c => n_kind (nd h' c)) (fun c => n_kind (nd h c))) by (intro; apply HK).
  apply (CE p Hp Hps l0 C0).
Qed.

Section Push.
  Variables (h h' : heap) (s c : nat) (cs : list nat).
  Hypothesis HW : WFx h.
  Hypothesis Hs : s < nnodes h.
  Hypothesis Hc : c < nnodes h.
  Hypothesis HC : Children h s cs.
  Hypothesis Hok : ce_push_child h s c = ROk h'.

  Lemma push_facts : h' = push_heap h s c /\ n_parent (nd h c) = None /\ n_doc (nd h c) = n_doc (nd h s) /\ Avoid h c s.
  Proof.
    destruct (ce_push_child_ok _ _ _ _ Hok) as (E1 & E2 & E3 & E4). repeat split; auto.
    eapply anc_walk_avoid. exact E4.
  Qed.
  Lemma push_same {X} (pi : node -> X) :
    (forall v n, pi (set_parent v n) = pi n) -> (forall v n, pi (set_prev v n) = pi n) ->
    (forall v n, pi (set_next v n) = pi n) -> (forall v n, pi (set_first v n) = pi n) ->
    (forall v n, pi (set_last v n) = pi n) -> same pi h h'.
  Proof. intros. destruct push_facts as (-> & _). intro j. apply push_other; auto. Qed.
  Lemma push_size : nnodes h' = nnodes h /\ h_docs h' = h_docs h.
  Proof. destruct push_facts as (-> & _). split; [apply push_nnodes|apply push_docs]. Qed.

  Lemma push_WFx : WFx h'.
  Proof.
    destruct HW as (WC & WK & WR & WA & WD & WRg & WV).
    destruct push_facts as (E & Hroot & Hdoc & Hav). destruct push_size as [HN HD].
    pose proof (Avoid_ne _ _ _ Hav) as Hsc.
    pose proof (push_last_ok h s c cs HC Hroot) as HLok.
    assert (SR : same n_region h h') by (apply push_same; reflexivity).
    assert (SK : same n_kind h h') by (apply push_same; reflexivity).
    assert (SD : same n_doc h h') by (apply push_same; reflexivity).
    assert (SI : same n_id h h') by (apply push_same; reflexivity).
    unfold WFx; refine (conj _ (conj _ (conj _ (conj _ (conj _ (conj _ _)))))).
    - (* Closed *)
      destruct WC as [C1 C2]. split.
      + intros i Hi. rewrite HN in Hi. destruct (C1 i Hi) as (R1 & R2 & R3 & R4 & R5 & R6 & R7).
        destruct (C1 s Hs) as (_ & L2 & L3 & _).
        rewrite SR, SD. subst h'. unfold ref_ok, dref_ok in *.
        rewrite push_parent, push_first, push_last, push_next, push_prev, push_nnodes by assumption.
        rewrite (ndocs_docs _ _ (push_docs h s c)).
        revert L2. destruct (n_first (nd h s)); intro L2;
        destruct (Nat.eq_dec i c); destruct (Nat.eq_dec i s); try (destruct (onat_eq_dec _ _));
          repeat split; auto.
      + intros d Hd. rewrite (ndocs_docs _ _ HD) in Hd. unfold ref_ok, dc. rewrite HD, HN. apply C2. exact Hd.
    - (* Kids *)
      intros p Hp. rewrite HN in Hp. subst h'. destruct (Nat.eq_dec p s) as [->|Np].
      + exists (cs ++ [c]). apply push_Children_self; assumption.
      + destruct (WK p Hp) as [l Cl]. exists l. eapply push_Children_other; eauto.
    - (* Roots *) subst h'. intros x Hx Ex. eapply push_roots; eauto.
    - (* acyclic *)
      intros i Hi. rewrite HN in Hi. subst h'.
      eapply Rooted_set_parent; [intro j; apply push_parent; assumption|exact Hav|apply WA; exact Hi].
    - (* doc *)
      intros c0 p0 Hc0. rewrite HN in Hc0. rewrite !SD. subst h'. rewrite push_parent by assumption.
      destruct (Nat.eq_dec c0 c) as [->|]; [intros [= <-]; exact Hdoc|apply WD; exact Hc0].
    - (* regions *)
      apply (regions_frame h h'); [exact HN|apply ndocs_docs; exact HD|exact SR|exact SK|exact SD|exact SI|apply dsame_docs; exact HD|exact WRg].
    - apply (values_frame h h'); [exact HN|apply ndocs_docs; exact HD|apply push_same; reflexivity|apply push_same; reflexivity|apply dsame_docs; exact HD|exact WV].
  Qed.

  Lemma push_Children' : Children h' s (cs ++ [c]) /\ (forall p l, p <> s -> Children h p l -> Children h' p l).
  Proof.
    destruct push_facts as (E & Hroot & _). subst h'. split.
    - apply push_Children_self; assumption.
    - intros p l Hp Cl. eapply push_Children_other; eauto.
  Qed.
  Lemma push_ContentExcept : ContentExcept h s -> ContentExcept h' s.
  Proof.
    destruct HW as (_ & WK & _). destruct push_size as [HN _].
    apply ContentExcept_frame; auto; [apply push_same; reflexivity|apply push_Children'].
  Qed.
End Push.

Section Remove.
  Variables (h h' : heap) (s c : nat).
  Hypothesis HW : WFx h.
  Hypothesis Hs : s < nnodes h.
  Hypothesis Hok : ce_remove_child h s c = ROk h'.

  Lemma remove_facts : exists a b, Children h s (a ++ c :: b) /\ h' = remove_heap h s c.
  Proof.
    destruct (ce_remove_child_ok _ _ _ _ Hok) as (cs & K & Hin & E).
    destruct HW as (_ & WK & _). destruct (WK s Hs) as [cs' C].
    rewrite (Children_kids _ _ _ C) in K. injection K as ->.
    destruct (in_split _ _ Hin) as (a & b & ->). exists a, b. auto.
  Qed.

  Lemma remove_WFx_Children : WFx h' /\ nnodes h' = nnodes h /\ same n_kind h h' /\
    exists a b, Children h s (a ++ c :: b) /\ Children h' s (a ++ b) /\
                (forall p l, p <> s -> Children h p l -> Children h' p l).
  Proof.
    destruct remove_facts as (a & b & HC & E).
    destruct HW as (WC & WK & WR & WA & WD & WRg & WV).
    pose proof (remove_nnodes h s c a b HC) as HN. pose proof (remove_docs h s c a b HC) as HD.
    assert (SAME : forall {X} (pi : node -> X), (forall v n, pi (set_parent v n) = pi n) -> (forall v n, pi (set_prev v n) = pi n) ->
      (forall v n, pi (set_next v n) = pi n) -> (forall v n, pi (set_first v n) = pi n) ->
      (forall v n, pi (set_last v n) = pi n) -> same pi h h').
    { intros. subst h'. intro j. eapply remove_heap_other; eauto. }
    assert (SR : same n_region h h') by (apply SAME; reflexivity).
    assert (SK : same n_kind h h') by (apply SAME; reflexivity).
    assert (SD : same n_doc h h') by (apply SAME; reflexivity).
    assert (SI : same n_id h h') by (apply SAME; reflexivity).
    rewrite <- E in HN, HD.
    split; [|split; [exact HN|split; [exact SK|exists a, b; subst h'; split; [exact HC|split;
       [apply remove_Children_self; assumption|intros; eapply remove_Children_other; eauto]]]]].
    unfold WFx; refine (conj _ (conj _ (conj _ (conj _ (conj _ (conj _ _)))))).
    - (* Closed *)
      destruct WC as [C1 C2]. split.
      + intros i Hi. rewrite HN in Hi. destruct (C1 i Hi) as (R1 & R2 & R3 & R4 & R5 & R6 & R7).
        destruct (rm_seg h s c a b HC) as (_ & Rc & _ & Ep & En & _).
        destruct (C1 c Rc) as (_ & _ & _ & Q4 & Q5 & _). rewrite Ep in Q5. rewrite En in Q4.
        destruct (C1 s Hs) as (_ & S2 & S3 & _).
        rewrite SR, SD. subst h'. unfold ref_ok, dref_ok in *.
        rewrite (remove_heap_rh5 h s c a b HC) in *.
        rewrite remove_parent, remove_first, remove_last by assumption.
        rewrite remove_next by (try assumption; apply (rm_pv h s c a b HC)).
        rewrite remove_prev by (try assumption; apply (rm_nx h s c a b HC)). rewrite rN5.
        rewrite (ndocs_docs _ _ HD).
        destruct (Nat.eq_dec i c); destruct (Nat.eq_dec i s);
          try (destruct (onat_eq_dec (Some i) (last_or a None))); try (destruct (onat_eq_dec (Some i) (hd_or b None)));
          try (destruct (onat_eqb (hd_error (a ++ c :: b)) (Some c))); try (destruct (onat_eqb (last_error (a ++ c :: b)) (Some c)));
          subst; repeat split; auto.
      + intros d Hd. rewrite (ndocs_docs _ _ HD) in Hd. unfold ref_ok, dc. rewrite HD, HN. apply C2. exact Hd.
    - intros p Hp. rewrite HN in Hp. subst h'. destruct (Nat.eq_dec p s) as [->|Np].
      + exists (a ++ b). apply remove_Children_self; assumption.
      + destruct (WK p Hp) as [l Cl]. exists l. eapply remove_Children_other; eauto.
    - subst h'. intros x Hx Ex. eapply remove_roots; eauto.
    - intros i Hi. rewrite HN in Hi. subst h'.
      eapply Rooted_clear_parent; [intro j; eapply remove_heap_parent; eauto|apply WA; exact Hi].
    - intros c0 p0 Hc0. rewrite HN in Hc0. rewrite !SD. subst h'. rewrite (remove_heap_parent h s c a b HC).
      destruct (Nat.eq_dec c0 c); [discriminate|apply WD; exact Hc0].
    - apply (regions_frame h h'); [exact HN|apply ndocs_docs; exact HD|exact SR|exact SK|exact SD|exact SI|apply dsame_docs; exact HD|exact WRg].
    - apply (values_frame h h'); [exact HN|apply ndocs_docs; exact HD|apply SAME; reflexivity|apply SAME; reflexivity|apply dsame_docs; exact HD|exact WV].
  Qed.
End Remove.
