(* C15: basic facts about heap access and update, the result monad and loops. *)
From Coq Require Import List Arith Bool Lia.
From TT Require Import Base.HeapTypes Model.Heap.
Import ListNotations.

(* ---- upd / nth ---- *)
Lemma upd_length {A} (l : list A) i f : length (upd l i f) = length l.
Proof. revert i; induction l as [|x t IH]; intros [|i]; simpl; auto. Qed.

Lemma nth_upd_same {A} (l : list A) i f d : i < length l -> nth i (upd l i f) d = f (nth i l d).
Proof. revert i; induction l as [|x t IH]; intros [|i] H; simpl in *; try lia; auto. apply IH; lia. Qed.

Lemma nth_upd_other {A} (l : list A) i j f d : i <> j -> nth j (upd l i f) d = nth j l d.
Proof. revert i j; induction l as [|x t IH]; intros [|i] [|j] H; simpl; auto; try congruence. Qed.

Lemma upd_out {A} (l : list A) i f : length l <= i -> upd l i f = l.
Proof. revert i; induction l as [|x t IH]; intros [|i] H; simpl in *; auto; try lia. f_equal; apply IH; lia. Qed.

(* ---- nodes ---- *)
Lemma nnodes_updn h i f : nnodes (updn h i f) = nnodes h.
Proof. unfold nnodes, updn; simpl. apply upd_length. Qed.
Lemma ndocs_updn h i f : ndocs (updn h i f) = ndocs h.
Proof. reflexivity. Qed.
Lemma nnodes_updd h i f : nnodes (updd h i f) = nnodes h.
Proof. reflexivity. Qed.
Lemma ndocs_updd h i f : ndocs (updd h i f) = ndocs h.
Proof. unfold ndocs, updd; simpl. apply upd_length. Qed.
Lemma docs_updn h i f : h_docs (updn h i f) = h_docs h.
Proof. reflexivity. Qed.
Lemma dc_updn h i f d : dc (updn h i f) d = dc h d.
Proof. reflexivity. Qed.
Lemma nd_updd h i f j : nd (updd h i f) j = nd h j.
Proof. reflexivity. Qed.

Lemma nd_updn_same h i f : i < nnodes h -> nd (updn h i f) i = f (nd h i).
Proof. intro H. unfold nd, updn; simpl. apply nth_upd_same. exact H. Qed.
Lemma nd_updn_other h i j f : i <> j -> nd (updn h i f) j = nd h j.
Proof. intro H. unfold nd, updn; simpl. apply nth_upd_other. exact H. Qed.
Lemma updn_out h i f : nnodes h <= i -> updn h i f = h.
Proof. intro H. unfold updn. rewrite upd_out by exact H. destruct h; reflexivity. Qed.

Lemma dc_updd_same h i f : i < ndocs h -> dc (updd h i f) i = f (dc h i).
Proof. intro H. unfold dc, updd; simpl. apply nth_upd_same. exact H. Qed.
Lemma dc_updd_other h i j f : i <> j -> dc (updd h i f) j = dc h j.
Proof. intro H. unfold dc, updd; simpl. apply nth_upd_other. exact H. Qed.

(* a projection that the update function leaves alone is unchanged everywhere *)
Lemma proj_updn {X} (pi : node -> X) h i f j : (forall n, pi (f n) = pi n) -> pi (nd (updn h i f) j) = pi (nd h j).
Proof.
  intro H. destruct (Nat.eq_dec i j) as [->|N].
  - destruct (lt_dec j (nnodes h)).
    + rewrite nd_updn_same by assumption. apply H.
    + rewrite updn_out by lia. reflexivity.
  - rewrite nd_updn_other by assumption. reflexivity.
Qed.
Lemma proj_updd {X} (pi : docrec -> X) h i f j : (forall n, pi (f n) = pi n) -> pi (dc (updd h i f) j) = pi (dc h j).
Proof.
  intro H. destruct (Nat.eq_dec i j) as [->|N].
  - destruct (lt_dec j (ndocs h)).
    + rewrite dc_updd_same by assumption. apply H.
    + unfold updd. rewrite upd_out by (unfold ndocs in *; lia). reflexivity.
  - rewrite dc_updd_other by assumption. reflexivity.
Qed.

(* value of a projection after an update, by cases *)
Lemma nd_updn_cases {X} (pi : node -> X) h i f j :
  i < nnodes h -> pi (nd (updn h i f) j) = if Nat.eq_dec j i then pi (f (nd h i)) else pi (nd h j).
Proof.
  intro H. destruct (Nat.eq_dec j i) as [->|N].
  - rewrite nd_updn_same by assumption. reflexivity.
  - rewrite nd_updn_other by auto. reflexivity.
Qed.

(* ---- boolean helpers ---- *)
Lemma onat_eqb_true a b : onat_eqb a b = true <-> a = b.
Proof. unfold onat_eqb. destruct (onat_eq_dec a b); split; intros; congruence. Qed.
Lemma onat_eqb_false a b : onat_eqb a b = false <-> a <> b.
Proof. unfold onat_eqb. destruct (onat_eq_dec a b); split; intros; congruence. Qed.
Lemma kind_eqb_true a b : kind_eqb a b = true <-> a = b.
Proof. unfold kind_eqb. destruct (kind_eq_dec a b); split; intros; congruence. Qed.
Lemma kind_eqb_refl a : kind_eqb a a = true.
Proof. apply kind_eqb_true. reflexivity. Qed.
Lemma prop_eqb_true a b : prop_eqb a b = true <-> a = b.
Proof. unfold prop_eqb. destruct (prop_eq_dec a b); split; intros; congruence. Qed.
Lemma is_some_false {A} (o : option A) : is_some o = false <-> o = None.
Proof. destruct o; simpl; split; intros; congruence. Qed.
Lemma is_some_true {A} (o : option A) : is_some o = true <-> o <> None.
Proof. destruct o; simpl; split; intros; congruence. Qed.
Lemma existsb_eqb_In x l : existsb (Nat.eqb x) l = true <-> In x l.
Proof.
  rewrite existsb_exists. split.
  - intros [y [H1 H2]]. apply Nat.eqb_eq in H2. subst. exact H1.
  - intro H. exists x. split; [exact H|apply Nat.eqb_refl].
Qed.

(* ---- the result monad ---- *)
Lemma bind_ok r f h' : r >>= f = ROk h' -> exists h1, r = ROk h1 /\ f h1 = ROk h'.
Proof. destruct r; simpl; intro H; [eauto|discriminate]. Qed.

(* a relation between the heap before and the heap after (whether the operation returned or raised)
   that is reflexive and transitive is preserved by loops *)
Section Loops.
  Variable R : heap -> heap -> Prop.
  Hypothesis R_refl : forall h, R h h.
  Hypothesis R_trans : forall a b c, R a b -> R b c -> R a c.

  Lemma bind_rel r f h : R h (heap_of r) -> (forall h1, r = ROk h1 -> R h1 (heap_of (f h1))) -> R h (heap_of (r >>= f)).
  Proof. destruct r; simpl; intros H1 H2; [eapply R_trans; [exact H1|apply H2; reflexivity]|exact H1]. Qed.

  Lemma each_rel (f : heap -> nat -> res) l :
    (forall h x, In x l -> R h (heap_of (f h x))) -> forall h, R h (heap_of (each f l h)).
  Proof.
    induction l as [|x t IH]; intros Hf h; simpl; [apply R_refl|].
    apply bind_rel; [apply Hf; left; reflexivity|].
    intros h1 _. apply IH. intros; apply Hf; right; assumption.
  Qed.
End Loops.

(* invariants: P holds after each iteration if it holds before *)
Lemma each_inv (P : heap -> Prop) (f : heap -> nat -> res) l :
  (forall h x, In x l -> P h -> P (heap_of (f h x))) -> forall h, P h -> P (heap_of (each f l h)).
Proof.
  induction l as [|x t IH]; intros Hf h Hp; simpl; [exact Hp|].
  pose proof (Hf h x (or_introl eq_refl) Hp) as H1.
  destruct (f h x) as [h1|h1 e]; simpl in *; [|exact H1].
  apply IH; [intros; apply Hf; [right|]; assumption|exact H1].
Qed.

Lemma heap_of_bind_inv (P : heap -> Prop) r f :
  P (heap_of r) -> (forall h1, r = ROk h1 -> P h1 -> P (heap_of (f h1))) -> P (heap_of (r >>= f)).
Proof. destruct r; simpl; intros H1 H2; [apply H2; auto|exact H1]. Qed.
