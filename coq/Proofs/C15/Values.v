(* C15, value layer: whatever StyleProperties.<P>.validate (as transcribed) accepts is a value of the
   property's documented type, and every operation only stores validated values. *)
From Coq Require Import List Arith Bool.
From TT Require Import Base.HeapTypes Model.Heap Spec.ModelWF.
Import ListNotations.

Lemma forallb_item l : forallb item_ok l = forallb family_item l.
Proof. induction l as [|[] l IH]; simpl; congruence. Qed.

Lemma validate_sound p v : validate p v = VTrue -> spec_valid p v = true.
Proof.
  unfold spec_valid.
  destruct p; destruct v; cbn; try discriminate; try reflexivity;
    try (destruct e; cbn; try discriminate; reflexivity);
    try (destruct s; cbn; try discriminate; reflexivity);
    try (destruct u; cbn; try discriminate; reflexivity).
  - destruct w as [[]|], h as [[]|]; cbn; try discriminate; reflexivity.
  - rewrite forallb_item. destruct (forallb family_item l); [reflexivity|discriminate].
  - destruct x as [[]|], y as [[]|]; cbn; try discriminate; reflexivity.
  - destruct h as [[]|], v as [[]|]; cbn; try discriminate; reflexivity.
Qed.

(* ... and conversely: validate accepts every value of the property's documented type *)
Lemma validate_complete p v : spec_valid p v = true -> validate p v = VTrue.
Proof.
  unfold spec_valid.
  destruct p; destruct v; cbn; try discriminate; try reflexivity;
    try (destruct e; cbn; try discriminate; reflexivity);
    try (destruct s; cbn; try discriminate; reflexivity);
    try (destruct u; cbn; try discriminate; reflexivity).
  - destruct w as [[]|], h as [[]|]; cbn; try discriminate; reflexivity.
  - rewrite <- forallb_item. intros ->. reflexivity.
  - destruct x as [[]|], y as [[]|]; cbn; try discriminate; reflexivity.
  - destruct h as [[]|], v as [[]|]; cbn; try discriminate; reflexivity.
Qed.
Lemma validate_iff p v : validate p v = VTrue <-> spec_valid p v = true.
Proof. split; [apply validate_sound|apply validate_complete]. Qed.
