(* C15: frame lemmas.  Each clause of WF reads a few fields only; an operation that leaves those
   fields alone preserves the clause. *)
From Coq Require Import List Arith Bool Lia.
From TT Require Import Base.HeapTypes Model.Heap Spec.ModelWF Proofs.C15.HeapLemmas Proofs.C15.Links Proofs.C15.Tree.
Import ListNotations.

Definition same {X} (pi : node -> X) (h h' : heap) : Prop := forall j, pi (nd h' j) = pi (nd h j).
Definition dsame {X} (pi : docrec -> X) (h h' : heap) : Prop := forall j, pi (dc h' j) = pi (dc h j).
Definition lk (n : node) := (n_parent n, n_first n, n_last n, n_next n, n_prev n).

Lemma same_refl {X} (pi : node -> X) h : same pi h h.
Proof. intro; reflexivity. Qed.
Lemma same_trans {X} (pi : node -> X) a b c : same pi a b -> same pi b c -> same pi a c.
Proof. intros H1 H2 j. rewrite H2. apply H1. Qed.
Lemma dsame_refl {X} (pi : docrec -> X) h : dsame pi h h.
Proof. intro; reflexivity. Qed.
Lemma dsame_trans {X} (pi : docrec -> X) a b c : dsame pi a b -> dsame pi b c -> dsame pi a c.
Proof. intros H1 H2 j. rewrite H2. apply H1. Qed.
Lemma same_comp {X Y} (pi : node -> X) (g : X -> Y) h h' : same pi h h' -> same (fun n => g (pi n)) h h'.
Proof. intros H j. simpl. rewrite H. reflexivity. Qed.
Lemma same_updn {X} (pi : node -> X) h i f : (forall n, pi (f n) = pi n) -> same pi h (updn h i f).
Proof. intros H j. apply proj_updn. exact H. Qed.
Lemma same_updd {X} (pi : node -> X) h i f : same pi h (updd h i f).
Proof. intro; reflexivity. Qed.
Lemma dsame_updn {X} (pi : docrec -> X) h i f : dsame pi h (updn h i f).
Proof. intro; reflexivity. Qed.
Lemma dsame_updd {X} (pi : docrec -> X) h i f : (forall n, pi (f n) = pi n) -> dsame pi h (updd h i f).
Proof. intros H j. apply proj_updd. exact H. Qed.

Lemma lk_parent h h' : same lk h h' -> same n_parent h h'.
Proof. intros H j. specialize (H j). unfold lk in H. congruence. Qed.
Lemma lk_first h h' : same lk h h' -> same n_first h h'.
Proof. intros H j. specialize (H j). unfold lk in H. congruence. Qed.
Lemma lk_last h h' : same lk h h' -> same n_last h h'.
Proof. intros H j. specialize (H j). unfold lk in H. congruence. Qed.
Lemma lk_next h h' : same lk h h' -> same n_next h h'.
Proof. intros H j. specialize (H j). unfold lk in H. congruence. Qed.
Lemma lk_prev h h' : same lk h h' -> same n_prev h h'.
Proof. intros H j. specialize (H j). unfold lk in H. congruence. Qed.

(* ---- the clauses of WF, split ---- *)
Definition Kids (h : heap) : Prop := forall p, p < nnodes h -> exists cs, Children h p cs.
Definition Roots (h : heap) : Prop :=
  forall c, c < nnodes h -> n_parent (nd h c) = None -> n_next (nd h c) = None /\ n_prev (nd h c) = None.

Lemma Chain_frame h h' p cs : nnodes h' = nnodes h -> same lk h h' -> forall pv, Chain h p pv cs -> Chain h' p pv cs.
Proof.
  intros HN HS. induction cs as [|c t IH]; intros pv H; simpl in *; [exact I|].
  rewrite HN, (lk_parent h h' HS), (lk_prev h h' HS), (lk_next h h' HS). destruct H as (?&?&?&?&?). repeat split; auto.
Qed.
Lemma Children_frame h h' p cs : nnodes h' = nnodes h -> same lk h h' -> Children h p cs -> Children h' p cs.
Proof.
  intros HN HS (H1 & H2 & H3 & H4 & H5). unfold Children.
  rewrite (lk_first h h' HS), (lk_last h h' HS), HN. repeat split; auto.
  - apply (Chain_frame h h'); assumption.
  - intros c Hc. rewrite (lk_parent h h' HS). auto.
Qed.
Lemma same_sym {X} (pi : node -> X) h h' : same pi h h' -> same pi h' h.
Proof. intros H j. symmetry. apply H. Qed.

Section StructFrame.
  Variables h h' : heap.
  Hypothesis HN : nnodes h' = nnodes h.
  Hypothesis HL : same lk h h'.

  Lemma Kids_frame : Kids h -> Kids h'.
  Proof. intros K p Hp. rewrite HN in Hp. destruct (K p Hp) as [cs C]. exists cs. apply (Children_frame h h'); assumption. Qed.
  Lemma Roots_frame : Roots h -> Roots h'.
  Proof.
    intros R c Hc. rewrite HN in Hc. rewrite (lk_parent h h' HL), (lk_next h h' HL), (lk_prev h h' HL). auto.
  Qed.
  Lemma acyclic_frame : WF_acyclic h -> WF_acyclic h'.
  Proof. intros A i Hi. rewrite HN in Hi. eapply Rooted_frame; [apply (lk_parent h h' HL)|auto]. Qed.
  Lemma doc_frame : same n_doc h h' -> WF_doc h -> WF_doc h'.
  Proof.
    intros HD W c p Hc. rewrite HN in Hc. rewrite (lk_parent h h' HL), !HD. auto.
  Qed.
  Lemma content_frame : same n_kind h h' -> WF_content h -> WF_content h'.
  Proof.
    intros HK W p cs Hp C. rewrite HN in Hp. rewrite HK.
    assert (E : map (fun c => n_kind (nd h' c)) cs = map (fun c => n_kind (nd h c)) cs).
    { apply map_ext. intro; apply HK. }
    rewrite E. apply W; [exact Hp|].
    apply (Children_frame h' h); [symmetry; exact HN|apply same_sym; exact HL|exact C].
  Qed.
End StructFrame.

Lemma regions_frame h h' : nnodes h' = nnodes h -> ndocs h' = ndocs h ->
  same n_region h h' -> same n_kind h h' -> same n_doc h h' -> same n_id h h' -> dsame d_regions h h' ->
  WF_regions h -> WF_regions h'.
Proof.
  intros HN HD S1 S2 S3 S4 S5 (W1 & W2 & W3). split; [|split].
  - intros i r Hi. rewrite HN in Hi. rewrite S1, S2, S3. intro E. destruct (W1 i r Hi E) as [C (d & id & E1 & E2 & E3)].
    split; [exact C|]. exists d, id. rewrite S4, S5. auto.
  - intros d id r Hd. rewrite HD in Hd. rewrite S5, S2, S4. apply W2. exact Hd.
  - intros d Hd. rewrite HD in Hd. rewrite S5. apply W3. exact Hd.
Qed.
Lemma values_frame h h' : nnodes h' = nnodes h -> ndocs h' = ndocs h ->
  same n_styles h h' -> same n_anims h h' -> dsame d_initials h h' -> WF_values h -> WF_values h'.
Proof.
  intros HN HD S1 S2 S3 [W1 W2]. split.
  - intros i Hi. rewrite HN in Hi. rewrite S1, S2. auto.
  - intros d Hd. rewrite HD in Hd. rewrite S3. auto.
Qed.
Lemma closed_frame h h' : nnodes h' = nnodes h -> ndocs h' = ndocs h ->
  same lk h h' -> same n_region h h' -> same n_doc h h' -> dsame d_body h h' -> dsame d_regions h h' ->
  Closed h -> Closed h'.
Proof.
  intros HN HD SL S1 S2 S3 S4 [C1 C2]. split.
  - intros i Hi. rewrite HN in Hi. unfold ref_ok, dref_ok.
    rewrite (lk_parent h h' SL), (lk_first h h' SL), (lk_last h h' SL), (lk_next h h' SL), (lk_prev h h' SL), S1, S2, HN, HD.
    apply C1. exact Hi.
  - intros d Hd. rewrite HD in Hd. unfold ref_ok. rewrite S3, S4, HN. apply C2. exact Hd.
Qed.
