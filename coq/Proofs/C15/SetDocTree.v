(* C15: set_doc(doc) on a whole detached tree.  The recursion attaches exactly the elements that
   dfs_iterator enumerates; after the initial check none of the nested checks can fail, because the
   subtrees of distinct children are disjoint (single parent + acyclic). *)
From Coq Require Import List Arith Bool Lia.
From TT Require Import Base.HeapTypes Model.Heap Model.HeapTriggers Spec.ModelWF
  Proofs.C15.HeapLemmas Proofs.C15.Links Proofs.C15.Tree Proofs.C15.Frames Proofs.C15.LinkOps Proofs.C15.Values
  Proofs.C15.Dfs Proofs.C15.AttrCalls Proofs.C15.LinkCalls Proofs.C15.SetDoc.
Import ListNotations.

(* ---- ancestors ---- *)
Lemma parent_in_range h c p : n_parent (nd h c) = Some p -> c < nnodes h.
Proof.
  intro E. destruct (lt_dec c (nnodes h)); [assumption|]. exfalso.
  unfold nd in E. rewrite nth_overflow in E by (unfold nnodes in *; lia). discriminate.
Qed.
Lemma up_snoc h a b c : up h a b -> n_parent (nd h b) = Some c -> up h a c.
Proof.
  induction 1 as [a b E|a b c0 E U IH]; intro E1.
  - eapply up_step; [exact E|constructor; exact E1].
  - eapply up_step; [exact E|apply IH; exact E1].
Qed.
Lemma up_first h a b q : up h a b -> n_parent (nd h a) = Some q -> q = b \/ up h q b.
Proof. destruct 1 as [a b E|a b c E U]; intro Eq; rewrite Eq in E; injection E as ->; auto. Qed.
Lemma up_trans h a b c : up h a b -> up h b c -> up h a c.
Proof. induction 1; intros; [eapply up_step; eauto|eapply up_step; eauto]. Qed.
Lemma up_linear h x a b : up h x a -> up h x b -> a = b \/ up h a b \/ up h b a.
Proof.
  intro Ua. revert b. induction Ua as [x a E|x p a E Ua IH]; intros b Ub.
  - destruct (up_first _ _ _ _ Ub E) as [->|U]; [left; reflexivity|right; left; exact U].
  - destruct (up_first _ _ _ _ Ub E) as [->|U]; [right; right; exact Ua|apply IH; exact U].
Qed.

Definition sub (h : heap) (x s : nat) : Prop := x = s \/ up h x s.

Section TreeFacts.
  Variable h : heap.
  Hypothesis HA : WF_acyclic h.

  Lemma no_self_up x : ~ up h x x.
  Proof.
    intro U. assert (Hx : x < nnodes h) by (inversion U; subst; eapply parent_in_range; eauto).
    exact (Rooted_no_cycle h x (HA x Hx) U).
  Qed.
  Lemma parent_not_sub c s : n_parent (nd h c) = Some s -> ~ sub h s c.
  Proof.
    intros E [->|U]; [apply (no_self_up c); constructor; exact E|].
    apply (no_self_up c). eapply up_step; [exact E|exact U].
  Qed.
  Lemma siblings_disjoint x c c' s : n_parent (nd h c) = Some s -> n_parent (nd h c') = Some s -> c <> c' ->
    sub h x c -> sub h x c' -> False.
  Proof.
    intros E E' N S S'.
    assert (G : forall a b, n_parent (nd h a) = Some s -> n_parent (nd h b) = Some s -> up h a b -> False).
    { intros a b Ea Eb U. destruct (up_first _ _ _ _ U Ea) as [->|U2].
      - apply (no_self_up b). constructor. exact Eb.
      - apply (no_self_up b). eapply up_step; [exact Eb|exact U2]. }
    destruct S as [->|U], S' as [->|U'].
    - congruence.
    - eapply G; [exact E|exact E'|exact U'].
    - eapply G; [exact E'|exact E|exact U].
    - destruct (up_linear _ _ _ _ U U') as [?|[U2|U2]]; [congruence|eapply G; [exact E|exact E'|exact U2]|eapply G; [exact E'|exact E|exact U2]].
  Qed.
End TreeFacts.

(* ---- list(self) and dfs_iterator only read the links ---- *)
Lemma walk_frame h h' : same lk h h' -> forall fuel cur, walk h' fuel cur = walk h fuel cur.
Proof.
  intros S. induction fuel as [|k IH]; intros [c|]; simpl; try reflexivity.
  rewrite (lk_next h h' S), IH. reflexivity.
Qed.
Lemma kids_frame h h' : nnodes h' = nnodes h -> same lk h h' -> forall s, kids h' s = kids h s.
Proof. intros N S s. unfold kids. rewrite N, (lk_first h h' S). apply walk_frame. exact S. Qed.
Lemma dfs_list_ext (f g : nat -> option (list nat)) cs : (forall c, In c cs -> f c = g c) -> dfs_list f cs = dfs_list g cs.
Proof.
  induction cs as [|c t IH]; intro E; simpl; [reflexivity|].
  rewrite (E c (or_introl eq_refl)), IH; [reflexivity|]. intros; apply E; right; assumption.
Qed.
Lemma dfs_frame h h' : nnodes h' = nnodes h -> same lk h h' -> forall fuel s, dfs fuel h' s = dfs fuel h s.
Proof.
  intros N S. induction fuel as [|k IH]; intro s; [reflexivity|].
  rewrite !dfs_S, (kids_frame h h' N S). destruct (kids h s) as [cs|]; [|reflexivity].
  rewrite (dfs_list_ext (dfs k h') (dfs k h) cs); [reflexivity|]. intros; apply IH.
Qed.

(* ---- what dfs enumerates ---- *)
Lemma dfs_list_In (f : nat -> option (list nat)) cs l : dfs_list f cs = Some l ->
  forall x, In x l <-> exists c lc, In c cs /\ f c = Some lc /\ In x lc.
Proof.
  revert l. induction cs as [|c t IH]; intros l E x; simpl in E.
  - injection E as <-. split; [intros []|intros (c & lc & [] & _)].
  - destruct (f c) as [a|] eqn:Ea; [|discriminate]. destruct (dfs_list f t) as [b|] eqn:Eb; [|discriminate].
    injection E as <-. rewrite in_app_iff, (IH b eq_refl x). split.
    + intros [H|(c' & lc & H1 & H2 & H3)]; [exists c, a; repeat split; [left; reflexivity|exact Ea|exact H]|exists c', lc; repeat split; [right; exact H1|exact H2|exact H3]].
    + intros (c' & lc & [<-|H1] & H2 & H3); [left; congruence|right; exists c', lc; repeat split; assumption].
Qed.
Lemma dfs_list_each (f : nat -> option (list nat)) cs l : dfs_list f cs = Some l -> forall c, In c cs -> exists lc, f c = Some lc.
Proof.
  revert l. induction cs as [|c t IH]; intros l E c0 Hc; [destruct Hc|]. simpl in E.
  destruct (f c) as [a|] eqn:Ea; [|discriminate]. destruct (dfs_list f t) as [b|] eqn:Eb; [|discriminate].
  destruct Hc as [<-|Hc]; [eauto|eapply IH; eauto].
Qed.

Section DfsFacts.
  Variable h : heap.
  Hypothesis HK : Kids h.

  Lemma dfs_sound : forall fuel s l, s < nnodes h -> dfs fuel h s = Some l -> forall x, In x l -> sub h x s.
  Proof.
    induction fuel as [|k IH]; intros s l Hs E x Hx; [discriminate|].
    rewrite dfs_S in E. destruct (HK s Hs) as [cs C]. rewrite (Children_kids _ _ _ C) in E.
    destruct (dfs_list (dfs k h) cs) as [l'|] eqn:El; [|discriminate]. injection E as <-.
    destruct Hx as [<-|Hx]; [left; reflexivity|].
    apply (dfs_list_In _ _ _ El) in Hx. destruct Hx as (c & lc & Hc & Ec & Hxc).
    destruct (Children_member _ _ _ _ C Hc) as [Rc Pc].
    right. destruct (IH c lc Rc Ec x Hxc) as [->|U]; [constructor; exact Pc|eapply up_snoc; eauto].
  Qed.
  (* every enumerated element other than the root has its parent enumerated *)
  Lemma dfs_parent_closed : forall fuel s l, s < nnodes h -> dfs fuel h s = Some l ->
    In s l /\ forall x, In x l -> x = s \/ exists p, n_parent (nd h x) = Some p /\ In p l.
  Proof.
    induction fuel as [|k IH]; intros s l Hs E; [discriminate|].
    rewrite dfs_S in E. destruct (HK s Hs) as [cs C]. rewrite (Children_kids _ _ _ C) in E.
    destruct (dfs_list (dfs k h) cs) as [l'|] eqn:El; [|discriminate]. injection E as <-.
    split; [left; reflexivity|]. intros x [<-|Hx]; [left; reflexivity|]. right.
    apply (dfs_list_In _ _ _ El) in Hx. destruct Hx as (c & lc & Hc & Ec & Hxc).
    destruct (Children_member _ _ _ _ C Hc) as [Rc Pc].
    destruct (IH c lc Rc Ec) as [_ Cl]. destruct (Cl x Hxc) as [->|(p & Ep & Hp)].
    - exists s. split; [exact Pc|left; reflexivity].
    - exists p. split; [exact Ep|]. right. apply (dfs_list_In _ _ _ El). exists c, lc. auto.
  Qed.
  (* the children of an enumerated element are enumerated *)
  Lemma dfs_child_closed : forall fuel s l, s < nnodes h -> dfs fuel h s = Some l ->
    forall p c, In p l -> n_parent (nd h c) = Some p -> In c l.
  Proof.
    induction fuel as [|k IH]; intros s l Hs E p c Hp Ec; [discriminate|].
    rewrite dfs_S in E. destruct (HK s Hs) as [cs C]. rewrite (Children_kids _ _ _ C) in E.
    destruct (dfs_list (dfs k h) cs) as [l'|] eqn:El; [|discriminate]. injection E as <-.
    destruct Hp as [<-|Hp].
    - right. destruct C as (_ & _ & _ & _ & All). pose proof (All c (parent_in_range _ _ _ Ec) Ec) as Hc.
      destruct (dfs_list_each _ _ _ El c Hc) as [lc Elc]. apply (dfs_list_In _ _ _ El). exists c, lc. repeat split; auto.
      apply (dfs_parent_closed k c lc (parent_in_range _ _ _ Ec) Elc).
    - right. apply (dfs_list_In _ _ _ El) in Hp. destruct Hp as (c0 & lc & Hc0 & Ec0 & Hpc).
      apply (dfs_list_In _ _ _ El). exists c0, lc. repeat split; auto.
      eapply IH; [apply (Children_member _ _ _ _ C Hc0)|exact Ec0|exact Hpc|exact Ec].
  Qed.
End DfsFacts.

(* ---- the effect of the recursion: exactly the enumerated elements get the document ---- *)
Definition EffectOn (l : list nat) (d0 : nat) (h0 h' : heap) : Prop :=
  nnodes h' = nnodes h0 /\ h_docs h' = h_docs h0 /\
  forall j, nd h' j = HeapTypes.set_doc (if memb j l then Some d0 else n_doc (nd h0 j)) (nd h0 j).

Lemma set_doc_id n : HeapTypes.set_doc (n_doc n) n = n.
Proof. destruct n; reflexivity. Qed.
Lemma memb_app x a b : memb x (a ++ b) = memb x a || memb x b.
Proof. apply existsb_app. Qed.
Lemma memb_In x l : memb x l = true <-> In x l.
Proof. apply existsb_eqb_In. Qed.
Lemma memb_false x l : memb x l = false <-> ~ In x l.
Proof. rewrite <- memb_In. destruct (memb x l); split; intros; congruence. Qed.

Lemma EffectOn_nil d0 h : EffectOn [] d0 h h.
Proof. split; [reflexivity|split; [reflexivity|]]. intro j. simpl. symmetry. apply set_doc_id. Qed.
Lemma EffectOn_one d0 h s : s < nnodes h -> EffectOn [s] d0 h (updn h s (HeapTypes.set_doc (Some d0))).
Proof.
  intro Hs. split; [apply nnodes_updn|split; [reflexivity|]]. intro j. simpl. rewrite orb_false_r.
  destruct (Nat.eqb_spec j s) as [->|N].
  - rewrite nd_updn_same by assumption. reflexivity.
  - rewrite nd_updn_other by auto. symmetry. apply set_doc_id.
Qed.
Lemma EffectOn_trans d0 a b h0 h1 h2 : EffectOn a d0 h0 h1 -> EffectOn b d0 h1 h2 -> EffectOn (a ++ b) d0 h0 h2.
Proof.
  intros (N1 & D1 & E1) (N2 & D2 & E2). split; [congruence|split; [congruence|]]. intro j.
  rewrite E2, E1, memb_app. simpl. destruct (memb j a), (memb j b); reflexivity.
Qed.
Lemma EffectOn_lk l d0 h0 h' : EffectOn l d0 h0 h' -> same lk h0 h'.
Proof. intros (_ & _ & E) j. rewrite E. reflexivity. Qed.
Lemma EffectOn_doc l d0 h0 h' : EffectOn l d0 h0 h' -> forall j, n_doc (nd h' j) = if memb j l then Some d0 else n_doc (nd h0 j).
Proof. intros (_ & _ & E) j. rewrite E. reflexivity. Qed.
Lemma EffectOn_same {X} (pi : node -> X) l d0 h0 h' : (forall v n, pi (HeapTypes.set_doc v n) = pi n) -> EffectOn l d0 h0 h' -> same pi h0 h'.
Proof. intros P (_ & _ & E) j. rewrite E. apply P. Qed.

Lemma up_frame h h' : same n_parent h h' -> forall a b, up h a b -> up h' a b.
Proof.
  intros S a b U. induction U as [a b E|a b c E U IH].
  - constructor. rewrite S. exact E.
  - eapply up_step; [rewrite S; exact E|exact IH].
Qed.

Section Attach.
  Variable d0 : nat.

  Lemma set_doc_tree : forall k h0 s l, Kids h0 -> WF_acyclic h0 -> s < nnodes h0 -> dfs k h0 s = Some l ->
    (forall x, In x l -> n_doc (nd h0 x) = None) ->
    exists h', set_doc_rec k h0 s (Some d0) = ROk h' /\ EffectOn l d0 h0 h'.
  Proof.
    induction k as [|k IH]; intros h0 s l HK HA Hs E Hnone; [discriminate|].
    rewrite set_doc_rec_S, E.
    assert (CK : existsb (fun e => is_some (n_doc (nd h0 e))) l = false).
    { destruct (existsb _ l) eqn:X; [|reflexivity]. apply existsb_exists in X. destruct X as (x & Hx & A).
      rewrite (Hnone x Hx) in A. discriminate. }
    rewrite CK. simpl bind. cbv zeta.
    set (h2 := updn h0 s (HeapTypes.set_doc (Some d0))).
    assert (E2 : EffectOn [s] d0 h0 h2) by (apply EffectOn_one; exact Hs).
    rewrite (kids_frame h0 h2 (proj1 E2) (EffectOn_lk _ _ _ _ E2)).
    rewrite dfs_S in E. destruct (HK s Hs) as [cs C]. rewrite (Children_kids _ _ _ C) in *.
    destruct (dfs_list (dfs k h0) cs) as [l'|] eqn:El; [|discriminate]. injection E as <-.
    (* the loop over the children *)
    assert (LOOP : forall t done hi lt,
      (forall c, In c t -> In c cs) -> NoDup t -> dfs_list (dfs k h0) t = Some lt ->
      EffectOn (s :: done) d0 h0 hi ->
      (forall c x, In c t -> sub h0 x c -> ~ In x (s :: done)) ->
      (forall x, In x lt -> In x l') ->
      exists h', each (fun h' c => set_doc_rec k h' c (Some d0)) t hi = ROk h' /\ EffectOn (s :: done ++ lt) d0 h0 h').
    { induction t as [|c t IHt]; intros done hi lt Hin ND Elt Ei Hdis Hsub.
      - simpl in Elt. injection Elt as <-. exists hi. rewrite app_nil_r. split; [reflexivity|exact Ei].
      - simpl in Elt. destruct (dfs k h0 c) as [lc|] eqn:Ec; [|discriminate].
        destruct (dfs_list (dfs k h0) t) as [lt'|] eqn:Et; [|discriminate]. injection Elt as <-.
        inversion ND as [|? ? NI ND']; subst.
        destruct (Children_member _ _ _ _ C (Hin c (or_introl eq_refl))) as [Rc Pc].
        pose proof (EffectOn_lk _ _ _ _ Ei) as SLi. destruct Ei as (Ni & Di & Efi).
        assert (Ei : EffectOn (s :: done) d0 h0 hi) by (split; [exact Ni|split; [exact Di|exact Efi]]).
        (* the nested call on c *)
        destruct (IH hi c lc) as (h1 & R1 & E1).
        + apply (Kids_frame h0 hi Ni SLi). exact HK.
        + apply (acyclic_frame h0 hi Ni SLi). exact HA.
        + rewrite Ni. exact Rc.
        + rewrite (dfs_frame h0 hi Ni SLi). exact Ec.
        + intros x Hx. rewrite (EffectOn_doc _ _ _ _ Ei).
          assert (NIx : ~ In x (s :: done)).
          { apply (Hdis c x (or_introl eq_refl)). eapply (dfs_sound h0 HK); eauto. }
          apply memb_false in NIx. rewrite NIx. apply Hnone. right. apply Hsub. apply in_app_iff. left; exact Hx.
        + simpl each. rewrite R1. simpl bind.
          pose proof (EffectOn_trans _ _ _ _ _ _ Ei E1) as Ei1.
          change ((s :: done) ++ lc) with (s :: (done ++ lc)) in Ei1.
          destruct (IHt (done ++ lc) h1 lt') as (h' & R' & E'); auto.
          * intros c' Hc'. apply Hin. right; exact Hc'.
          * intros c' x Hc' Sx [Hx|Hx].
            { apply (Hdis c' x (or_intror Hc') Sx). left; exact Hx. }
            apply in_app_iff in Hx. destruct Hx as [Hx|Hx].
            { apply (Hdis c' x (or_intror Hc') Sx). right; exact Hx. }
            destruct (Children_member _ _ _ _ C (Hin c' (or_intror Hc'))) as [_ Pc'].
            assert (c <> c') by (intros ->; contradiction).
            eapply (siblings_disjoint h0 HA x c c' s); eauto. eapply (dfs_sound h0 HK); eauto.
          * intros x Hx. apply Hsub. apply in_app_iff. right; exact Hx.
          * exists h'. split; [exact R'|]. rewrite <- app_assoc in E'. exact E'. }
    destruct C as (CF & CL & CC & CND & CAll).
    destruct (LOOP cs [] h2 l') as (h' & R & Ef); auto.
    - intros c x Hc Sx [Hx|[]]. subst x.
      assert (CM : Children h0 s cs) by (repeat split; assumption).
      destruct (Children_member _ _ _ _ CM Hc) as [_ Pc]. exact (parent_not_sub h0 HA c s Pc Sx).
    - exists h'. split; [exact R|exact Ef].
  Qed.
End Attach.

(* the outcome of set_doc(doc): unchanged and raised, or every enumerated element attached *)
Lemma set_doc_some_cases h s d : WF h -> s < nnodes h ->
  (exists e, set_doc_m h s (Some d) = RErr h e) \/
  (exists l h', dfs (S (nnodes h)) h s = Some l /\ (forall x, In x l -> n_doc (nd h x) = None) /\
                set_doc_m h s (Some d) = ROk h' /\ EffectOn l d h h').
Proof.
  intros HW Hs. pose proof HW as ((_ & K & _) & A & _).
  destruct (dfs (S (nnodes h)) h s) as [l|] eqn:E.
  - destruct (existsb (fun e => is_some (n_doc (nd h e))) l) eqn:X.
    + left. exists ERuntime. unfold set_doc_m. rewrite set_doc_rec_S, E, X. reflexivity.
    + right. assert (Hnone : forall x, In x l -> n_doc (nd h x) = None).
      { intros x Hx. destruct (n_doc (nd h x)) eqn:Dx; [|reflexivity]. exfalso.
        assert (existsb (fun e => is_some (n_doc (nd h e))) l = true) by (apply existsb_exists; exists x; rewrite Dx; auto). congruence. }
      destruct (set_doc_tree d (S (nnodes h)) h s l K A Hs E Hnone) as (h' & R & Ef).
      exists l, h'. auto.
  - left. exists EFuel. unfold set_doc_m. rewrite set_doc_rec_S, E. reflexivity.
Qed.

Theorem set_doc_some_WF h s d : WF h -> s < nnodes h -> d < ndocs h -> t_set_doc_on_child h s = false ->
  WF (heap_of (set_doc_m h s (Some d))).
Proof.
  intros HW Hs Hd T. destruct (set_doc_some_cases h s d HW Hs) as [(e & R)|(l & h' & E & Hnone & R & Ef)]; rewrite R; [exact HW|]. simpl.
  pose proof HW as ((C & K & _) & A & D & _ & (W1 & W2 & W3) & V).
  destruct (dfs_parent_closed h K _ _ _ Hs E) as [Hsl Hpc].
  pose proof (dfs_child_closed h K _ _ _ Hs E) as Hcc.
  (* s is a root: it is detached, and the call shape "detached child" is excluded *)
  assert (Proot : n_parent (nd h s) = None).
  { unfold t_set_doc_on_child in T. rewrite (Hnone s Hsl) in T. simpl in T. rewrite andb_true_r in T. apply is_some_false. exact T. }
  pose proof (EffectOn_lk _ _ _ _ Ef) as SL. pose proof (EffectOn_doc _ _ _ _ Ef) as DOC. destruct Ef as (N' & D' & Efj).
  assert (Ef : EffectOn l d h h') by (split; [exact N'|split; [exact D'|exact Efj]]).
  apply (WF_struct h); auto.
  - apply (EffectOn_same n_kind _ _ _ _ ltac:(reflexivity) Ef).
  - destruct C as [C1 C2]. split.
    + intros i Hi. rewrite N' in Hi. destruct (C1 i Hi) as (R1 & R2 & R3 & R4 & R5 & R6 & R7). unfold ref_ok, dref_ok in *.
      rewrite (lk_parent h h' SL), (lk_first h h' SL), (lk_last h h' SL), (lk_next h h' SL), (lk_prev h h' SL), N', DOC.
      rewrite (EffectOn_same n_region _ _ _ _ ltac:(reflexivity) Ef). rewrite (ndocs_docs _ _ D').
      repeat split; auto. destruct (memb i l); [exact Hd|exact R7].
    + intros d1 Hd1. rewrite (ndocs_docs _ _ D') in Hd1. unfold ref_ok, dc. rewrite D', N'. apply C2. exact Hd1.
  - intros c p Hc. rewrite N' in Hc. rewrite (lk_parent h h' SL), !DOC. intro Ep.
    assert (M : memb c l = memb p l).
    { destruct (memb p l) eqn:Mp.
      - apply memb_In. apply memb_In in Mp. eapply Hcc; eauto.
      - destruct (memb c l) eqn:Mc; [|reflexivity]. apply memb_In in Mc. exfalso.
        destruct (Hpc c Mc) as [->|(q & Eq & Hq)]; [congruence|].
        rewrite Ep in Eq. injection Eq as <-. apply memb_false in Mp. contradiction. }
    rewrite M. destruct (memb p l); [reflexivity|apply D; assumption].
  - split; [|split].
    + intros i r Hi. rewrite N' in Hi. rewrite (EffectOn_same n_region _ _ _ _ ltac:(reflexivity) Ef), (EffectOn_same n_kind _ _ _ _ ltac:(reflexivity) Ef), DOC.
      intro Er. destruct (W1 i r Hi Er) as [Cp (d1 & id & E1 & E2 & E3)]. split; [exact Cp|].
      destruct (memb i l) eqn:Mi.
      * apply memb_In in Mi. rewrite (Hnone i Mi) in E1. discriminate.
      * exists d1, id. rewrite (EffectOn_same n_id _ _ _ _ ltac:(reflexivity) Ef). unfold dc. rewrite D'. auto.
    + intros d1 id r Hd1. rewrite (ndocs_docs _ _ D') in Hd1. unfold dc. rewrite D'.
      rewrite (EffectOn_same n_kind _ _ _ _ ltac:(reflexivity) Ef), (EffectOn_same n_id _ _ _ _ ltac:(reflexivity) Ef). apply W2. exact Hd1.
    + intros d1 Hd1. rewrite (ndocs_docs _ _ D') in Hd1. unfold dc. rewrite D'. apply W3. exact Hd1.
  - apply (values_frame h); auto; [apply ndocs_docs; exact D'|apply (EffectOn_same n_styles _ _ _ _ ltac:(reflexivity) Ef)
      |apply (EffectOn_same n_anims _ _ _ _ ltac:(reflexivity) Ef)|apply dsame_docs; exact D'].
Qed.

Lemma set_doc_some_err h s d h' e : WF h -> s < nnodes h -> set_doc_m h s (Some d) = RErr h' e -> h' = h.
Proof.
  intros HW Hs R. destruct (set_doc_some_cases h s d HW Hs) as [(e1 & R1)|(l & h1 & _ & _ & R1 & _)]; rewrite R1 in R.
  - injection R as <- _. reflexivity.
  - discriminate.
Qed.
