(* C15, link layer: ContentElement.push_child and remove_child (as transcribed) keep the intrusive
   doubly linked child lists in agreement with an abstract `children : element -> list element`:
   push appends, remove deletes, every other element's list is untouched. *)
From Coq Require Import List Arith Bool Lia.
From TT Require Import Base.HeapTypes Model.Heap Spec.ModelWF Proofs.C15.HeapLemmas.
Import ListNotations.

(* ---- segments: Chain with an explicit successor of the last member ---- *)
Definition hd_or (b : list nat) (nx : option nat) : option nat := match b with [] => nx | d :: _ => Some d end.
Definition last_or (a : list nat) (pv : option nat) : option nat := match a with [] => pv | _ => Some (last a 0) end.

Fixpoint Seg (h : heap) (p : nat) (pv : option nat) (cs : list nat) (nx : option nat) : Prop :=
  match cs with
  | [] => True
  | c :: t => c < nnodes h /\ n_parent (nd h c) = Some p /\ n_prev (nd h c) = pv /\
              n_next (nd h c) = hd_or t nx /\ Seg h p (Some c) t nx
  end.

Lemma Chain_Seg h p cs : forall pv, Chain h p pv cs <-> Seg h p pv cs None.
Proof.
  induction cs as [|c t IH]; intro pv; simpl; [tauto|].
  rewrite IH. assert (E : hd_error t = hd_or t None) by (destruct t; reflexivity). rewrite E. tauto.
Qed.

Lemma hd_or_app a b nx : hd_or (a ++ b) nx = hd_or a (hd_or b nx).
Proof. destruct a; reflexivity. Qed.
Lemma last_or_cons x t pv : last_or (x :: t) pv = last_or t (Some x).
Proof. destruct t; reflexivity. Qed.
Lemma last_or_app a b pv : last_or (a ++ b) pv = last_or b (last_or a pv).
Proof.
  revert pv; induction a as [|x t IH]; intro pv; [reflexivity|].
  change ((x :: t) ++ b) with (x :: (t ++ b)). rewrite !last_or_cons. apply IH.
Qed.
Lemma last_error_last_or cs : last_error cs = last_or cs None.
Proof. destruct cs; reflexivity. Qed.
Lemma hd_error_hd_or cs : hd_error cs = hd_or cs None.
Proof. destruct cs; reflexivity. Qed.

Lemma Seg_app h p a : forall pv b nx,
  Seg h p pv (a ++ b) nx <-> Seg h p pv a (hd_or b nx) /\ Seg h p (last_or a pv) b nx.
Proof.
  induction a as [|x t IH]; intros pv b nx.
  - simpl. tauto.
  - change ((x :: t) ++ b) with (x :: (t ++ b)). rewrite last_or_cons. simpl. rewrite IH, hd_or_app. tauto.
Qed.

Lemma Seg_in_range h p cs : forall pv nx, Seg h p pv cs nx -> forall x, In x cs -> x < nnodes h /\ n_parent (nd h x) = Some p.
Proof.
  induction cs as [|c t IH]; intros pv nx H x Hx; [destruct Hx|].
  simpl in H. destruct H as (H1 & H2 & _ & _ & H5). destruct Hx as [<-|Hx]; [auto|eapply IH; eauto].
Qed.

(* frame: a heap that agrees on parent/prev/next of the members has the same segment *)
Lemma Seg_ext h h' p cs : forall pv nx, nnodes h' = nnodes h ->
  (forall x, In x cs -> n_parent (nd h' x) = n_parent (nd h x) /\ n_prev (nd h' x) = n_prev (nd h x) /\
                        n_next (nd h' x) = n_next (nd h x)) ->
  Seg h p pv cs nx -> Seg h' p pv cs nx.
Proof.
  induction cs as [|c t IH]; intros pv nx HN HE H; simpl in *; [exact I|].
  destruct H as (H1 & H2 & H3 & H4 & H5). destruct (HE c (or_introl eq_refl)) as (E1 & E2 & E3).
  rewrite HN, E1, E2, E3. repeat split; auto.
Qed.

(* ---- what the list computed by `kids` (list(self)) is ---- *)
Lemma walk_Seg h p cs : forall pv fuel, Seg h p pv cs None -> length cs <= fuel -> walk h fuel (hd_or cs None) = Some cs.
Proof.
  induction cs as [|c t IH]; intros pv fuel H L; simpl in *.
  - destruct fuel; reflexivity.
  - destruct fuel as [|k]; [lia|]. destruct H as (_ & _ & _ & H4 & H5). simpl. rewrite H4.
    rewrite (IH (Some c) k H5) by lia. reflexivity.
Qed.

Lemma NoDup_bounded_length (l : list nat) n : NoDup l -> (forall x, In x l -> x < n) -> length l <= n.
Proof.
  intros ND B. rewrite <- (seq_length n 0). apply NoDup_incl_length; [exact ND|].
  intros x Hx. apply in_seq. specialize (B x Hx). lia.
Qed.

Lemma Children_kids h p cs : Children h p cs -> kids h p = Some cs.
Proof.
  intros (H1 & _ & H3 & H4 & _). unfold kids. rewrite H1, hd_error_hd_or.
  apply Chain_Seg in H3. eapply walk_Seg; [exact H3|].
  apply le_S. apply NoDup_bounded_length; [exact H4|].
  intros x Hx. eapply Seg_in_range; eauto.
Qed.

Lemma Seg_unique h p cs : forall cs' pv, Seg h p pv cs None -> Seg h p pv cs' None -> hd_or cs None = hd_or cs' None -> cs = cs'.
Proof.
  induction cs as [|c t IH]; intros [|c' t'] pv H H' E; simpl in *; try congruence.
  injection E as <-. destruct H as (_ & _ & _ & H4 & H5), H' as (_ & _ & _ & H4' & H5').
  f_equal. eapply IH; eauto. congruence.
Qed.
Lemma Children_unique h p cs cs' : Children h p cs -> Children h p cs' -> cs = cs'.
Proof.
  intros (H1 & _ & H3 & _) (H1' & _ & H3' & _). apply Chain_Seg in H3, H3'.
  eapply Seg_unique; eauto. rewrite <- !hd_error_hd_or. congruence.
Qed.

Lemma Children_member h p cs x : Children h p cs -> In x cs -> x < nnodes h /\ n_parent (nd h x) = Some p.
Proof. intros (_ & _ & H3 & _) Hx. apply Chain_Seg in H3. eapply Seg_in_range; eauto. Qed.

(* ---- ContentElement.push_child: the link writes ---- *)
Definition push_heap (h : heap) (s c : nat) : heap :=
  let h1 := updn h c (fun n => set_next None (set_prev (n_last (nd h s)) (set_parent (Some s) n))) in
  let h2 := match n_last (nd h1 s) with Some l => updn h1 l (set_next (Some c)) | None => h1 end in
  let h3 := match n_first (nd h2 s) with None => updn h2 s (set_first (Some c)) | Some _ => h2 end in
  updn h3 s (set_last (Some c)).

Lemma ce_push_child_ok h s c h' : ce_push_child h s c = ROk h' ->
  h' = push_heap h s c /\ n_parent (nd h c) = None /\ n_doc (nd h c) = n_doc (nd h s) /\
  anc_walk (S (nnodes h)) h (Some s) c = Some false.
Proof.
  unfold ce_push_child. destruct (is_some (n_parent (nd h c))) eqn:E1; [discriminate|].
  destruct (onat_eqb (n_doc (nd h c)) (n_doc (nd h s))) eqn:E2; cbn [negb]; [|discriminate].
  destruct (anc_walk (S (nnodes h)) h (Some s) c) as [[|]|] eqn:E3; try discriminate.
  intros [= <-]. apply is_some_false in E1. apply onat_eqb_true in E2. auto.
Qed.
Lemma ce_push_child_err h s c h' e : ce_push_child h s c = RErr h' e -> h' = h.
Proof.
  unfold ce_push_child. destruct (is_some (n_parent (nd h c))); [intros [= <- _]; reflexivity|].
  destruct (negb _); [intros [= <- _]; reflexivity|].
  destruct (anc_walk _ _ _ _) as [[|]|]; try discriminate; intros [= <- _]; reflexivity.
Qed.

(* the heap after the link writes, field by field *)
Definition pF (l0 : option nat) (s : nat) : node -> node :=
  fun n => set_next None (set_prev l0 (set_parent (Some s) n)).
Definition ph1 h s c l0 := updn h c (pF l0 s).
Definition ph2 h s c l0 := match l0 with Some l => updn (ph1 h s c l0) l (set_next (Some c)) | None => ph1 h s c l0 end.
Definition ph3 h s c l0 (f0 : option nat) :=
  match f0 with None => updn (ph2 h s c l0) s (set_first (Some c)) | Some _ => ph2 h s c l0 end.
Definition ph4 h s c l0 f0 := updn (ph3 h s c l0 f0) s (set_last (Some c)).

Lemma pN1 h s c l0 : nnodes (ph1 h s c l0) = nnodes h.
Proof. apply nnodes_updn. Qed.
Lemma pN2 h s c l0 : nnodes (ph2 h s c l0) = nnodes h.
Proof. unfold ph2. destruct l0; rewrite ?nnodes_updn; apply pN1. Qed.
Lemma pN3 h s c l0 f0 : nnodes (ph3 h s c l0 f0) = nnodes h.
Proof. unfold ph3. destruct f0; rewrite ?nnodes_updn; apply pN2. Qed.
Lemma pN4 h s c l0 f0 : nnodes (ph4 h s c l0 f0) = nnodes h.
Proof. unfold ph4. rewrite nnodes_updn. apply pN3. Qed.
Lemma pD4 h s c l0 f0 : h_docs (ph4 h s c l0 f0) = h_docs h.
Proof. unfold ph4, ph3, ph2, ph1. destruct f0, l0; reflexivity. Qed.

Section Pres.
  Context {X : Type} (pi : node -> X) (h : heap) (s c : nat) (l0 f0 : option nat).
  Lemma p01 : (forall n, pi (pF l0 s n) = pi n) -> forall j, pi (nd (ph1 h s c l0) j) = pi (nd h j).
  Proof. intros P j. unfold ph1. apply proj_updn. exact P. Qed.
  Lemma p12 : (forall v n, pi (set_next v n) = pi n) -> forall j, pi (nd (ph2 h s c l0) j) = pi (nd (ph1 h s c l0) j).
  Proof. intros P j. unfold ph2. destruct l0; [apply proj_updn; intro; apply P|reflexivity]. Qed.
  Lemma p23 : (forall v n, pi (set_first v n) = pi n) -> forall j, pi (nd (ph3 h s c l0 f0) j) = pi (nd (ph2 h s c l0) j).
  Proof. intros P j. unfold ph3. destruct f0; [reflexivity|apply proj_updn; intro; apply P]. Qed.
  Lemma p34 : (forall v n, pi (set_last v n) = pi n) -> forall j, pi (nd (ph4 h s c l0 f0) j) = pi (nd (ph3 h s c l0 f0) j).
  Proof. intros P j. unfold ph4. apply proj_updn. intro; apply P. Qed.
End Pres.

Lemma push_heap_eq h s c : push_heap h s c = ph4 h s c (n_last (nd h s)) (n_first (nd h s)).
Proof.
  unfold push_heap. cbv zeta. fold (pF (n_last (nd h s)) s). fold (ph1 h s c (n_last (nd h s))).
  rewrite (p01 n_last) by reflexivity. fold (ph2 h s c (n_last (nd h s))).
  rewrite (p12 n_first), (p01 n_first) by reflexivity. reflexivity.
Qed.

Section PushFields.
  Variables (h : heap) (s c : nat).
  Hypothesis Hs : s < nnodes h.
  Hypothesis Hc : c < nnodes h.
  Hypothesis Hsc : s <> c.

  Lemma push_nnodes : nnodes (push_heap h s c) = nnodes h.
  Proof. rewrite push_heap_eq. apply pN4. Qed.
  Lemma push_docs : h_docs (push_heap h s c) = h_docs h.
  Proof. rewrite push_heap_eq. apply pD4. Qed.

  Lemma push_other {X} (pi : node -> X) :
    (forall v n, pi (set_parent v n) = pi n) -> (forall v n, pi (set_prev v n) = pi n) ->
    (forall v n, pi (set_next v n) = pi n) -> (forall v n, pi (set_first v n) = pi n) ->
    (forall v n, pi (set_last v n) = pi n) -> forall j, pi (nd (push_heap h s c) j) = pi (nd h j).
  Proof.
    intros P1 P2 P3 P4 P5 j. rewrite push_heap_eq, p34, p23, p12, p01; auto.
    intro n. unfold pF. rewrite P3, P2, P1. reflexivity.
  Qed.

  Lemma push_parent j : n_parent (nd (push_heap h s c) j) = if Nat.eq_dec j c then Some s else n_parent (nd h j).
  Proof.
    rewrite push_heap_eq, p34, p23, p12 by reflexivity. unfold ph1.
    rewrite (nd_updn_cases n_parent) by assumption. reflexivity.
  Qed.
  Lemma push_prev j : n_prev (nd (push_heap h s c) j) = if Nat.eq_dec j c then n_last (nd h s) else n_prev (nd h j).
  Proof.
    rewrite push_heap_eq, p34, p23, p12 by reflexivity. unfold ph1.
    rewrite (nd_updn_cases n_prev) by assumption. reflexivity.
  Qed.
  Lemma push_next j : (forall l, n_last (nd h s) = Some l -> l < nnodes h /\ l <> c) ->
    n_next (nd (push_heap h s c) j) =
    if Nat.eq_dec j c then None else if onat_eq_dec (Some j) (n_last (nd h s)) then Some c else n_next (nd h j).
  Proof.
    intro Hl. rewrite push_heap_eq, p34, p23 by reflexivity. unfold ph2.
    destruct (n_last (nd h s)) as [l|] eqn:El.
    - destruct (Hl l eq_refl) as [Hl1 Hl2].
      rewrite (nd_updn_cases n_next) by (rewrite pN1; assumption).
      unfold ph1. rewrite !(nd_updn_cases n_next) by assumption.
      destruct (Nat.eq_dec j c) as [Ejc|Ejc]; destruct (Nat.eq_dec j l) as [Ejl|Ejl]; destruct (Nat.eq_dec l c);
        try congruence; destruct (onat_eq_dec (Some j) (Some l)); try congruence; try reflexivity; cbn; congruence.
    - unfold ph1. rewrite (nd_updn_cases n_next) by assumption. destruct (Nat.eq_dec j c); [reflexivity|].
      destruct (onat_eq_dec _ _); [discriminate|reflexivity].
  Qed.
  Lemma push_first j : n_first (nd (push_heap h s c) j) =
    if Nat.eq_dec j s then match n_first (nd h s) with None => Some c | Some x => Some x end else n_first (nd h j).
  Proof.
    rewrite push_heap_eq, p34 by reflexivity. unfold ph3.
    destruct (n_first (nd h s)) eqn:Ef.
    - rewrite (p12 n_first), (p01 n_first) by reflexivity. destruct (Nat.eq_dec j s) as [->|]; [exact Ef|reflexivity].
    - rewrite (nd_updn_cases n_first) by (rewrite pN2; assumption).
      destruct (Nat.eq_dec j s); [reflexivity|]. rewrite (p12 n_first), (p01 n_first) by reflexivity. reflexivity.
  Qed.
  Lemma push_last j : n_last (nd (push_heap h s c) j) = if Nat.eq_dec j s then Some c else n_last (nd h j).
  Proof.
    rewrite push_heap_eq. unfold ph4. rewrite (nd_updn_cases n_last) by (rewrite pN3; assumption).
    destruct (Nat.eq_dec j s); [reflexivity|].
    rewrite (p23 n_last), (p12 n_last), (p01 n_last) by reflexivity. reflexivity.
  Qed.
End PushFields.

Arguments onat_eq_dec : simpl never.
Arguments Nat.eq_dec : simpl never.
Arguments last_error : simpl never.

(* ---- list facts ---- *)
Lemma NoDup_snoc (l : list nat) x : NoDup l -> ~ In x l -> NoDup (l ++ [x]).
Proof.
  induction l as [|y t IH]; intros ND NI; simpl.
  - constructor; [intros []|constructor].
  - inversion ND; subst. constructor.
    + rewrite in_app_iff. intros [H|[H|[]]]; [auto|]. subst. apply NI. left; reflexivity.
    + apply IH; [assumption|]. intro H. apply NI. right; exact H.
Qed.
Lemma last_error_snoc l (x : nat) : last_error (l ++ [x]) = Some x.
Proof. unfold last_error. destruct (l ++ [x]) eqn:E; [destruct l; discriminate|]. rewrite <- E, last_last. reflexivity. Qed.
Lemma last_error_cons x y t : last_error (x :: y :: t) = last_error (y :: t).
Proof. reflexivity. Qed.
Lemma last_error_In l x : last_error l = Some x -> In x l.
Proof.
  induction l as [|y t IH]; [discriminate|]. destruct t as [|z t'].
  - intros [= <-]. left; reflexivity.
  - rewrite last_error_cons. intro H. right. apply IH. exact H.
Qed.
Lemma hd_error_In (l : list nat) x : hd_error l = Some x -> In x l.
Proof. destruct l; simpl; [discriminate|intros [= <-]; left; reflexivity]. Qed.

(* change the successor of the last member *)
Lemma Seg_retarget h h' p cs : forall pv nx nx', nnodes h' = nnodes h -> NoDup cs ->
  (forall x, In x cs -> n_parent (nd h' x) = n_parent (nd h x) /\ n_prev (nd h' x) = n_prev (nd h x) /\
     n_next (nd h' x) = if onat_eq_dec (Some x) (last_error cs) then nx' else n_next (nd h x)) ->
  Seg h p pv cs nx -> Seg h' p pv cs nx'.
Proof.
  induction cs as [|x t IH]; intros pv nx nx' HN ND HE H; simpl in *; [exact I|].
  destruct H as (H1 & H2 & H3 & H4 & H5). destruct (HE x (or_introl eq_refl)) as (E1 & E2 & E3).
  inversion ND as [|? ? NI ND']; subst.
  rewrite HN, E1, E2, E3. repeat split; auto.
  - destruct t as [|y t'].
    + cbv [last_error last hd_or]. destruct (onat_eq_dec (Some x) (Some x)); congruence.
    + rewrite last_error_cons. destruct (onat_eq_dec (Some x) (last_error (y :: t'))) as [E|E]; [|exact H4].
      exfalso. apply NI. apply last_error_In. symmetry. exact E.
  - destruct t as [|y t']; [exact I|].
    eapply IH; [exact HN|exact ND'| |exact H5]. intros z Hz. destruct (HE z (or_intror Hz)) as (Z1 & Z2 & Z3). rewrite last_error_cons in Z3. auto.
Qed.

(* change the predecessor of the first member *)
Lemma Seg_rehead h h' p cs pv pv' nx : nnodes h' = nnodes h -> NoDup cs ->
  (forall x, In x cs -> n_parent (nd h' x) = n_parent (nd h x) /\ n_next (nd h' x) = n_next (nd h x) /\
     n_prev (nd h' x) = if onat_eq_dec (Some x) (hd_error cs) then pv' else n_prev (nd h x)) ->
  Seg h p pv cs nx -> Seg h' p pv' cs nx.
Proof.
  intros HN ND HE H. destruct cs as [|x t]; [exact I|]. simpl in *.
  destruct H as (H1 & H2 & H3 & H4 & H5). destruct (HE x (or_introl eq_refl)) as (E1 & E2 & E3).
  inversion ND as [|? ? NI ND']; subst.
  rewrite HN, E1, E2, E3. destruct (onat_eq_dec _ _); [|congruence]. repeat split; auto.
  eapply Seg_ext; [exact HN| |exact H5].
  intros z Hz. destruct (HE z (or_intror Hz)) as (Z1 & Z2 & Z3).
  destruct (onat_eq_dec _ _) as [E|E]; [injection E as ->; contradiction|]. auto.
Qed.

(* ---- push: the child lists afterwards ---- *)
Section PushChildren.
  Variables (h : heap) (s c : nat) (cs : list nat).
  Hypothesis Hs : s < nnodes h.
  Hypothesis Hc : c < nnodes h.
  Hypothesis Hsc : s <> c.
  Hypothesis HC : Children h s cs.
  Hypothesis Hroot : n_parent (nd h c) = None.

  Lemma push_c_fresh p l : Children h p l -> ~ In c l.
  Proof. intros H Hin. destruct (Children_member _ _ _ _ H Hin) as [_ E]. congruence. Qed.

  Lemma push_last_ok : forall l, n_last (nd h s) = Some l -> l < nnodes h /\ l <> c.
  Proof.
    intros l E. destruct HC as (_ & HL & _). rewrite HL in E. apply last_error_In in E.
    destruct (Children_member _ _ _ _ HC E) as [R P]. split; [exact R|]. intros ->. congruence.
  Qed.

  Lemma push_Children_self : Children (push_heap h s c) s (cs ++ [c]).
  Proof.
    pose proof push_last_ok as HLok. pose proof (push_c_fresh s cs HC) as Fresh.
    destruct HC as (HF & HL & HCh & HND & HAll).
    unfold Children. rewrite push_first, push_last by assumption.
    destruct (Nat.eq_dec s s) as [_|]; [|congruence]. repeat split.
    - rewrite HF. destruct cs; reflexivity.
    - symmetry. apply last_error_snoc.
    - apply Chain_Seg. apply Seg_app. apply Chain_Seg in HCh. split.
      + eapply Seg_retarget; [apply push_nnodes| exact HND | |exact HCh].
        intros x Hx. assert (x <> c) by (intros ->; contradiction).
        rewrite push_parent, push_prev, push_next by assumption.
        destruct (Nat.eq_dec x c); [contradiction|]. rewrite HL. auto.
      + simpl. rewrite push_nnodes, push_parent, push_prev, push_next by assumption.
        destruct (Nat.eq_dec c c); [|congruence]. rewrite HL, last_error_last_or. auto.
    - apply NoDup_snoc; assumption.
    - intros x Hx. rewrite push_nnodes in Hx. rewrite push_parent by assumption.
      destruct (Nat.eq_dec x c) as [->|]; intro E; rewrite in_app_iff; [right; left; reflexivity|left; auto].
  Qed.

  Lemma push_Children_other p l : p <> s -> Children h p l -> Children (push_heap h s c) p l.
  Proof.
    intros Hp HP. pose proof push_last_ok as HLok. pose proof (push_c_fresh p l HP) as Fresh.
    pose proof (fun x => Children_member h p l x HP) as Mem.
    destruct HP as (HF & HL & HCh & HND & HAll). unfold Children.
    rewrite push_first, push_last by assumption. destruct (Nat.eq_dec p s); [contradiction|]. repeat split; auto.
    - apply Chain_Seg. apply Chain_Seg in HCh. eapply Seg_ext; [apply push_nnodes| |exact HCh].
      intros x Hx. assert (x <> c) by (intros ->; contradiction).
      rewrite push_parent, push_prev, push_next by assumption.
      destruct (Nat.eq_dec x c); [contradiction|]. repeat split; auto.
      destruct (onat_eq_dec _ _) as [E|]; [|reflexivity].
      exfalso. destruct HC as (_ & HL' & _). rewrite HL' in E. symmetry in E. apply last_error_In in E.
      destruct (Children_member _ _ _ _ HC E) as [_ P1]. destruct (Mem x Hx) as [_ P2]. congruence.
    - intros x Hx. rewrite push_nnodes in Hx. rewrite push_parent by assumption.
      destruct (Nat.eq_dec x c); [congruence|]. auto.
  Qed.

  Lemma push_roots :
    (forall x, x < nnodes h -> n_parent (nd h x) = None -> n_next (nd h x) = None /\ n_prev (nd h x) = None) ->
    forall x, x < nnodes (push_heap h s c) -> n_parent (nd (push_heap h s c) x) = None ->
              n_next (nd (push_heap h s c) x) = None /\ n_prev (nd (push_heap h s c) x) = None.
  Proof.
    intros HR x Hx. pose proof push_last_ok as HLok. rewrite push_nnodes in Hx.
    rewrite push_parent, push_prev, push_next by assumption.
    destruct (Nat.eq_dec x c); [discriminate|]. intro E. destruct (HR x Hx E) as [R1 R2].
    destruct (onat_eq_dec _ _) as [E'|]; [|auto].
    exfalso. destruct HC as (_ & HL' & _). rewrite HL' in E'. symmetry in E'. apply last_error_In in E'.
    destruct (Children_member _ _ _ _ HC E') as [_ P1]. congruence.
  Qed.
End PushChildren.

(* ---- ContentElement.remove_child: the link writes ---- *)
Definition rreset (n : node) : node := set_prev None (set_next None (set_parent None n)).
Definition rh1 h s c (f0 nx0 : option nat) := if onat_eqb f0 (Some c) then updn h s (set_first nx0) else h.
Definition rh2 h s c f0 l0 pv0 nx0 := if onat_eqb l0 (Some c) then updn (rh1 h s c f0 nx0) s (set_last pv0) else rh1 h s c f0 nx0.
Definition rh3 h s c f0 l0 pv0 nx0 :=
  match pv0 with Some pv => updn (rh2 h s c f0 l0 pv0 nx0) pv (set_next nx0) | None => rh2 h s c f0 l0 pv0 nx0 end.
Definition rh4 h s c f0 l0 pv0 nx0 :=
  match nx0 with Some nx => updn (rh3 h s c f0 l0 pv0 nx0) nx (set_prev pv0) | None => rh3 h s c f0 l0 pv0 nx0 end.
Definition rh5 h s c f0 l0 pv0 nx0 := updn (rh4 h s c f0 l0 pv0 nx0) c rreset.

Definition remove_heap (h : heap) (s c : nat) : heap :=
  let h1 := if onat_eqb (n_first (nd h s)) (Some c) then updn h s (set_first (n_next (nd h c))) else h in
  let h2 := if onat_eqb (n_last (nd h1 s)) (Some c) then updn h1 s (set_last (n_prev (nd h1 c))) else h1 in
  let h3 := match n_prev (nd h2 c) with Some pv => updn h2 pv (set_next (n_next (nd h2 c))) | None => h2 end in
  let h4 := match n_next (nd h3 c) with Some nx => updn h3 nx (set_prev (n_prev (nd h3 c))) | None => h3 end in
  updn h4 c rreset.

Lemma ce_remove_child_ok h s c h' : ce_remove_child h s c = ROk h' ->
  exists cs, kids h s = Some cs /\ In c cs /\ h' = remove_heap h s c.
Proof.
  unfold ce_remove_child. destruct (kids h s) as [cs|]; [|discriminate].
  destruct (existsb (Nat.eqb c) cs) eqn:E; cbn [negb]; [|discriminate].
  intros [= <-]. exists cs. split; [reflexivity|]. split; [apply existsb_eqb_In; exact E|reflexivity].
Qed.
Lemma ce_remove_child_err h s c h' e : ce_remove_child h s c = RErr h' e -> h' = h.
Proof.
  unfold ce_remove_child. destruct (kids h s) as [cs|]; [|intros [= <- _]; reflexivity].
  destruct (negb _); [intros [= <- _]; reflexivity|discriminate].
Qed.

Lemma rN1 h s c f0 nx0 : nnodes (rh1 h s c f0 nx0) = nnodes h.
Proof. unfold rh1. destruct (onat_eqb _ _); rewrite ?nnodes_updn; reflexivity. Qed.
Lemma rN2 h s c f0 l0 pv0 nx0 : nnodes (rh2 h s c f0 l0 pv0 nx0) = nnodes h.
Proof. unfold rh2. destruct (onat_eqb _ _); rewrite ?nnodes_updn; apply rN1. Qed.
Lemma rN3 h s c f0 l0 pv0 nx0 : nnodes (rh3 h s c f0 l0 pv0 nx0) = nnodes h.
Proof. unfold rh3. destruct pv0; rewrite ?nnodes_updn; apply rN2. Qed.
Lemma rN4 h s c f0 l0 pv0 nx0 : nnodes (rh4 h s c f0 l0 pv0 nx0) = nnodes h.
Proof. unfold rh4. destruct nx0; rewrite ?nnodes_updn; apply rN3. Qed.
Lemma rN5 h s c f0 l0 pv0 nx0 : nnodes (rh5 h s c f0 l0 pv0 nx0) = nnodes h.
Proof. unfold rh5. rewrite nnodes_updn. apply rN4. Qed.
Lemma rD5 h s c f0 l0 pv0 nx0 : h_docs (rh5 h s c f0 l0 pv0 nx0) = h_docs h.
Proof. unfold rh5, rh4, rh3, rh2, rh1. destruct nx0, pv0, (onat_eqb l0 (Some c)), (onat_eqb f0 (Some c)); reflexivity. Qed.

Section RPres.
  Context {X : Type} (pi : node -> X) (h : heap) (s c : nat) (f0 l0 pv0 nx0 : option nat).
  Lemma r01 : (forall v n, pi (set_first v n) = pi n) -> forall j, pi (nd (rh1 h s c f0 nx0) j) = pi (nd h j).
  Proof. intros P j. unfold rh1. destruct (onat_eqb _ _); [apply proj_updn; intro; apply P|reflexivity]. Qed.
  Lemma r12 : (forall v n, pi (set_last v n) = pi n) -> forall j, pi (nd (rh2 h s c f0 l0 pv0 nx0) j) = pi (nd (rh1 h s c f0 nx0) j).
  Proof. intros P j. unfold rh2. destruct (onat_eqb _ _); [apply proj_updn; intro; apply P|reflexivity]. Qed.
  Lemma r23 : (forall v n, pi (set_next v n) = pi n) -> forall j, pi (nd (rh3 h s c f0 l0 pv0 nx0) j) = pi (nd (rh2 h s c f0 l0 pv0 nx0) j).
  Proof. intros P j. unfold rh3. destruct pv0; [apply proj_updn; intro; apply P|reflexivity]. Qed.
  Lemma r34 : (forall v n, pi (set_prev v n) = pi n) -> forall j, pi (nd (rh4 h s c f0 l0 pv0 nx0) j) = pi (nd (rh3 h s c f0 l0 pv0 nx0) j).
  Proof. intros P j. unfold rh4. destruct nx0; [apply proj_updn; intro; apply P|reflexivity]. Qed.
  Lemma r45 : (forall n, pi (rreset n) = pi n) -> forall j, pi (nd (rh5 h s c f0 l0 pv0 nx0) j) = pi (nd (rh4 h s c f0 l0 pv0 nx0) j).
  Proof. intros P j. unfold rh5. apply proj_updn. exact P. Qed.
End RPres.

Lemma remove_heap_eq h s c : n_prev (nd h c) <> Some c ->
  remove_heap h s c = rh5 h s c (n_first (nd h s)) (n_last (nd h s)) (n_prev (nd h c)) (n_next (nd h c)).
Proof.
  intro Hne. unfold remove_heap. cbv zeta.
  set (f0 := n_first (nd h s)). set (l0 := n_last (nd h s)). set (pv0 := n_prev (nd h c)). set (nx0 := n_next (nd h c)).
  fold (rh1 h s c f0 nx0).
  rewrite (r01 n_last) by reflexivity. rewrite (r01 n_prev) by reflexivity. fold l0 pv0.
  fold (rh2 h s c f0 l0 pv0 nx0).
  rewrite (r12 n_prev), (r01 n_prev), (r12 n_next), (r01 n_next) by reflexivity. fold pv0 nx0.
  fold (rh3 h s c f0 l0 pv0 nx0).
  assert (E3 : nd (rh3 h s c f0 l0 pv0 nx0) c = nd (rh2 h s c f0 l0 pv0 nx0) c).
  { unfold rh3. destruct pv0 as [pv|] eqn:E; [|reflexivity]. apply nd_updn_other. intros ->. apply Hne. exact E. }
  rewrite E3. rewrite (r12 n_prev), (r01 n_prev), (r12 n_next), (r01 n_next) by reflexivity. fold pv0 nx0.
  reflexivity.
Qed.

Section RemoveFields.
  Variables (h : heap) (s c : nat) (f0 l0 pv0 nx0 : option nat).
  Hypothesis Hs : s < nnodes h.
  Hypothesis Hc : c < nnodes h.
  Hypothesis Hpv : forall pv, pv0 = Some pv -> pv < nnodes h /\ pv <> c.
  Hypothesis Hnx : forall nx, nx0 = Some nx -> nx < nnodes h /\ nx <> c.
  Notation h5 := (rh5 h s c f0 l0 pv0 nx0).

  Lemma remove_other {X} (pi : node -> X) :
    (forall v n, pi (set_parent v n) = pi n) -> (forall v n, pi (set_prev v n) = pi n) ->
    (forall v n, pi (set_next v n) = pi n) -> (forall v n, pi (set_first v n) = pi n) ->
    (forall v n, pi (set_last v n) = pi n) -> forall j, pi (nd h5 j) = pi (nd h j).
  Proof.
    intros P1 P2 P3 P4 P5 j. rewrite r45, r34, r23, r12, r01; auto.
    intro n. unfold rreset. rewrite P2, P3, P1. reflexivity.
  Qed.
  Lemma remove_parent j : n_parent (nd h5 j) = if Nat.eq_dec j c then None else n_parent (nd h j).
  Proof.
    unfold rh5. rewrite (nd_updn_cases n_parent) by (rewrite rN4; assumption).
    destruct (Nat.eq_dec j c); [reflexivity|]. rewrite r34, r23, r12, r01 by reflexivity. reflexivity.
  Qed.
  Lemma remove_first j : n_first (nd h5 j) =
    if Nat.eq_dec j s then (if onat_eqb f0 (Some c) then nx0 else n_first (nd h s)) else n_first (nd h j).
  Proof.
    rewrite r45, r34, r23, r12 by reflexivity. unfold rh1. destruct (onat_eqb f0 (Some c)).
    - rewrite (nd_updn_cases n_first) by assumption. destruct (Nat.eq_dec j s); reflexivity.
    - destruct (Nat.eq_dec j s) as [->|]; reflexivity.
  Qed.
  Lemma remove_last j : n_last (nd h5 j) =
    if Nat.eq_dec j s then (if onat_eqb l0 (Some c) then pv0 else n_last (nd h s)) else n_last (nd h j).
  Proof.
    rewrite r45, r34, r23 by reflexivity. unfold rh2. destruct (onat_eqb l0 (Some c)).
    - rewrite (nd_updn_cases n_last) by (rewrite rN1; assumption).
      destruct (Nat.eq_dec j s); [reflexivity|]. apply (r01 n_last). reflexivity.
    - rewrite (r01 n_last) by reflexivity. destruct (Nat.eq_dec j s) as [->|]; reflexivity.
  Qed.
  Lemma remove_next j : n_next (nd h5 j) =
    if Nat.eq_dec j c then None else if onat_eq_dec (Some j) pv0 then nx0 else n_next (nd h j).
  Proof.
    unfold rh5. rewrite (nd_updn_cases n_next) by (rewrite rN4; assumption).
    destruct (Nat.eq_dec j c); [reflexivity|]. rewrite r34 by reflexivity. unfold rh3.
    destruct pv0 as [pv|] eqn:E.
    - destruct (Hpv pv eq_refl) as [R _].
      rewrite (nd_updn_cases n_next) by (rewrite rN2; assumption).
      destruct (Nat.eq_dec j pv) as [->|]; destruct (onat_eq_dec _ _); try congruence; try reflexivity.
      rewrite r12, r01 by reflexivity. reflexivity.
    - destruct (onat_eq_dec _ _); [discriminate|]. rewrite r12, r01 by reflexivity. reflexivity.
  Qed.
  Lemma remove_prev j : n_prev (nd h5 j) =
    if Nat.eq_dec j c then None else if onat_eq_dec (Some j) nx0 then pv0 else n_prev (nd h j).
  Proof.
    unfold rh5. rewrite (nd_updn_cases n_prev) by (rewrite rN4; assumption).
    destruct (Nat.eq_dec j c); [reflexivity|]. unfold rh4.
    destruct nx0 as [nx|] eqn:E.
    - destruct (Hnx nx eq_refl) as [R _].
      rewrite (nd_updn_cases n_prev) by (rewrite rN3; assumption).
      destruct (Nat.eq_dec j nx) as [->|]; destruct (onat_eq_dec _ _); try congruence; try reflexivity.
      rewrite r23, r12, r01 by reflexivity. reflexivity.
    - destruct (onat_eq_dec _ _); [discriminate|]. rewrite r23, r12, r01 by reflexivity. reflexivity.
  Qed.
End RemoveFields.

(* ---- remove: the child lists afterwards ---- *)
Lemma NoDup_app_parts (a b : list nat) : NoDup (a ++ b) -> NoDup a /\ NoDup b.
Proof.
  induction a as [|x t IH]; simpl; intro H; [split; [constructor|exact H]|].
  inversion H; subst. destruct (IH H3) as [A B]. split; [|exact B].
  constructor; [|exact A]. intro Hx. apply H2. rewrite in_app_iff. left; exact Hx.
Qed.
Lemma last_or_In b pv x : last_or b pv = Some x -> b <> [] -> In x b.
Proof.
  intros E Hb. destruct b as [|y t]; [congruence|]. unfold last_or in E. injection E as <-.
  apply last_error_In. reflexivity.
Qed.

Section RemoveChildren.
  Variables (h : heap) (s c : nat) (a b : list nat).
  Hypothesis Hs : s < nnodes h.
  Hypothesis HC : Children h s (a ++ c :: b).

  Let cs := a ++ c :: b.
  Lemma rm_nodup : ~ In c a /\ ~ In c b /\ (forall x, In x a -> ~ In x b) /\ NoDup (a ++ b).
  Proof.
    destruct HC as (_ & _ & _ & ND & _).
    pose proof (NoDup_remove_1 _ _ _ ND) as ND1. pose proof (NoDup_remove_2 _ _ _ ND) as ND2.
    rewrite in_app_iff in ND2. repeat split; auto.
    intros x Ha Hb. clear - ND Ha Hb. induction a as [|y t IH]; [destruct Ha|].
    simpl in ND. inversion ND; subst. destruct Ha as [->|Ha]; [|auto].
    apply H1. rewrite in_app_iff. right. right. exact Hb.
  Qed.
  Lemma rm_seg : Seg h s None a (Some c) /\ c < nnodes h /\ n_parent (nd h c) = Some s /\
                 n_prev (nd h c) = last_or a None /\ n_next (nd h c) = hd_or b None /\ Seg h s (Some c) b None.
  Proof.
    destruct HC as (_ & _ & HCh & _). apply Chain_Seg in HCh. apply Seg_app in HCh. destruct HCh as [S1 S2].
    simpl in S2. tauto.
  Qed.
  Lemma rm_pv : forall pv, last_or a None = Some pv -> pv < nnodes h /\ pv <> c.
  Proof.
    intros pv E. destruct rm_nodup as (Na & _). assert (Hin : In pv a).
    { destruct a; [discriminate|]. eapply last_or_In; [exact E|discriminate]. }
    split; [|intros ->; contradiction].
    apply (Children_member _ _ _ _ HC). rewrite in_app_iff. left; exact Hin.
  Qed.
  Lemma rm_nx : forall nx, hd_or b None = Some nx -> nx < nnodes h /\ nx <> c.
  Proof.
    intros nx E. destruct rm_nodup as (_ & Nb & _). assert (Hin : In nx b).
    { destruct b; [discriminate|]. injection E as <-. left; reflexivity. }
    split; [|intros ->; contradiction].
    apply (Children_member _ _ _ _ HC). rewrite in_app_iff. right; right; exact Hin.
  Qed.
  Lemma rm_first_eqb : onat_eqb (hd_error (a ++ c :: b)) (Some c) = match a with [] => true | _ => false end.
  Proof.
    destruct rm_nodup as (Na & _). destruct a as [|x t]; simpl.
    - apply onat_eqb_true. reflexivity.
    - apply onat_eqb_false. intros [= ->]. apply Na. left; reflexivity.
  Qed.
  Lemma rm_last_eqb : onat_eqb (last_error (a ++ c :: b)) (Some c) = match b with [] => true | _ => false end.
  Proof.
    destruct rm_nodup as (_ & Nb & _). rewrite last_error_last_or, last_or_app, last_or_cons.
    destruct b as [|y t].
    - apply onat_eqb_true. reflexivity.
    - apply onat_eqb_false. intro E. apply Nb. eapply last_or_In; [exact E|discriminate].
  Qed.

  Lemma remove_heap_rh5 : remove_heap h s c =
    rh5 h s c (hd_error (a ++ c :: b)) (last_error (a ++ c :: b)) (last_or a None) (hd_or b None).
  Proof.
    destruct rm_seg as (_ & _ & _ & Ep & En & _). destruct HC as (HF & HL & _).
    rewrite remove_heap_eq, HF, HL, Ep, En; [reflexivity|].
    rewrite Ep. intro E. destruct (rm_pv c E) as [_ N]. congruence.
  Qed.

  Lemma remove_nnodes : nnodes (remove_heap h s c) = nnodes h.
  Proof. rewrite remove_heap_rh5. apply rN5. Qed.
  Lemma remove_docs : h_docs (remove_heap h s c) = h_docs h.
  Proof. rewrite remove_heap_rh5. apply rD5. Qed.
  Lemma remove_heap_other {X} (pi : node -> X) :
    (forall v n, pi (set_parent v n) = pi n) -> (forall v n, pi (set_prev v n) = pi n) ->
    (forall v n, pi (set_next v n) = pi n) -> (forall v n, pi (set_first v n) = pi n) ->
    (forall v n, pi (set_last v n) = pi n) -> forall j, pi (nd (remove_heap h s c) j) = pi (nd h j).
  Proof. intros. rewrite remove_heap_rh5. apply remove_other; auto. Qed.
  Lemma remove_heap_parent j : n_parent (nd (remove_heap h s c) j) = if Nat.eq_dec j c then None else n_parent (nd h j).
  Proof. destruct rm_seg as (_ & Rc & _). rewrite remove_heap_rh5. apply remove_parent; assumption. Qed.

  Lemma remove_Children_self : Children (remove_heap h s c) s (a ++ b).
  Proof.
    destruct rm_seg as (S1 & Rc & Pc & Ep & En & S2). destruct rm_nodup as (Na & Nb & Nab & ND').
    pose proof rm_pv as Hpv. pose proof rm_nx as Hnx.
    pose proof (fun x => Children_member h s _ x HC) as Mem.
    destruct (NoDup_app_parts _ _ ND') as [NDa NDb].
    destruct HC as (HF & HL & HCh & HND & HAll).
    rewrite remove_heap_rh5. unfold Children.
    rewrite remove_first, remove_last by assumption. destruct (Nat.eq_dec s s) as [_|]; [|congruence].
    rewrite rm_first_eqb, rm_last_eqb. repeat split.
    - rewrite HF. destruct a; [simpl; symmetry; apply hd_error_hd_or|reflexivity].
    - rewrite HL. destruct b as [|y t].
      + rewrite app_nil_r. symmetry. apply last_error_last_or.
      + rewrite !last_error_last_or, !last_or_app, last_or_cons. reflexivity.
    - apply Chain_Seg. apply Seg_app. split.
      + eapply Seg_retarget; [apply rN5|exact NDa| |exact S1].
        intros x Hx. assert (x <> c) by (intros ->; contradiction).
        rewrite remove_parent, remove_prev, remove_next by assumption.
        destruct (Nat.eq_dec x c); [contradiction|]. rewrite last_error_last_or. repeat split; auto.
        destruct (onat_eq_dec (Some x) (hd_or b None)) as [E|]; [|reflexivity].
        exfalso. symmetry in E. destruct b as [|y t]; [discriminate|]. injection E as ->. apply (Nab x Hx). left; reflexivity.
      + eapply Seg_rehead; [apply rN5|exact NDb| |exact S2].
        intros x Hx. assert (x <> c) by (intros ->; contradiction).
        rewrite remove_parent, remove_prev, remove_next by assumption.
        destruct (Nat.eq_dec x c); [contradiction|]. rewrite hd_error_hd_or. repeat split; auto.
        destruct (onat_eq_dec (Some x) (last_or a None)) as [E|]; [|reflexivity].
        exfalso. symmetry in E. destruct a as [|y t]; [discriminate|].
        apply (Nab x); [|exact Hx]. eapply last_or_In; [exact E|discriminate].
    - exact ND'.
    - intros x Hx. rewrite rN5 in Hx. rewrite remove_parent by assumption.
      destruct (Nat.eq_dec x c); [discriminate|]. intro E. specialize (HAll x Hx E).
      rewrite in_app_iff in *. destruct HAll as [?|[?|?]]; [auto|congruence|auto].
  Qed.

  Lemma remove_Children_other p l : p <> s -> Children h p l -> Children (remove_heap h s c) p l.
  Proof.
    intros Hp HP. destruct rm_seg as (S1 & Rc & Pc & Ep & En & S2).
    pose proof rm_pv as Hpv. pose proof rm_nx as Hnx.
    pose proof (fun x => Children_member h s _ x HC) as Mem.
    pose proof (fun x => Children_member h p l x HP) as MemP.
    assert (Out : forall x, In x l -> ~ In x (a ++ c :: b)).
    { intros x H1 H2. destruct (Mem x H2) as [_ P1]. destruct (MemP x H1) as [_ P2]. congruence. }
    destruct HP as (HF & HL & HCh & HND & HAll).
    rewrite remove_heap_rh5. unfold Children.
    rewrite remove_first, remove_last by assumption. destruct (Nat.eq_dec p s); [contradiction|]. repeat split; auto.
    - apply Chain_Seg. apply Chain_Seg in HCh. eapply Seg_ext; [apply rN5| |exact HCh].
      intros x Hx. pose proof (Out x Hx) as O. rewrite in_app_iff in O.
      assert (x <> c) by (intros ->; apply O; right; left; reflexivity).
      rewrite remove_parent, remove_prev, remove_next by assumption.
      destruct (Nat.eq_dec x c); [contradiction|]. repeat split; auto.
      + destruct (onat_eq_dec (Some x) (hd_or b None)) as [E|]; [|reflexivity].
        exfalso. symmetry in E. destruct b as [|y t]; [discriminate|]. injection E as ->. apply O. right; right; left; reflexivity.
      + destruct (onat_eq_dec (Some x) (last_or a None)) as [E|]; [|reflexivity].
        exfalso. symmetry in E. destruct a as [|y t]; [discriminate|]. apply O. left. eapply last_or_In; [exact E|discriminate].
    - intros x Hx. rewrite rN5 in Hx. rewrite remove_parent by assumption.
      destruct (Nat.eq_dec x c); [discriminate|]. auto.
  Qed.

  Lemma remove_roots :
    (forall x, x < nnodes h -> n_parent (nd h x) = None -> n_next (nd h x) = None /\ n_prev (nd h x) = None) ->
    forall x, x < nnodes (remove_heap h s c) -> n_parent (nd (remove_heap h s c) x) = None ->
              n_next (nd (remove_heap h s c) x) = None /\ n_prev (nd (remove_heap h s c) x) = None.
  Proof.
    intros HR x Hx. destruct rm_seg as (S1 & Rc & Pc & Ep & En & S2).
    pose proof rm_pv as Hpv. pose proof rm_nx as Hnx.
    pose proof (fun x => Children_member h s _ x HC) as Mem.
    rewrite remove_heap_rh5 in *. rewrite rN5 in Hx.
    rewrite remove_parent, remove_prev, remove_next by assumption.
    destruct (Nat.eq_dec x c); [auto|]. intro E. destruct (HR x Hx E) as [R1 R2].
    assert (O : ~ In x (a ++ c :: b)) by (intro H; destruct (Mem x H) as [_ P]; congruence).
    rewrite in_app_iff in O. split.
    - destruct (onat_eq_dec (Some x) (last_or a None)) as [E'|]; [|exact R1].
      exfalso. symmetry in E'. destruct a as [|y t]; [discriminate|]. apply O. left. eapply last_or_In; [exact E'|discriminate].
    - destruct (onat_eq_dec (Some x) (hd_or b None)) as [E'|]; [|exact R2].
      exfalso. symmetry in E'. destruct b as [|y t]; [discriminate|]. injection E' as ->. apply O. right; right; left; reflexivity.
  Qed.
End RemoveChildren.
