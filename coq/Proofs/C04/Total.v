(* C04, totality of the reader model: no Python exception leaves process, in any context that has a syncbase and with non-zero
   frame and tick rates; the document parameters the reader extracts are never zero; hence every <tt> tree is read
   (read_tt always returns a document). *)
From TT Require Import Base.Prelude Base.ImscXml Model.ImscTime Model.ImscStyles Model.ImscTiming Spec.TtmlTimingSpec Proofs.C04.TimeSyntax Proofs.C04.Interval.
From Coq Require Import QArith Qminmax Lqa.
Local Open Scope Z_scope.

Lemma parse_no_zero_div tr fr s : (0 < tr)%Q -> (0 < fr)%Q -> parse_time_x (Some tr) (Some fr) s <> TZeroDiv.
Proof.
  intros Htr Hfr. unfold parse_time_x, qdiv_res.
  rewrite (Qeq_bool_pos_false fr Hfr), (Qeq_bool_pos_false tr Htr). break_match; discriminate.
Qed.

Definition rates_ok (ev : env) : Prop := (0 < e_tr ev)%Q /\ (0 < e_fr ev)%Q.

Lemma read_time_some ev raw : rates_ok ev -> read_time ev raw <> None.
Proof.
  intros [H1 H2]. unfold read_time. destruct raw as [s|]; [|discriminate].
  pose proof (parse_no_zero_div _ _ s H1 H2) as Hn.
  destruct (parse_time_x (Some (e_tr ev)) (Some (e_fr ev)) s); try discriminate. contradiction.
Qed.

Definition total_at (ev : env) (x : xml) : Prop :=
  forall pc, implicit_begin pc <> None -> forall e, process ev pc x <> PErr e.

(* the children loop enters a child of a sequential container only while the end of the previous child is known *)
Lemma loop_total ev k par db pr lg l : Forall (total_at ev) l ->
  forall iend send kids anims pf nst e,
    children_loop (process ev) (e_to_model ev) (e_valid ev) k par db pr lg l iend send kids anims pf nst <> LErr e.
Proof.
  induction 1 as [|c l Hc Hl IH]; intros iend send kids anims pf nst e; cbn [children_loop].
  - discriminate.
  - destruct (ekind_eqb k KRegion && is_style_elem c); [apply IH|].
    destruct (negb par && match send with None => true | Some _ => false end) eqn:Ebr; [apply IH|].
    destruct (ekind_eqb k KSet) eqn:Eks; [discriminate|].
    destruct (process ev (mkPctx par send pr lg _) c) as [e'| |r] eqn:Ep.
    + exfalso. eapply Hc; [|exact Ep]. unfold implicit_begin. cbn [pc_par pc_seq_end].
      destruct par; [discriminate|]. destruct send; [discriminate|discriminate].
    + destruct (x_tail c); [destruct (k_is_mixed k && par)|]; apply IH.
    + destruct (x_tail c); [destruct (k_is_mixed k && par)|]; apply IH.
Qed.

Theorem process_total ev x : rates_ok ev -> total_at ev x.
Proof.
  intro Hr. induction x as [tag attrs txt tail cs IHcs] using xml_ind'.
  intros pc Hib e H.
  cbn [process] in H.
  destruct (classify tag attrs) as [k|]; [|discriminate].
  destruct (ekind_eqb k KRegion && match get_attr attrs A_id with None => true | Some _ => false end); [discriminate|].
  pose proof (read_time_some ev (get_attr attrs A_begin) Hr).
  destruct (read_time ev (get_attr attrs A_begin)); [|contradiction].
  pose proof (read_time_some ev (get_attr attrs A_dur) Hr).
  destruct (read_time ev (get_attr attrs A_dur)); [|contradiction].
  pose proof (read_time_some ev (get_attr attrs A_end) Hr).
  destruct (read_time ev (get_attr attrs A_end)); [|contradiction].
  destruct (implicit_begin pc); [|contradiction].
  match type of H with context [children_loop ?a ?tm ?vl ?b ?c ?d ?e0 ?f ?g ?h ?i ?j ?k0 ?n0 ?m0] =>
    pose proof (loop_total ev b c d e0 f g IHcs h i j k0 n0 m0) as Hl;
    destruct (children_loop a tm vl b c d e0 f g h i j k0 n0 m0) as [iF kF aF pF nF|e'] end.
  - revert H. break_match; discriminate.
  - eapply Hl. reflexivity.
Qed.

(* ---- the document parameters are never zero ------------------------------------------------------------------------------- *)
Lemma pos_digits_pos s n : pos_digits s = Some n -> 0 < n.
Proof.
  unfold pos_digits. destruct (span_digits s) as [d r]. destruct d; [discriminate|]. destruct r; [|discriminate].
  destruct (0 <? digits_val 0 (z :: d)) eqn:E; [|discriminate]. intro H. inversion H; subst. apply Z.ltb_lt in E. exact E.
Qed.

Lemma inject_pos n : 0 < n -> (0 < inject_Z n)%Q.
Proof. intro H. unfold Qlt, inject_Z. simpl. lia. Qed.

Lemma frame_rate_positive attrs : (0 < extract_frame_rate attrs)%Q.
Proof.
  unfold extract_frame_rate.
  assert (Hfr : (0 < match frame_rate_attr attrs with Some n => inject_Z n | None => inject_Z 30 end)%Q).
  { unfold frame_rate_attr. destruct (get_attr attrs A_frameRate) as [raw|]; [|reflexivity].
    destruct (pos_digits raw) as [n|] eqn:E; [|reflexivity]. apply inject_pos. eapply pos_digits_pos; eassumption. }
  set (fr := match frame_rate_attr attrs with Some n => inject_Z n | None => inject_Z 30 end) in *.
  assert (H1 : (0 < fr * 1)%Q) by lra.
  destruct (get_attr attrs A_frameRateMultiplier) as [raw|]; [|exact H1].
  destruct (int_pair raw) as [[a b]|]; [|exact H1].
  destruct ((0 <? a) && (0 <? b)) eqn:E; [|exact H1].
  apply andb_true_iff in E as [Ea Eb].
  assert (Hq : (0 < inject_Z a / inject_Z b)%Q).
  { apply Qlt_shift_div_l; [apply inject_pos; lia|]. rewrite Qmult_0_l. apply inject_pos. lia. }
  apply Qmult_lt_0_compat; assumption.
Qed.

Lemma tick_rate_positive attrs : (0 < extract_tick_rate attrs)%Q.
Proof.
  unfold extract_tick_rate.
  destruct (match get_attr attrs A_tickRate with Some raw => pos_digits raw | None => None end) as [n|] eqn:E.
  - destruct (get_attr attrs A_tickRate) as [raw|]; [|discriminate]. apply inject_pos. eapply pos_digits_pos; eassumption.
  - destruct (frame_rate_attr attrs); [apply frame_rate_positive|reflexivity].
Qed.

(* ---- the document walk ------------------------------------------------------------------------------------------------------- *)
Lemma read_layout_total ev preserve lang l : rates_ok ev -> forall acc e, read_layout ev preserve lang l acc <> inr e.
Proof.
  intro Hr. induction l as [|c l IH]; intros acc e; cbn [read_layout]; [discriminate|].
  destruct (qname_eqb (x_tag c) T_region); [|apply IH].
  destruct (process ev (mkPctx true (Some 0%Q) preserve lang true) c) as [e'| |r] eqn:Ep.
  - exfalso. eapply (process_total ev c Hr); [|exact Ep]. discriminate.
  - apply IH.
  - destruct (r_node r); apply IH.
Qed.

Lemma read_head_total tr fr tm vl preserve lang l : (0 < tr)%Q -> (0 < fr)%Q -> forall h e, read_head tr fr tm vl preserve lang l h <> inr e.
Proof.
  intros Ht Hf. induction l as [|c l IH]; intros h e; cbn [read_head]; [discriminate|].
  destruct (qname_eqb (x_tag c) T_layout).
  - destruct (h_layout h); [apply IH|].
    match goal with |- context [read_layout ?ev ?a ?b ?c0 ?d] =>
      pose proof (read_layout_total ev a b c0 (conj Ht Hf) d) as Hl; destruct (read_layout ev a b c0 d) as [rs|e'] end.
    + apply IH.
    + exfalso. eapply Hl. reflexivity.
  - destruct (qname_eqb (x_tag c) T_styling); [|apply IH].
    destruct (h_styling h); [apply IH|].
    destruct (read_styling tm vl (x_children c) (h_styles h) (h_initials h)). apply IH.
Qed.

Lemma read_tt_children_total tr fr tm vl preserve lang l : (0 < tr)%Q -> (0 < fr)%Q ->
  forall hb hh h body, exists d, read_tt_children tr fr tm vl preserve lang l hb hh h body = DOk d.
Proof.
  intros Ht Hf. induction l as [|c l IH]; intros hb hh h body; cbn [read_tt_children]; [eexists; reflexivity|].
  destruct (qname_eqb (x_tag c) T_body).
  - destruct hb; [apply IH|].
    match goal with |- context [process ?ev ?pc c] =>
      pose proof (process_total ev c (conj Ht Hf) pc) as Hp; destruct (process ev pc c) as [e'| |r] eqn:Ep end.
    + exfalso. eapply Hp; [|reflexivity]. discriminate.
    + apply IH.
    + apply IH.
  - destruct (qname_eqb (x_tag c) T_head); [|apply IH].
    destruct hh; [apply IH|].
    match goal with |- context [read_head ?a ?b ?c0 ?d ?e0 ?f ?g ?i] =>
      pose proof (read_head_total a b c0 d e0 f g Ht Hf i) as Hh; destruct (read_head a b c0 d e0 f g i) as [h'|e'] end.
    + apply IH.
    + exfalso. eapply Hh. reflexivity.
Qed.

(* every <tt> tree is read: whatever the attribute values, the element kinds, the time containers and the style graph *)
Theorem read_tt_total tm vl x : exists d, read_tt tm vl x = DOk d.
Proof. unfold read_tt. apply read_tt_children_total; [apply tick_rate_positive|apply frame_rate_positive]. Qed.
