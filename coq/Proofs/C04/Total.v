(* C04, totality of the reader model: with non-zero frame and tick rates, a document without sequential time
   containers is always read (no Python exception leaves process); the seq case is the recorded finding
   seq-indefinite-sibling (Findings/C04.v). *)
From TT Require Import Base.Prelude Base.ImscXml Model.ImscTime Model.ImscStyles Model.ImscTiming Spec.TtmlTimingSpec Proofs.C04.TimeSyntax Proofs.C04.Interval.
From Coq Require Import QArith Qminmax Lqa.
Local Open Scope Z_scope.

Lemma parse_no_zero_div tr fr s : 0 < tr -> (0 < fr)%Q -> parse_time_x (Some tr) (Some fr) s <> TZeroDiv.
Proof.
  intros Htr Hfr. unfold parse_time_x, qdiv_res.
  rewrite (Qeq_bool_pos_false fr Hfr).
  assert (Hq : Qeq_bool (inject_Z tr) 0 = false).
  { apply Qeq_bool_pos_false. unfold Qlt, inject_Z. simpl. lia. }
  rewrite Hq. break_match; discriminate.
Qed.

Definition rates_ok (ev : env) : Prop := 0 < e_tr ev /\ (0 < e_fr ev)%Q.

Lemma read_time_some ev raw : rates_ok ev -> read_time ev raw <> None.
Proof.
  intros [H1 H2]. unfold read_time. destruct raw as [s|]; [|discriminate].
  pose proof (parse_no_zero_div _ _ s H1 H2) as Hn.
  destruct (parse_time_x (Some (e_tr ev)) (Some (e_fr ev)) s); try discriminate. contradiction.
Qed.

(* no element of the tree is a sequential time container *)
Fixpoint no_seq (x : xml) : bool :=
  match x with
  | X _ attrs _ _ cs => read_par attrs && (fix all (l : list xml) : bool := match l with [] => true | c :: l' => no_seq c && all l' end) cs
  end.

(* the only exception that can leave process is then the ValueError of nested / referential styling (code 5, finding
   style-invalid-value-abort) *)
Definition total_at (ev : env) (x : xml) : Prop :=
  forall pc, pc_par pc = true -> no_seq x = true -> forall e, process ev pc x = PErr e -> e = 5.

Lemma loop_total ev k db pr lg l : Forall (total_at ev) l ->
  (fix all (l : list xml) : bool := match l with [] => true | c :: l' => no_seq c && all l' end) l = true ->
  forall iend kids anims pf nst e,
    children_loop (process ev) (e_to_model ev) (e_valid ev) k true db pr lg l iend kids anims pf nst = LErr e -> e = 5.
Proof.
  induction 1 as [|c l Hc Hl IH]; intros Hall iend kids anims pf nst e; cbn [children_loop].
  - discriminate.
  - apply andb_true_iff in Hall as [Hc1 Hl1]. specialize (IH Hl1).
    destruct (ekind_eqb k KRegion && is_style_elem c).
    { destruct (merge_absent (e_valid ev) (collect (e_to_model ev) (x_attrs c) []) nst); [apply IH|]. intro H. inversion H. reflexivity. }
    destruct (process ev (mkPctx true iend db pr lg (negb (ekind_eqb k KSet))) c) as [e'| |r] eqn:Ep.
    + intro H. inversion H; subst e'. eapply Hc; [| exact Hc1 | exact Ep]. reflexivity.
    + destruct (x_tail c); [destruct (k_is_mixed k && true)|]; apply IH.
    + destruct (x_tail c); [destruct (k_is_mixed k && true)|]; apply IH.
Qed.

Theorem read_total_no_seq ev x : rates_ok ev -> total_at ev x.
Proof.
  intro Hr. induction x as [tag attrs txt tail cs IHcs] using xml_ind'.
  intros pc Hpar Hns e H. cbn [no_seq] in Hns. apply andb_true_iff in Hns as [Hp Hall].
  cbn [process] in H.
  destruct (classify tag attrs) as [k|]; [|discriminate].
  destruct (ekind_eqb k KRegion && match get_attr attrs A_id with None => true | Some _ => false end); [discriminate|].
  pose proof (read_time_some ev (get_attr attrs A_begin) Hr).
  destruct (read_time ev (get_attr attrs A_begin)); [|contradiction].
  pose proof (read_time_some ev (get_attr attrs A_dur) Hr).
  destruct (read_time ev (get_attr attrs A_dur)); [|contradiction].
  pose proof (read_time_some ev (get_attr attrs A_end) Hr).
  destruct (read_time ev (get_attr attrs A_end)); [|contradiction].
  unfold implicit_begin in H. rewrite Hpar in H. rewrite Hp in H.
  match type of H with context [children_loop ?a ?tm ?vl ?b ?c ?d ?e0 ?f ?g ?h ?i ?j ?k0 ?n0] =>
    pose proof (loop_total ev b d e0 f g IHcs Hall h i j k0 n0) as Hl;
    destruct (children_loop a tm vl b c d e0 f g h i j k0 n0) as [e'|iF kF aF pF nF] end.
  - inversion H; subst e'. eapply Hl. reflexivity.
  - revert H. break_match; intro H; inversion H; reflexivity.
Qed.
