(* C04, chained referential styling: StylingElement.from_xml flattens the table of <style> elements with merge_chained (references
   popped from the end of the list, the referenced style flattened first, its entries taken set-if-absent), mutating the table as it
   goes.  This file proves that, for a table whose reference graph has no loop, in ANY declaration order, the dictionary every style
   ends with is its TTML2 resolution [resolve]: its own attributes first, then the resolutions of the styles it references, later
   references first (a reference to a style that is not defined contributes nothing). *)
From TT Require Import Base.Prelude Base.ImscXml Model.ImscStyles Proofs.C04.Styles.
From Coq Require Import Lia.
Local Open Scope Z_scope.

(* ---- the declarative resolution ------------------------------------------------------------------------------------------------ *)
Fixpoint resolve (t : list sty) (fuel : nat) (i : text) (p : Z) : option sv :=
  match fuel with
  | O => None
  | S k =>
      match tbl_get t i with
      | None => None
      | Some s =>
          match dict_get (st_styles s) p with
          | Some x => Some x
          | None => (fix first (l : list text) : option sv :=
                       match l with
                       | [] => None
                       | r :: l' => match resolve t k r p with Some x => Some x | None => first l' end
                       end) (rev (st_refs s))
          end
      end
  end.

(* the first of the listed styles whose resolution has p *)
Fixpoint first_res (t : list sty) (k : nat) (l : list text) (p : Z) : option sv :=
  match l with
  | [] => None
  | r :: l' => match resolve t k r p with Some x => Some x | None => first_res t k l' p end
  end.

Lemma resolve_unfold t k i p :
  resolve t (S k) i p =
  match tbl_get t i with
  | None => None
  | Some s => match dict_get (st_styles s) p with Some x => Some x | None => first_res t k (rev (st_refs s)) p end
  end.
Proof.
  cbn [resolve]. destruct (tbl_get t i) as [s|]; [|reflexivity]. destruct (dict_get (st_styles s) p); [reflexivity|].
  induction (rev (st_refs s)) as [|r l IH]; [reflexivity|]. cbn [first_res]. destruct (resolve t k r p); [reflexivity|exact IH].
Qed.

(* no loop: a rank that strictly decreases along every reference to a defined style *)
Definition ranked (t : list sty) (rank : text -> nat) : Prop :=
  forall j s, tbl_get t j = Some s -> forall r, In r (st_refs s) -> tbl_get t r <> None -> (rank r < rank j)%nat.
Definition acyclic (t : list sty) : Prop := exists rank, ranked t rank.

(* ---- the table operations --------------------------------------------------------------------------------------------------------- *)
Lemma tbl_get_id t i s : tbl_get t i = Some s -> st_id s = i.
Proof.
  induction t as [|a t IH]; [discriminate|]. cbn [tbl_get]. destruct (text_eqb (st_id a) i) eqn:E.
  - intro H. inversion H; subst. apply text_eqb_eq. exact E.
  - exact IH.
Qed.

Lemma text_eqb_refl a : text_eqb a a = true.
Proof. apply text_eqb_eq. reflexivity. Qed.
Lemma text_eqb_neq a b : a <> b -> text_eqb a b = false.
Proof. intro H. destruct (text_eqb a b) eqn:E; [|reflexivity]. apply text_eqb_eq in E. contradiction. Qed.

Lemma tbl_get_put_same t i s n : tbl_get t i = Some s -> st_id n = i -> tbl_get (tbl_put t n) i = Some n.
Proof.
  intros H Hn. induction t as [|a t IH]; [discriminate|]. cbn [tbl_get tbl_put] in *. rewrite Hn.
  destruct (text_eqb (st_id a) i) eqn:E.
  - cbn [tbl_get]. rewrite Hn, text_eqb_refl. reflexivity.
  - cbn [tbl_get]. rewrite E. apply IH. exact H.
Qed.

Lemma tbl_get_put_other t n j : st_id n <> j -> tbl_get (tbl_put t n) j = tbl_get t j.
Proof.
  intro Hn. induction t as [|a t IH]; [reflexivity|]. cbn [tbl_put].
  destruct (text_eqb (st_id a) (st_id n)) eqn:E.
  - apply text_eqb_eq in E. cbn [tbl_get]. rewrite E. rewrite (text_eqb_neq _ _ Hn). reflexivity.
  - cbn [tbl_get]. rewrite IH. reflexivity.
Qed.

Lemma ids_put t n : List.map st_id (tbl_put t n) = List.map st_id t.
Proof.
  induction t as [|a t IH]; [reflexivity|]. cbn [tbl_put]. destruct (text_eqb (st_id a) (st_id n)) eqn:E.
  - apply text_eqb_eq in E. cbn [List.map]. rewrite E. reflexivity.
  - cbn [List.map]. rewrite IH. reflexivity.
Qed.

(* definedness depends on the identifiers only *)
Lemma tbl_get_ids t t' i : List.map st_id t = List.map st_id t' -> tbl_get t i = None -> tbl_get t' i = None.
Proof.
  revert t'. induction t as [|a t IH]; intros [|b t'] H; try discriminate; [reflexivity|].
  cbn [List.map] in H. inversion H as [[H1 H2]]. cbn [tbl_get]. rewrite <- H1.
  destruct (text_eqb (st_id a) i); [discriminate|]. apply IH. exact H2.
Qed.

(* the number of references left in the table *)
Fixpoint trefs (t : list sty) : nat := match t with [] => O | s :: t' => (length (st_refs s) + trefs t')%nat end.
Lemma total_refs_trefs t : total_refs t = trefs t.
Proof.
  unfold total_refs.
  assert (G : forall a, fold_left (fun (a : nat) (s : sty) => (a + length (st_refs s))%nat) t a = (a + trefs t)%nat).
  { induction t as [|s t IH]; intro a; cbn [fold_left trefs]; [lia|]. rewrite IH. lia. }
  rewrite G. lia.
Qed.

Lemma trefs_put t i s n : tbl_get t i = Some s -> st_id n = i ->
  (trefs (tbl_put t n) + length (st_refs s) = trefs t + length (st_refs n))%nat.
Proof.
  intros H Hn. induction t as [|a t IH]; [discriminate|]. cbn [tbl_get tbl_put trefs] in *. rewrite Hn.
  destruct (text_eqb (st_id a) i) eqn:E.
  - inversion H; subst a. cbn [trefs]. lia.
  - cbn [trefs]. specialize (IH H). lia.
Qed.

(* ---- set-if-absent at the level of look-ups ------------------------------------------------------------------------------------- *)
Lemma setdefault_get src : forall d p,
  dict_get (setdefault_all src d) p = match dict_get d p with Some x => Some x | None => dict_get src p end.
Proof.
  induction src as [|[k x] s IH]; intros d p; cbn [setdefault_all].
  - destruct (dict_get d p); reflexivity.
  - rewrite IH. cbn [dict_get]. destruct (dict_has d k) eqn:Eh.
    + destruct (dict_get d p) eqn:Eg; [reflexivity|]. destruct (k =? p) eqn:E; [|reflexivity].
      apply Z.eqb_eq in E. subst k. rewrite dict_has_get, Eg in Eh. discriminate.
    + rewrite dict_get_app. cbn [dict_get]. destruct (dict_get d p); [reflexivity|]. destruct (k =? p); reflexivity.
Qed.

Lemma resolve_missing t f i p : tbl_get t i = None -> resolve t f i p = None.
Proof. intro H. destruct f; [reflexivity|]. rewrite resolve_unfold, H. reflexivity. Qed.

Lemma first_res_app t k a b p : first_res t k (a ++ b) p = match first_res t k a p with Some x => Some x | None => first_res t k b p end.
Proof. induction a as [|r a IH]; [reflexivity|]. cbn [app first_res]. destruct (resolve t k r p); [reflexivity|exact IH]. Qed.

Section Flatten.
  Variable t0 : list sty.                 (* the table as StylingElement.from_xml has collected it *)
  Variable rank : text -> nat.
  Hypothesis Hrank : ranked t0 rank.

  (* the resolution does not depend on the fuel once it exceeds the rank *)
  Lemma resolve_fuel : forall f f' i p, (rank i < f)%nat -> (rank i < f')%nat -> resolve t0 f i p = resolve t0 f' i p.
  Proof.
    induction f as [|k IH]; intros f' i p H1 H2; [lia|]. destruct f' as [|k']; [lia|].
    rewrite !resolve_unfold. destruct (tbl_get t0 i) as [s|] eqn:E; [|reflexivity].
    destruct (dict_get (st_styles s) p); [reflexivity|].
    assert (G : forall l, (forall r, In r l -> In r (st_refs s)) -> first_res t0 k l p = first_res t0 k' l p).
    { induction l as [|r l IHl]; intro Hin; [reflexivity|]. cbn [first_res].
      assert (Hr : resolve t0 k r p = resolve t0 k' r p).
      { destruct (tbl_get t0 r) as [sr|] eqn:Er.
        - assert (rank r < rank i)%nat by (eapply Hrank; [exact E|apply Hin; left; reflexivity|rewrite Er; discriminate]).
          apply IH; lia.
        - rewrite !resolve_missing by assumption. reflexivity. }
      rewrite Hr. destruct (resolve t0 k' r p); [reflexivity|]. apply IHl. intros r' Hr'. apply Hin. right. exact Hr'. }
    apply G. intros r Hr. apply in_rev. exact Hr.
  Qed.

  Variable F : nat.                       (* fuel of the resolution: above every rank *)
  Hypothesis HF : forall j s, tbl_get t0 j = Some s -> (rank j < F)%nat.

  (* the resolution of a defined style, with the references resolved at the reference fuel *)
  Lemma resolve_defined i s p : tbl_get t0 i = Some s ->
    resolve t0 F i p = match dict_get (st_styles s) p with Some x => Some x | None => first_res t0 F (rev (st_refs s)) p end.
  Proof.
    intro E. pose proof (HF i s E) as Hi.
    assert (HS : resolve t0 F i p = resolve t0 (S (pred F)) i p) by (replace (S (pred F)) with F by lia; reflexivity).
    rewrite HS, resolve_unfold, E.
    destruct (dict_get (st_styles s) p); [reflexivity|].
    assert (G : forall l, (forall r, In r l -> In r (st_refs s)) -> first_res t0 (pred F) l p = first_res t0 F l p).
    { induction l as [|r l IHl]; intro Hin; [reflexivity|]. cbn [first_res].
      assert (Hr : resolve t0 (pred F) r p = resolve t0 F r p).
      { destruct (tbl_get t0 r) as [sr|] eqn:Er.
        - assert (rank r < rank i)%nat by (eapply Hrank; [exact E|apply Hin; left; reflexivity|rewrite Er; discriminate]).
          apply resolve_fuel; lia.
        - rewrite !resolve_missing by assumption. reflexivity. }
      rewrite Hr. destruct (resolve t0 F r p); [reflexivity|]. apply IHl. intros r' Hr'. apply Hin. right. exact Hr'. }
    apply G. intros r Hr. apply in_rev. exact Hr.
  Qed.

  (* invariant of an entry of the table being flattened: its references are those of the original minus the ones popped so far, and
     its dictionary is the original one followed by the resolutions of the popped references, in the order they were popped *)
  Definition entry_ok (t : list sty) (j : text) : Prop :=
    forall s, tbl_get t j = Some s ->
      exists s0 popped, tbl_get t0 j = Some s0 /\ st_refs s0 = st_refs s ++ rev popped /\
        forall p, dict_get (st_styles s) p = match dict_get (st_styles s0) p with Some x => Some x | None => first_res t0 F popped p end.

  Definition same_ids (t : list sty) : Prop := List.map st_id t = List.map st_id t0.

  Lemma entry_ok_same t t' j : tbl_get t' j = tbl_get t j -> entry_ok t j -> entry_ok t' j.
  Proof. intros H Hok s Hs. rewrite H in Hs. exact (Hok s Hs). Qed.

  (* a flattened entry holds the resolution *)
  Lemma entry_done t j s p : entry_ok t j -> tbl_get t j = Some s -> st_refs s = [] -> dict_get (st_styles s) p = resolve t0 F j p.
  Proof.
    intros Hok Hs Hr. destruct (Hok s Hs) as [s0 [popped [H0 [Hrefs Hget]]]]. rewrite Hget, (resolve_defined j s0 p H0).
    rewrite Hr in Hrefs. cbn [app] in Hrefs. rewrite Hrefs, rev_involutive. reflexivity.
  Qed.

  Lemma mc_ok : forall fuel t i, same_ids t -> (trefs t < fuel)%nat -> (forall j, (rank j <= rank i)%nat -> entry_ok t j) ->
    let t' := merge_chained fuel t i in
    same_ids t' /\ (trefs t' <= trefs t)%nat /\
    (forall j, entry_ok t j -> entry_ok t' j) /\
    (forall j, j <> i -> (rank i <= rank j)%nat -> tbl_get t' j = tbl_get t j) /\
    (forall j s, tbl_get t j = Some s -> st_refs s = [] -> tbl_get t' j = Some s) /\
    (forall s, tbl_get t' i = Some s -> st_refs s = []).
  Proof.
    induction fuel as [|k IH]; intros t i Hids Hfuel Hlow; [lia|].
    cbn [merge_chained]. cbv zeta.
    destruct (tbl_get t i) as [s|] eqn:Ei.
    2:{ repeat split; auto. intros s Hs. rewrite Ei in Hs. discriminate. }
    destruct (rev (st_refs s)) as [|r rest] eqn:Erev.
    { assert (Hnil : st_refs s = []). { rewrite <- (rev_involutive (st_refs s)), Erev. reflexivity. }
      repeat split; auto. intros s' Hs'. rewrite Ei in Hs'. inversion Hs'; subst. exact Hnil. }
    assert (Hrefs_s : st_refs s = rev rest ++ [r]). { rewrite <- (rev_involutive (st_refs s)), Erev. reflexivity. }
    pose proof (tbl_get_id t i s Ei) as Hid.
    (* the entry of i in the original table: r is one of its references *)
    destruct (Hlow i (Nat.le_refl _) s Ei) as [s0 [popped [H0 [Hr0 Hget0]]]].
    assert (Hr_in : In r (st_refs s0)). { rewrite Hr0, Hrefs_s. apply in_or_app. left. apply in_or_app. right. left. reflexivity. }
    set (n1 := mkSty i (st_styles s) (rev rest)).
    set (t1 := tbl_put t n1).
    assert (Hids1 : same_ids t1) by (unfold same_ids, t1; rewrite ids_put; exact Hids).
    assert (Hget1_i : tbl_get t1 i = Some n1) by (apply (tbl_get_put_same t i s n1 Ei); reflexivity).
    assert (Hget1_o : forall j, j <> i -> tbl_get t1 j = tbl_get t j).
    { intros j Hj. apply tbl_get_put_other. cbn [n1 st_id]. congruence. }
    assert (Htr1 : (trefs t1 + 1 = trefs t)%nat).
    { pose proof (trefs_put t i s n1 Ei eq_refl) as Hp. cbn [n1 st_refs] in Hp. fold t1 in Hp.
      rewrite Hrefs_s, app_length, !rev_length in Hp. cbn [length] in Hp. lia. }
    (* popping r without having merged it: the invariant of i with the resolution of r still missing *)
    assert (Hpend : forall p, dict_get (st_styles s) p = match dict_get (st_styles s0) p with Some x => Some x | None => first_res t0 F popped p end) by exact Hget0.
    assert (Hr0' : st_refs s0 = rev rest ++ rev (popped ++ [r])).
    { rewrite Hr0, Hrefs_s, rev_app_distr. cbn [rev app]. rewrite <- app_assoc. reflexivity. }
    destruct (tbl_get t1 r) as [sr1|] eqn:Er1.
    - (* r is defined: flatten it first; it has a smaller rank than i *)
      assert (Hr_def : tbl_get t0 r <> None).
      { intro Hn. apply (tbl_get_ids t0 t1 r) in Hn; [congruence|]. symmetry. exact Hids1. }
      assert (Hrk : (rank r < rank i)%nat) by (eapply Hrank; eassumption).
      assert (Hri : r <> i) by (intro; subst; lia).
      assert (Hlow1 : forall j, (rank j <= rank r)%nat -> entry_ok t1 j).
      { intros j Hj. assert (j <> i) by (intro; subst; lia). apply (entry_ok_same t t1 j (Hget1_o j H)). apply Hlow. lia. }
      destruct (IH t1 r Hids1 ltac:(lia) Hlow1) as [Hids2 [Htr2 [Hok2 [Hframe2 [Hkeep2 Hdone2]]]]].
      set (t2 := merge_chained k t1 r) in *.
      assert (Hget2_i : tbl_get t2 i = Some n1). { rewrite (Hframe2 i (not_eq_sym Hri) ltac:(lia)). exact Hget1_i. }
      destruct (tbl_get t2 r) as [rs|] eqn:Er2.
      2:{ exfalso. apply (tbl_get_ids t2 t1 r) in Er2; [congruence|]. rewrite Hids2. symmetry. exact Hids1. }
      rewrite Hget2_i.
      set (n3 := mkSty i (setdefault_all (st_styles rs) (st_styles n1)) (st_refs n1)).
      set (t3 := tbl_put t2 n3).
      assert (Hids3 : same_ids t3) by (unfold same_ids, t3; rewrite ids_put; exact Hids2).
      assert (Hget3_i : tbl_get t3 i = Some n3) by (apply (tbl_get_put_same t2 i n1 n3 Hget2_i); reflexivity).
      assert (Hget3_o : forall j, j <> i -> tbl_get t3 j = tbl_get t2 j).
      { intros j Hj. apply tbl_get_put_other. cbn [n3 st_id]. congruence. }
      assert (Htr3 : trefs t3 = trefs t2).
      { pose proof (trefs_put t2 i n1 n3 Hget2_i eq_refl) as Hp. fold t3 in Hp. cbn [n3 st_refs] in Hp. lia. }
      (* r is flattened in t2: its dictionary is its resolution *)
      assert (Hok2_r : entry_ok t2 r).
      { apply Hok2. apply Hlow1. lia. }
      pose proof (Hdone2 rs eq_refl) as Hrs_nil.
      assert (Hres_r : forall p, dict_get (st_styles rs) p = resolve t0 F r p) by (intro p; apply (entry_done t2 r rs p Hok2_r Er2 Hrs_nil)).
      assert (Hok3_i : entry_ok t3 i).
      { intros s3 Hs3. rewrite Hget3_i in Hs3. inversion Hs3; subst s3. exists s0, (popped ++ [r]).
        split; [exact H0|]. split; [cbn [n3 n1 st_refs]; exact Hr0'|].
        intro p. cbn [n3 n1 st_styles]. rewrite setdefault_get, Hpend, first_res_app. cbn [first_res]. rewrite Hres_r.
        destruct (dict_get (st_styles s0) p); [reflexivity|]. destruct (first_res t0 F popped p); [reflexivity|].
        destruct (resolve t0 F r p); reflexivity. }
      assert (Hlow3 : forall j, (rank j <= rank i)%nat -> entry_ok t3 j).
      { intros j Hj. destruct (list_eq_dec Z.eq_dec j i) as [->|Hne]; [exact Hok3_i|].
        apply (entry_ok_same t2 t3 j (Hget3_o j Hne)). apply Hok2. apply (entry_ok_same t t1 j (Hget1_o j Hne)). apply Hlow. exact Hj. }
      destruct (IH t3 i Hids3 ltac:(lia) Hlow3) as [Hids4 [Htr4 [Hok4 [Hframe4 [Hkeep4 Hdone4]]]]].
      repeat split.
      + exact Hids4.
      + lia.
      + intros j Hj. destruct (list_eq_dec Z.eq_dec j i) as [->|Hne].
        * apply Hok4. exact Hok3_i.
        * apply Hok4. apply (entry_ok_same t2 t3 j (Hget3_o j Hne)). apply Hok2. apply (entry_ok_same t t1 j (Hget1_o j Hne)). exact Hj.
      + intros j Hne Hj. rewrite (Hframe4 j Hne Hj), (Hget3_o j Hne).
        assert (j <> r) by (intro; subst; lia).
        rewrite (Hframe2 j H ltac:(lia)). apply Hget1_o. exact Hne.
      + intros j sj Hsj Hnil. assert (Hne : j <> i).
        { intro; subst j. rewrite Ei in Hsj. inversion Hsj; subst sj. rewrite Hrefs_s in Hnil. destruct (rev rest); discriminate. }
        apply Hkeep4; [|exact Hnil]. rewrite (Hget3_o j Hne). apply Hkeep2; [|exact Hnil]. rewrite (Hget1_o j Hne). exact Hsj.
      + exact Hdone4.
    - (* r is not defined: the reference is dropped ("Style id not present") *)
      assert (Hr_undef : tbl_get t0 r = None). { apply (tbl_get_ids t1 t0 r Hids1 Er1). }
      assert (Hok1_i : entry_ok t1 i).
      { intros s1 Hs1. rewrite Hget1_i in Hs1. inversion Hs1; subst s1. exists s0, (popped ++ [r]).
        split; [exact H0|]. split; [cbn [n1 st_refs]; exact Hr0'|].
        intro p. cbn [n1 st_styles]. rewrite Hpend, first_res_app. cbn [first_res]. rewrite (resolve_missing t0 F r p Hr_undef).
        destruct (dict_get (st_styles s0) p); [reflexivity|]. destruct (first_res t0 F popped p); reflexivity. }
      assert (Hlow1 : forall j, (rank j <= rank i)%nat -> entry_ok t1 j).
      { intros j Hj. destruct (list_eq_dec Z.eq_dec j i) as [->|Hne]; [exact Hok1_i|].
        apply (entry_ok_same t t1 j (Hget1_o j Hne)). apply Hlow. exact Hj. }
      destruct (IH t1 i Hids1 ltac:(lia) Hlow1) as [Hids4 [Htr4 [Hok4 [Hframe4 [Hkeep4 Hdone4]]]]].
      repeat split.
      + exact Hids4.
      + lia.
      + intros j Hj. destruct (list_eq_dec Z.eq_dec j i) as [->|Hne].
        * apply Hok4. exact Hok1_i.
        * apply Hok4. apply (entry_ok_same t t1 j (Hget1_o j Hne)). exact Hj.
      + intros j Hne Hj. rewrite (Hframe4 j Hne Hj). apply Hget1_o. exact Hne.
      + intros j sj Hsj Hnil. assert (Hne : j <> i).
        { intro; subst j. rewrite Ei in Hsj. inversion Hsj; subst sj. rewrite Hrefs_s in Hnil. destruct (rev rest); discriminate. }
        apply Hkeep4; [|exact Hnil]. rewrite (Hget1_o j Hne). exact Hsj.
      + exact Hdone4.
  Qed.
End Flatten.

(* ---- the whole table: every style is flattened in turn ------------------------------------------------------------------------- *)
Lemma tbl_get_in t i s : tbl_get t i = Some s -> In i (List.map st_id t).
Proof.
  induction t as [|a t IH]; [discriminate|]. cbn [tbl_get List.map]. destruct (text_eqb (st_id a) i) eqn:E.
  - intros _. left. apply text_eqb_eq. exact E.
  - intro H. right. exact (IH H).
Qed.

Definition step (acc : list sty) (s : sty) : list sty := merge_chained (S (2 * total_refs acc + length acc)) acc (st_id s).
Lemma flatten_fold t : flatten t = fold_left step t t.
Proof. reflexivity. Qed.

(* a rank below the size of the table: every loop-free reference graph has one (number the styles along a topological order) *)
Definition acyclic_ranked (t : list sty) (rank : text -> nat) : Prop :=
  ranked t rank /\ forall j s, tbl_get t j = Some s -> (rank j < length t)%nat.

Theorem flatten_resolves t rank : acyclic_ranked t rank ->
  forall i s, tbl_get (flatten t) i = Some s -> st_refs s = [] /\ forall p, dict_get (st_styles s) p = resolve t (length t) i p.
Proof.
  intros [Hrank HF].
  set (ok := fun acc => same_ids t acc /\ forall j, entry_ok t (length t) acc j).
  assert (Hfold : forall l acc visited, ok acc ->
            (forall j s, In j visited -> tbl_get acc j = Some s -> st_refs s = []) ->
            ok (fold_left step l acc) /\
            (forall j s, In j visited \/ In j (List.map st_id l) -> tbl_get (fold_left step l acc) j = Some s -> st_refs s = [])).
  { induction l as [|a l IH]; intros acc visited [Hids Hok] Hvis.
    - split; [split; assumption|]. intros j s [Hj|[]]. apply Hvis. exact Hj.
    - cbn [fold_left List.map].
      assert (Hfuel : (trefs acc < S (2 * total_refs acc + length acc))%nat) by (rewrite total_refs_trefs; lia).
      destruct (mc_ok t rank Hrank (length t) HF _ acc (st_id a) Hids Hfuel (fun j _ => Hok j)) as [Hids' [_ [Hok' [_ [Hkeep Hdone]]]]].
      fold (step acc a) in *.
      destruct (IH (step acc a) (st_id a :: visited)) as [Hokf Hvisf].
      + split; [exact Hids'|]. intro j. apply Hok'. apply Hok.
      + intros j s [<-|Hj] Hs; [exact (Hdone s Hs)|].
        (* an entry without references is not touched any more *)
        destruct (tbl_get acc j) as [sj|] eqn:Ej.
        * pose proof (Hvis j sj Hj Ej) as Hnil. rewrite (Hkeep j sj Ej Hnil) in Hs. inversion Hs; subst. exact Hnil.
        * exfalso. apply (tbl_get_ids acc (step acc a) j) in Ej; [congruence|]. rewrite Hids'. exact Hids.
      + split; [exact Hokf|]. intros j s Hj Hs. apply (Hvisf j s); [|exact Hs].
        destruct Hj as [Hj|[Hj|Hj]]; [left; right; exact Hj|left; left; exact Hj|right; exact Hj]. }
  assert (Hinit : ok t).
  { split; [reflexivity|]. intros j s Hs. exists s, []. split; [exact Hs|]. split; [cbn [rev]; rewrite app_nil_r; reflexivity|].
    intro p. cbn [first_res]. destruct (dict_get (st_styles s) p); reflexivity. }
  destruct (Hfold t t [] Hinit ltac:(intros j s [])) as [[Hids Hok] Hall].
  intros i s Hs. rewrite flatten_fold in Hs.
  assert (Hnil : st_refs s = []).
  { apply (Hall i s); [|exact Hs]. right. rewrite <- Hids. eapply tbl_get_in. exact Hs. }
  split; [exact Hnil|]. intro p. apply (entry_done t rank Hrank (length t) HF _ i s p (Hok i) Hs Hnil).
Qed.

(* the order in which the styles are declared does not matter: the result for a style is a function of the reference graph *)
Corollary flatten_order_independent t u rank : acyclic_ranked t rank -> acyclic_ranked u rank ->
  (forall j, tbl_get t j = tbl_get u j) -> length t = length u ->
  forall i s s' p, tbl_get (flatten t) i = Some s -> tbl_get (flatten u) i = Some s' -> dict_get (st_styles s) p = dict_get (st_styles s') p.
Proof.
  intros Ht Hu Hsame Hlen i s s' p Hs Hs'.
  destruct (flatten_resolves t rank Ht i s Hs) as [_ H1]. destruct (flatten_resolves u rank Hu i s' Hs') as [_ H2].
  rewrite H1, H2, Hlen.
  assert (G : forall f j, resolve t f j p = resolve u f j p).
  { induction f as [|k IH]; intro j; [reflexivity|]. rewrite !resolve_unfold, Hsame. destruct (tbl_get u j) as [sj|]; [|reflexivity].
    destruct (dict_get (st_styles sj) p); [reflexivity|]. induction (rev (st_refs sj)) as [|r l IHl]; [reflexivity|].
    cbn [first_res]. rewrite IH. destruct (resolve u k r p); [reflexivity|exact IHl]. }
  apply G.
Qed.

(* non-vacuity: c is declared first and references b, which is declared after it and references a (declared last); a and b both
   give property 1, the nearer b wins; property 2 comes from a through two steps *)
Example flatten_example :
  let ta := mkSty [97] [(1, SO 10); (2, SO 20)] [] in
  let tb := mkSty [98] [(1, SO 11)] [[97]] in
  let tc := mkSty [99] [(3, SO 30)] [[98]] in
  let t := [tc; tb; ta] in
  acyclic_ranked t (fun i => match i with [97] => O | [98] => 1%nat | _ => 2%nat end) /\
  match tbl_get (flatten t) [99] with
  | Some s => (dict_get (st_styles s) 1, dict_get (st_styles s) 2, dict_get (st_styles s) 3) = (Some (SO 11), Some (SO 20), Some (SO 30))
  | None => False
  end.
Proof.
  cbv zeta. split; [|vm_compute; reflexivity].
  split.
  - intros j s Hj r Hr Hdef. cbn [tbl_get st_id] in Hj.
    destruct (text_eqb [99] j) eqn:E1.
    { apply text_eqb_eq in E1. subst j. inversion Hj; subst s. cbn [st_refs] in Hr. destruct Hr as [<-|[]]. cbn. lia. }
    destruct (text_eqb [98] j) eqn:E2.
    { apply text_eqb_eq in E2. subst j. inversion Hj; subst s. cbn [st_refs] in Hr. destruct Hr as [<-|[]]. cbn. lia. }
    destruct (text_eqb [97] j) eqn:E3; [|discriminate].
    inversion Hj; subst s. destruct Hr.
  - intros j s Hj. cbn [tbl_get st_id length] in *.
    destruct (text_eqb [99] j) eqn:E1; [apply text_eqb_eq in E1; subst j; cbn; lia|].
    destruct (text_eqb [98] j) eqn:E2; [apply text_eqb_eq in E2; subst j; cbn; lia|].
    destruct (text_eqb [97] j) eqn:E3; [apply text_eqb_eq in E3; subst j; cbn; lia|discriminate].
Qed.
