(* The names and class flags hard-wired in Base/ImscXml.v and Model/ImscTiming.v equal those regenerated from the
   source (Gen/ImscTables.v): a rename or a changed class attribute in ttconv/imsc breaks this file. *)
From TT Require Import Base.Prelude Base.ImscXml Model.ImscTiming Gen.ImscTables.

Lemma qnames_agree :
  firstn 26 code_qnames =
  [T_tt; T_head; T_body; T_div; T_p; T_span; T_br; T_set; T_region; T_style; T_layout; T_styling; T_initial;
   A_begin; A_end; A_dur; A_region; A_style; A_timeContainer; A_ruby; A_lang; A_space; A_id;
   A_frameRate; A_frameRateMultiplier; A_tickRate].
Proof. reflexivity. Qed.

Lemma ruby_values_agree : code_ruby_values = [V_container; V_base; V_text; V_delimiter; V_baseContainer; V_textContainer].
Proof. reflexivity. Qed.

Lemma misc_values_agree : code_misc_values = [V_par; V_seq; V_default; V_preserve].
Proof. reflexivity. Qed.

Lemma class_flags_agree :
  code_class_flags =
  List.map (fun k => [k_has_timing k; k_has_region k; k_has_styles k; k_is_mixed k; k_has_children k])
           [KBody; KDiv; KP; KSpan; KRuby; KRb; KRt; KRp; KRbc; KRtc; KBr; KSet; KRegion].
Proof. reflexivity. Qed.
