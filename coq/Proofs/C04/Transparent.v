(* C04, children that are not content elements are transparent: reading a tree and reading the tree without its non-content
   children (Spec/TtmlContentSpec.v strip: their tails stay in place, appended to the preceding text) give the same result up to
   the split of adjacent anonymous spans (same_node), for every tree, environment and parsing context.  By induction on the tree; the children loop is
   followed on both sides at once, the stripped side holding back the text that the original side has already turned into
   anonymous spans. *)
From TT Require Import Base.Prelude Base.ImscXml Model.ImscTime Model.ImscStyles Model.ImscTiming Spec.TtmlTimingSpec Spec.TtmlContentSpec.
From TT Require Import Proofs.C04.Interval.
From Coq Require Import QArith Qminmax.
Local Open Scope Z_scope.

(* ---- relations on the reader's results ------------------------------------------------------------------------------------------ *)
Definition onode_rel (a b : option mnode) : Prop :=
  match a, b with Some x, Some y => same_node x y | None, None => True | _, _ => False end.
Definition cres_rel (r r' : cres) : Prop :=
  r_kind r = r_kind r' /\ r_des_begin r = r_des_begin r' /\ r_des_end r = r_des_end r' /\
  onode_rel (r_node r) (r_node r') /\ r_anim r = r_anim r' /\ r_pushfail r = r_pushfail r'.
Definition pres_rel (a b : pres) : Prop :=
  match a, b with
  | PErr e, PErr e' => e = e'
  | PSkip, PSkip => True
  | POk r, POk r' => cres_rel r r'
  | _, _ => False
  end.
Definition dres_rel (a b : dres) : Prop :=
  match a, b with
  | DErr e, DErr e' => e = e'
  | DOk d, DOk d' => d_lang d = d_lang d' /\ Forall2 same_node (d_regions d) (d_regions d') /\
                     onode_rel (d_body d) (d_body d') /\ d_initials d = d_initials d'
  | _, _ => False
  end.

(* ---- same_node / same_list ------------------------------------------------------------------------------------------------------------ *)
Fixpoint same_node_refl (n : mnode) : same_node n n :=
  match n with
  | MText t => SN_text t
  | MElem k rid b e p l g s a cs =>
      SN_elem k rid b e p l g s a cs cs
        ((fix go (x : list mnode) : same_list x x :=
            match x with [] => SL_nil | c :: x' => SL_cons c c x' x' (same_node_refl c) (go x') end) cs)
  end.

Lemma same_list_refl l : same_list l l.
Proof. induction l as [|c l IH]; [constructor|]. constructor; [apply same_node_refl|exact IH]. Qed.

Lemma same_list_app a a' b b' : same_list a a' -> same_list b b' -> same_list (a ++ b) (a' ++ b').
Proof.
  intros Ha Hb. induction Ha as [|n n' l l' Hn Hl IH|am ts l l' Hts Hl IH]; cbn [app].
  - exact Hb.
  - constructor; assumption.
  - rewrite <- app_assoc. constructor; assumption.
Qed.

Lemma same_list_anon am ts : ts <> [] -> same_list (List.map (anon_node am) ts) [anon_node am (concat ts)].
Proof. intro H. rewrite <- (app_nil_r (List.map (anon_node am) ts)). constructor; [exact H|constructor]. Qed.

Lemma forall2_same_list l l' : Forall2 same_node l l' -> same_list l l'.
Proof. induction 1; constructor; assumption. Qed.

Lemma same_node_kind n n' : same_node n n' -> m_kind n = m_kind n'.
Proof. destruct 1; reflexivity. Qed.

Lemma same_list_nil_l l' : same_list [] l' -> l' = [].
Proof.
  intro H. inversion H as [| |am ts l l0 Hts Hl Heq]; [reflexivity|].
  destruct ts; [contradiction|discriminate].
Qed.

(* the anonymous span the reader makes in a parent of class k *)
Definition anon_mode (k : ekind) (pr : bool) (lg : text) : option (bool * text) :=
  if ekind_eqb k KSpan then None else Some (pr, lg).
Lemma anon_span_node k pr lg t : anon_span k pr lg t = anon_node (anon_mode k pr lg) t.
Proof. unfold anon_span, anon_mode. destruct (ekind_eqb k KSpan); reflexivity. Qed.

Lemma anon_kind am t u : m_kind (anon_node am t) = m_kind (anon_node am u).
Proof. destruct am as [[p l]|]; reflexivity. Qed.

(* ---- push_children respects the relations ------------------------------------------------------------------------------------------- *)
Lemma take_ok_anon k am ts l :
  take_ok k (List.map (anon_node am) ts ++ l) =
  match ts with
  | [] => take_ok k l
  | t :: _ => if child_ok k (m_kind (anon_node am t))
              then (List.map (anon_node am) ts ++ fst (take_ok k l), snd (take_ok k l)) else ([], false)
  end.
Proof.
  induction ts as [|t ts IH]; [reflexivity|]. cbn [List.map app take_ok].
  destruct (child_ok k (m_kind (anon_node am t))) eqn:E; [|reflexivity].
  rewrite IH. destruct ts as [|u ts].
  - cbn [List.map app]. destruct (take_ok k l); reflexivity.
  - rewrite (anon_kind am u t), E. reflexivity.
Qed.

Lemma take_ok_same k l l' : same_list l l' ->
  same_list (fst (take_ok k l)) (fst (take_ok k l')) /\ snd (take_ok k l) = snd (take_ok k l').
Proof.
  induction 1 as [|n n' l l' Hn Hl IH|am ts l l' Hts Hl IH].
  - split; [constructor|reflexivity].
  - cbn [take_ok]. rewrite (same_node_kind _ _ Hn). destruct (child_ok k (m_kind n')); [|split; [constructor|reflexivity]].
    destruct (take_ok k l) as [a ok], (take_ok k l') as [a' ok']. cbn [fst snd] in *. destruct IH as [IH1 IH2].
    split; [constructor; assumption|exact IH2].
  - rewrite take_ok_anon. destruct ts as [|t ts]; [contradiction|]. cbn [take_ok].
    rewrite (anon_kind am (concat (t :: ts)) t).
    destruct (child_ok k (m_kind (anon_node am t))); [|split; [constructor|reflexivity]].
    destruct (take_ok k l) as [a ok], (take_ok k l') as [a' ok']. cbn [fst snd] in *. destruct IH as [IH1 IH2].
    split; [constructor; [discriminate|exact IH1]|exact IH2].
Qed.

Lemma forall2_kinds l l' : Forall2 same_node l l' -> List.map m_kind l = List.map m_kind l'.
Proof. induction 1 as [|n n' l l' Hn Hl IH]; [reflexivity|]. cbn [List.map]. rewrite (same_node_kind _ _ Hn), IH. reflexivity. Qed.

Lemma kinds_are_map l : forall ks, kinds_are l ks =
  (Z.of_nat (length (List.map m_kind l)) =? Z.of_nat (length ks)) &&
  forallb (fun p => ekind_eqb (fst p) (snd p)) (combine (List.map m_kind l) ks).
Proof.
  intro ks. unfold kinds_are. rewrite map_length. f_equal.
  revert ks. induction l as [|n l IH]; intro ks; [reflexivity|]. destruct ks as [|k0 ks]; [reflexivity|].
  cbn [List.map combine forallb fst snd]. rewrite IH. reflexivity.
Qed.

Lemma take_ok_forall2 k l l' : Forall2 same_node l l' ->
  Forall2 same_node (fst (take_ok k l)) (fst (take_ok k l')) /\ snd (take_ok k l) = snd (take_ok k l').
Proof.
  induction 1 as [|n n' l l' Hn Hl IH]; [split; [constructor|reflexivity]|].
  cbn [take_ok]. rewrite (same_node_kind _ _ Hn). destruct (child_ok k (m_kind n')); [|split; [constructor|reflexivity]].
  destruct (take_ok k l) as [a ok], (take_ok k l') as [a' ok']. cbn [fst snd] in *. destruct IH as [IH1 IH2].
  split; [constructor; assumption|exact IH2].
Qed.

Lemma push_forall2 k l l' : Forall2 same_node l l' ->
  Forall2 same_node (fst (push_children k l)) (fst (push_children k l')) /\ snd (push_children k l) = snd (push_children k l').
Proof.
  intro H. pose proof (forall2_kinds _ _ H) as Hk.
  destruct k; try (apply take_ok_forall2; exact H); cbn [push_children].
  - (* ruby *) rewrite !(kinds_are_map l), !(kinds_are_map l'), Hk.
    match goal with |- context [if ?c then _ else _] => destruct c end; cbn [fst snd]; split; try exact H; try constructor; reflexivity.
  - (* rtc *) rewrite Hk.
    match goal with |- context [if ?c then _ else _] => destruct c end; cbn [fst snd]; split; try exact H; try constructor; reflexivity.
Qed.

(* the relation between the children collected on the two sides: in a parent that makes anonymous spans, up to their split; elsewhere
   node by node *)
Definition kids_rel (mp : bool) : list mnode -> list mnode -> Prop := if mp then same_list else Forall2 same_node.

Lemma kids_rel_same_list mp l l' : kids_rel mp l l' -> same_list l l'.
Proof. destruct mp; [exact (fun H => H)|apply forall2_same_list]. Qed.

Lemma kids_rel_snoc mp l l' n n' : kids_rel mp l l' -> same_node n n' -> kids_rel mp (l ++ [n]) (l' ++ [n']).
Proof.
  destruct mp; cbn [kids_rel]; intros H Hn.
  - apply same_list_app; [exact H|]. constructor; [exact Hn|constructor].
  - apply Forall2_app; [exact H|]. constructor; [exact Hn|constructor].
Qed.

Lemma kids_rel_nil mp : kids_rel mp [] [].
Proof. destruct mp; constructor. Qed.

Lemma push_rel k par l l' : kids_rel (k_is_mixed k && par) l l' ->
  same_list (fst (push_children k l)) (fst (push_children k l')) /\ snd (push_children k l) = snd (push_children k l').
Proof.
  destruct (k_is_mixed k && par) eqn:E; cbn [kids_rel]; intro H.
  - apply andb_true_iff in E as [E _]. destruct k; try discriminate; apply take_ok_same; exact H.
  - destruct (push_forall2 k l l' H) as [H1 H2]. split; [apply forall2_same_list; exact H1|exact H2].
Qed.

(* ---- strip, set_tail and process ---------------------------------------------------------------------------------------------------- *)
Lemma strip_unfold tag attrs txt tail cs :
  strip (X tag attrs txt tail cs) =
  let '(pre, r) := strip_children (keeps tag attrs) strip cs in X tag attrs (oapp txt pre) tail r.
Proof. reflexivity. Qed.

Lemma strip_tag x : x_tag (strip x) = x_tag x.
Proof. destruct x as [tag attrs txt tail cs]. rewrite strip_unfold. destruct (strip_children _ _ cs). reflexivity. Qed.
Lemma strip_attrs x : x_attrs (strip x) = x_attrs x.
Proof. destruct x as [tag attrs txt tail cs]. rewrite strip_unfold. destruct (strip_children _ _ cs). reflexivity. Qed.
Lemma set_tail_tag x t : x_tag (set_tail x t) = x_tag x.
Proof. destruct x; reflexivity. Qed.
Lemma set_tail_attrs x t : x_attrs (set_tail x t) = x_attrs x.
Proof. destruct x; reflexivity. Qed.
Lemma set_tail_tail x t : x_tail (set_tail x t) = t.
Proof. destruct x; reflexivity. Qed.
Lemma process_set_tail ev pc x t : process ev pc (set_tail x t) = process ev pc x.
Proof. destruct x; reflexivity. Qed.

Lemma is_style_strip c t : is_style_elem (set_tail (strip c) t) = is_style_elem c.
Proof. unfold is_style_elem. rewrite set_tail_tag, strip_tag. reflexivity. Qed.

(* a child outside the timed vocabulary is skipped by the reader, in every context *)
Lemma untimed_skip ev pc c : timed c = false -> process ev pc c = PSkip.
Proof.
  destruct c as [tag attrs txt tail cs]. unfold timed. cbn [x_tag x_attrs process]. rewrite classify_s_kind.
  destruct (classify tag attrs) as [k|]; [|reflexivity].
  destruct k; try discriminate. destruct (get_attr attrs A_id); [discriminate|]. reflexivity.
Qed.

Lemma oapp_assoc a b c : oapp a (oapp b c) = oapp (oapp a b) c.
Proof. destruct a, b, c; cbn [oapp]; try reflexivity. rewrite app_assoc. reflexivity. Qed.
Lemma oapp_none_r a : oapp a None = a.
Proof. destruct a; reflexivity. Qed.

Definition otexts (ts : list text) : option text := match ts with [] => None | _ => Some (concat ts) end.
Lemma otexts_snoc ts t : otexts (ts ++ [t]) = oapp (otexts ts) (Some t).
Proof.
  assert (Ht : concat [t] = t) by (cbn [concat]; apply app_nil_r).
  destruct ts as [|t0 ts]; unfold otexts, oapp.
  - cbn [app]. rewrite Ht. reflexivity.
  - cbn [app]. change (t0 :: ts ++ [t]) with ((t0 :: ts) ++ [t]). rewrite concat_app, Ht. reflexivity.
Qed.

(* ---- one step of the children loop ------------------------------------------------------------------------------------------------------ *)
Definition onone {A} (o : option A) : bool := match o with None => true | Some _ => false end.

(* "process tail text node" *)
Definition flush (mp : bool) (k : ekind) (pr : bool) (lg : text) (iend : option Q) (kids : list mnode) (p : option text)
  : option Q * list mnode :=
  match p with
  | Some t => if mp then (None, kids ++ [anon_span k pr lg t]) else (iend, kids)
  | None => (iend, kids)
  end.

Definition upd_iend (par : bool) (db : Q) (iend : option Q) (r : cres) : option Q :=
  if par then match iend, r_des_end r with Some a, Some ce => Some (Qmax a (ce + db)%Q) | _, _ => None end
  else match iend with
       | Some _ => match r_des_end r with Some ce => Some (ce + db)%Q | None => None end
       | None => None
       end.
Definition upd_kids (kids : list mnode) (r : cres) : list mnode :=
  match r_node r with
  | Some n => if negb (ekind_eqb (r_kind r) KSet) &&
                 match r_des_end r with None => true | Some ce => negb (Qeq_bool (r_des_begin r) ce) end
              then kids ++ [n] else kids
  | None => kids
  end.
Definition upd_anims (anims : list anim) (r : cres) : list anim :=
  match r_anim r with Some a => anims ++ [a] | None => anims end.

Lemma loop_cons proc tm vl k par db pr lg c l iend send kids anims pf nst :
  children_loop proc tm vl k par db pr lg (c :: l) iend send kids anims pf nst =
  if ekind_eqb k KRegion && is_style_elem c
  then children_loop proc tm vl k par db pr lg l iend send kids anims pf (merge_absent vl (collect tm vl (x_attrs c) []) nst)
  else if negb par && onone send then children_loop proc tm vl k par db pr lg l iend send kids anims pf nst
  else if ekind_eqb k KSet then LDone iend kids anims pf nst
  else match proc (mkPctx par send pr lg (negb (ekind_eqb k KSet))) c with
       | PErr e => LErr e
       | PSkip => children_loop proc tm vl k par db pr lg l
                    (fst (flush (k_is_mixed k && par) k pr lg iend kids (x_tail c))) send
                    (snd (flush (k_is_mixed k && par) k pr lg iend kids (x_tail c))) anims pf nst
       | POk r => children_loop proc tm vl k par db pr lg l
                    (fst (flush (k_is_mixed k && par) k pr lg (upd_iend par db iend r) (upd_kids kids r) (x_tail c)))
                    (if par then send else r_des_end r)
                    (snd (flush (k_is_mixed k && par) k pr lg (upd_iend par db iend r) (upd_kids kids r) (x_tail c)))
                    (upd_anims anims r) (pf || r_pushfail r) nst
       end.
Proof.
  cbn [children_loop]. unfold onone, flush, upd_iend, upd_kids, upd_anims.
  destruct (ekind_eqb k KRegion && is_style_elem c); [reflexivity|].
  destruct (negb par && match send with None => true | Some _ => false end); [reflexivity|].
  destruct (ekind_eqb k KSet); [reflexivity|].
  destruct (proc _ c) as [e| |r]; [reflexivity| |]; destruct (x_tail c); try destruct (k_is_mixed k && par); reflexivity.
Qed.

Definition lres_rel (mp : bool) (a b : lres) : Prop :=
  match a, b with
  | LDone i ks an pf n, LDone i' ks' an' pf' n' => i = i' /\ kids_rel mp ks ks' /\ an = an' /\ pf = pf' /\ n = n'
  | LErr e, LErr e' => e = e'
  | _, _ => False
  end.

(* ---- the children loop on a list and on the list without the children that are not kept --------------------------------------------- *)
Definition transp (ev : env) (c : xml) : Prop := forall pc, pres_rel (process ev pc c) (process ev pc (strip c)).

(* the implicit end of the original side once it has made anonymous spans of the texts [texts] *)
Definition xs_iend (texts : list text) (iend : option Q) : option Q := match texts with [] => iend | _ => None end.
Definition texts_after (mp : bool) (texts : list text) (ta : option text) : list text :=
  if mp then texts ++ match ta with Some t => [t] | None => [] end else texts.

Lemma flush_false k pr lg i ks p : flush false k pr lg i ks p = (i, ks).
Proof. destruct p; reflexivity. Qed.

Lemma flush_xs mp k pr lg texts I K ta :
  flush mp k pr lg (xs_iend texts I) (K ++ List.map (anon_span k pr lg) texts) ta =
  (xs_iend (texts_after mp texts ta) I, K ++ List.map (anon_span k pr lg) (texts_after mp texts ta)).
Proof.
  unfold flush, texts_after. destruct ta as [t|], mp; try reflexivity.
  - rewrite map_app, app_assoc. cbn [List.map]. destruct texts; reflexivity.
  - rewrite app_nil_r. reflexivity.
Qed.

Lemma flush_xs0 mp k pr lg I K ta :
  flush mp k pr lg I K ta = (xs_iend (texts_after mp [] ta) I, K ++ List.map (anon_span k pr lg) (texts_after mp [] ta)).
Proof.
  unfold flush, texts_after. destruct ta as [t|], mp; cbn [app List.map xs_iend]; rewrite ?app_nil_r; reflexivity.
Qed.

Section Loop.
  Variables (ev : env) (k : ekind) (par : bool) (db : Q) (pr : bool) (lg : text) (keep : xml -> bool) (mp : bool).
  Hypothesis Hmp : k_is_mixed k && par = mp.
  Hypothesis Hks : ekind_eqb k KSet = false.
  Hypothesis Hkeep : forall c, keep c = timed c || (ekind_eqb k KRegion && is_style_elem c).

  Lemma flush_rel K kids' texts p iend' :
    kids_rel mp K kids' -> (mp = false -> texts = []) -> (mp = true -> p = otexts texts) ->
    fst (flush mp k pr lg iend' kids' p) = xs_iend texts iend' /\
    kids_rel mp (K ++ List.map (anon_span k pr lg) texts) (snd (flush mp k pr lg iend' kids' p)).
  Proof.
    intros HK Ht Hp. destruct mp.
    - rewrite (Hp eq_refl). destruct texts as [|t ts].
      + cbn [otexts flush fst snd List.map xs_iend]. rewrite app_nil_r. split; [reflexivity|exact HK].
      + cbn [otexts flush fst snd xs_iend]. split; [reflexivity|].
        cbn [kids_rel] in *. apply same_list_app; [exact HK|].
        rewrite anon_span_node. rewrite (map_ext _ _ (anon_span_node k pr lg)). apply same_list_anon. discriminate.
    - rewrite (Ht eq_refl), flush_false. cbn [fst snd List.map xs_iend]. rewrite app_nil_r. split; [reflexivity|exact HK].
  Qed.

  Lemma upd_kids_rel K kids' r0 r1 : kids_rel mp K kids' -> cres_rel r0 r1 -> kids_rel mp (upd_kids K r0) (upd_kids kids' r1).
  Proof.
    intros HK (R1 & R2 & R3 & R4 & R5 & R6). unfold upd_kids. rewrite R1, R2, R3.
    destruct (r_node r0) as [n|], (r_node r1) as [n'|]; cbn [onode_rel] in R4; try contradiction; [|exact HK].
    match goal with |- context [if ?c then _ else _] => destruct c end; [apply kids_rel_snoc; assumption|exact HK].
  Qed.

  Lemma loop_strip l : Forall (transp ev) l ->
    forall K texts kids' iend' send anims pf nst p,
      kids_rel mp K kids' -> (mp = false -> texts = []) -> (mp = true -> p = otexts texts) ->
      lres_rel mp
        (children_loop (process ev) (e_to_model ev) (e_valid ev) k par db pr lg l (xs_iend texts iend') send
                       (K ++ List.map (anon_span k pr lg) texts) anims pf nst)
        (children_loop (process ev) (e_to_model ev) (e_valid ev) k par db pr lg (snd (strip_children keep strip l))
                       (fst (flush mp k pr lg iend' kids' (oapp p (fst (strip_children keep strip l))))) send
                       (snd (flush mp k pr lg iend' kids' (oapp p (fst (strip_children keep strip l))))) anims pf nst).
  Proof.
    induction 1 as [|c l Hc Hl IH]; intros K texts kids' iend' send anims pf nst p HK Ht Hp.
    - cbn [strip_children fst snd children_loop]. rewrite oapp_none_r.
      destruct (flush_rel K kids' texts p iend' HK Ht Hp) as [F1 F2]. cbn [lres_rel]. rewrite F1. repeat split; try reflexivity. exact F2.
    - cbn [strip_children]. destruct (strip_children keep strip l) as [pre r] eqn:Es. cbn [fst snd] in IH.
      rewrite loop_cons.
      destruct (ekind_eqb k KRegion && is_style_elem c) eqn:Est.
      + (* a nested style of a region *)
        apply andb_true_iff in Est as [Ek Es'].
        assert (Hkc : keep c = true) by (rewrite Hkeep, Ek, Es'; apply orb_true_r).
        rewrite Hkc. cbn [fst snd]. rewrite oapp_none_r.
        assert (Hmpf : mp = false). { rewrite <- Hmp. destruct k; try discriminate; reflexivity. }
        pose proof (Ht Hmpf) as Hte; subst texts. rewrite loop_cons. rewrite is_style_strip, Ek, Es'. cbn [andb].
        rewrite set_tail_attrs, strip_attrs.
        specialize (IH K [] kids' iend' send anims pf (merge_absent (e_valid ev) (collect (e_to_model ev) (e_valid ev) (x_attrs c) []) nst) p HK Ht Hp).
        revert IH. rewrite Hmpf, !flush_false. cbn [fst snd]. intro IH. exact IH.
      + destruct (negb par && onone send) eqn:Ebr.
        * (* the previous child of a sequential container never ends: the child is skipped on both sides, kept or not *)
          assert (Hmpf : mp = false). { rewrite <- Hmp. apply andb_true_iff in Ebr as [Ep _]. destruct par; [discriminate|apply andb_false_r]. }
          pose proof (Ht Hmpf) as Hte; subst texts.
          specialize (IH K [] kids' iend' send anims pf nst p HK Ht Hp). revert IH. rewrite Hmpf, !flush_false. cbn [fst snd]. intro IH.
          destruct (keep c) eqn:Ekc; cbn [fst snd]; rewrite ?flush_false; cbn [fst snd]; [|exact IH].
          rewrite loop_cons, is_style_strip, Est, Ebr. exact IH.
        * rewrite Hks. rewrite !Hmp.
          destruct (keep c) eqn:Ekc; cbn [fst snd].
          -- (* a kept child: the stripped side first makes the anonymous span of the text it held back *)
             assert (Htc : timed c = true).
             { rewrite Hkeep in Ekc. apply orb_true_iff in Ekc as [H|H]; [exact H|]. rewrite Est in H. discriminate. }
             rewrite oapp_none_r.
             destruct (flush_rel K kids' texts p iend' HK Ht Hp) as [F1 F2].
             rewrite loop_cons. rewrite is_style_strip, Est, Ebr, Hks, !Hmp. rewrite process_set_tail, set_tail_tail.
             pose proof (Hc (mkPctx par send pr lg (negb false))) as Hrel.
             destruct (process ev (mkPctx par send pr lg (negb false)) c) as [e| |r0] eqn:Ep;
               destruct (process ev (mkPctx par send pr lg (negb false)) (strip c)) as [e'| |r1] eqn:Ep'; cbn [pres_rel] in Hrel; try contradiction.
             ++ exact Hrel.
             ++ apply process_skip_timed in Ep. congruence.
             ++ pose proof (upd_kids_rel _ _ _ _ F2 Hrel) as HK2.
                destruct Hrel as (R1 & R2 & R3 & R4 & R5 & R6).
                rewrite flush_xs0. cbn [fst snd]. unfold upd_anims. rewrite <- R5, <- R6.
                assert (E1 : upd_iend par db (fst (flush mp k pr lg iend' kids' p)) r1 = upd_iend par db (xs_iend texts iend') r0).
                { unfold upd_iend. rewrite F1, R3. reflexivity. }
                rewrite E1. rewrite <- R3.
                apply (IH (upd_kids (K ++ List.map (anon_span k pr lg) texts) r0) (texts_after mp [] (x_tail c))
                          (upd_kids (snd (flush mp k pr lg iend' kids' p)) r1) (upd_iend par db (xs_iend texts iend') r0)
                          (if par then send else r_des_end r0) _ _ nst (x_tail c) HK2).
                ** intro H. unfold texts_after. rewrite H. reflexivity.
                ** intro H. unfold texts_after. rewrite H. destruct (x_tail c); cbn [app otexts concat]; rewrite ?app_nil_r; reflexivity.
          -- (* a child that is not kept: skipped by the reader; its tail becomes an anonymous span here, and is held back there *)
             assert (Htc : timed c = false) by (rewrite Hkeep in Ekc; apply orb_false_iff in Ekc as [H _]; exact H).
             rewrite (untimed_skip ev _ c Htc). rewrite oapp_assoc. rewrite flush_xs. cbn [fst snd].
             apply (IH K (texts_after mp texts (x_tail c)) kids' iend' send anims pf nst (oapp p (x_tail c)) HK).
             ** intro H. unfold texts_after. rewrite H. exact (Ht H).
             ** intro H. unfold texts_after. rewrite H, (Hp H). destruct (x_tail c).
                --- symmetry. apply otexts_snoc.
                --- rewrite app_nil_r, oapp_none_r. reflexivity.
  Qed.
End Loop.

(* ---- process ------------------------------------------------------------------------------------------------------------------------------ *)
Lemma pres_rel_refl a : pres_rel a a.
Proof.
  destruct a as [e| |r]; cbn [pres_rel]; [reflexivity|exact I|].
  unfold cres_rel. repeat split; try reflexivity. destruct (r_node r); cbn [onode_rel]; [apply same_node_refl|exact I].
Qed.

(* the children a content element keeps *)
Lemma keeps_content tag attrs k c : s_kind tag attrs = Some k ->
  keeps tag attrs c = match k with KSet => false | KRegion => timed c || tag_is c T_style | _ => timed c end.
Proof.
  intro H. unfold keeps.
  destruct (qname_eqb tag T_tt) eqn:E1; [apply qname_eqb_eq in E1; subst tag; discriminate|].
  destruct (qname_eqb tag T_head) eqn:E2; [apply qname_eqb_eq in E2; subst tag; discriminate|].
  destruct (qname_eqb tag T_layout) eqn:E3; [apply qname_eqb_eq in E3; subst tag; discriminate|].
  destruct (qname_eqb tag T_styling) eqn:E4; [apply qname_eqb_eq in E4; subst tag; discriminate|].
  rewrite H. destruct k; reflexivity.
Qed.

Theorem transparent ev x : transp ev x.
Proof.
  induction x as [tag attrs txt tail cs Hcs] using xml_ind'.
  intro pc.
  rewrite strip_unfold.
  pose proof (classify_s_kind tag attrs) as Hk.
  cbn [process].
  destruct (strip_children (keeps tag attrs) strip cs) as [pre r] eqn:Es. cbn [process].
  destruct (classify tag attrs) as [k|]; [|exact I].
  destruct (ekind_eqb k KRegion && match get_attr attrs A_id with None => true | Some _ => false end) eqn:Ereg; [exact I|].
  assert (Hsk : s_kind tag attrs = Some k).
  { rewrite Hk. destruct k; try reflexivity. destruct (get_attr attrs A_id); [reflexivity|discriminate]. }
  clear Hk.
  destruct (read_time ev (get_attr attrs A_begin)) as [ebegin|]; [|reflexivity].
  destruct (read_time ev (get_attr attrs A_dur)) as [edur|]; [|reflexivity].
  destruct (read_time ev (get_attr attrs A_end)) as [eend|]; [|reflexivity].
  destruct (implicit_begin pc) as [ibegin|]; [|reflexivity].
  set (dbegin := (ibegin + opt_or_zero ebegin)%Q).
  set (par := read_par attrs).
  set (lang := if ekind_eqb k KSet then pc_lang pc else read_lang attrs (pc_lang pc)).
  set (preserve := if ekind_eqb k KSet then pc_preserve pc else read_space attrs (pc_preserve pc)).
  set (iend0 := if k_indefinite_in_par k && pc_par pc then None else Some dbegin).
  destruct (ekind_eqb k KSet) eqn:Hks.
  { (* the children of a <set> are not read *)
    assert (k = KSet) by (destruct k; try discriminate; reflexivity). subst k.
    rewrite !loop_set. cbn [k_is_mixed andb k_has_children k_has_styles].
    assert (Hi : forall (o : option text), (match o with Some _ => iend0 | None => iend0 end) = iend0) by (intro o; destruct o; reflexivity).
    rewrite !Hi. apply pres_rel_refl. }
  set (mp := k_is_mixed k && par).
  set (texts0 := if mp then match txt with Some t => [t] | None => [] end else []).
  assert (Hx1 : (match txt with Some t => if mp then [anon_span k preserve lang t] else [] | None => [] end)
               = [] ++ List.map (anon_span k preserve lang) texts0).
  { unfold texts0. destruct txt, mp; reflexivity. }
  assert (Hx2 : (match txt with Some t => if mp then None else iend0 | None => iend0 end) = xs_iend texts0 iend0).
  { unfold texts0. destruct txt, mp; reflexivity. }
  assert (Hs1 : (match oapp txt pre with Some t => if mp then [anon_span k preserve lang t] else [] | None => [] end)
               = snd (flush mp k preserve lang iend0 [] (oapp txt pre))).
  { destruct (oapp txt pre), mp; reflexivity. }
  assert (Hs2 : (match oapp txt pre with Some t => if mp then None else iend0 | None => iend0 end)
               = fst (flush mp k preserve lang iend0 [] (oapp txt pre))).
  { destruct (oapp txt pre), mp; reflexivity. }
  rewrite Hx1, Hx2, Hs1, Hs2.
  assert (Hkeep : forall c, keeps tag attrs c = timed c || (ekind_eqb k KRegion && is_style_elem c)).
  { intro c. rewrite (keeps_content tag attrs k c Hsk). destruct k; try discriminate; cbn [ekind_eqb ekind_code Z.eqb andb]; rewrite ?orb_false_r; reflexivity. }
  pose proof (loop_strip ev k par dbegin preserve lang (keeps tag attrs) mp eq_refl Hks Hkeep cs Hcs
                [] texts0 [] iend0 (Some 0%Q) [] false [] txt (kids_rel_nil mp)) as Hl.
  rewrite Es in Hl. cbn [fst snd] in Hl.
  assert (Hl' : lres_rel mp
           (children_loop (process ev) (e_to_model ev) (e_valid ev) k par dbegin preserve lang cs (xs_iend texts0 iend0) (Some 0%Q)
              ([] ++ List.map (anon_span k preserve lang) texts0) [] false [])
           (children_loop (process ev) (e_to_model ev) (e_valid ev) k par dbegin preserve lang r
              (fst (flush mp k preserve lang iend0 [] (oapp txt pre))) (Some 0%Q)
              (snd (flush mp k preserve lang iend0 [] (oapp txt pre))) [] false [])).
  { apply Hl.
    - intro H. unfold texts0. rewrite H. reflexivity.
    - intro H. unfold texts0. rewrite H. destruct txt; cbn [otexts concat]; rewrite ?app_nil_r; reflexivity. }
  clear Hl.
  destruct (children_loop (process ev) (e_to_model ev) (e_valid ev) k par dbegin preserve lang cs (xs_iend texts0 iend0) (Some 0%Q)
              ([] ++ List.map (anon_span k preserve lang) texts0) [] false []) as [iF kF aF pF nF|e];
    destruct (children_loop (process ev) (e_to_model ev) (e_valid ev) k par dbegin preserve lang r
              (fst (flush mp k preserve lang iend0 [] (oapp txt pre))) (Some 0%Q)
              (snd (flush mp k preserve lang iend0 [] (oapp txt pre))) [] false []) as [iF' kF' aF' pF' nF'|e'];
    cbn [lres_rel] in Hl'; try contradiction; [|exact Hl'].
  destruct Hl' as (-> & HkF & -> & -> & ->).
  pose proof (push_rel k par kF kF' HkF) as [Hp1 Hp2].
  assert (Hpush : same_list (fst (if k_has_children k then push_children k kF else ([], true)))
                            (fst (if k_has_children k then push_children k kF' else ([], true))) /\
                  snd (if k_has_children k then push_children k kF else ([], true)) =
                  snd (if k_has_children k then push_children k kF' else ([], true))).
  { destruct (k_has_children k); [split; assumption|split; [constructor|reflexivity]]. }
  destruct (if k_has_children k then push_children k kF else ([], true)) as [pushed ok].
  destruct (if k_has_children k then push_children k kF' else ([], true)) as [pushed' ok'].
  cbn [fst snd] in Hpush. destruct Hpush as [Hpu ->].
  destruct ok'; cbn [negb pres_rel]; unfold cres_rel; cbn [r_kind r_des_begin r_des_end r_node r_anim r_pushfail onode_rel];
    repeat split; try reflexivity; constructor; exact Hpu.
Qed.

(* ---- the document walk: tt, head, layout and styling read the children they know and nothing else ---------------------------------- *)
Lemma strip_children_of x :
  x_children (strip x) = snd (strip_children (keeps (x_tag x) (x_attrs x)) strip (x_children x)).
Proof. destruct x as [tag attrs txt tail cs]. rewrite strip_unfold. cbn [x_tag x_attrs x_children]. destruct (strip_children _ _ cs). reflexivity. Qed.
Lemma set_tail_children x t : x_children (set_tail x t) = x_children x.
Proof. destruct x; reflexivity. Qed.

Definition lay_rel (a b : list mnode + Z) : Prop :=
  match a, b with inl l, inl l' => Forall2 same_node l l' | inr e, inr e' => e = e' | _, _ => False end.
Definition hrel (h h' : hstate) : Prop :=
  h_layout h = h_layout h' /\ h_styling h = h_styling h' /\ Forall2 same_node (h_regions h) (h_regions h') /\
  h_styles h = h_styles h' /\ h_initials h = h_initials h'.
Definition hres_rel (a b : hstate + Z) : Prop :=
  match a, b with inl h, inl h' => hrel h h' | inr e, inr e' => e = e' | _, _ => False end.

Lemma forall2_refl l : Forall2 same_node l l.
Proof. induction l; constructor; [apply same_node_refl|assumption]. Qed.

Lemma region_ids l l' : Forall2 same_node l l' -> List.map region_id l = List.map region_id l'.
Proof.
  induction 1 as [|n n' l l' Hn Hl IH]; [reflexivity|]. cbn [List.map]. rewrite IH. f_equal. destruct Hn; reflexivity.
Qed.

Lemma read_layout_strip ev pr lg keep (Hkeep : forall c, keep c = tag_is c T_region) l :
  forall acc acc', Forall2 same_node acc acc' ->
    lay_rel (read_layout ev pr lg l acc) (read_layout ev pr lg (snd (strip_children keep strip l)) acc').
Proof.
  induction l as [|c l IH]; intros acc acc' Ha; [exact Ha|].
  cbn [strip_children]. destruct (strip_children keep strip l) as [pre r]. cbn [snd] in IH.
  rewrite Hkeep. unfold tag_is. cbn [read_layout].
  destruct (qname_eqb (x_tag c) T_region) eqn:E; cbn [snd]; [|apply IH; exact Ha].
  cbn [read_layout]. rewrite set_tail_tag, strip_tag, E, process_set_tail.
  pose proof (transparent ev c (mkPctx true (Some 0%Q) pr lg true)) as Hr.
  destruct (process ev (mkPctx true (Some 0%Q) pr lg true) c) as [e| |r0];
    destruct (process ev (mkPctx true (Some 0%Q) pr lg true) (strip c)) as [e'| |r1]; cbn [pres_rel] in Hr; try contradiction.
  - exact Hr.
  - apply IH; exact Ha.
  - destruct Hr as (_ & _ & _ & R4 & _ & _).
    destruct (r_node r0) as [n|], (r_node r1) as [n'|]; cbn [onode_rel] in R4; try contradiction; apply IH; [|exact Ha].
    apply Forall2_app; [exact Ha|constructor; [exact R4|constructor]].
Qed.

Lemma read_styling_strip tm vl keep (Hkeep : forall c, keep c = tag_is c T_initial || tag_is c T_style) l :
  forall t ini, read_styling tm vl (snd (strip_children keep strip l)) t ini = read_styling tm vl l t ini.
Proof.
  induction l as [|c l IH]; intros t ini; [reflexivity|].
  cbn [strip_children]. destruct (strip_children keep strip l) as [pre r]. cbn [snd] in IH.
  rewrite Hkeep. unfold tag_is. cbn [read_styling].
  destruct (qname_eqb (x_tag c) T_initial) eqn:E1; cbn [orb snd].
  - cbn [read_styling]. rewrite set_tail_tag, strip_tag, E1, set_tail_attrs, strip_attrs. apply IH.
  - destruct (qname_eqb (x_tag c) T_style) eqn:E2; cbn [snd]; [|apply IH].
    cbn [read_styling]. rewrite set_tail_tag, strip_tag, E1, E2, set_tail_attrs, strip_attrs.
    destruct (get_attr (x_attrs c) A_id) as [i|]; [|apply IH]. destruct (tbl_get t i); apply IH.
Qed.

Lemma keeps_layout attrs c : keeps T_layout attrs c = tag_is c T_region.
Proof. reflexivity. Qed.
Lemma keeps_styling attrs c : keeps T_styling attrs c = tag_is c T_initial || tag_is c T_style.
Proof. reflexivity. Qed.
Lemma keeps_head attrs c : keeps T_head attrs c = tag_is c T_layout || tag_is c T_styling.
Proof. reflexivity. Qed.
Lemma keeps_tt attrs c : keeps T_tt attrs c = tag_is c T_head || tag_is c T_body.
Proof. reflexivity. Qed.

Lemma read_head_strip tr fr tm vl pr lg keep (Hkeep : forall c, keep c = tag_is c T_layout || tag_is c T_styling) l :
  forall h h', hrel h h' ->
    hres_rel (read_head tr fr tm vl pr lg l h) (read_head tr fr tm vl pr lg (snd (strip_children keep strip l)) h').
Proof.
  induction l as [|c l IH]; intros h h' Hh; [exact Hh|].
  cbn [strip_children]. destruct (strip_children keep strip l) as [pre r]. cbn [snd] in IH.
  rewrite Hkeep. unfold tag_is. cbn [read_head].
  pose proof Hh as (H1 & H2 & H3 & H4 & H5).
  destruct (qname_eqb (x_tag c) T_layout) eqn:E1; cbn [orb snd].
  - cbn [read_head]. rewrite set_tail_tag, strip_tag, E1, set_tail_attrs, strip_attrs, set_tail_children, strip_children_of, <- H1, <- H4.
    destruct (h_layout h); [apply IH; exact Hh|].
    apply qname_eqb_eq in E1. rewrite E1.
    pose proof (read_layout_strip (mkEnv tr fr [] tm vl (h_styles h)) (read_space (x_attrs c) pr) (read_lang (x_attrs c) lg)
                  (keeps T_layout (x_attrs c)) (keeps_layout (x_attrs c)) (x_children c) [] [] (Forall2_nil _)) as Hl'.
    destruct (read_layout _ _ _ (x_children c) []) as [rs|e];
      destruct (read_layout _ _ _ (snd (strip_children _ strip (x_children c))) []) as [rs'|e']; cbn [lay_rel] in Hl'; try contradiction; [|exact Hl'].
    apply IH. unfold hrel. cbn [h_layout h_styling h_regions h_styles h_initials]. repeat split; try assumption.
    apply Forall2_app; assumption.
  - destruct (qname_eqb (x_tag c) T_styling) eqn:E2; cbn [snd]; [|apply IH; exact Hh].
    cbn [read_head]. rewrite set_tail_tag, strip_tag, E1, E2, set_tail_children, strip_children_of, <- H2, <- H4, <- H5.
    destruct (h_styling h); [apply IH; exact Hh|].
    apply qname_eqb_eq in E2. rewrite E2, (read_styling_strip tm vl _ (keeps_styling (x_attrs c))).
    destruct (read_styling tm vl (x_children c) (h_styles h) (h_initials h)) as [t ini].
    apply IH. unfold hrel. cbn [h_layout h_styling h_regions h_styles h_initials]. repeat split; assumption.
Qed.

Lemma read_tt_children_strip tr fr tm vl pr lg keep (Hkeep : forall c, keep c = tag_is c T_head || tag_is c T_body) l :
  forall hb hh h h' body body', hrel h h' -> onode_rel body body' ->
    dres_rel (read_tt_children tr fr tm vl pr lg l hb hh h body)
             (read_tt_children tr fr tm vl pr lg (snd (strip_children keep strip l)) hb hh h' body').
Proof.
  induction l as [|c l IH]; intros hb hh h h' body body' Hh Hb.
  - cbn [strip_children snd read_tt_children dres_rel d_lang d_regions d_body d_initials].
    destruct Hh as (H1 & H2 & H3 & H4 & H5). repeat split; assumption.
  - cbn [strip_children]. destruct (strip_children keep strip l) as [pre r]. cbn [snd] in IH.
    rewrite Hkeep. unfold tag_is. cbn [read_tt_children].
    destruct (qname_eqb (x_tag c) T_body) eqn:E1; [rewrite orb_true_r|rewrite orb_false_r]; cbn [snd].
    + cbn [read_tt_children]. rewrite set_tail_tag, strip_tag, E1, process_set_tail.
      destruct hb; [apply IH; assumption|].
      pose proof Hh as (H1 & H2 & H3 & H4 & H5).
      rewrite <- (region_ids _ _ H3), <- H4.
      pose proof (transparent (mkEnv tr fr (List.map region_id (h_regions h)) tm vl (h_styles h)) c (mkPctx true (Some 0%Q) pr lg true)) as Hr.
      destruct (process _ (mkPctx true (Some 0%Q) pr lg true) c) as [e| |r0];
        destruct (process _ (mkPctx true (Some 0%Q) pr lg true) (strip c)) as [e'| |r1]; cbn [pres_rel] in Hr; try contradiction.
      * exact Hr.
      * apply IH; [exact Hh|exact I].
      * destruct Hr as (_ & _ & _ & R4 & _ & _). apply IH; [exact Hh|exact R4].
    + destruct (qname_eqb (x_tag c) T_head) eqn:E2; cbn [snd]; [|apply IH; assumption].
      cbn [read_tt_children]. rewrite set_tail_tag, strip_tag, E1, E2, set_tail_attrs, strip_attrs, set_tail_children, strip_children_of.
      destruct hh; [apply IH; assumption|].
      apply qname_eqb_eq in E2. rewrite E2.
      pose proof (read_head_strip tr fr tm vl (read_space (x_attrs c) pr) (read_lang (x_attrs c) lg) _ (keeps_head (x_attrs c))
                    (x_children c) h h' Hh) as Hd.
      destruct (read_head _ _ _ _ _ _ (x_children c) h) as [h1|e];
        destruct (read_head _ _ _ _ _ _ (snd (strip_children _ strip (x_children c))) h') as [h1'|e']; cbn [hres_rel] in Hd; try contradiction; [|exact Hd].
      apply IH; assumption.
Qed.

(* the whole document: a <tt> tree and the tree without the children no element reads give the same document *)
Theorem read_tt_transparent tm vl x : x_tag x = T_tt -> dres_rel (read_tt tm vl x) (read_tt tm vl (strip x)).
Proof.
  intros Ht. unfold read_tt. rewrite strip_attrs, strip_children_of, Ht.
  apply (read_tt_children_strip _ _ tm vl _ _ _ (keeps_tt (x_attrs x)) (x_children x)).
  - unfold hrel. cbn. repeat split; constructor.
  - exact I.
Qed.

(* ---- what same_node keeps: the characters, in order ----------------------------------------------------------------------------------------- *)
Fixpoint chars (n : mnode) : text :=
  match n with
  | MText t => t
  | MElem _ _ _ _ _ _ _ _ _ cs => (fix go (l : list mnode) : text := match l with [] => [] | c :: l' => chars c ++ go l' end) cs
  end.
Definition chars_list (l : list mnode) : text := flat_map chars l.

Lemma chars_elem k rid b e p l g s a cs : chars (MElem k rid b e p l g s a cs) = chars_list cs.
Proof. cbn [chars]. induction cs as [|c cs IH]; [reflexivity|]. unfold chars_list. cbn [flat_map]. rewrite IH. reflexivity. Qed.

Lemma chars_anon am t : chars (anon_node am t) = t.
Proof. destruct am as [[p l]|]; [|reflexivity]. cbn. apply app_nil_r. Qed.

Lemma chars_anon_list am ts : chars_list (List.map (anon_node am) ts) = concat ts.
Proof. induction ts as [|t ts IH]; [reflexivity|]. unfold chars_list in *. cbn [List.map flat_map concat]. rewrite IH, chars_anon. reflexivity. Qed.

Scheme same_node_mut := Induction for same_node Sort Prop
  with same_list_mut := Induction for same_list Sort Prop.

Lemma same_chars : (forall n n', same_node n n' -> chars n = chars n') /\ (forall l l', same_list l l' -> chars_list l = chars_list l').
Proof.
  split.
  - intros n n' H.
    induction H using same_node_mut with (P0 := fun l l' _ => chars_list l = chars_list l'); try reflexivity.
    + rewrite !chars_elem. exact IHsame_node.
    + unfold chars_list in *. cbn [flat_map]. rewrite IHsame_node, IHsame_node0. reflexivity.
    + unfold chars_list in *. rewrite flat_map_app. cbn [flat_map]. rewrite IHsame_node, chars_anon.
      f_equal. apply chars_anon_list.
  - intros l l' H.
    induction H using same_list_mut with (P := fun n n' _ => chars n = chars n'); try reflexivity.
    + rewrite !chars_elem. exact IHsame_list.
    + unfold chars_list in *. cbn [flat_map]. rewrite IHsame_list, IHsame_list0. reflexivity.
    + unfold chars_list in *. rewrite flat_map_app. cbn [flat_map]. rewrite IHsame_list, chars_anon.
      f_equal. apply chars_anon_list.
Qed.

Theorem same_node_chars n n' : same_node n n' -> chars n = chars n'.
Proof. exact (proj1 same_chars n n'). Qed.

(* ---- the vocabulary of children that are no content ------------------------------------------------------------------------------------------ *)
Theorem noncontent_vocabulary q attrs :
  In q metadata_vocabulary \/ is_comment_or_pi q = true \/ is_foreign q = true ->
  s_kind q attrs = None /\ classify q attrs = None.
Proof.
  intros [H|H].
  - unfold metadata_vocabulary in H. cbn [In] in H.
    repeat (destruct H as [<-|H]; [split; reflexivity|]). contradiction.
  - assert (Hn : (fst q =? 1) = false).
    { unfold is_comment_or_pi, is_foreign, NS_COMMENT, NS_PI, NS_NONE in H. lia. }
    destruct q as [n l]. cbn [fst] in Hn. split.
    + unfold s_kind, NS_TT. cbn [fst]. rewrite Hn. reflexivity.
    + unfold classify, qname_eqb. cbn [fst snd].
      change (fst T_body) with 1. change (fst T_div) with 1. change (fst T_p) with 1. change (fst T_span) with 1.
      change (fst T_br) with 1. change (fst T_set) with 1. change (fst T_region) with 1. rewrite Hn. reflexivity.
Qed.

(* such a child is skipped by the reader, and no element keeps it as content *)
Theorem noncontent_skipped ev pc c :
  In (x_tag c) metadata_vocabulary \/ is_comment_or_pi (x_tag c) = true \/ is_foreign (x_tag c) = true -> process ev pc c = PSkip.
Proof.
  intro H. apply untimed_skip. unfold timed. rewrite (proj1 (noncontent_vocabulary (x_tag c) (x_attrs c) H)). reflexivity.
Qed.

(* ---- the specification itself is transparent: the TTML2 interval of x is the interval of strip x ------------------------------------------ *)
Section SpecTransparent.
  Variable tv : text -> option Q.

  Definition tail_text (c : xml) : bool := has_text (x_tail c).
  Definition iv_same (c : xml) : Prop := forall p s, interval tv p s (strip c) = interval tv p s c.

  Lemma interval_set_tail p s x t : interval tv p s (set_tail x t) = interval tv p s x.
  Proof. destruct x; reflexivity. Qed.
  Lemma timed_strip c t : timed (set_tail (strip c) t) = timed c.
  Proof. unfold timed. rewrite set_tail_tag, set_tail_attrs, strip_tag, strip_attrs. reflexivity. Qed.
  Lemma has_text_oapp a b : has_text (oapp a b) = has_text a || has_text b.
  Proof. destruct a, b; reflexivity. Qed.

  Section Kept.
    Variable keep : xml -> bool.
    Hypothesis Hkeep : forall c, timed c = true -> keep c = true.

    Lemma seq_dur_strip l : Forall iv_same l ->
      forall cursor, seq_dur (interval tv) (snd (strip_children keep strip l)) cursor = seq_dur (interval tv) l cursor.
    Proof.
      induction 1 as [|c l Hc Hl IH]; intro cursor; [reflexivity|].
      cbn [strip_children]. destruct (strip_children keep strip l) as [pre r]. cbn [snd] in IH.
      destruct (keep c) eqn:Ek; cbn [snd seq_dur].
      - rewrite timed_strip, interval_set_tail, Hc. destruct (timed c); [|apply IH].
        destruct (snd (interval tv true cursor c)); [apply IH|reflexivity].
      - destruct (timed c) eqn:Et; [rewrite (Hkeep c Et) in Ek; discriminate|]. apply IH.
    Qed.

    Lemma par_dur_strip l : Forall iv_same l ->
      forall acc, par_dur (interval tv) false (snd (strip_children keep strip l)) acc = par_dur (interval tv) false l acc.
    Proof.
      induction 1 as [|c l Hc Hl IH]; intro acc; [reflexivity|].
      cbn [strip_children]. destruct (strip_children keep strip l) as [pre r]. cbn [snd] in IH.
      destruct (keep c) eqn:Ek; cbn [snd par_dur andb].
      - rewrite timed_strip, interval_set_tail, Hc. apply IH.
      - destruct (timed c) eqn:Et; [rewrite (Hkeep c Et) in Ek; discriminate|]. apply IH.
    Qed.

    Lemma strip_text l :
      has_text (fst (strip_children keep strip l)) || existsb tail_text (snd (strip_children keep strip l)) = existsb tail_text l.
    Proof.
      induction l as [|c l IH]; [reflexivity|].
      cbn [strip_children]. destruct (strip_children keep strip l) as [pre r]. cbn [fst snd] in IH.
      destruct (keep c); cbn [fst snd existsb has_text orb]; unfold tail_text at 1; rewrite ?set_tail_tail, has_text_oapp, <- IH.
      - unfold tail_text. rewrite orb_assoc. reflexivity.
      - unfold tail_text. rewrite orb_assoc. reflexivity.
    Qed.
  End Kept.

  Lemma par_dur_text iv l : forall acc,
    par_dur iv true l acc = if existsb tail_text l then None else par_dur iv false l acc.
  Proof.
    induction l as [|c l IH]; intro acc; [reflexivity|]. cbn [par_dur existsb andb]. unfold tail_text at 1.
    destruct (has_text (x_tail c)); cbn [orb]; [apply par_dur_none|apply IH].
  Qed.

  Theorem interval_strip x : iv_same x.
  Proof.
    induction x as [tag attrs txt tail cs IHcs] using xml_ind'. intros p s.
    rewrite strip_unfold.
    pose proof (strip_text (keeps tag attrs) cs) as Htx.
    destruct (strip_children (keeps tag attrs) strip cs) as [pre r] eqn:Es. cbn [fst snd] in Htx.
    cbn [interval]. f_equal. f_equal.
    destruct (s_kind tag attrs) as [k|] eqn:Hsk; [|reflexivity].
    destruct (s_atomic k && negb p); [reflexivity|].
    destruct (s_childless k) eqn:Hch; [reflexivity|].
    assert (Hkeep : forall c, timed c = true -> keeps tag attrs c = true).
    { intros c Hc. rewrite (keeps_content tag attrs k c Hsk), Hc. destruct k; try reflexivity. discriminate. }
    pose proof (seq_dur_strip (keeps tag attrs) Hkeep cs IHcs) as Hseq. rewrite Es in Hseq. cbn [snd] in Hseq.
    pose proof (par_dur_strip (keeps tag attrs) Hkeep cs IHcs) as Hpar. rewrite Es in Hpar. cbn [snd] in Hpar.
    destruct (s_is_seq attrs); [apply Hseq|].
    destruct (s_mixed k); cbn [andb]; [|apply Hpar].
    rewrite !par_dur_text, has_text_oapp, Hpar.
    destruct (existsb tail_text cs) eqn:Ec.
    - destruct (existsb tail_text r); [reflexivity|]. rewrite orb_false_r in Htx. rewrite Htx, orb_true_r. apply par_dur_none.
    - apply orb_false_iff in Htx as [Hp Hr]. rewrite Hp, Hr, orb_false_r. reflexivity.
  Qed.
End SpecTransparent.
