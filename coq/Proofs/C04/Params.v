(* C04, document parameters: for EVERY attribute list - well-formed, malformed or absent ttp:frameRate, ttp:frameRateMultiplier
   and ttp:tickRate - the transcribed extractors give the TTML2 values of Spec/TtmlTimingSpec.v: the effective frame rate
   (default 30, multiplier default 1 1), the tick rate (default: the effective frame rate when ttp:frameRate is specified, else 1);
   a value that is not a positive integer (pair) is ignored. *)
From TT Require Import Base.Prelude Base.ImscXml Model.ImscTime Spec.TtmlTimingSpec.
From Coq Require Import QArith Lqa.
Local Open Scope Z_scope.

Lemma span_all_digits s : forallb code_dec s = true -> span_digits s = (s, []).
Proof.
  induction s as [|c s IH]; simpl; [reflexivity|]. intro H. apply andb_true_iff in H as [H1 H2].
  change (is_digit c) with (code_dec c). rewrite H1, (IH H2). reflexivity.
Qed.

(* what span_digits returns: the string is the digits followed by the rest, and the rest does not begin with a digit *)
Lemma span_digits_spec s : forall d r, span_digits s = (d, r) ->
  s = d ++ r /\ forallb code_dec d = true /\ match r with [] => True | c :: _ => code_dec c = false end.
Proof.
  induction s as [|c s IH]; intros d r H; cbn [span_digits] in H.
  - inversion H; subst. repeat split.
  - change (is_digit c) with (code_dec c) in H. destruct (code_dec c) eqn:E.
    + destruct (span_digits s) as [d' r'] eqn:Es. inversion H; subst. destruct (IH _ _ eq_refl) as [H1 [H2 H3]].
      split; [cbn [app]; rewrite <- H1; reflexivity|]. split; [cbn [forallb]; rewrite E, H2; reflexivity|exact H3].
    + inversion H; subst. repeat split. exact E.
Qed.

Lemma digits_val_fold s : forall acc, digits_val acc s = fold_left (fun a c => a * 10 + (c - 48)) s acc.
Proof. induction s as [|c s IH]; intro acc; simpl; [reflexivity|apply IH]. Qed.

Lemma forallb_app_l {A} (f : A -> bool) a b : forallb f (a ++ b) = true -> forallb f a = true /\ forallb f b = true.
Proof. rewrite forallb_app. intro H. apply andb_true_iff in H. exact H. Qed.

(* the reader's positive-integer recogniser is the specification's *)
Lemma pos_digits_eq s : pos_digits s = pos_int s.
Proof.
  unfold pos_digits, pos_int. destruct (span_digits s) as [d r] eqn:Es.
  destruct (span_digits_spec s d r Es) as [Hs [Hd Hr]].
  destruct r as [|c r].
  - rewrite app_nil_r in Hs. subst d. rewrite Hd. destruct s as [|c s]; [reflexivity|].
    cbn [is_nonempty_l andb]. rewrite digits_val_fold. reflexivity.
  - assert (Hf : forallb code_dec s = false).
    { subst s. rewrite forallb_app. cbn [forallb]. rewrite Hr. rewrite andb_false_r. reflexivity. }
    rewrite Hf, andb_false_r. destruct d; reflexivity.
Qed.

(* ---- the multiplier -------------------------------------------------------------------------------------------------- *)
Lemma split_space_acc s : forall cur, split_space s cur = match split_space s [] with x :: l => (cur ++ x) :: l | [] => [] end.
Proof.
  induction s as [|c s IH]; intro cur; cbn [split_space].
  - rewrite app_nil_r. reflexivity.
  - destruct (c =? 32); [rewrite app_nil_r; reflexivity|].
    rewrite (IH (cur ++ [c])), (IH ([] ++ [c])). destruct (split_space s []); [reflexivity|]. rewrite <- app_assoc. reflexivity.
Qed.

Lemma split_space_nonempty s cur : split_space s cur <> [].
Proof. revert cur. induction s as [|c s IH]; intro cur; cbn [split_space]; [discriminate|]. destruct (c =? 32); [discriminate|apply IH]. Qed.

Lemma no_space_digits s : forallb code_dec s = true -> forall cur, split_space s cur = [cur ++ s].
Proof.
  induction s as [|c s IH]; intros H cur; simpl.
  - rewrite app_nil_r. reflexivity.
  - simpl in H. apply andb_true_iff in H as [H1 H2].
    assert (c =? 32 = false) by (unfold code_dec in H1; lia). rewrite H.
    rewrite (IH H2). rewrite <- app_assoc. reflexivity.
Qed.

(* digits, then a character that is not a digit: the first field is the digits followed by the first field of the rest *)
Lemma split_digits_then d c r : forallb code_dec d = true ->
  split_space (d ++ c :: r) [] =
  if c =? 32 then d :: split_space r [] else match split_space r [] with x :: l => (d ++ c :: x) :: l | [] => [] end.
Proof.
  intro Hd.
  assert (G : forall cur, split_space (d ++ c :: r) cur =
              if c =? 32 then (cur ++ d) :: split_space r [] else match split_space r [] with x :: l => (cur ++ d ++ c :: x) :: l | [] => [] end).
  { induction d as [|a d IH]; intro cur; cbn [app split_space].
    - destruct (c =? 32); [rewrite app_nil_r; reflexivity|]. rewrite split_space_acc. destruct (split_space r []); [reflexivity|].
      rewrite <- app_assoc. reflexivity.
    - cbn [forallb] in Hd. apply andb_true_iff in Hd as [H1 H2].
      assert (a =? 32 = false) by (unfold code_dec in H1; lia). rewrite H. rewrite (IH H2).
      destruct (c =? 32); [rewrite <- app_assoc; reflexivity|]. destruct (split_space r []); [reflexivity|]. rewrite <- app_assoc. reflexivity. }
  apply (G []).
Qed.

Definition mult_of (o : option (Z * Z)) : Q :=
  match o with Some (a, b) => if (0 <? a) && (0 <? b) then (inject_Z a / inject_Z b)%Q else 1%Q | None => 1%Q end.
Definition spec_mult_of (s : text) : Q :=
  match split_space s [] with
  | [a; b] => match pos_int a, pos_int b with Some n, Some d => (inject_Z n / inject_Z d)%Q | _, _ => 1%Q end
  | _ => 1%Q
  end.

Lemma pos_int_digits s n : pos_int s = Some n -> is_nonempty_l s = true /\ forallb code_dec s = true /\ n = digits_val 0 s /\ 0 < n.
Proof.
  unfold pos_int. destruct (is_nonempty_l s && forallb code_dec s) eqn:E; [|discriminate].
  apply andb_true_iff in E as [E1 E2].
  destruct (0 <? fold_left (fun a c : Z => a * 10 + (c - 48)) s 0) eqn:Ep; [|discriminate].
  intro H. inversion H; subst n. rewrite digits_val_fold. repeat split; try assumption. apply Z.ltb_lt. exact Ep.
Qed.

Lemma pos_int_not_digits s : forallb code_dec s = false -> pos_int s = None.
Proof. intro H. unfold pos_int. rewrite H, andb_false_r. reflexivity. Qed.

Lemma pos_int_of_digits s : forallb code_dec s = true ->
  pos_int s = match s with [] => None | _ :: _ => if 0 <? digits_val 0 s then Some (digits_val 0 s) else None end.
Proof. intro H. unfold pos_int. rewrite H, andb_true_r. destruct s; [reflexivity|]. cbn [is_nonempty_l]. rewrite digits_val_fold. reflexivity. Qed.

Lemma multiplier_eq s : mult_of (int_pair s) = spec_mult_of s.
Proof.
  unfold int_pair, spec_mult_of. destruct (span_digits s) as [a r] eqn:Es.
  destruct (span_digits_spec s a r Es) as [Hs [Ha Hr]]. subst s.
  destruct r as [|c r].
  - (* digits only: one field *)
    rewrite app_nil_r, (no_space_digits a Ha []). destruct a; reflexivity.
  - rewrite (split_digits_then a c r Ha).
    destruct (c =? 32) eqn:Ec.
    + apply Z.eqb_eq in Ec. subst c.
      destruct (span_digits r) as [b r2] eqn:Eb. destruct (span_digits_spec r b r2 Eb) as [Hr' [Hb Hr2]]. subst r.
      destruct r2 as [|c2 r2].
      * rewrite app_nil_r, (no_space_digits b Hb []). cbn [app].
        rewrite (pos_int_of_digits a Ha), (pos_int_of_digits b Hb).
        destruct a as [|a0 a]; [reflexivity|]. destruct b as [|b0 b]; [cbn [mult_of]; destruct (0 <? digits_val 0 (a0 :: a)); reflexivity|].
        cbn [mult_of]. destruct (0 <? digits_val 0 (a0 :: a)); cbn [andb]; [|reflexivity].
        destruct (0 <? digits_val 0 (b0 :: b)); reflexivity.
      * (* something follows the second integer: the reader rejects; the specification sees a second field that is not an integer,
           or more than two fields *)
        assert (Hm : mult_of (match a with [] => None | _ :: _ => None end) = 1%Q) by (destruct a; reflexivity).
        replace (mult_of match a with
                         | [] => None
                         | _ :: _ => match b, c2 :: r2 with _ :: _, [] => Some (digits_val 0 a, digits_val 0 b) | _, _ => None end
                         end) with 1%Q by (destruct a; [reflexivity|destruct b; reflexivity]).
        rewrite (split_digits_then b c2 r2 Hb).
        destruct (c2 =? 32) eqn:E2.
        -- pose proof (split_space_nonempty r2 []) as Hne. destruct (split_space r2 []) as [|x l]; [contradiction|]. reflexivity.
        -- destruct (split_space r2 []) as [|x l] eqn:E3; [reflexivity|]. destruct l; [|reflexivity].
           assert (Hnd : forallb code_dec (b ++ c2 :: x) = false).
           { rewrite forallb_app. cbn [forallb]. rewrite Hr2, andb_false_r. reflexivity. }
           rewrite (pos_int_not_digits _ Hnd). destruct (pos_int a); reflexivity.
    + (* the character after the first integer is not a space *)
      replace (mult_of match a, c :: r with
                       | _ :: _, 32 :: r' => let '(b, r'') := span_digits r' in match b, r'' with _ :: _, [] => Some (digits_val 0 a, digits_val 0 b) | _, _ => None end
                       | _, _ => None end) with 1%Q.
      2:{ destruct a; [reflexivity|]. destruct c; try reflexivity. repeat (destruct p; try reflexivity). discriminate. }
      destruct (split_space r []) as [|x l]; [reflexivity|]. destruct l as [|y l]; [reflexivity|]. destruct l; [|reflexivity].
      assert (Hnd : forallb code_dec (a ++ c :: x) = false).
      { rewrite forallb_app. cbn [forallb]. rewrite Hr, andb_false_r. reflexivity. }
      rewrite (pos_int_not_digits _ Hnd). reflexivity.
Qed.

(* ---- the effective frame rate and the tick rate, for every attribute list ---------------------------------------------- *)
Lemma frame_rate_attr_eq attrs : frame_rate_attr attrs = spec_frame_rate_attr attrs.
Proof. unfold frame_rate_attr, spec_frame_rate_attr. destruct (get_attr attrs A_frameRate); [apply pos_digits_eq|reflexivity]. Qed.

Theorem frame_rate_spec attrs : (extract_frame_rate attrs == spec_frame_rate attrs)%Q.
Proof.
  unfold extract_frame_rate, spec_frame_rate. rewrite frame_rate_attr_eq.
  set (fr := match spec_frame_rate_attr attrs with Some n => n | None => 30 end).
  replace (match spec_frame_rate_attr attrs with Some n => inject_Z n | None => inject_Z 30 end) with (inject_Z fr)
    by (unfold fr; destruct (spec_frame_rate_attr attrs); reflexivity).
  assert (Hm : (match get_attr attrs A_frameRateMultiplier with
                | Some raw => match int_pair raw with
                              | Some (a, b) => if (0 <? a) && (0 <? b) then inject_Z fr * (inject_Z a / inject_Z b) else inject_Z fr * 1
                              | None => inject_Z fr * 1 end
                | None => inject_Z fr * 1 end
                == inject_Z fr * match get_attr attrs A_frameRateMultiplier with Some raw => mult_of (int_pair raw) | None => 1 end)%Q).
  { destruct (get_attr attrs A_frameRateMultiplier) as [raw|]; [|reflexivity].
    unfold mult_of. destruct (int_pair raw) as [[a b]|]; [|reflexivity]. destruct ((0 <? a) && (0 <? b)); reflexivity. }
  rewrite Hm. unfold spec_multiplier.
  destruct (get_attr attrs A_frameRateMultiplier) as [raw|]; [|reflexivity].
  rewrite multiplier_eq. reflexivity.
Qed.

Theorem tick_rate_spec attrs : (extract_tick_rate attrs == spec_tick_rate attrs)%Q.
Proof.
  unfold extract_tick_rate, spec_tick_rate.
  replace (match get_attr attrs A_tickRate with Some raw => pos_digits raw | None => None end)
    with (match get_attr attrs A_tickRate with Some s => pos_int s | None => None end)
    by (destruct (get_attr attrs A_tickRate); [symmetry; apply pos_digits_eq|reflexivity]).
  destruct (match get_attr attrs A_tickRate with Some s => pos_int s | None => None end); [reflexivity|].
  rewrite frame_rate_attr_eq. destruct (spec_frame_rate_attr attrs); [apply frame_rate_spec|reflexivity].
Qed.

(* the well-formed case spelt out: ttp:frameRate="fr" ttp:frameRateMultiplier="a b" give fr * a / b *)
Definition frame_rate_wf (attrs : list (qname * text)) (fr : Z) (mult : Q) : Prop :=
  (match get_attr attrs A_frameRate with
   | Some s => pos_int s = Some fr
   | None => fr = 30 end) /\
  (match get_attr attrs A_frameRateMultiplier with
   | Some s => exists sa sb a b, s = sa ++ 32 :: sb /\ pos_int sa = Some a /\ pos_int sb = Some b /\ mult = (inject_Z a / inject_Z b)%Q
   | None => mult = 1%Q end).

Theorem frame_rate_given attrs fr mult : frame_rate_wf attrs fr mult -> (extract_frame_rate attrs == inject_Z fr * mult)%Q.
Proof.
  intros [Hf Hm]. rewrite frame_rate_spec. unfold spec_frame_rate, spec_frame_rate_attr, spec_multiplier.
  assert (Hfr : match (match get_attr attrs A_frameRate with Some s => pos_int s | None => None end) with Some n => n | None => 30 end = fr).
  { destruct (get_attr attrs A_frameRate); [rewrite Hf; reflexivity|subst; reflexivity]. }
  rewrite Hfr.
  destruct (get_attr attrs A_frameRateMultiplier) as [s|]; [|subst mult; reflexivity].
  destruct Hm as [sa [sb [a [b [Hs [Ha [Hb Hmu]]]]]]]. subst s mult.
  destruct (pos_int_digits sa a Ha) as [_ [Ha2 _]]. destruct (pos_int_digits sb b Hb) as [_ [Hb2 _]].
  rewrite (split_digits_then sa 32 sb Ha2). cbn [Z.eqb Pos.eqb]. rewrite (no_space_digits sb Hb2 []). cbn [app].
  rewrite Ha, Hb. reflexivity.
Qed.
