(* C04, document parameters: on well-formed ttp:frameRate / ttp:frameRateMultiplier / ttp:tickRate values the
   transcribed extractors give the TTML2 values; the tick-rate default under ttp:frameRate is the recorded
   finding tickrate-default (Findings/C04.v). *)
From TT Require Import Base.Prelude Base.ImscXml Model.ImscTime Spec.TtmlTimingSpec.
From Coq Require Import QArith Lqa.
Local Open Scope Z_scope.

Lemma span_all_digits s : forallb code_dec s = true -> span_digits s = (s, []).
Proof.
  induction s as [|c s IH]; simpl; [reflexivity|]. intro H. apply andb_true_iff in H as [H1 H2].
  change (is_digit c) with (code_dec c). rewrite H1, (IH H2). reflexivity.
Qed.

Lemma span_digits_app s r : forallb code_dec s = true -> (match r with [] => True | c :: _ => is_digit c = false end) ->
  span_digits (s ++ r) = (s, r).
Proof.
  induction s as [|c s IH]; simpl; intros H Hr.
  - destruct r as [|c r]; [reflexivity|]. simpl. rewrite Hr. reflexivity.
  - apply andb_true_iff in H as [H1 H2]. change (is_digit c) with (code_dec c). rewrite H1, (IH H2 Hr). reflexivity.
Qed.

Lemma digits_val_fold s : forall acc, digits_val acc s = fold_left (fun a c => a * 10 + (c - 48)) s acc.
Proof. induction s as [|c s IH]; intro acc; simpl; [reflexivity|apply IH]. Qed.

Lemma pos_int_spec s n : pos_int s = Some n ->
  is_nonempty_l s = true /\ forallb code_dec s = true /\ digits_val 0 s = n /\ 0 < n.
Proof.
  unfold pos_int. destruct (is_nonempty_l s && forallb code_dec s) eqn:E; [|discriminate].
  apply andb_true_iff in E as [E1 E2].
  destruct (0 <? fold_left (fun a c : Z => a * 10 + (c - 48)) s 0) eqn:Ep; [|discriminate].
  intro H. inversion H; subst n. rewrite digits_val_fold. repeat split; try assumption. lia.
Qed.

Lemma leading_int_pos s n : pos_int s = Some n -> leading_int s = Some n.
Proof.
  intro H. apply pos_int_spec in H as [H1 [H2 [H3 _]]]. unfold leading_int. rewrite (span_all_digits s H2).
  destruct s; [discriminate|]. rewrite H3. reflexivity.
Qed.

(* ttp:tickRate given as a positive integer *)
Theorem tick_rate_given attrs s n :
  get_attr attrs A_tickRate = Some s -> pos_int s = Some n ->
  extract_tick_rate attrs = n /\ (spec_tick_rate attrs == inject_Z n)%Q.
Proof.
  intros Hg Hp. unfold extract_tick_rate, spec_tick_rate. rewrite Hg, Hp, (leading_int_pos s n Hp). split; reflexivity.
Qed.

(* neither ttp:tickRate nor ttp:frameRate *)
Theorem tick_rate_default attrs :
  get_attr attrs A_tickRate = None -> spec_frame_rate_attr attrs = None ->
  extract_tick_rate attrs = 1 /\ (spec_tick_rate attrs == 1)%Q.
Proof.
  intros Hg Hf. unfold extract_tick_rate, spec_tick_rate. rewrite Hg, Hf. split; reflexivity.
Qed.

Lemma no_space_digits s : forallb code_dec s = true -> forall cur, split_space s cur = [cur ++ s].
Proof.
  induction s as [|c s IH]; intros H cur; simpl.
  - rewrite app_nil_r. reflexivity.
  - simpl in H. apply andb_true_iff in H as [H1 H2].
    assert (c =? 32 = false) by (unfold code_dec in H1; lia). rewrite H.
    rewrite (IH H2). rewrite <- app_assoc. reflexivity.
Qed.

Lemma split_pair sa sb : forallb code_dec sa = true -> forallb code_dec sb = true ->
  split_space (sa ++ 32 :: sb) [] = [sa; sb].
Proof.
  intros Ha Hb.
  assert (G : forall cur, split_space (sa ++ 32 :: sb) cur = [cur ++ sa; sb]).
  { induction sa as [|c sa IH]; intro cur; simpl.
    - rewrite app_nil_r. rewrite (no_space_digits sb Hb []). reflexivity.
    - simpl in Ha. apply andb_true_iff in Ha as [H1 H2].
      assert (c =? 32 = false) by (unfold code_dec in H1; lia). rewrite H.
      rewrite (IH H2). rewrite <- app_assoc. reflexivity. }
  apply (G []).
Qed.

Definition frame_rate_wf (attrs : list (qname * text)) (fr : Z) (mult : Q) : Prop :=
  (match get_attr attrs A_frameRate with
   | Some s => pos_int s = Some fr
   | None => fr = 30 end) /\
  (match get_attr attrs A_frameRateMultiplier with
   | Some s => exists sa sb a b, s = sa ++ 32 :: sb /\ pos_int sa = Some a /\ pos_int sb = Some b /\ mult = (inject_Z a / inject_Z b)%Q
   | None => mult = 1%Q end).

(* well-formed ttp:frameRate and ttp:frameRateMultiplier: the effective frame rate of TTML2 *)
Theorem frame_rate_given attrs fr mult : frame_rate_wf attrs fr mult ->
  exists q, extract_frame_rate attrs = Some q /\ (q == spec_frame_rate attrs)%Q /\ (q == inject_Z fr * mult)%Q.
Proof.
  intros [Hf Hm]. unfold extract_frame_rate, spec_frame_rate, spec_frame_rate_attr, spec_multiplier.
  assert (Hfr : (match get_attr attrs A_frameRate with
                 | Some raw => match leading_int raw with Some n => inject_Z n | None => inject_Z 30 end
                 | None => inject_Z 30 end = inject_Z fr) /\
                (match match get_attr attrs A_frameRate with Some s => pos_int s | None => None end with
                 | Some n => n | None => 30 end = fr)).
  { destruct (get_attr attrs A_frameRate) as [s|].
    - rewrite Hf, (leading_int_pos s fr Hf). split; reflexivity.
    - subst fr. split; reflexivity. }
  destruct Hfr as [Hfr1 Hfr2]. rewrite Hfr1, Hfr2.
  destruct (get_attr attrs A_frameRateMultiplier) as [s|].
  - destruct Hm as [sa [sb [a [b [Hs [Ha [Hb Hmu]]]]]]]. subst s mult.
    pose proof (pos_int_spec sa a Ha) as [Ha1 [Ha2 [Ha3 Ha4]]].
    pose proof (pos_int_spec sb b Hb) as [Hb1 [Hb2 [Hb3 Hb4]]].
    unfold leading_int_pair. rewrite (span_digits_app sa (32 :: sb) Ha2) by reflexivity.
    destruct sa as [|c0 sa0] eqn:Esa; [discriminate|]. rewrite <- Esa in *.
    rewrite (span_all_digits sb Hb2). destruct sb as [|d0 sb0] eqn:Esb; [discriminate|]. rewrite <- Esb in *.
    rewrite Ha3, Hb3. assert (b =? 0 = false) by lia. rewrite H.
    rewrite split_pair by assumption. rewrite Ha, Hb.
    eexists. split; [reflexivity|]. split; reflexivity.
  - subst mult. eexists. split; [reflexivity|]. split; reflexivity.
Qed.
