(* C04, "malformed attributes are ignored": a begin / dur / end attribute whose value the reader rejects (ValueError, logged) leaves
   exactly the result of the same element without the attribute, in every parsing context. *)
From TT Require Import Base.Prelude Base.ImscXml Model.ImscTime Model.ImscStyles Model.ImscTiming.
From Coq Require Import QArith.
Local Open Scope Z_scope.

Lemma get_remove_other attrs a q : qname_eqb a q = false -> get_attr (remove_attr attrs a) q = get_attr attrs q.
Proof.
  intro H. induction attrs as [|[k v] l IH]; [reflexivity|]. cbn [remove_attr get_attr].
  destruct (qname_eqb k a) eqn:E.
  - apply qname_eqb_eq in E. subst k. rewrite H. exact IH.
  - cbn [get_attr]. destruct (qname_eqb k q); [reflexivity|exact IH].
Qed.

Lemma get_remove_same attrs a : get_attr (remove_attr attrs a) a = None.
Proof.
  induction attrs as [|[k v] l IH]; [reflexivity|]. cbn [remove_attr].
  destruct (qname_eqb k a) eqn:E; [exact IH|]. cbn [get_attr]. rewrite E. exact IH.
Qed.

Section NotStyle.
  Variable tm : qname -> text -> option (Z * sv).
  Variable vl : Z -> sv -> bool.
  Variable a : qname.
  Hypothesis Hns : forall v, tm a v = None.      (* a is not a style attribute *)

  Lemma apply_specified_remove attrs : forall d, apply_specified tm vl (remove_attr attrs a) d = apply_specified tm vl attrs d.
  Proof.
    induction attrs as [|[k v] l IH]; intro d; [reflexivity|]. cbn [remove_attr apply_specified].
    destruct (qname_eqb k a) eqn:E.
    - apply qname_eqb_eq in E. subst k. rewrite Hns. apply IH.
    - cbn [apply_specified]. apply IH.
  Qed.

  Lemma first_animated_remove attrs : first_animated tm vl (remove_attr attrs a) = first_animated tm vl attrs.
  Proof.
    induction attrs as [|[k v] l IH]; [reflexivity|]. cbn [remove_attr first_animated].
    destruct (qname_eqb k a) eqn:E.
    - apply qname_eqb_eq in E. subst k. rewrite Hns. exact IH.
    - cbn [first_animated]. rewrite IH. reflexivity.
  Qed.
End NotStyle.

(* process reads the attribute list only through these look-ups *)
Lemma process_same_lookups ev pc tag attrs attrs' txt tail cs :
  classify tag attrs' = classify tag attrs ->
  get_attr attrs' A_id = get_attr attrs A_id ->
  (forall p, read_lang attrs' p = read_lang attrs p) ->
  (forall p, read_space attrs' p = read_space attrs p) ->
  (forall k, read_region ev k attrs' = read_region ev k attrs) ->
  read_par attrs' = read_par attrs ->
  style_refs attrs' = style_refs attrs ->
  read_time ev (get_attr attrs' A_begin) = read_time ev (get_attr attrs A_begin) ->
  read_time ev (get_attr attrs' A_dur) = read_time ev (get_attr attrs A_dur) ->
  read_time ev (get_attr attrs' A_end) = read_time ev (get_attr attrs A_end) ->
  (forall d, apply_specified (e_to_model ev) (e_valid ev) attrs' d = apply_specified (e_to_model ev) (e_valid ev) attrs d) ->
  first_animated (e_to_model ev) (e_valid ev) attrs' = first_animated (e_to_model ev) (e_valid ev) attrs ->
  process ev pc (X tag attrs txt tail cs) = process ev pc (X tag attrs' txt tail cs).
Proof.
  intros Hcls Hid Hlang Hspace Hreg Hpar Hrefs T1 T2 T3 Has Hfa.
  cbn [process]. rewrite Hcls, Hid, Hpar, Hrefs, T1, T2, T3, Hfa.
  destruct (classify tag attrs) as [k|]; [|reflexivity].
  rewrite Hreg. rewrite !Hlang, !Hspace.
  repeat match goal with
         | |- context [match ?e with _ => _ end] => destruct e eqn:?
         end; rewrite ?Has; reflexivity.
Qed.

Definition time_attr (a : qname) : Prop := a = A_begin \/ a = A_dur \/ a = A_end.

Lemma read_time_bad ev s : parse_time_x (Some (e_tr ev)) (Some (e_fr ev)) s = TBad -> read_time ev (Some s) = read_time ev None.
Proof. intro H. unfold read_time. rewrite H. reflexivity. Qed.

Ltac other := apply get_remove_other; reflexivity.

(* a begin / dur / end value that is not a time expression *)
Theorem bad_time_attr_ignored ev pc tag attrs txt tail cs a s :
  time_attr a -> get_attr attrs a = Some s ->
  parse_time_x (Some (e_tr ev)) (Some (e_fr ev)) s = TBad ->
  (forall v, e_to_model ev a v = None) ->
  process ev pc (X tag attrs txt tail cs) = process ev pc (X tag (remove_attr attrs a) txt tail cs).
Proof.
  intros Ha Hg Hbad Hns.
  apply process_same_lookups.
  - unfold classify. destruct Ha as [-> | [-> | ->]]; rewrite get_remove_other by reflexivity; reflexivity.
  - destruct Ha as [-> | [-> | ->]]; other.
  - intro p. unfold read_lang. destruct Ha as [-> | [-> | ->]]; rewrite get_remove_other by reflexivity; reflexivity.
  - intro p. unfold read_space. destruct Ha as [-> | [-> | ->]]; rewrite get_remove_other by reflexivity; reflexivity.
  - intro k. unfold read_region. destruct Ha as [-> | [-> | ->]]; rewrite get_remove_other by reflexivity; reflexivity.
  - unfold read_par. destruct Ha as [-> | [-> | ->]]; rewrite get_remove_other by reflexivity; reflexivity.
  - unfold style_refs. destruct Ha as [-> | [-> | ->]]; rewrite get_remove_other by reflexivity; reflexivity.
  - destruct Ha as [-> | [-> | ->]]; [rewrite get_remove_same, Hg, (read_time_bad ev s Hbad); reflexivity | rewrite get_remove_other by reflexivity; reflexivity ..].
  - destruct Ha as [-> | [-> | ->]]; [rewrite get_remove_other by reflexivity; reflexivity | rewrite get_remove_same, Hg, (read_time_bad ev s Hbad); reflexivity | rewrite get_remove_other by reflexivity; reflexivity].
  - destruct Ha as [-> | [-> | ->]]; [rewrite get_remove_other by reflexivity; reflexivity .. | rewrite get_remove_same, Hg, (read_time_bad ev s Hbad); reflexivity].
  - intro d. apply apply_specified_remove. exact Hns.
  - apply first_animated_remove. exact Hns.
Qed.

(* an xml:space value other than default / preserve, a timeContainer value other than par / seq *)
Theorem bad_space_ignored ev pc tag attrs txt tail cs v :
  get_attr attrs A_space = Some v -> text_eqb v V_default = false -> text_eqb v V_preserve = false ->
  (forall w, e_to_model ev A_space w = None) ->
  process ev pc (X tag attrs txt tail cs) = process ev pc (X tag (remove_attr attrs A_space) txt tail cs).
Proof.
  intros Hg H1 H2 Hns.
  apply process_same_lookups; try other.
  - unfold classify. rewrite get_remove_other by reflexivity. reflexivity.
  - intro p. unfold read_lang. rewrite get_remove_other by reflexivity. reflexivity.
  - intro p. unfold read_space. rewrite get_remove_same, Hg, H1, H2. reflexivity.
  - intro k. unfold read_region. rewrite get_remove_other by reflexivity. reflexivity.
  - unfold read_par. rewrite get_remove_other by reflexivity. reflexivity.
  - unfold style_refs. rewrite get_remove_other by reflexivity. reflexivity.
  - rewrite get_remove_other by reflexivity. reflexivity.
  - rewrite get_remove_other by reflexivity. reflexivity.
  - rewrite get_remove_other by reflexivity. reflexivity.
  - intro d. apply apply_specified_remove. exact Hns.
  - apply first_animated_remove. exact Hns.
Qed.

Theorem bad_time_container_ignored ev pc tag attrs txt tail cs v :
  get_attr attrs A_timeContainer = Some v -> text_eqb v V_seq = false ->
  (forall w, e_to_model ev A_timeContainer w = None) ->
  process ev pc (X tag attrs txt tail cs) = process ev pc (X tag (remove_attr attrs A_timeContainer) txt tail cs).
Proof.
  intros Hg H1 Hns.
  apply process_same_lookups; try other.
  - unfold classify. rewrite get_remove_other by reflexivity. reflexivity.
  - intro p. unfold read_lang. rewrite get_remove_other by reflexivity. reflexivity.
  - intro p. unfold read_space. rewrite get_remove_other by reflexivity. reflexivity.
  - intro k. unfold read_region. rewrite get_remove_other by reflexivity. reflexivity.
  - unfold read_par. rewrite get_remove_same, Hg, H1. reflexivity.
  - unfold style_refs. rewrite get_remove_other by reflexivity. reflexivity.
  - rewrite get_remove_other by reflexivity. reflexivity.
  - rewrite get_remove_other by reflexivity. reflexivity.
  - rewrite get_remove_other by reflexivity. reflexivity.
  - intro d. apply apply_specified_remove. exact Hns.
  - apply first_animated_remove. exact Hns.
Qed.

(* a style attribute whose value the reader rejects (to_model raises, or the model refuses the value) on an element: specified styling
   skips it *)
Theorem bad_style_attr_ignored tm vl attrs a v :
  get_attr attrs a = Some v -> (tm a v = None \/ exists p x, tm a v = Some (p, x) /\ vl p x = false) ->
  forall d, NoDup (List.map fst attrs) -> apply_specified tm vl attrs d = apply_specified tm vl (remove_attr attrs a) d.
Proof.
  intros Hg Hbad. induction attrs as [|[k w] l IH]; intros d Hnd; [reflexivity|].
  cbn [List.map] in Hnd. inversion Hnd as [|? ? Hk Hl]; subst.
  cbn [get_attr] in Hg. cbn [remove_attr apply_specified].
  destruct (qname_eqb k a) eqn:E.
  - apply qname_eqb_eq in E. subst k. inversion Hg; subst w.
    assert (Hskip : match tm a v with Some (p, x) => if vl p x then dict_set d p x else d | None => d end = d).
    { destruct Hbad as [-> | [p [x [-> Hv]]]]; [reflexivity|]. rewrite Hv. reflexivity. }
    rewrite Hskip.
    (* a does not occur again *)
    assert (Hrem : remove_attr l a = l).
    { clear -Hk. induction l as [|[k2 w2] l IH]; [reflexivity|]. cbn [remove_attr].
      destruct (qname_eqb k2 a) eqn:E2.
      - apply qname_eqb_eq in E2. subst. exfalso. apply Hk. left. reflexivity.
      - f_equal. apply IH. intro Hin. apply Hk. right. exact Hin. }
    rewrite Hrem. reflexivity.
  - cbn [apply_specified]. apply IH; assumption.
Qed.

(* a tts:ruby value that is not one of the six keywords: the span is read as a plain span, exactly as without the attribute *)
Definition ruby_keyword (v : text) : bool :=
  text_eqb v V_container || text_eqb v V_base || text_eqb v V_text || text_eqb v V_delimiter || text_eqb v V_baseContainer || text_eqb v V_textContainer.

Theorem bad_ruby_ignored ev pc tag attrs txt tail cs v :
  get_attr attrs A_ruby = Some v -> ruby_keyword v = false ->
  (forall w, e_to_model ev A_ruby w = None) ->
  process ev pc (X tag attrs txt tail cs) = process ev pc (X tag (remove_attr attrs A_ruby) txt tail cs).
Proof.
  intros Hg Hk Hns. unfold ruby_keyword in Hk.
  repeat (apply orb_false_iff in Hk as [Hk ?]).
  apply process_same_lookups; try other.
  - unfold classify. rewrite get_remove_same, Hg, Hk, H, H0, H1, H2, H3. reflexivity.
  - intro p. unfold read_lang. rewrite get_remove_other by reflexivity. reflexivity.
  - intro p. unfold read_space. rewrite get_remove_other by reflexivity. reflexivity.
  - intro k. unfold read_region. rewrite get_remove_other by reflexivity. reflexivity.
  - unfold read_par. rewrite get_remove_other by reflexivity. reflexivity.
  - unfold style_refs. rewrite get_remove_other by reflexivity. reflexivity.
  - rewrite get_remove_other by reflexivity. reflexivity.
  - rewrite get_remove_other by reflexivity. reflexivity.
  - rewrite get_remove_other by reflexivity. reflexivity.
  - intro d. apply apply_specified_remove. exact Hns.
  - apply first_animated_remove. exact Hns.
Qed.

(* a value that the model rejects in the dictionary of a referenced or nested <style> is skipped: the element is styled exactly as if
   the style did not carry it *)
Theorem invalid_style_value_ignored vl s1 k x s2 : vl k x = false ->
  forall d, merge_absent vl (s1 ++ (k, x) :: s2) d = merge_absent vl (s1 ++ s2) d.
Proof.
  intro Hv. induction s1 as [|[k1 x1] s1 IH]; intro d; cbn [app merge_absent].
  - rewrite Hv. destruct (dict_has d k); reflexivity.
  - destruct (dict_has d k1); [apply IH|]. destruct (vl k1 x1); apply IH.
Qed.

(* the dictionary of a <style> element is built like specified styling: an attribute whose value is rejected (by the parser or by the
   model) is skipped there too, so that it cannot shadow what the style inherits through chained references *)
Lemma collect_is_specified tm vl attrs : forall d, collect tm vl attrs d = apply_specified tm vl attrs d.
Proof. induction attrs as [|[q v] a IH]; intro d; [reflexivity|]. cbn [collect apply_specified]. apply IH. Qed.

Theorem bad_attr_in_style_element_ignored tm vl attrs a v :
  get_attr attrs a = Some v -> (tm a v = None \/ exists p x, tm a v = Some (p, x) /\ vl p x = false) ->
  forall d, NoDup (List.map fst attrs) -> collect tm vl attrs d = collect tm vl (remove_attr attrs a) d.
Proof. intros Hg Hb d Hn. rewrite !collect_is_specified. apply (bad_style_attr_ignored tm vl attrs a v Hg Hb d Hn). Qed.
