(* C04, totality of the reader model with the narrow trigger of the finding seq-indefinite-sibling: for a tree whose content model is
   plain (no ruby containers, children of the kinds their parents accept), with non-zero rates, the only exceptions that can leave
   process are the TypeError of a seq container on which [trigger_seq] fires and the ValueError of styling (outcome 5). *)
From TT Require Import Base.Prelude Base.ImscXml Model.ImscTime Model.ImscStyles Model.ImscTiming Model.ImscTriggers Spec.TtmlTimingSpec.
From TT Require Import Proofs.C04.TimeSyntax Proofs.C04.Interval Proofs.C04.Total.
From Coq Require Import QArith Qminmax Lqa.
Local Open Scope Z_scope.

(* the model element kinds of the children satisfy the type guards of model.py, and no element needs Ruby / Rtc.push_children *)
Definition child_fits (k : ekind) (c : xml) : bool :=
  match classify (x_tag c) (x_attrs c) with
  | None => true
  | Some kc =>
      if ekind_eqb kc KSet then true
      else if ekind_eqb kc KRegion && match get_attr (x_attrs c) A_id with None => true | Some _ => false end then true
      else negb (k_has_children k) || child_ok k kc
  end.
Fixpoint simple_content (x : xml) : bool :=
  match x with
  | X tag attrs _ _ cs =>
      match classify tag attrs with
      | None => true
      | Some k =>
          negb (ekind_eqb k KRuby) && negb (ekind_eqb k KRtc) &&
          (fix all (l : list xml) : bool := match l with [] => true | c :: l' => child_fits k c && simple_content c && all l' end) cs
      end
  end.

Lemma process_kind ev pc x r : process ev pc x = POk r ->
  classify (x_tag x) (x_attrs x) = Some (r_kind r) /\
  (ekind_eqb (r_kind r) KRegion && match get_attr (x_attrs x) A_id with None => true | Some _ => false end = false) /\
  match r_node r with Some n => m_kind n = r_kind r | None => r_kind r = KSet end.
Proof.
  destruct x as [tag attrs txt tail cs]. cbn [process x_tag x_attrs].
  destruct (classify tag attrs) as [k|]; [|discriminate].
  destruct (ekind_eqb k KRegion && match get_attr attrs A_id with None => true | Some _ => false end) eqn:E; [discriminate|].
  intro H.
  assert (Hk : r_kind r = k). { clear E. revert H. break_match; intro H; inversion H; reflexivity. }
  split; [rewrite Hk; reflexivity|]. split; [rewrite Hk; exact E|]. rewrite Hk. clear E Hk.
  assert (Hset : forall kk, ekind_eqb kk KSet = true -> kk = KSet) by (intros kk Hk; destruct kk; try discriminate; reflexivity).
  destruct (read_time ev (get_attr attrs A_begin)); [|discriminate].
  destruct (read_time ev (get_attr attrs A_dur)); [|discriminate].
  destruct (read_time ev (get_attr attrs A_end)); [|discriminate].
  destruct (implicit_begin pc); [|discriminate].
  match type of H with context [children_loop ?a ?b ?c ?d ?e ?f ?g ?h ?i ?j ?k0 ?l ?m ?n] =>
    destruct (children_loop a b c d e f g h i j k0 l m n) as [?|iF kF aF pF nF] end; [discriminate|].
  match type of H with context [referential ?a ?b ?c ?d] => destruct (if k_has_styles k then referential a b c d else Some nF) end; [|discriminate].
  destruct (if k_has_children k then push_children k kF else ([], true)) as [pushed ok].
  destruct ok; cbn [negb] in H.
  - destruct (ekind_eqb k KSet) eqn:Es; inversion H; subst; cbn [r_node m_kind]; [apply Hset; exact Es|reflexivity].
  - inversion H; subst. cbn [r_node]. destruct (ekind_eqb k KSet) eqn:Es; [apply Hset; exact Es|reflexivity].
Qed.

(* ---- a plain content model never makes push_children raise ------------------------------------------------------------------- *)
Definition fits (k : ekind) (n : mnode) : Prop := child_ok k (m_kind n) = true.

Lemma take_ok_all k kids : Forall (fits k) kids -> take_ok k kids = (kids, true).
Proof.
  induction 1 as [|n l Hn Hl IH]; [reflexivity|]. cbn [take_ok]. unfold fits in Hn. rewrite Hn, IH. reflexivity.
Qed.

Lemma anon_fits k pr lg t : k_is_mixed k = true -> fits k (anon_span k pr lg t).
Proof. unfold fits, anon_span. destruct k; try discriminate; intros _; reflexivity. Qed.

Definition no_pushfail (ev : env) (x : xml) : Prop :=
  simple_content x = true -> forall pc r, process ev pc x = POk r -> r_pushfail r = false.

Definition all_fit (k : ekind) : list xml -> bool :=
  fix all (l : list xml) : bool := match l with [] => true | c :: l' => child_fits k c && simple_content c && all l' end.

Lemma loop_simple ev k par db pr lg l : Forall (no_pushfail ev) l -> all_fit k l = true ->
  forall iend kids anims pf nst iF kF aF pF nF,
    children_loop (process ev) (e_to_model ev) (e_valid ev) k par db pr lg l iend kids anims pf nst = LDone iF kF aF pF nF ->
    (k_has_children k = true -> Forall (fits k) kids) ->
    pF = pf /\ (k_has_children k = true -> Forall (fits k) kF).
Proof.
  induction 1 as [|c l Hc Hl IH]; intros Hall iend kids anims pf nst iF kF aF pF nF H Hk.
  - cbn [children_loop] in H. inversion H; subst. auto.
  - cbn [all_fit] in Hall. apply andb_true_iff in Hall as [Hall Hrest]. apply andb_true_iff in Hall as [Hfit Hsimple].
    specialize (IH Hrest). cbn [children_loop] in H.
    destruct (ekind_eqb k KRegion && is_style_elem c).
    { destruct (merge_absent (e_valid ev) (collect (e_to_model ev) (x_attrs c) []) nst); [|discriminate]. eapply IH; eassumption. }
    destruct (process ev (mkPctx par iend db pr lg (negb (ekind_eqb k KSet))) c) as [e| |r] eqn:Ep; [discriminate| |].
    + (* skipped child *)
      destruct (x_tail c) as [t|].
      * destruct (k_is_mixed k && par) eqn:Em.
        -- eapply IH; [exact H|]. intro Hc'. apply Forall_app. split; [apply Hk; exact Hc'|].
           constructor; [|constructor]. apply anon_fits. apply andb_true_iff in Em as [Em _]. exact Em.
        -- eapply IH; eassumption.
      * eapply IH; eassumption.
    + pose proof (Hc Hsimple _ _ Ep) as Hpf. rewrite Hpf, orb_false_r in H.
      destruct (process_kind _ _ _ _ Ep) as [Hcls [Hreg Hnode]].
      assert (Hkids' : k_has_children k = true ->
                Forall (fits k) (match r_node r with
                                 | Some n => if negb (ekind_eqb (r_kind r) KSet) &&
                                                match r_des_end r with None => true | Some ce => negb (Qeq_bool (r_des_begin r) ce) end
                                             then kids ++ [n] else kids
                                 | None => kids end)).
      { intro Hc'. specialize (Hk Hc'). destruct (r_node r) as [n|]; [|exact Hk].
        destruct (negb (ekind_eqb (r_kind r) KSet)) eqn:Ens; cbn [andb]; [|exact Hk].
        destruct (match r_des_end r with None => true | Some ce => negb (Qeq_bool (r_des_begin r) ce) end); [|exact Hk].
        apply Forall_app. split; [exact Hk|]. constructor; [|constructor].
        unfold fits. rewrite Hnode. unfold child_fits in Hfit. rewrite Hcls in Hfit.
        apply negb_true_iff in Ens. rewrite Ens, Hreg in Hfit. rewrite Hc' in Hfit. exact Hfit. }
      destruct (x_tail c) as [t|].
      * destruct (k_is_mixed k && par) eqn:Em.
        -- eapply IH; [exact H|]. intro Hc'. apply Forall_app. split; [apply Hkids'; exact Hc'|].
           constructor; [|constructor]. apply anon_fits. apply andb_true_iff in Em as [Em _]. exact Em.
        -- eapply IH; [exact H|exact Hkids'].
      * eapply IH; [exact H|exact Hkids'].
Qed.

Theorem simple_no_pushfail ev x : no_pushfail ev x.
Proof.
  induction x as [tag attrs txt tail cs IHcs] using xml_ind'.
  intros Hsimple pc r H. cbn [simple_content] in Hsimple. cbn [process] in H.
  destruct (classify tag attrs) as [k|]; [|discriminate].
  apply andb_true_iff in Hsimple as [Hk Hall]. apply andb_true_iff in Hk as [Hk1 Hk2].
  apply negb_true_iff in Hk1. apply negb_true_iff in Hk2.
  destruct (ekind_eqb k KRegion && match get_attr attrs A_id with None => true | Some _ => false end); [discriminate|].
  destruct (read_time ev (get_attr attrs A_begin)); [|discriminate].
  destruct (read_time ev (get_attr attrs A_dur)); [|discriminate].
  destruct (read_time ev (get_attr attrs A_end)); [|discriminate].
  destruct (implicit_begin pc); [|discriminate].
  match type of H with context [children_loop ?a ?b ?c ?d ?e ?f ?g ?h ?i ?j ?k0 ?l ?m ?n] =>
    destruct (children_loop a b c d e f g h i j k0 l m n) as [?|iF kF aF pF nF] eqn:Eloop end; [discriminate|].
  assert (Hkids0 : k_has_children k = true ->
            Forall (fits k) (match txt with Some t => if k_is_mixed k && read_par attrs then [anon_span k
              (if ekind_eqb k KSet then pc_preserve pc else read_space attrs (pc_preserve pc))
              (if ekind_eqb k KSet then pc_lang pc else read_lang attrs (pc_lang pc)) t] else [] | None => [] end)).
  { intros _. destruct txt; [|constructor]. destruct (k_is_mixed k && read_par attrs) eqn:Em; [|constructor].
    constructor; [|constructor]. apply anon_fits. apply andb_true_iff in Em as [Em _]. exact Em. }
  destruct (loop_simple ev k _ _ _ _ cs IHcs Hall _ _ _ _ _ _ _ _ _ _ Eloop Hkids0) as [HpF HkF]. subst pF.
  match type of H with context [referential ?a ?b ?c ?d] => destruct (if k_has_styles k then referential a b c d else Some nF) end; [|discriminate].
  assert (Hpush : (if k_has_children k then push_children k kF else ([], true)) = ((if k_has_children k then kF else []), true)).
  { destruct (k_has_children k) eqn:Ec; [|reflexivity].
    assert (Hp : push_children k kF = take_ok k kF) by (destruct k; try discriminate; reflexivity).
    rewrite Hp. apply take_ok_all. apply HkF. reflexivity. }
  rewrite Hpush in H. cbn [negb] in H.
  destruct (ekind_eqb k KSet); inversion H; reflexivity.
Qed.

(* ---- totality with the narrow trigger ---------------------------------------------------------------------------------------------- *)
Lemma process_untimed ev pc x : timed x = false -> process ev pc x = PSkip.
Proof.
  destruct x as [tag attrs txt tail cs]. unfold timed. cbn [x_tag x_attrs process]. rewrite classify_s_kind.
  destruct (classify tag attrs) as [k|]; [|reflexivity]. intro H.
  destruct k; try discriminate. destruct (get_attr attrs A_id); [discriminate|]. reflexivity.
Qed.

Definition any_trigger (tv : text -> option Q) (seq : bool) : list xml -> bool :=
  fix any (l : list xml) : bool := match l with [] => false | c :: l' => trigger_seq tv seq c || any l' end.

Definition total_narrow (ev : env) (x : xml) : Prop :=
  simple_content x = true -> forall pc, implicit_begin pc <> None -> trigger_seq (tv_of ev) (negb (pc_par pc)) x = false ->
  forall e, process ev pc x = PErr e -> e = 5.

Lemma loop_par_total ev k db pr lg l : Forall (total_narrow ev) l -> all_fit k l = true -> any_trigger (tv_of ev) false l = false ->
  forall iend kids anims pf nst e,
    children_loop (process ev) (e_to_model ev) (e_valid ev) k true db pr lg l iend kids anims pf nst = LErr e -> e = 5.
Proof.
  induction 1 as [|c l Hc Hl IH]; intros Hall Hany iend kids anims pf nst e; cbn [children_loop].
  - discriminate.
  - cbn [all_fit] in Hall. apply andb_true_iff in Hall as [Hall Hrest]. apply andb_true_iff in Hall as [Hfit Hsimple].
    cbn [any_trigger] in Hany. apply orb_false_iff in Hany as [Htc Hany]. specialize (IH Hrest Hany).
    destruct (ekind_eqb k KRegion && is_style_elem c).
    { destruct (merge_absent (e_valid ev) (collect (e_to_model ev) (x_attrs c) []) nst); [apply IH|]. intro H. inversion H. reflexivity. }
    destruct (process ev (mkPctx true iend db pr lg (negb (ekind_eqb k KSet))) c) as [e'| |r] eqn:Ep.
    + intro H. inversion H; subst e'. apply (Hc Hsimple (mkPctx true iend db pr lg (negb (ekind_eqb k KSet)))); [cbn; discriminate | exact Htc | exact Ep].
    + destruct (x_tail c); [destruct (k_is_mixed k && true)|]; apply IH.
    + destruct (x_tail c); [destruct (k_is_mixed k && true)|]; apply IH.
Qed.

Lemma loop_seq_total ev k db pr lg l : Forall (total_narrow ev) l -> all_fit k l = true -> any_trigger (tv_of ev) true l = false ->
  forall iend kids anims pf nst cursor,
    match iend with
    | Some ie => (ie - db == cursor)%Q /\ indefinite_then_more (tv_of ev) l cursor = false
    | None => existsb timed l = false
    end ->
    forall e, children_loop (process ev) (e_to_model ev) (e_valid ev) k false db pr lg l iend kids anims pf nst = LErr e -> e = 5.
Proof.
  induction 1 as [|c l Hc Hl IH]; intros Hall Hany iend kids anims pf nst cursor J e; cbn [children_loop].
  - discriminate.
  - cbn [all_fit] in Hall. apply andb_true_iff in Hall as [Hall Hrest]. apply andb_true_iff in Hall as [Hfit Hsimple].
    cbn [any_trigger] in Hany. apply orb_false_iff in Hany as [Htc Hany]. specialize (IH Hrest Hany).
    rewrite andb_false_r.
    destruct (ekind_eqb k KRegion && is_style_elem c) eqn:Est.
    { apply andb_true_iff in Est as [_ Es]. pose proof (is_style_not_timed c Es) as Hnt.
      destruct (merge_absent (e_valid ev) (collect (e_to_model ev) (x_attrs c) []) nst); [|intro H; inversion H; reflexivity].
      apply (IH _ _ _ _ _ cursor). destruct iend as [ie|].
      - destruct J as [J1 J2]. split; [exact J1|]. cbn [indefinite_then_more] in J2. unfold known in J2. fold (timed c) in J2. rewrite Hnt in J2. exact J2.
      - cbn [existsb] in J. apply orb_false_iff in J as [_ J]. exact J. }
    destruct (timed c) eqn:Et.
    2:{ (* untimed child: skipped *)
      rewrite (process_untimed ev _ c Et).
      assert (J' : match iend with
                   | Some ie => (ie - db == cursor)%Q /\ indefinite_then_more (tv_of ev) l cursor = false
                   | None => existsb timed l = false end).
      { destruct iend as [ie|].
        - destruct J as [J1 J2]. split; [exact J1|]. cbn [indefinite_then_more] in J2. unfold known in J2. fold (timed c) in J2. rewrite Et in J2. exact J2.
        - cbn [existsb] in J. apply orb_false_iff in J as [_ J]. exact J. }
      destruct (x_tail c); apply (IH _ _ _ _ _ cursor J'). }
    destruct iend as [ie|].
    2:{ cbn [existsb] in J. rewrite Et in J. discriminate. }
    destruct J as [J1 J2].
    destruct (process ev (mkPctx false (Some ie) db pr lg (negb (ekind_eqb k KSet))) c) as [e'| |r] eqn:Ep.
    + intro H. inversion H; subst e'. apply (Hc Hsimple (mkPctx false (Some ie) db pr lg (negb (ekind_eqb k KSet)))); [cbn; discriminate | exact Htc | exact Ep].
    + pose proof (process_skip_timed _ _ _ Ep) as Hs. rewrite Hs in Et. discriminate.
    + pose proof (simple_no_pushfail ev c Hsimple _ _ Ep) as Hpf.
      destruct (interval_sound ev c _ _ Ep Hpf) as [sync [Hsy [_ He]]].
      cbn [implicit_begin pc_par pc_impl_end pc_des_begin] in Hsy. inversion Hsy; subst sync. cbn [pc_par negb] in He.
      destruct (interval_sync (tv_of ev) true (ie - db) cursor c J1) as [_ Hsync].
      pose proof (oq_rel_trans _ _ _ He Hsync) as He'.
      cbn [indefinite_then_more] in J2. unfold known in J2. fold (timed c) in J2. rewrite Et in J2.
      set (iend' := match r_des_end r with Some ce => Some (ce + db)%Q | None => None end).
      assert (J' : match iend' with
                   | Some ie' => (ie' - db == match snd (interval (tv_of ev) true cursor c) with Some ce => ce | None => 0 end)%Q /\
                                 indefinite_then_more (tv_of ev) l (match snd (interval (tv_of ev) true cursor c) with Some ce => ce | None => 0 end) = false
                   | None => existsb timed l = false end).
      { unfold iend'. destruct (r_des_end r) as [ce|], (snd (interval (tv_of ev) true cursor c)) as [s|]; simpl in He'; try tauto;
          try exact J2. split; [rewrite <- He'; ring|exact J2]. }
      destruct (x_tail c); eapply IH; exact J'.
Qed.

Lemma existsb_known_timed l : existsb known l = existsb timed l.
Proof. reflexivity. Qed.

Theorem read_total_narrow ev x : rates_ok ev -> total_narrow ev x.
Proof.
  intro Hr. induction x as [tag attrs txt tail cs IHcs] using xml_ind'.
  intros Hsimple pc Hib Htrig e H.
  cbn [simple_content] in Hsimple. cbn [trigger_seq] in Htrig. cbn [process] in H.
  pose proof (classify_s_kind tag attrs) as Hk.
  destruct (classify tag attrs) as [k|]; [|discriminate].
  destruct (ekind_eqb k KRegion && match get_attr attrs A_id with None => true | Some _ => false end) eqn:Ereg; [discriminate|].
  assert (Hsk : s_kind tag attrs = Some k).
  { rewrite Hk. destruct k; try reflexivity. destruct (get_attr attrs A_id); [reflexivity|discriminate]. }
  rewrite Hsk in Htrig. clear Hk.
  apply andb_true_iff in Hsimple as [_ Hall]. fold (all_fit k cs) in Hall.
  apply orb_false_iff in Htrig as [Hhere Hbelow]. fold (any_trigger (tv_of ev) (s_is_seq attrs) cs) in Hbelow.
  pose proof (read_time_some ev (get_attr attrs A_begin) Hr).
  destruct (read_time ev (get_attr attrs A_begin)) as [ebegin|]; [|contradiction].
  pose proof (read_time_some ev (get_attr attrs A_dur) Hr).
  destruct (read_time ev (get_attr attrs A_dur)); [|contradiction].
  pose proof (read_time_some ev (get_attr attrs A_end) Hr).
  destruct (read_time ev (get_attr attrs A_end)); [|contradiction].
  destruct (implicit_begin pc) as [ibegin|]; [|contradiction].
  rewrite s_is_seq_par in Hhere, Hbelow.
  set (dbegin := (ibegin + opt_or_zero ebegin)%Q) in *.
  match type of H with context [children_loop ?a ?b ?c ?d ?par ?f ?g ?h ?i ?ie1 ?k0 ?l ?m ?n] =>
    set (iend1 := ie1) in *; set (kids0 := k0) in *;
    destruct (children_loop a b c d par f g h i iend1 kids0 l m n) as [e'|iF kF aF pF nF] eqn:Eloop end.
  - (* an exception from the children loop *)
    inversion H; subst e'. clear H.
    destruct (read_par attrs) eqn:Epar; cbn [negb] in Hhere, Hbelow.
    + eapply (loop_par_total ev k dbegin _ _ cs IHcs Hall Hbelow). exact Eloop.
    + cbn [andb] in Hhere. apply orb_false_iff in Hhere as [Hat Hind].
      eapply (loop_seq_total ev k dbegin _ _ cs IHcs Hall Hbelow _ _ _ _ _ 0%Q); [|exact Eloop].
      unfold iend1. rewrite andb_false_r.
      assert (Hi : (match txt with Some _ => (if false then None else if k_indefinite_in_par k && pc_par pc then None else Some dbegin) | None => (if k_indefinite_in_par k && pc_par pc then None else Some dbegin) end)
                   = (if k_indefinite_in_par k && pc_par pc then None else Some dbegin)) by (destruct txt; reflexivity).
      rewrite Hi. rewrite s_atomic_k, negb_involutive in Hat.
      destruct (k_indefinite_in_par k && pc_par pc) eqn:Eat.
      * rewrite <- existsb_known_timed. cbn [andb] in Hat. exact Hat.
      * split; [ring|exact Hind].
  - revert H. break_match; intro H; inversion H; reflexivity.
Qed.
