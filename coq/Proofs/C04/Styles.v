(* C04, style precedence in the reader model: what the style dictionary of an element holds for a property p after nested,
   referential and specified styling (Model/ImscStyles.v), as look-up equations.  Together they say: inline over nested over
   referential, later style references over earlier ones.  (The flattening of chained references, merge_chained, is compared with
   the specification on generated style graphs only.) *)
From TT Require Import Base.Prelude Base.ImscXml Model.ImscStyles.
Local Open Scope Z_scope.

Lemma dict_get_set_same d p x : dict_get (dict_set d p x) p = Some x.
Proof.
  induction d as [|[k w] d IH]; cbn [dict_set dict_get].
  - rewrite Z.eqb_refl. reflexivity.
  - destruct (k =? p) eqn:E; cbn [dict_get]; rewrite E; [reflexivity|exact IH].
Qed.

Lemma dict_get_set_other d p q x : q <> p -> dict_get (dict_set d q x) p = dict_get d p.
Proof.
  intro H. induction d as [|[k w] d IH]; cbn [dict_set dict_get].
  - replace (q =? p) with false by lia. reflexivity.
  - destruct (k =? q) eqn:E; cbn [dict_get].
    + apply Z.eqb_eq in E. subst k. replace (q =? p) with false by lia. reflexivity.
    + destruct (k =? p); [reflexivity|exact IH].
Qed.

Lemma dict_has_get d p : dict_has d p = match dict_get d p with Some _ => true | None => false end.
Proof. induction d as [|[k w] d IH]; cbn [dict_has dict_get]; [reflexivity|]. destruct (k =? p); [reflexivity|exact IH]. Qed.

Lemma dict_get_app d e p : dict_get (d ++ e) p = match dict_get d p with Some x => Some x | None => dict_get e p end.
Proof. induction d as [|[k w] d IH]; cbn [app dict_get]; [reflexivity|]. destruct (k =? p); [reflexivity|exact IH]. Qed.

Section Precedence.
  Variable tm : qname -> text -> option (Z * sv).
  Variable vl : Z -> sv -> bool.

  (* the value an attribute list specifies for p: the last attribute that reads as a valid value of p *)
  Fixpoint inline_value (attrs : list (qname * text)) (p : Z) (acc : option sv) : option sv :=
    match attrs with
    | [] => acc
    | (q, v) :: a' =>
        inline_value a' p (match tm q v with
                           | Some (p', x) => if vl p' x && (p' =? p) then Some x else acc
                           | None => acc
                           end)
    end.

  (* specified styling: an inline value wins over whatever the element already had *)
  Theorem specified_get attrs : forall d p,
    dict_get (apply_specified tm vl attrs d) p = inline_value attrs p (dict_get d p).
  Proof.
    induction attrs as [|[q v] a IH]; intros d p; [reflexivity|].
    cbn [apply_specified inline_value]. rewrite IH. f_equal.
    destruct (tm q v) as [[p' x]|]; [|reflexivity].
    destruct (vl p' x); cbn [andb]; [|reflexivity].
    destruct (p' =? p) eqn:E.
    - apply Z.eqb_eq in E. subst p'. apply dict_get_set_same.
    - apply dict_get_set_other. lia.
  Qed.

  (* the first entry of a style's dictionary for p that the model accepts *)
  Fixpoint valid_get (src : sdict) (p : Z) : option sv :=
    match src with
    | [] => None
    | (k, x) :: s' => if (k =? p) && vl k x then Some x else valid_get s' p
    end.

  (* set-if-absent of a style's dictionary: what the element already has is kept, the rest is taken from the style; a value the
     model rejects is skipped *)
  Theorem merge_absent_get src : forall d p,
    dict_get (merge_absent vl src d) p = match dict_get d p with Some x => Some x | None => valid_get src p end.
  Proof.
    induction src as [|[k x] s IH]; intros d p; cbn [merge_absent valid_get].
    - destruct (dict_get d p); reflexivity.
    - destruct (dict_has d k) eqn:Eh.
      + rewrite IH. destruct (dict_get d p) eqn:Eg; [reflexivity|].
        destruct (k =? p) eqn:E; [|reflexivity]. apply Z.eqb_eq in E. subst k.
        rewrite dict_has_get, Eg in Eh. discriminate.
      + destruct (vl k x) eqn:Ev.
        * rewrite IH. rewrite dict_get_app. cbn [dict_get].
          destruct (dict_get d p) eqn:Eg; [reflexivity|]. destruct (k =? p); reflexivity.
        * rewrite IH. rewrite andb_false_r. reflexivity.
  Qed.

  (* referential styling: the references are visited in the given order (the reader passes them reversed: later references first);
     the first visited style that has p provides it, unless the element already has p *)
  Fixpoint first_provider (t : list sty) (refs : list text) (p : Z) : option sv :=
    match refs with
    | [] => None
    | r :: rest => match tbl_get t r with
                   | Some s => match valid_get (st_styles s) p with Some x => Some x | None => first_provider t rest p end
                   | None => first_provider t rest p
                   end
    end.

  Theorem referential_get t refs : forall d p,
    dict_get (referential vl t refs d) p = match dict_get d p with Some x => Some x | None => first_provider t refs p end.
  Proof.
    induction refs as [|r rest IH]; intros d p; cbn [referential first_provider].
    - destruct (dict_get d p); reflexivity.
    - destruct (tbl_get t r) as [s|]; [|apply IH].
      rewrite IH, merge_absent_get.
      destruct (dict_get d p); [reflexivity|]. destruct (valid_get (st_styles s) p); reflexivity.
  Qed.
End Precedence.
