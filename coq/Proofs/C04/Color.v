(* C04 / C05, colour values: the strings ttconv.utils.parse_color accepts (Model/ImscWrite.v parse_color) are exactly the colour
   expressions of Spec/TtmlColorSpec.v, with the denotation the grammar gives them; every accepted string denotes an RGBA8 colour;
   every strict TTML2 <color> is accepted. *)
From TT Require Import Base.Prelude Base.ImscXml Model.ImscTime Model.ImscWrite Gen.ImscTables Spec.TtmlColorSpec.
From Coq Require String.
Import String.StringSyntax.
Local Open Scope Z_scope.

(* ---- the characters ------------------------------------------------------------------------------------------------------------ *)
Ltac split_eqb c :=
  repeat match goal with
         | |- context [?x =? c] => let E := fresh "E" in destruct (x =? c) eqn:E; cbv iota
         end.

Lemma dec_digit_spec c : dec_digit c = if is_digit c then Some (c - 48) else None.
Proof.
  unfold dec_digit. change (str "0123456789") with [48; 49; 50; 51; 52; 53; 54; 55; 56; 57]. cbn [index_of Z.add Pos.add Pos.succ].
  unfold is_digit. split_eqb c; destruct ((48 <=? c) && (c <=? 57)) eqn:R; try (f_equal; lia); lia.
Qed.

Lemma hex_digit_spec c : hex_digit c = hexval c.
Proof.
  unfold hex_digit.
  change (str "0123456789abcdef") with [48; 49; 50; 51; 52; 53; 54; 55; 56; 57; 97; 98; 99; 100; 101; 102].
  change (str "0123456789ABCDEF") with [48; 49; 50; 51; 52; 53; 54; 55; 56; 57; 65; 66; 67; 68; 69; 70].
  cbn [index_of Z.add Pos.add Pos.succ]. unfold hexval.
  split_eqb c;
    destruct ((48 <=? c) && (c <=? 57)) eqn:R1; destruct ((97 <=? c) && (c <=? 102)) eqn:R2; destruct ((65 <=? c) && (c <=? 70)) eqn:R3;
    try (f_equal; lia); lia.
Qed.

Lemma lwsp_char_spec c : lwsp_char c = is_ws c.
Proof. unfold lwsp_char, is_ws. cbn [existsb]. lia. Qed.

Lemma is_lwsp_spec w : is_lwsp w = forallb is_ws w.
Proof. unfold is_lwsp. induction w as [|c w IH]; [reflexivity|]. cbn [forallb]. rewrite lwsp_char_spec, IH. reflexivity. Qed.

Lemma hexval_range c v : hexval c = Some v -> 0 <= v <= 15.
Proof.
  unfold hexval. destruct ((48 <=? c) && (c <=? 57)) eqn:R1; [intro H; inversion H; lia|].
  destruct ((97 <=? c) && (c <=? 102)) eqn:R2; [intro H; inversion H; lia|].
  destruct ((65 <=? c) && (c <=? 70)) eqn:R3; [intro H; inversion H; lia|discriminate].
Qed.

(* two hexadecimal digits: the model's hexpair and the grammar's pair agree *)
Lemma hexpair_spec a b : hexpair a b = if is_hex_pair (a, b) then Some (hex_pair_value (a, b)) else None.
Proof.
  unfold hexpair, is_hex_pair, hex_pair_value. cbn [fst snd]. rewrite !hex_digit_spec.
  destruct (hexval a) as [x|]; destruct (hexval b) as [y|]; cbn [is_some get andb]; try reflexivity. f_equal. lia.
Qed.

Lemma hex_pair_range p : is_hex_pair p = true -> 0 <= hex_pair_value p <= 255.
Proof.
  unfold is_hex_pair, hex_pair_value. rewrite !hex_digit_spec.
  destruct (hexval (fst p)) as [x|] eqn:X; destruct (hexval (snd p)) as [y|] eqn:Y; cbn [is_some get andb]; try discriminate.
  intros _. pose proof (hexval_range _ _ X). pose proof (hexval_range _ _ Y). lia.
Qed.

(* ---- decimal numbers --------------------------------------------------------------------------------------------------------------- *)
Lemma is_decimal_spec d : is_decimal d = negb (Nat.eqb (length d) 0) && forallb is_digit d.
Proof.
  unfold is_decimal. f_equal. induction d as [|c d IH]; [reflexivity|]. cbn [forallb]. rewrite IH, dec_digit_spec.
  destruct (is_digit c); reflexivity.
Qed.

Lemma decimal_fold d : forall acc, forallb is_digit d = true ->
  fold_left (fun a c => 10 * a + get (dec_digit c)) d acc = digits_val acc d.
Proof.
  induction d as [|c d IH]; intros acc H; [reflexivity|]. cbn [forallb] in H. apply andb_true_iff in H as [Hc Hd].
  cbn [fold_left digits_val]. rewrite IH by exact Hd. rewrite dec_digit_spec, Hc. cbn [get]. f_equal. lia.
Qed.

Lemma decimal_value_spec d : forallb is_digit d = true -> decimal_value d = digits_val 0 d.
Proof. intro H. unfold decimal_value. apply decimal_fold. exact H. Qed.

Lemma digits_val_nonneg d : forall acc, 0 <= acc -> forallb is_digit d = true -> 0 <= digits_val acc d.
Proof.
  induction d as [|c d IH]; intros acc Ha H; [exact Ha|]. cbn [forallb] in H. apply andb_true_iff in H as [Hc Hd].
  cbn [digits_val]. apply IH; [|exact Hd]. unfold is_digit in Hc. lia.
Qed.

(* ---- scanning: span_digits and skip_ws ------------------------------------------------------------------------------------------------ *)
(* the first character, if any, does not satisfy p *)
Definition stops (p : Z -> bool) (x : text) : bool := match x with [] => true | c :: _ => negb (p c) end.

Lemma span_digits_split s : forall d r, span_digits s = (d, r) -> s = d ++ r /\ forallb is_digit d = true /\ stops is_digit r = true.
Proof.
  induction s as [|c s IH]; intros d r H.
  - inversion H; subst. repeat split.
  - cbn [span_digits] in H. destruct (is_digit c) eqn:Dc.
    + destruct (span_digits s) as [d' r'] eqn:E. inversion H; subst. destruct (IH _ _ eq_refl) as (A & B & Cc).
      subst s. repeat split; [|exact Cc]. cbn [forallb]. rewrite Dc, B. reflexivity.
    + inversion H; subst. repeat split. cbn [stops]. rewrite Dc. reflexivity.
Qed.

Lemma span_digits_app d : forall x, forallb is_digit d = true -> stops is_digit x = true -> span_digits (d ++ x) = (d, x).
Proof.
  induction d as [|c d IH]; intros x Hd Hx.
  - cbn [app]. destruct x as [|c x]; [reflexivity|]. cbn [stops] in Hx. cbn [span_digits].
    destruct (is_digit c); [discriminate|reflexivity].
  - cbn [forallb] in Hd. apply andb_true_iff in Hd as [Hc Hd]. cbn [app span_digits]. rewrite Hc, (IH x Hd Hx). reflexivity.
Qed.

Lemma skip_ws_split s : exists w, s = w ++ skip_ws s /\ forallb is_ws w = true /\ stops is_ws (skip_ws s) = true.
Proof.
  induction s as [|c s IH].
  - exists []. repeat split.
  - cbn [skip_ws]. destruct (is_ws c) eqn:Wc.
    + destruct IH as (w & A & B & Cc). exists (c :: w). repeat split; [|cbn [forallb]; rewrite Wc, B; reflexivity|exact Cc].
      cbn [app]. f_equal. exact A.
    + exists []. repeat split. cbn [stops]. rewrite Wc. reflexivity.
Qed.

Lemma skip_ws_app w : forall x, forallb is_ws w = true -> stops is_ws x = true -> skip_ws (w ++ x) = x.
Proof.
  induction w as [|c w IH]; intros x Hw Hx.
  - cbn [app]. destruct x as [|c x]; [reflexivity|]. cbn [stops] in Hx. cbn [skip_ws]. destruct (is_ws c); [discriminate|reflexivity].
  - cbn [forallb] in Hw. apply andb_true_iff in Hw as [Hc Hw]. cbn [app skip_ws]. rewrite Hc. apply IH; assumption.
Qed.

Lemma digit_not_ws c : is_digit c = true -> is_ws c = false.
Proof. unfold is_digit, is_ws. lia. Qed.
Lemma ws_not_digit c : is_ws c = true -> is_digit c = false.
Proof. unfold is_digit, is_ws. lia. Qed.

(* what follows the digits of a component: white space, then a stop character that is neither white space nor a digit *)
Lemma stops_digit_tail w stop r : forallb is_ws w = true -> is_digit stop = false -> stops is_digit (w ++ stop :: r) = true.
Proof.
  intros Hw Hs. destruct w as [|c w]; cbn [app stops]; [rewrite Hs; reflexivity|].
  cbn [forallb] in Hw. apply andb_true_iff in Hw as [Hc _]. rewrite (ws_not_digit _ Hc). reflexivity.
Qed.

Lemma stops_ws_digits d x : d <> [] -> forallb is_digit d = true -> stops is_ws (d ++ x) = true.
Proof.
  intros Hn Hd. destruct d as [|c d]; [congruence|]. cbn [forallb] in Hd. apply andb_true_iff in Hd as [Hc _].
  cbn [app stops]. rewrite (digit_not_ws _ Hc). reflexivity.
Qed.

(* ---- one decimal component ------------------------------------------------------------------------------------------------------------ *)
Lemma dec_component_sound stop s d r : dec_component stop s = Some (d, r) ->
  exists w1 w2, s = w1 ++ d ++ w2 ++ stop :: r /\ forallb is_ws w1 = true /\ forallb is_ws w2 = true /\
                d <> [] /\ forallb is_digit d = true.
Proof.
  unfold dec_component. destruct (skip_ws_split s) as (w1 & E1 & W1 & _).
  destruct (span_digits (skip_ws s)) as [d' r'] eqn:Sp. destruct (span_digits_split _ _ _ Sp) as (E2 & D & _).
  destruct d' as [|c0 d']; [discriminate|].
  destruct (skip_ws_split r') as (w2 & E3 & W2 & _).
  destruct (skip_ws r') as [|c r''] eqn:Sk; [discriminate|]. destruct (c =? stop) eqn:Ec; [|discriminate].
  intro H. inversion H; subst d r. apply Z.eqb_eq in Ec. subst c.
  exists w1, w2. repeat split; try assumption; [|discriminate].
  apply (eq_trans E1). apply (f_equal (app w1)). rewrite E2. apply (f_equal (app (c0 :: d'))). exact E3.
Qed.

Lemma dec_component_complete stop w1 d w2 r :
  forallb is_ws w1 = true -> forallb is_ws w2 = true -> d <> [] -> forallb is_digit d = true ->
  is_ws stop = false -> is_digit stop = false ->
  dec_component stop (w1 ++ d ++ w2 ++ stop :: r) = Some (d, r).
Proof.
  intros W1 W2 Hn D S1 S2. unfold dec_component.
  rewrite (skip_ws_app w1 _ W1 (stops_ws_digits d _ Hn D)).
  rewrite (span_digits_app d _ D (stops_digit_tail w2 stop r W2 S2)).
  destruct d as [|c0 d']; [congruence|].
  rewrite (skip_ws_app w2 (stop :: r) W2) by (cbn [stops]; rewrite S1; reflexivity).
  rewrite Z.eqb_refl. reflexivity.
Qed.

Lemma dec_component_tight_sound stop s d r : dec_component_tight stop s = Some (d, r) ->
  exists w1, s = w1 ++ d ++ stop :: r /\ forallb is_ws w1 = true /\ d <> [] /\ forallb is_digit d = true.
Proof.
  unfold dec_component_tight. destruct (skip_ws_split s) as (w1 & E1 & W1 & _).
  destruct (span_digits (skip_ws s)) as [d' r'] eqn:Sp. destruct (span_digits_split _ _ _ Sp) as (E2 & D & _).
  destruct d' as [|c0 d']; [discriminate|]. destruct r' as [|c r'']; [discriminate|].
  destruct (c =? stop) eqn:Ec; [|discriminate].
  intro H. inversion H; subst d r. apply Z.eqb_eq in Ec. subst c.
  exists w1. repeat split; try assumption; [|discriminate]. apply (eq_trans E1). apply (f_equal (app w1)). exact E2.
Qed.

Lemma dec_component_tight_complete stop w1 d r :
  forallb is_ws w1 = true -> d <> [] -> forallb is_digit d = true -> is_digit stop = false ->
  dec_component_tight stop (w1 ++ d ++ stop :: r) = Some (d, r).
Proof.
  intros W1 Hn D S2. unfold dec_component_tight.
  rewrite (skip_ws_app w1 _ W1 (stops_ws_digits d _ Hn D)).
  rewrite (span_digits_app d (stop :: r) D) by (cbn [stops]; rewrite S2; reflexivity).
  destruct d as [|c0 d']; [congruence|]. rewrite Z.eqb_refl. reflexivity.
Qed.

(* the limit of int() on the number of digits: the constant read from the platform is the one of the grammar *)
Lemma int_limit_agrees : int_max_str_digits = max_component_digits.
Proof. reflexivity. Qed.
Lemma int_refuses_spec d : int_refuses d = (max_component_digits <? Z.of_nat (length d)).
Proof. unfold int_refuses. rewrite int_limit_agrees. reflexivity. Qed.

(* a component of the grammar, as the model sees it *)
Lemma wf_comp_spec c : wf_comp c = true ->
  forallb is_ws (c_pre c) = true /\ forallb is_ws (c_post c) = true /\ c_digits c <> [] /\ forallb is_digit (c_digits c) = true /\
  color_component (c_digits c) = Some (comp_value c) /\ 0 <= comp_value c <= 255.
Proof.
  unfold wf_comp. rewrite !is_lwsp_spec, is_decimal_spec. intro H.
  apply andb_true_iff in H as [H H4]. apply andb_true_iff in H as [H H3]. apply andb_true_iff in H as [H HL]. apply andb_true_iff in H as [H1 H2].
  apply andb_true_iff in H2 as [H2 H2'].
  assert (Hn : c_digits c <> []) by (destruct (c_digits c); [discriminate|discriminate]).
  repeat split; try assumption.
  - unfold color_component. rewrite int_refuses_spec. destruct (max_component_digits <? Z.of_nat (length (c_digits c))) eqn:EL; [lia|].
    unfold comp_value in H3. rewrite (decimal_value_spec _ H2') in H3.
    unfold comp_value. rewrite (decimal_value_spec _ H2'). destruct (255 <? digits_val 0 (c_digits c)) eqn:E; [lia|reflexivity].
  - unfold comp_value. rewrite (decimal_value_spec _ H2'). apply digits_val_nonneg; [lia|exact H2'].
  - lia.
Qed.

Lemma wf_comp_intro w1 d w2 v : forallb is_ws w1 = true -> forallb is_ws w2 = true -> d <> [] -> forallb is_digit d = true ->
  color_component d = Some v -> wf_comp (mkComp w1 d w2) = true /\ comp_value (mkComp w1 d w2) = v.
Proof.
  intros W1 W2 Hn D Cv. unfold wf_comp, comp_value. cbn [c_pre c_digits c_post]. rewrite !is_lwsp_spec, is_decimal_spec, W1, W2, D.
  rewrite (decimal_value_spec _ D). unfold color_component in Cv. rewrite int_refuses_spec in Cv.
  destruct (max_component_digits <? Z.of_nat (length d)) eqn:EL; [discriminate|].
  destruct (255 <? digits_val 0 d) eqn:E; [discriminate|]. inversion Cv; subst v.
  destruct d as [|c0 d']; [congruence|]. cbn [Nat.eqb negb andb]. split; [|reflexivity].
  change (length (c0 :: d')) with (S (length d')) in *. cbn [Nat.eqb negb andb]. lia.
Qed.

(* ---- named colours ----------------------------------------------------------------------------------------------------------------------- *)
(* the table of the standard is the table of the code (Gen/ImscTables.v is regenerated from NamedColors at every check) *)
Lemma named_tables_agree : ttml_named_colors = named_colors.
Proof. vm_compute. reflexivity. Qed.

Definition lc_letter (k : Z) : bool := (97 <=? k) && (k <=? 122).
Lemma names_lower_case : forallb (fun e => forallb lc_letter (fst e)) ttml_named_colors = true.
Proof. vm_compute. reflexivity. Qed.

Lemma spells_lower c k : lc_letter k = true -> spells c k = (k =? lower c).
Proof. unfold lc_letter, spells, lower. intro H. destruct ((65 <=? c) && (c <=? 90)) eqn:U; [lia|]. destruct (c =? 8490) eqn:K; lia. Qed.

Lemma spells_name_lower n : forall s, forallb lc_letter n = true -> spells_name s n = text_eqb n (List.map lower s).
Proof.
  induction n as [|k n IH]; intros [|c s] H; try reflexivity.
  cbn [forallb] in H. apply andb_true_iff in H as [Hk Hn]. cbn [spells_name List.map text_eqb].
  rewrite (spells_lower c k Hk), (IH s Hn). reflexivity.
Qed.

Lemma named_color_assoc tbl s : forallb (fun e => forallb lc_letter (fst e)) tbl = true ->
  named_color tbl s = assoc_color tbl (List.map lower s).
Proof.
  induction tbl as [|[n c] tbl IH]; intro H; [reflexivity|]. cbn [forallb fst] in H. apply andb_true_iff in H as [Hn Ht].
  cbn [named_color assoc_color]. rewrite (spells_name_lower n s Hn), (IH Ht). reflexivity.
Qed.

Lemma named_color_model s : named_color ttml_named_colors s = assoc_color named_colors (List.map lower s).
Proof. rewrite (named_color_assoc _ s names_lower_case), named_tables_agree. reflexivity. Qed.

Lemma named_color_in tbl s c : named_color tbl s = Some c -> exists n, In (n, c) tbl.
Proof.
  induction tbl as [|[n c'] tbl IH]; [discriminate|]. cbn [named_color]. destruct (spells_name s n).
  - intro H. inversion H; subst. exists n. left. reflexivity.
  - intro H. destruct (IH H) as [n' Hin]. exists n'. right. exact Hin.
Qed.

Definition rgba8b (c : rgba) : bool :=
  let '(r, g, b, a) := c in (0 <=? r) && (r <=? 255) && (0 <=? g) && (g <=? 255) && (0 <=? b) && (b <=? 255) && (0 <=? a) && (a <=? 255).
Lemma named_rgba8 : forallb (fun e => rgba8b (snd e)) ttml_named_colors = true.
Proof. vm_compute. reflexivity. Qed.

(* a string that begins with "#", "rgb(" or "rgba(" is no colour name *)
Lemma not_named_hash h : assoc_color named_colors (List.map lower (35 :: h)) = None.
Proof. reflexivity. Qed.
Lemma not_named_rgb t : assoc_color named_colors (List.map lower (114 :: 103 :: 98 :: 40 :: t)) = None.
Proof. reflexivity. Qed.
Lemma not_named_rgba t : assoc_color named_colors (List.map lower (114 :: 103 :: 98 :: 97 :: 40 :: t)) = None.
Proof. reflexivity. Qed.

Lemma strip_prefix_app p : forall s r, strip_prefix p s = Some r -> s = p ++ r.
Proof.
  induction p as [|a p IH]; intros s r H; [inversion H; reflexivity|]. destruct s as [|b s]; [discriminate|].
  cbn [strip_prefix] in H. destruct (a =? b) eqn:E; [|discriminate]. apply Z.eqb_eq in E. subst b. cbn [app]. f_equal. apply IH. exact H.
Qed.

(* ---- soundness: what parse_color accepts is a colour expression with that denotation ----------------------------------------------------- *)
Lemma hex_color_sound h c : hex_color h = Some c -> color_expr (35 :: h) c.
Proof.
  unfold hex_color.
  destruct h as [|r1 [|r2 [|g1 [|g2 [|b1 [|b2 [|a1 [|a2 [|x h]]]]]]]]]; try discriminate.
  - rewrite !hexpair_spec.
    destruct (is_hex_pair (r1, r2)) eqn:R; [|discriminate]. destruct (is_hex_pair (g1, g2)) eqn:G; [|discriminate].
    destruct (is_hex_pair (b1, b2)) eqn:B; [|discriminate]. intro H. inversion H; subst c.
    exists (AHex6 (r1, r2) (g1, g2) (b1, b2)). repeat split. cbn [wf_color]. rewrite R, G, B. reflexivity.
  - rewrite !hexpair_spec.
    destruct (is_hex_pair (r1, r2)) eqn:R; [|discriminate]. destruct (is_hex_pair (g1, g2)) eqn:G; [|discriminate].
    destruct (is_hex_pair (b1, b2)) eqn:B; [|discriminate]. destruct (is_hex_pair (a1, a2)) eqn:A; [|discriminate].
    intro H. inversion H; subst c.
    exists (AHex8 (r1, r2) (g1, g2) (b1, b2) (a1, a2)). repeat split. cbn [wf_color]. rewrite R, G, B, A. reflexivity.
Qed.

Lemma rgb_color_sound t0 c : rgb_color t0 = Some c -> color_expr (114 :: 103 :: 98 :: 40 :: t0) c.
Proof.
  unfold rgb_color.
  destruct (dec_component 44 t0) as [[r t1]|] eqn:C1; [|discriminate].
  destruct (dec_component 44 t1) as [[g t2]|] eqn:C2; [|discriminate].
  destruct (dec_component 41 t2) as [[b t3]|] eqn:C3; [|discriminate].
  destruct t3 as [|x t3]; [|discriminate].
  destruct (color_component r) as [r'|] eqn:V1; [|discriminate].
  destruct (color_component g) as [g'|] eqn:V2; [|discriminate].
  destruct (color_component b) as [b'|] eqn:V3; [|discriminate].
  intro H. inversion H; subst c.
  destruct (dec_component_sound _ _ _ _ C1) as (w1 & w2 & E1 & A1 & A2 & A3 & A4).
  destruct (dec_component_sound _ _ _ _ C2) as (w3 & w4 & E2 & B1 & B2 & B3 & B4).
  destruct (dec_component_sound _ _ _ _ C3) as (w5 & w6 & E3 & D1 & D2 & D3 & D4).
  destruct (wf_comp_intro w1 r w2 r' A1 A2 A3 A4 V1) as [Wr Vr].
  destruct (wf_comp_intro w3 g w4 g' B1 B2 B3 B4 V2) as [Wg Vg].
  destruct (wf_comp_intro w5 b w6 b' D1 D2 D3 D4 V3) as [Wb Vb].
  exists (ARgb (mkComp w1 r w2) (mkComp w3 g w4) (mkComp w5 b w6)). split; [|split].
  - cbn [wf_color]. rewrite Wr, Wg, Wb. reflexivity.
  - cbn [yield]. unfold comp_yield. cbn [c_pre c_digits c_post].
    change (str "rgb(") with [114; 103; 98; 40]. change (str ",") with [44]. change (str ")") with [41].
    subst t0 t1 t2. cbn [app]. rewrite <- !app_assoc. reflexivity.
  - cbn [denote]. rewrite Vr, Vg, Vb. reflexivity.
Qed.

Lemma rgba_color_sound t0 c : rgba_color t0 = Some c -> color_expr (114 :: 103 :: 98 :: 97 :: 40 :: t0) c.
Proof.
  unfold rgba_color.
  destruct (dec_component_tight 44 t0) as [[r t1]|] eqn:C1; [|discriminate].
  destruct (dec_component 44 t1) as [[g t2]|] eqn:C2; [|discriminate].
  destruct (dec_component 44 t2) as [[b t3]|] eqn:C3; [|discriminate].
  destruct (dec_component 41 t3) as [[a t4]|] eqn:C4; [|discriminate].
  destruct t4 as [|x t4]; [|discriminate].
  destruct (color_component r) as [r'|] eqn:V1; [|discriminate].
  destruct (color_component g) as [g'|] eqn:V2; [|discriminate].
  destruct (color_component b) as [b'|] eqn:V3; [|discriminate].
  destruct (color_component a) as [a'|] eqn:V4; [|discriminate].
  intro H. inversion H; subst c.
  destruct (dec_component_tight_sound _ _ _ _ C1) as (w1 & E1 & A1 & A3 & A4).
  destruct (dec_component_sound _ _ _ _ C2) as (w3 & w4 & E2 & B1 & B2 & B3 & B4).
  destruct (dec_component_sound _ _ _ _ C3) as (w5 & w6 & E3 & D1 & D2 & D3 & D4).
  destruct (dec_component_sound _ _ _ _ C4) as (w7 & w8 & E4 & F1 & F2 & F3 & F4).
  destruct (wf_comp_intro w1 r [] r' A1 eq_refl A3 A4 V1) as [Wr Vr].
  destruct (wf_comp_intro w3 g w4 g' B1 B2 B3 B4 V2) as [Wg Vg].
  destruct (wf_comp_intro w5 b w6 b' D1 D2 D3 D4 V3) as [Wb Vb].
  destruct (wf_comp_intro w7 a w8 a' F1 F2 F3 F4 V4) as [Wa Va].
  exists (ARgba (mkComp w1 r []) (mkComp w3 g w4) (mkComp w5 b w6) (mkComp w7 a w8)). split; [|split].
  - cbn [wf_color]. rewrite Wr, Wg, Wb, Wa. reflexivity.
  - cbn [yield]. unfold comp_yield. cbn [c_pre c_digits c_post].
    change (str "rgba(") with [114; 103; 98; 97; 40]. change (str ",") with [44]. change (str ")") with [41].
    subst t0 t1 t2 t3. cbn [app]. rewrite <- !app_assoc. reflexivity.
  - cbn [denote]. rewrite Vr, Vg, Vb, Va. reflexivity.
Qed.

Theorem parse_color_sound s c : parse_color s = Some c -> color_expr s c.
Proof.
  unfold parse_color. destruct (assoc_color named_colors (List.map lower s)) as [c0|] eqn:N.
  - intro H. inversion H; subst c0. exists (ANamed s). rewrite <- named_color_model in N. repeat split.
    + cbn [wf_color]. rewrite N. reflexivity.
    + cbn [denote]. rewrite N. reflexivity.
  - destruct (strip_prefix [35] s) as [h|] eqn:P1.
    { apply strip_prefix_app in P1. subst s. apply hex_color_sound. }
    destruct (strip_prefix [114; 103; 98; 40] s) as [t0|] eqn:P2.
    { apply strip_prefix_app in P2. subst s. apply rgb_color_sound. }
    destruct (strip_prefix [114; 103; 98; 97; 40] s) as [t0|] eqn:P3; [|discriminate].
    apply strip_prefix_app in P3. subst s. apply rgba_color_sound.
Qed.

(* ---- completeness: every colour expression is accepted, with its denotation ------------------------------------------------------------------ *)
Lemma comp_tail_complete stop c r : wf_comp c = true -> is_ws stop = false -> is_digit stop = false ->
  dec_component stop (comp_yield c ++ stop :: r) = Some (c_digits c, r).
Proof.
  intros W S1 S2. destruct (wf_comp_spec c W) as (W1 & W2 & Hn & D & _). unfold comp_yield. rewrite <- !app_assoc.
  apply dec_component_complete; assumption.
Qed.

Theorem parse_color_complete s c : color_expr s c -> parse_color s = Some c.
Proof.
  intros (t & W & Y & Dn). subst s c. destruct t as [sp|rr gg bb|rr gg bb aa|r g b|r g b a]; cbn [wf_color] in W.
  - cbn [yield denote]. unfold parse_color. rewrite <- named_color_model.
    destruct (named_color ttml_named_colors sp); [reflexivity|discriminate].
  - apply andb_true_iff in W as [W Wb]. apply andb_true_iff in W as [Wr Wg].
    destruct rr as [r1 r2], gg as [g1 g2], bb as [b1 b2].
    cbn [yield denote]. unfold pair_yield. change (str "#") with [35]. cbn [fst snd app]. unfold parse_color. rewrite not_named_hash.
    cbn [strip_prefix]. change (35 =? 35) with true. cbv iota. unfold hex_color. rewrite !hexpair_spec, Wr, Wg, Wb. reflexivity.
  - apply andb_true_iff in W as [W Wa]. apply andb_true_iff in W as [W Wb]. apply andb_true_iff in W as [Wr Wg].
    destruct rr as [r1 r2], gg as [g1 g2], bb as [b1 b2], aa as [a1 a2].
    cbn [yield denote]. unfold pair_yield. change (str "#") with [35]. cbn [fst snd app]. unfold parse_color. rewrite not_named_hash.
    cbn [strip_prefix]. change (35 =? 35) with true. cbv iota. unfold hex_color. rewrite !hexpair_spec, Wr, Wg, Wb, Wa. reflexivity.
  - apply andb_true_iff in W as [W Wb]. apply andb_true_iff in W as [Wr Wg].
    cbn [yield denote]. change (str "rgb(") with [114; 103; 98; 40]. change (str ",") with [44]. change (str ")") with [41].
    cbn [app]. unfold parse_color. rewrite not_named_rgb.
    cbn [strip_prefix]. change (35 =? 114) with false. change (114 =? 114) with true. change (103 =? 103) with true.
    change (98 =? 98) with true. change (40 =? 40) with true. cbv iota.
    unfold rgb_color.
    rewrite (comp_tail_complete 44 r _ Wr eq_refl eq_refl). rewrite (comp_tail_complete 44 g _ Wg eq_refl eq_refl).
    rewrite (comp_tail_complete 41 b [] Wb eq_refl eq_refl).
    destruct (wf_comp_spec r Wr) as (_ & _ & _ & _ & Vr & _). destruct (wf_comp_spec g Wg) as (_ & _ & _ & _ & Vg & _).
    destruct (wf_comp_spec b Wb) as (_ & _ & _ & _ & Vb & _). rewrite Vr, Vg, Vb. reflexivity.
  - apply andb_true_iff in W as [W Wa]. apply andb_true_iff in W as [W Wb]. apply andb_true_iff in W as [W Wg].
    apply andb_true_iff in W as [Wr Wt].
    cbn [yield denote]. change (str "rgba(") with [114; 103; 98; 97; 40]. change (str ",") with [44]. change (str ")") with [41].
    cbn [app]. unfold parse_color. rewrite not_named_rgba.
    cbn [strip_prefix]. change (35 =? 114) with false. change (114 =? 114) with true. change (103 =? 103) with true.
    change (98 =? 98) with true. change (40 =? 97) with false. change (97 =? 97) with true. change (40 =? 40) with true. cbv iota.
    unfold rgba_color.
    destruct (wf_comp_spec r Wr) as (R1 & _ & R3 & R4 & Vr & _).
    assert (T : dec_component_tight 44 (comp_yield r ++ 44 :: comp_yield g ++ 44 :: comp_yield b ++ 44 :: comp_yield a ++ [41])
                = Some (c_digits r, comp_yield g ++ 44 :: comp_yield b ++ 44 :: comp_yield a ++ [41])).
    { unfold comp_yield at 1. destruct (c_post r) as [|x p]; [|discriminate]. rewrite app_nil_r, <- app_assoc.
      apply dec_component_tight_complete; try assumption. reflexivity. }
    rewrite T.
    rewrite (comp_tail_complete 44 g _ Wg eq_refl eq_refl). rewrite (comp_tail_complete 44 b _ Wb eq_refl eq_refl).
    rewrite (comp_tail_complete 41 a [] Wa eq_refl eq_refl).
    destruct (wf_comp_spec g Wg) as (_ & _ & _ & _ & Vg & _).
    destruct (wf_comp_spec b Wb) as (_ & _ & _ & _ & Vb & _). destruct (wf_comp_spec a Wa) as (_ & _ & _ & _ & Va & _).
    rewrite Vr, Vg, Vb, Va. reflexivity.
Qed.

(* the strings parse_color accepts are exactly the colour expressions of the grammar, with the grammar's denotation *)
Theorem parse_color_iff s c : parse_color s = Some c <-> color_expr s c.
Proof. split; [apply parse_color_sound|apply parse_color_complete]. Qed.

(* a string is rejected (ValueError) iff it is no colour expression *)
Theorem parse_color_rejects_iff s : parse_color s = None <-> ~ exists c, color_expr s c.
Proof.
  split.
  - intros H [c Hc]. apply parse_color_complete in Hc. congruence.
  - intro H. destruct (parse_color s) as [c|] eqn:E; [|reflexivity]. exfalso. apply H. exists c. apply parse_color_sound. exact E.
Qed.

(* the grammar is unambiguous as to the colour denoted *)
Theorem color_expr_functional s c c' : color_expr s c -> color_expr s c' -> c = c'.
Proof. intros H H'. apply parse_color_complete in H, H'. congruence. Qed.

(* ---- every colour expression denotes an RGBA8 colour ------------------------------------------------------------------------------------------ *)
Lemma rgba8b_spec c : rgba8b c = true -> rgba8 c.
Proof. destruct c as [[[r g] b] a]. unfold rgba8b, rgba8. lia. Qed.

Theorem color_expr_rgba8 s c : color_expr s c -> rgba8 c.
Proof.
  intros (t & W & _ & Dn). subst c. destruct t as [sp|rr gg bb|rr gg bb aa|r g b|r g b a]; cbn [wf_color] in W; cbn [denote].
  - destruct (named_color ttml_named_colors sp) as [c|] eqn:N; [|discriminate]. destruct (named_color_in _ _ _ N) as [n Hin].
    pose proof named_rgba8 as Hall. rewrite forallb_forall in Hall. apply rgba8b_spec. exact (Hall _ Hin).
  - apply andb_true_iff in W as [W Wb]. apply andb_true_iff in W as [Wr Wg].
    pose proof (hex_pair_range _ Wr). pose proof (hex_pair_range _ Wg). pose proof (hex_pair_range _ Wb). unfold rgba8. lia.
  - apply andb_true_iff in W as [W Wa]. apply andb_true_iff in W as [W Wb]. apply andb_true_iff in W as [Wr Wg].
    pose proof (hex_pair_range _ Wr). pose proof (hex_pair_range _ Wg). pose proof (hex_pair_range _ Wb). pose proof (hex_pair_range _ Wa).
    unfold rgba8. lia.
  - apply andb_true_iff in W as [W Wb]. apply andb_true_iff in W as [Wr Wg].
    destruct (wf_comp_spec r Wr) as (_ & _ & _ & _ & _ & Rr). destruct (wf_comp_spec g Wg) as (_ & _ & _ & _ & _ & Rg).
    destruct (wf_comp_spec b Wb) as (_ & _ & _ & _ & _ & Rb). unfold rgba8. lia.
  - apply andb_true_iff in W as [W Wa]. apply andb_true_iff in W as [W Wb]. apply andb_true_iff in W as [W Wg].
    apply andb_true_iff in W as [Wr _].
    destruct (wf_comp_spec r Wr) as (_ & _ & _ & _ & _ & Rr). destruct (wf_comp_spec g Wg) as (_ & _ & _ & _ & _ & Rg).
    destruct (wf_comp_spec b Wb) as (_ & _ & _ & _ & _ & Rb). destruct (wf_comp_spec a Wa) as (_ & _ & _ & _ & _ & Ra). unfold rgba8. lia.
Qed.

Theorem parse_color_rgba8 s c : parse_color s = Some c -> rgba8 c.
Proof. intro H. apply (color_expr_rgba8 s). apply parse_color_sound. exact H. Qed.

(* every strict TTML2 <color> is accepted with its denotation *)
Theorem ttml_color_accepted s c : ttml_color s c -> parse_color s = Some c.
Proof. intros (t & W & _ & Y & Dn). apply parse_color_complete. exists t. repeat split; assumption. Qed.

(* ---- what is NOT a colour: the leniencies that the repair of parse_color removed ------------------------------------------------------------- *)
(* "#" must be followed by exactly six or eight characters: anything after "#rrggbb" but two more hexadecimal digits, and anything
   after "#rrggbbaa", makes the string no colour *)
Theorem hex_length_rejected h : length h <> 6%nat -> length h <> 8%nat -> parse_color (35 :: h) = None.
Proof.
  intros L6 L8. unfold parse_color. rewrite not_named_hash. cbn [strip_prefix]. change (35 =? 35) with true. cbv iota. unfold hex_color.
  destruct h as [|r1 [|r2 [|g1 [|g2 [|b1 [|b2 [|a1 [|a2 [|y l]]]]]]]]]; try reflexivity; cbn [length] in *; congruence.
Qed.

(* a component with the shape of the grammar - white space, digits, white space - whatever its value *)
Definition comp_shape (c : comp) : bool := is_lwsp (c_pre c) && is_decimal (c_digits c) && is_lwsp (c_post c).

Lemma comp_shape_spec c : comp_shape c = true ->
  forallb is_ws (c_pre c) = true /\ forallb is_ws (c_post c) = true /\ c_digits c <> [] /\ forallb is_digit (c_digits c) = true.
Proof.
  unfold comp_shape. rewrite !is_lwsp_spec, is_decimal_spec. intro H.
  apply andb_true_iff in H as [H H3]. apply andb_true_iff in H as [H1 H2]. apply andb_true_iff in H2 as [H2 H2'].
  repeat split; try assumption. destruct (c_digits c); discriminate.
Qed.

Lemma comp_shape_tail stop c r : comp_shape c = true -> is_ws stop = false -> is_digit stop = false ->
  dec_component stop (comp_yield c ++ stop :: r) = Some (c_digits c, r).
Proof.
  intros W S1 S2. destruct (comp_shape_spec c W) as (W1 & W2 & Hn & D). unfold comp_yield. rewrite <- !app_assoc.
  apply dec_component_complete; assumption.
Qed.

Lemma color_component_value c : comp_shape c = true ->
  color_component (c_digits c) =
  if max_component_digits <? Z.of_nat (length (c_digits c)) then None else if 255 <? comp_value c then None else Some (comp_value c).
Proof.
  intro W. destruct (comp_shape_spec c W) as (_ & _ & _ & D). unfold color_component, comp_value. rewrite int_refuses_spec, (decimal_value_spec _ D). reflexivity.
Qed.

(* rgb() and rgba() with a component above 255 are rejected, whatever the other components *)
Theorem rgb_above_255_rejected r g b : comp_shape r = true -> comp_shape g = true -> comp_shape b = true ->
  255 < comp_value r \/ 255 < comp_value g \/ 255 < comp_value b -> parse_color (yield (ARgb r g b)) = None.
Proof.
  intros Wr Wg Wb H.
  cbn [yield]. change (str "rgb(") with [114; 103; 98; 40]. change (str ",") with [44]. change (str ")") with [41].
  cbn [app]. unfold parse_color. rewrite not_named_rgb.
  cbn [strip_prefix]. change (35 =? 114) with false. change (114 =? 114) with true. change (103 =? 103) with true.
  change (98 =? 98) with true. change (40 =? 40) with true. cbv iota.
  unfold rgb_color.
  rewrite (comp_shape_tail 44 r _ Wr eq_refl eq_refl). rewrite (comp_shape_tail 44 g _ Wg eq_refl eq_refl).
  rewrite (comp_shape_tail 41 b [] Wb eq_refl eq_refl).
  rewrite (color_component_value r Wr), (color_component_value g Wg), (color_component_value b Wb).
  destruct (max_component_digits <? Z.of_nat (length (c_digits r))); [reflexivity|]. destruct (255 <? comp_value r) eqn:Er; [reflexivity|].
  destruct (max_component_digits <? Z.of_nat (length (c_digits g))); [reflexivity|]. destruct (255 <? comp_value g) eqn:Eg; [reflexivity|].
  destruct (max_component_digits <? Z.of_nat (length (c_digits b))); [reflexivity|]. destruct (255 <? comp_value b) eqn:Eb; [reflexivity|]. lia.
Qed.

Theorem rgba_above_255_rejected r g b a : comp_shape r = true -> c_post r = [] -> comp_shape g = true -> comp_shape b = true -> comp_shape a = true ->
  255 < comp_value r \/ 255 < comp_value g \/ 255 < comp_value b \/ 255 < comp_value a -> parse_color (yield (ARgba r g b a)) = None.
Proof.
  intros Wr Pr Wg Wb Wa H.
  cbn [yield]. change (str "rgba(") with [114; 103; 98; 97; 40]. change (str ",") with [44]. change (str ")") with [41].
  cbn [app]. unfold parse_color. rewrite not_named_rgba.
  cbn [strip_prefix]. change (35 =? 114) with false. change (114 =? 114) with true. change (103 =? 103) with true.
  change (98 =? 98) with true. change (40 =? 97) with false. change (97 =? 97) with true. change (40 =? 40) with true. cbv iota.
  unfold rgba_color.
  destruct (comp_shape_spec r Wr) as (R1 & _ & R3 & R4).
  assert (T : dec_component_tight 44 (comp_yield r ++ 44 :: comp_yield g ++ 44 :: comp_yield b ++ 44 :: comp_yield a ++ [41])
              = Some (c_digits r, comp_yield g ++ 44 :: comp_yield b ++ 44 :: comp_yield a ++ [41])).
  { unfold comp_yield at 1. rewrite Pr, app_nil_r, <- app_assoc. apply dec_component_tight_complete; try assumption. reflexivity. }
  rewrite T.
  rewrite (comp_shape_tail 44 g _ Wg eq_refl eq_refl). rewrite (comp_shape_tail 44 b _ Wb eq_refl eq_refl).
  rewrite (comp_shape_tail 41 a [] Wa eq_refl eq_refl).
  rewrite (color_component_value r Wr), (color_component_value g Wg), (color_component_value b Wb), (color_component_value a Wa).
  destruct (max_component_digits <? Z.of_nat (length (c_digits r))); [reflexivity|]. destruct (255 <? comp_value r) eqn:Er; [reflexivity|].
  destruct (max_component_digits <? Z.of_nat (length (c_digits g))); [reflexivity|]. destruct (255 <? comp_value g) eqn:Eg; [reflexivity|].
  destruct (max_component_digits <? Z.of_nat (length (c_digits b))); [reflexivity|]. destruct (255 <? comp_value b) eqn:Eb; [reflexivity|].
  destruct (max_component_digits <? Z.of_nat (length (c_digits a))); [reflexivity|]. destruct (255 <? comp_value a) eqn:Ea; [reflexivity|]. lia.
Qed.

(* every character of an accepted string is an ASCII character or the KELVIN SIGN (in a colour name): in particular a string with a
   digit outside ASCII, or with white space outside ASCII, is rejected *)
Definition plain_char (ch : Z) : bool := ((0 <=? ch) && (ch <? 128)) || (ch =? 8490).

Lemma spells_name_plain n : forall s, forallb lc_letter n = true -> spells_name s n = true -> forallb plain_char s = true.
Proof.
  induction n as [|k n IH]; intros [|c s] Hn H; try reflexivity; try discriminate.
  cbn [forallb] in Hn. apply andb_true_iff in Hn as [Hk Hn]. cbn [spells_name] in H. apply andb_true_iff in H as [Hc Hs].
  cbn [forallb]. rewrite (IH s Hn Hs). unfold spells in Hc. unfold lc_letter in Hk. unfold plain_char. lia.
Qed.

Lemma named_color_name tbl s c : named_color tbl s = Some c -> exists n, In (n, c) tbl /\ spells_name s n = true.
Proof.
  induction tbl as [|[n c'] tbl IH]; [discriminate|]. cbn [named_color]. destruct (spells_name s n) eqn:E.
  - intro H. inversion H; subst. exists n. split; [left; reflexivity|exact E].
  - intro H. destruct (IH H) as (n' & Hin & Hs). exists n'. split; [right; exact Hin|exact Hs].
Qed.

Lemma hex_pair_plain p : is_hex_pair p = true -> plain_char (fst p) = true /\ plain_char (snd p) = true.
Proof.
  unfold is_hex_pair. rewrite !hex_digit_spec. unfold hexval, plain_char.
  destruct ((48 <=? fst p) && (fst p <=? 57)) eqn:A1; destruct ((97 <=? fst p) && (fst p <=? 102)) eqn:A2; destruct ((65 <=? fst p) && (fst p <=? 70)) eqn:A3;
  destruct ((48 <=? snd p) && (snd p <=? 57)) eqn:B1; destruct ((97 <=? snd p) && (snd p <=? 102)) eqn:B2; destruct ((65 <=? snd p) && (snd p <=? 70)) eqn:B3;
  cbn [is_some andb]; intro H; try discriminate; lia.
Qed.

Lemma ws_plain w : forallb is_ws w = true -> forallb plain_char w = true.
Proof.
  induction w as [|c w IH]; [reflexivity|]. cbn [forallb]. intro H. apply andb_true_iff in H as [Hc Hw]. rewrite (IH Hw).
  unfold is_ws in Hc. unfold plain_char. lia.
Qed.
Lemma digits_plain w : forallb is_digit w = true -> forallb plain_char w = true.
Proof.
  induction w as [|c w IH]; [reflexivity|]. cbn [forallb]. intro H. apply andb_true_iff in H as [Hc Hw]. rewrite (IH Hw).
  unfold is_digit in Hc. unfold plain_char. lia.
Qed.
Lemma comp_plain c : wf_comp c = true -> forallb plain_char (comp_yield c) = true.
Proof.
  intro W. destruct (wf_comp_spec c W) as (W1 & W2 & _ & D & _). unfold comp_yield. rewrite !forallb_app.
  rewrite (ws_plain _ W1), (ws_plain _ W2), (digits_plain _ D). reflexivity.
Qed.

Theorem color_expr_chars s c : color_expr s c -> forallb plain_char s = true.
Proof.
  intros (t & W & Y & _). subst s. destruct t as [sp|rr gg bb|rr gg bb aa|r g b|r g b a]; cbn [wf_color] in W; cbn [yield].
  - destruct (named_color ttml_named_colors sp) as [c0|] eqn:N; [|discriminate]. destruct (named_color_name _ _ _ N) as (n & Hin & Hs).
    pose proof names_lower_case as Hall. rewrite forallb_forall in Hall. exact (spells_name_plain n sp (Hall _ Hin) Hs).
  - apply andb_true_iff in W as [W Wb]. apply andb_true_iff in W as [Wr Wg].
    destruct (hex_pair_plain _ Wr) as [R1 R2], (hex_pair_plain _ Wg) as [G1 G2], (hex_pair_plain _ Wb) as [B1 B2].
    unfold pair_yield. change (str "#") with [35]. cbn [app forallb]. rewrite R1, R2, G1, G2, B1, B2. reflexivity.
  - apply andb_true_iff in W as [W Wa]. apply andb_true_iff in W as [W Wb]. apply andb_true_iff in W as [Wr Wg].
    destruct (hex_pair_plain _ Wr) as [R1 R2], (hex_pair_plain _ Wg) as [G1 G2], (hex_pair_plain _ Wb) as [B1 B2], (hex_pair_plain _ Wa) as [A1 A2].
    unfold pair_yield. change (str "#") with [35]. cbn [app forallb]. rewrite R1, R2, G1, G2, B1, B2, A1, A2. reflexivity.
  - apply andb_true_iff in W as [W Wb]. apply andb_true_iff in W as [Wr Wg].
    change (str "rgb(") with [114; 103; 98; 40]. change (str ",") with [44]. change (str ")") with [41].
    rewrite !forallb_app, (comp_plain r Wr), (comp_plain g Wg), (comp_plain b Wb). reflexivity.
  - apply andb_true_iff in W as [W Wa]. apply andb_true_iff in W as [W Wb]. apply andb_true_iff in W as [W Wg].
    apply andb_true_iff in W as [Wr _].
    change (str "rgba(") with [114; 103; 98; 97; 40]. change (str ",") with [44]. change (str ")") with [41].
    rewrite !forallb_app, (comp_plain r Wr), (comp_plain g Wg), (comp_plain b Wb), (comp_plain a Wa). reflexivity.
Qed.

Theorem parse_color_chars s c : parse_color s = Some c -> forallb plain_char s = true.
Proof. intro H. apply (color_expr_chars s c). apply parse_color_sound. exact H. Qed.
