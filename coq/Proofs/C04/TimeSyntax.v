(* C04, time expressions: the transcribed recognisers of Model/ImscTime.v against the grammar of
   Spec/TtmlTimingSpec.v.  Round trip for every member of the grammar (all 8 syntaxes), for all inputs. *)
From TT Require Import Base.Prelude Base.ImscXml Model.ImscTime Spec.TtmlTimingSpec.
From Coq Require Import QArith Lqa.
Local Open Scope Z_scope.

(* ---- digits ------------------------------------------------------------------------------ *)
Lemma is_dec_digit d : is_dec d = true -> is_digit (chr d) = true.
Proof. unfold is_dec, is_digit, chr. intro H. apply andb_true_iff in H as [H1 H2]. lia. Qed.

Definition not_digit_head (r : text) : Prop := match r with [] => True | c :: _ => is_digit c = false end.

Lemma span_digits_chrs ds r : all_dec ds = true -> not_digit_head r -> span_digits (chrs ds ++ r) = (chrs ds, r).
Proof.
  induction ds as [|d ds IH]; simpl; intros Hd Hr.
  - destruct r as [|c r]; simpl; [reflexivity|]. simpl in Hr. rewrite Hr. reflexivity.
  - apply andb_true_iff in Hd as [H1 H2]. rewrite (is_dec_digit _ H1). rewrite IH by assumption. reflexivity.
Qed.

Lemma digits_val_chrs ds : forall acc, digits_val acc (chrs ds) = fold_left (fun a d => a * 10 + d) ds acc.
Proof.
  induction ds as [|d ds IH]; intro acc; simpl; [reflexivity|].
  rewrite IH. unfold chr. f_equal. lia.
Qed.

Lemma digits_val_nat_of ds : digits_val 0 (chrs ds) = nat_of ds.
Proof. apply digits_val_chrs. Qed.

Lemma fold_app_val (a b : list Z) acc :
  fold_left (fun a d => a * 10 + d) (a ++ b) acc =
  fold_left (fun a d => a * 10 + d) b (fold_left (fun a d => a * 10 + d) a acc).
Proof. apply fold_left_app. Qed.

Lemma fold_shift (b : list Z) : forall acc,
  fold_left (fun a d => a * 10 + d) b acc = acc * Zpos (ten_to (length b)) + fold_left (fun a d => a * 10 + d) b 0.
Proof.
  induction b as [|d b IH]; intro acc.
  - simpl. lia.
  - cbn [fold_left length ten_to]. rewrite IH. rewrite (IH (0 * 10 + d)). lia.
Qed.

Lemma pow10_ten_to n : pow10 n = ten_to n.
Proof. induction n; simpl; congruence. Qed.

Lemma chrs_length ds : length (chrs ds) = length ds.
Proof. apply map_length. Qed.

Lemma chrs_app a b : chrs (a ++ b) = chrs a ++ chrs b.
Proof. apply map_app. Qed.

(* Fraction("ip.fp") is the number the grammar assigns to the digits *)
Lemma dec_value_number ip fp : (dec_value (chrs ip) (chrs fp) == number ip fp)%Q.
Proof.
  unfold dec_value, number. rewrite <- chrs_app, digits_val_nat_of, chrs_length, pow10_ten_to.
  unfold nat_of. rewrite fold_app_val, fold_shift.
  set (A := fold_left (fun a d : Z => a * 10 + d) ip 0). set (B := fold_left (fun a d : Z => a * 10 + d) fp 0).
  set (P := ten_to (length fp)).
  unfold Qeq, Qplus, inject_Z. simpl. lia.
Qed.

(* ---- the number scanner on printed numbers -------------------------------------------- *)
Definition clean_tail (r : text) : Prop :=
  match r with [] => True | c :: _ => is_digit c = false /\ c <> 46 end.

Lemma scan_number_print ip fp r :
  is_nonempty_l ip = true -> all_dec ip = true -> all_dec fp = true -> clean_tail r ->
  scan_number (chrs ip ++ frac_text fp ++ r) = Some (chrs ip, chrs fp, r).
Proof.
  intros Hne Hip Hfp Hr. unfold scan_number.
  assert (Hnd : not_digit_head (frac_text fp ++ r)).
  { destruct fp; simpl; [destruct r; simpl; [exact I|apply Hr]|reflexivity]. }
  rewrite span_digits_chrs by assumption.
  destruct ip as [|d ip]; [discriminate|]. simpl chrs at 1.
  destruct fp as [|f fp].
  - simpl frac_text. simpl app.
    destruct r as [|c r]; [reflexivity|]. destruct Hr as [_ Hc].
    destruct (Z.eq_dec c 46); [contradiction|].
    destruct c; try reflexivity. repeat (destruct p; try reflexivity); contradiction.
  - cbn [frac_text app].
    assert (Hnr : not_digit_head r). { destruct r; [exact I|apply Hr]. }
    rewrite (span_digits_chrs (f :: fp) r Hfp Hnr). reflexivity.
Qed.

(* ---- offsets ------------------------------------------------------------------------------- *)
Lemma at_end_nil : at_end [] = true.  Proof. reflexivity. Qed.

Lemma match_offset_print ip fp (u : text) :
  is_nonempty_l ip = true -> all_dec ip = true -> all_dec fp = true -> clean_tail u ->
  match_offset u (chrs ip ++ frac_text fp ++ u) = Some (dec_value (chrs ip) (chrs fp)).
Proof.
  intros. unfold match_offset. rewrite scan_number_print by assumption.
  assert (Hs : strip_prefix u u = Some []).
  { clear. induction u as [|a u IH]; simpl; [reflexivity|]. rewrite Z.eqb_refl. exact IH. }
  rewrite Hs. reflexivity.
Qed.

(* a different unit: either it is not a prefix of what follows the number, or something is left after it *)
Lemma match_offset_other ip fp (u v : text) :
  is_nonempty_l ip = true -> all_dec ip = true -> all_dec fp = true -> clean_tail v ->
  match strip_prefix u v with Some r => at_end r = false | None => True end ->
  match_offset u (chrs ip ++ frac_text fp ++ v) = None.
Proof.
  intros. unfold match_offset. rewrite scan_number_print by assumption.
  destruct (strip_prefix u v); [rewrite H3|]; reflexivity.
Qed.

Ltac clean := simpl; try exact I; try (split; [reflexivity|discriminate]).

Section Offsets.
  Variables (ip fp : list Z).
  Hypothesis Hne : is_nonempty_l ip = true.
  Hypothesis Hip : all_dec ip = true.
  Hypothesis Hfp : all_dec fp = true.

  Let N := dec_value (chrs ip) (chrs fp).

  Lemma pt_f tr fr : Qeq_bool fr 0 = false ->
    parse_time_x tr (Some fr) (print_time (TOffset ip fp Mf)) = TVal (N / fr)%Q.
  Proof.
    intro Hz. unfold parse_time_x, print_time, metric_text, U_f, U_t, U_ms, U_s, U_m, U_h.
    rewrite (match_offset_print ip fp [102]) by (try assumption; clean).
    unfold qdiv_res. rewrite Hz. reflexivity.
  Qed.

  Lemma pt_t tr fr : Qeq_bool tr 0 = false ->
    parse_time_x (Some tr) fr (print_time (TOffset ip fp Mt)) = TVal (N / tr)%Q.
  Proof.
    intro Hz. unfold parse_time_x, print_time, metric_text, U_f, U_t, U_ms, U_s, U_m, U_h.
    rewrite (match_offset_other ip fp [102] [116]) by (try assumption; clean; reflexivity).
    rewrite (match_offset_print ip fp [116]) by (try assumption; clean).
    destruct fr; unfold qdiv_res; rewrite Hz; reflexivity.
  Qed.

  Lemma pt_ms tr fr :
    parse_time_x tr fr (print_time (TOffset ip fp Mms)) = TVal (N / inject_Z 1000)%Q.
  Proof.
    unfold parse_time_x, print_time, metric_text, U_f, U_t, U_ms, U_s, U_m, U_h.
    rewrite (match_offset_other ip fp [102] [109; 115]) by (try assumption; clean; reflexivity).
    rewrite (match_offset_other ip fp [116] [109; 115]) by (try assumption; clean; reflexivity).
    rewrite (match_offset_print ip fp [109; 115]) by (try assumption; clean).
    destruct fr, tr; reflexivity.
  Qed.

  Lemma pt_s tr fr :
    parse_time_x tr fr (print_time (TOffset ip fp Ms)) = TVal N.
  Proof.
    unfold parse_time_x, print_time, metric_text, U_f, U_t, U_ms, U_s, U_m, U_h.
    rewrite (match_offset_other ip fp [102] [115]) by (try assumption; clean; reflexivity).
    rewrite (match_offset_other ip fp [116] [115]) by (try assumption; clean; reflexivity).
    rewrite (match_offset_other ip fp [109; 115] [115]) by (try assumption; clean; reflexivity).
    rewrite (match_offset_print ip fp [115]) by (try assumption; clean).
    destruct fr, tr; reflexivity.
  Qed.

  Lemma pt_m tr fr :
    parse_time_x tr fr (print_time (TOffset ip fp Mm)) = TVal (N * inject_Z 60)%Q.
  Proof.
    unfold parse_time_x, print_time, metric_text, U_f, U_t, U_ms, U_s, U_m, U_h.
    rewrite (match_offset_other ip fp [102] [109]) by (try assumption; clean; reflexivity).
    rewrite (match_offset_other ip fp [116] [109]) by (try assumption; clean; reflexivity).
    rewrite (match_offset_other ip fp [109; 115] [109]) by (try assumption; clean; reflexivity).
    rewrite (match_offset_other ip fp [115] [109]) by (try assumption; clean; reflexivity).
    rewrite (match_offset_print ip fp [109]) by (try assumption; clean).
    destruct fr, tr; reflexivity.
  Qed.

  Lemma pt_h tr fr :
    parse_time_x tr fr (print_time (TOffset ip fp Mh)) = TVal (N * inject_Z 3600)%Q.
  Proof.
    unfold parse_time_x, print_time, metric_text, U_f, U_t, U_ms, U_s, U_m, U_h.
    rewrite (match_offset_other ip fp [102] [104]) by (try assumption; clean; reflexivity).
    rewrite (match_offset_other ip fp [116] [104]) by (try assumption; clean; reflexivity).
    rewrite (match_offset_other ip fp [109; 115] [104]) by (try assumption; clean; reflexivity).
    rewrite (match_offset_other ip fp [115] [104]) by (try assumption; clean; reflexivity).
    rewrite (match_offset_other ip fp [109] [104]) by (try assumption; clean; reflexivity).
    rewrite (match_offset_print ip fp [104]) by (try assumption; clean).
    destruct fr, tr; reflexivity.
  Qed.
End Offsets.

(* ---- clock times ------------------------------------------------------------------------------ *)
Lemma match_offset_colon hh rest (u : text) a u' :
  is_nonempty_l hh = true -> all_dec hh = true -> u = a :: u' -> a <> 58 ->
  match_offset u (chrs hh ++ 58 :: rest) = None.
Proof.
  intros Hne Hd -> Ha. unfold match_offset, scan_number.
  rewrite span_digits_chrs by (try assumption; reflexivity).
  destruct hh as [|h hh]; [discriminate|]. cbn [chrs map].
  cbn [strip_prefix]. destruct (a =? 58) eqn:E; [lia|reflexivity].
Qed.

Lemma len2_nonempty (l : list Z) : (2 <=? Z.of_nat (length l)) = true -> is_nonempty_l l = true.
Proof. destruct l; simpl; [discriminate|reflexivity]. Qed.

Lemma dig2_chr a b : dig2 (chr a) (chr b) = nat_of [a; b].
Proof. unfold dig2, chr, nat_of. cbn [fold_left]. lia. Qed.

Definition tres_equiv (a : tres) (b : option Q) : Prop :=
  match a, b with TVal q, Some v => (q == v)%Q | TBad, None => True | _, _ => False end.

Section Clock.
  Variables (hh : list Z) (m1 m2 s1 s2 : Z).
  Hypothesis Hlen : (2 <=? Z.of_nat (length hh)) = true.
  Hypothesis Hhh : all_dec hh = true.
  Hypothesis Hm1 : is_dec m1 = true.  Hypothesis Hm2 : is_dec m2 = true.
  Hypothesis Hs1 : is_dec s1 = true.  Hypothesis Hs2 : is_dec s2 = true.

  Lemma offsets_none_on_clock tr fr rest :
    parse_time_x tr fr (chrs hh ++ 58 :: rest) =
    match match_clock_fraction (chrs hh ++ 58 :: rest) with
    | Some (h, m, sec) => TVal (inject_Z h * inject_Z 3600 + inject_Z m * inject_Z 60 + sec)%Q
    | None =>
        match match_clock_frames (chrs hh ++ 58 :: rest), fr with
        | Some (h, m, sec, ff), Some f =>
            if Qle_bool f (inject_Z ff) then TBad
            else TVal (inject_Z h * inject_Z 3600 + inject_Z m * inject_Z 60 + inject_Z sec + inject_Z ff / f)%Q
        | _, _ => TBad
        end
    end.
  Proof.
    unfold parse_time_x.
    pose proof (len2_nonempty _ Hlen) as Hne.
    rewrite (match_offset_colon hh rest U_f 102 []) by (try assumption; try reflexivity; lia).
    rewrite (match_offset_colon hh rest U_t 116 []) by (try assumption; try reflexivity; lia).
    rewrite (match_offset_colon hh rest U_ms 109 [115]) by (try assumption; try reflexivity; lia).
    rewrite (match_offset_colon hh rest U_s 115 []) by (try assumption; try reflexivity; lia).
    rewrite (match_offset_colon hh rest U_m 109 []) by (try assumption; try reflexivity; lia).
    rewrite (match_offset_colon hh rest U_h 104 []) by (try assumption; try reflexivity; lia).
    destruct fr, tr; reflexivity.
  Qed.

  Lemma clock_fraction_print fp : all_dec fp = true ->
    match_clock_fraction (chrs hh ++ [58; chr m1; chr m2; 58; chr s1; chr s2] ++ frac_text fp) =
    Some (nat_of hh, nat_of [m1; m2], dec_value [chr s1; chr s2] (chrs fp)).
  Proof.
    intro Hfp. unfold match_clock_fraction.
    cbn [app]. rewrite span_digits_chrs by (try assumption; reflexivity).
    rewrite chrs_length, Hlen.
    rewrite (is_dec_digit _ Hm1), (is_dec_digit _ Hm2), (is_dec_digit _ Hs1), (is_dec_digit _ Hs2). cbn [andb].
    rewrite digits_val_nat_of, dig2_chr.
    destruct fp as [|f fp].
    - reflexivity.
    - cbn [frac_text]. replace (chrs (f :: fp)) with (chrs (f :: fp) ++ []) at 1 by apply app_nil_r.
      rewrite span_digits_chrs by (try assumption; exact I). reflexivity.
  Qed.

  Lemma clock_frames_fraction_none ff : (2 <=? Z.of_nat (length ff)) = true -> all_dec ff = true ->
    match_clock_fraction (chrs hh ++ [58; chr m1; chr m2; 58; chr s1; chr s2; 58] ++ chrs ff) = None.
  Proof.
    intros Hl Hff. unfold match_clock_fraction.
    cbn [app]. rewrite span_digits_chrs by (try assumption; reflexivity).
    rewrite chrs_length, Hlen.
    rewrite (is_dec_digit _ Hm1), (is_dec_digit _ Hm2), (is_dec_digit _ Hs1), (is_dec_digit _ Hs2). cbn [andb].
    destruct ff as [|f ff]; [discriminate|]. reflexivity.
  Qed.

  Lemma clock_frames_print ff : (2 <=? Z.of_nat (length ff)) = true -> all_dec ff = true ->
    match_clock_frames (chrs hh ++ [58; chr m1; chr m2; 58; chr s1; chr s2; 58] ++ chrs ff) =
    Some (nat_of hh, nat_of [m1; m2], nat_of [s1; s2], nat_of ff).
  Proof.
    intros Hl Hff. unfold match_clock_frames.
    cbn [app]. rewrite span_digits_chrs by (try assumption; reflexivity).
    rewrite chrs_length, Hlen.
    rewrite (is_dec_digit _ Hm1), (is_dec_digit _ Hm2), (is_dec_digit _ Hs1), (is_dec_digit _ Hs2). cbn [andb].
    replace (chrs ff) with (chrs ff ++ []) at 1 by apply app_nil_r.
    rewrite span_digits_chrs by (try assumption; exact I).
    rewrite chrs_length, Hl. cbn [andb at_end].
    rewrite !digits_val_nat_of, !dig2_chr. reflexivity.
  Qed.
End Clock.

(* ---- the round trip: every member of the grammar, every syntax ------------------------------ *)
Lemma Qeq_bool_pos_false q : (0 < q)%Q -> Qeq_bool q 0 = false.
Proof.
  intro H. destruct (Qeq_bool q 0) eqn:E; [|reflexivity].
  apply Qeq_bool_iff in E. rewrite E in H. exfalso. apply (Qlt_irrefl 0). exact H.
Qed.

Theorem time_syntax e tr fr :
  wf_texpr e = true -> (0 < tr)%Q -> (0 < fr)%Q ->
  tres_equiv (parse_time_x (Some tr) (Some fr) (print_time e)) (time_value fr tr e).
Proof.
  intros Hwf Htr Hfr. destruct e as [ip fp m | hh m1 m2 s1 s2 fp | hh m1 m2 s1 s2 ff]; simpl in Hwf.
  - repeat (apply andb_true_iff in Hwf as [Hwf ?]).
    pose proof (dec_value_number ip fp) as HN.
    destruct m; cbn [time_value tres_equiv].
    + rewrite pt_h by assumption. cbn. rewrite HN. reflexivity.
    + rewrite pt_m by assumption. cbn. rewrite HN. reflexivity.
    + rewrite pt_s by assumption. cbn. exact HN.
    + rewrite pt_ms by assumption. cbn. rewrite HN. reflexivity.
    + rewrite pt_f by (try assumption; apply Qeq_bool_pos_false; assumption). cbn. rewrite HN. reflexivity.
    + rewrite pt_t by (try assumption; apply Qeq_bool_pos_false; assumption). cbn. rewrite HN. reflexivity.
  - repeat (apply andb_true_iff in Hwf as [Hwf ?]).
    unfold print_time. cbn [app].
    rewrite (offsets_none_on_clock hh) by assumption.
    change (chrs hh ++ 58 :: chr m1 :: chr m2 :: 58 :: chr s1 :: chr s2 :: frac_text fp)
      with (chrs hh ++ [58; chr m1; chr m2; 58; chr s1; chr s2] ++ frac_text fp).
    rewrite clock_fraction_print by assumption.
    cbn [time_value tres_equiv].
    pose proof (dec_value_number [s1; s2] fp) as HN. cbn [chrs map] in HN. rewrite HN. reflexivity.
  - repeat (apply andb_true_iff in Hwf as [Hwf ?]).
    unfold print_time. cbn [app].
    rewrite (offsets_none_on_clock hh) by assumption.
    change (chrs hh ++ 58 :: chr m1 :: chr m2 :: 58 :: chr s1 :: chr s2 :: 58 :: chrs ff)
      with (chrs hh ++ [58; chr m1; chr m2; 58; chr s1; chr s2; 58] ++ chrs ff).
    rewrite clock_frames_fraction_none, clock_frames_print by assumption.
    cbn [time_value].
    destruct (Qle_bool fr (inject_Z (nat_of ff))); cbn [tres_equiv]; [exact I|reflexivity].
Qed.

(* ---- strings outside the grammar ------------------------------------------------------------------ *)
Definition in_grammar (s : text) : Prop := exists e, wf_texpr e = true /\ print_time e = s.

Lemma chrs_last_digit ds d : all_dec (ds ++ [d]) = true -> is_digit (chr d) = true.
Proof.
  unfold all_dec. rewrite forallb_app. intro H. apply andb_true_iff in H as [_ H]. simpl in H.
  rewrite andb_true_r in H. apply is_dec_digit. exact H.
Qed.

Lemma nonempty_snoc {A} (l : list A) : l <> [] -> exists l' a, l = l' ++ [a].
Proof. intro H. destruct (exists_last H) as [l' [a E]]. exists l', a. exact E. Qed.

(* the last character of a printed time expression is a digit or a metric letter *)
Lemma print_last e : wf_texpr e = true ->
  exists l c, print_time e = l ++ [c] /\ (is_digit c = true \/ In c [104; 109; 115; 102; 116]).
Proof.
  intro Hwf. destruct e as [ip fp m | hh m1 m2 s1 s2 fp | hh m1 m2 s1 s2 ff]; simpl in Hwf; unfold print_time.
  - destruct m; cbn [metric_text].
    + exists (chrs ip ++ frac_text fp), 104. rewrite app_assoc. split; [reflexivity|]. right. simpl. tauto.
    + exists (chrs ip ++ frac_text fp), 109. rewrite app_assoc. split; [reflexivity|]. right. simpl. tauto.
    + exists (chrs ip ++ frac_text fp), 115. rewrite app_assoc. split; [reflexivity|]. right. simpl. tauto.
    + exists (chrs ip ++ frac_text fp ++ [109]), 115. rewrite <- !app_assoc. split; [reflexivity|]. right. simpl. tauto.
    + exists (chrs ip ++ frac_text fp), 102. rewrite app_assoc. split; [reflexivity|]. right. simpl. tauto.
    + exists (chrs ip ++ frac_text fp), 116. rewrite app_assoc. split; [reflexivity|]. right. simpl. tauto.
  - repeat (apply andb_true_iff in Hwf as [Hwf ?]).
    destruct fp as [|f fp].
    + exists (chrs hh ++ [58; chr m1; chr m2; 58; chr s1]), (chr s2). cbn [frac_text]. rewrite app_nil_r, <- app_assoc.
      split; [reflexivity|]. left. apply is_dec_digit. assumption.
    + destruct (nonempty_snoc (f :: fp)) as [l' [a E]]; [discriminate|]. rewrite E in *.
      exists (chrs hh ++ [58; chr m1; chr m2; 58; chr s1; chr s2] ++ 46 :: chrs l'), (chr a).
      split.
      * assert (Hf : frac_text (l' ++ [a]) = 46 :: chrs l' ++ [chr a]).
        { unfold frac_text. destruct (l' ++ [a]) eqn:E2; [destruct l'; discriminate|]. rewrite <- E2, chrs_app. reflexivity. }
        rewrite Hf. rewrite <- !app_assoc. reflexivity.
      * left. eapply chrs_last_digit. eassumption.
  - repeat (apply andb_true_iff in Hwf as [Hwf ?]).
    destruct (nonempty_snoc ff) as [l' [a E]]; [destruct ff; [discriminate|discriminate]|]. subst ff.
    exists (chrs hh ++ [58; chr m1; chr m2; 58; chr s1; chr s2; 58] ++ chrs l'), (chr a).
    rewrite chrs_app. rewrite <- !app_assoc. split; [reflexivity|]. left. eapply chrs_last_digit. eassumption.
Qed.

Lemma not_in_grammar_last l c : is_digit c = false -> ~ In c [104; 109; 115; 102; 116] -> ~ in_grammar (l ++ [c]).
Proof.
  intros Hd Hm [e [Hwf Hp]]. destruct (print_last e Hwf) as [l' [c' [E Hc]]].
  rewrite Hp in E. apply app_inj_tail in E as [_ E]. subst c'. destruct Hc as [Hc|Hc]; [congruence|contradiction].
Qed.
