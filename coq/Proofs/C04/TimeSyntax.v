From TT Require Import Base.Prelude Base.ImscXml Model.ImscTime Spec.TtmlTimingSpec.
