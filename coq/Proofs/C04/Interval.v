(* C04, temporal resolution: for every XML tree and every parsing context, the desired begin and end that
   the reader model computes for an element are the begin and end of the TTML2 interval semantics
   (Spec/TtmlTimingSpec.v interval), by induction on the tree (par and seq containers, begin/end/dur,
   anonymous spans, set/br/region). *)
From TT Require Import Base.Prelude Base.ImscXml Model.ImscTime Model.ImscStyles Model.ImscTiming Spec.TtmlTimingSpec.
From Coq Require Import QArith Qminmax Lqa.
Local Open Scope Z_scope.

Definition oq_rel (a b : option Q) : Prop :=
  match a, b with Some x, Some y => (x == y)%Q | None, None => True | _, _ => False end.

Lemma oq_rel_refl a : oq_rel a a.
Proof. destruct a; simpl; [reflexivity|exact I]. Qed.

(* the reader's valuation of time attributes *)
Definition tv_of (ev : env) (s : text) : option Q := parse_time (Some (e_tr ev)) (Some (e_fr ev)) s.

Lemma read_time_tv ev raw v : read_time ev raw = Some v ->
  v = match raw with Some s => tv_of ev s | None => None end.
Proof.
  unfold read_time, tv_of, parse_time. destruct raw as [s|]; [|intro H; inversion H; reflexivity].
  destruct (parse_time_x _ _ s); intro H; inversion H; reflexivity.
Qed.

(* ---- the two vocabularies agree ------------------------------------------------------------- *)
Lemma s_mixed_k k : s_mixed k = k_is_mixed k.
Proof. destruct k; reflexivity. Qed.
Lemma s_atomic_k k : s_atomic k = k_indefinite_in_par k.
Proof. destruct k; reflexivity. Qed.
Lemma s_childless_k k : s_childless k = ekind_eqb k KSet.
Proof. destruct k; reflexivity. Qed.

Lemma text_eqb_sym a b : text_eqb a b = text_eqb b a.
Proof.
  destruct (text_eqb a b) eqn:E1, (text_eqb b a) eqn:E2; try reflexivity.
  - apply text_eqb_eq in E1. subst. rewrite (proj2 (text_eqb_eq b b) eq_refl) in E2. discriminate.
  - apply text_eqb_eq in E2. subst. rewrite (proj2 (text_eqb_eq a a) eq_refl) in E1. discriminate.
Qed.

Lemma classify_s_kind tag attrs :
  s_kind tag attrs =
  match classify tag attrs with
  | Some KRegion => match get_attr attrs A_id with Some _ => Some KRegion | None => None end
  | o => o
  end.
Proof.
  destruct tag as [n l]. unfold s_kind, classify, qname_eqb. cbn [fst snd].
  change (fst T_body) with 1. change (fst T_div) with 1. change (fst T_p) with 1. change (fst T_span) with 1.
  change (fst T_br) with 1. change (fst T_set) with 1. change (fst T_region) with 1. unfold NS_TT.
  destruct (n =? 1) eqn:En; cbn [andb].
  2:{ reflexivity. }
  destruct (text_eqb l (snd T_body)) eqn:E1.
  { apply text_eqb_eq in E1; subst l. reflexivity. }
  destruct (text_eqb l (snd T_div)) eqn:E2.
  { apply text_eqb_eq in E2; subst l. reflexivity. }
  destruct (text_eqb l (snd T_p)) eqn:E3.
  { apply text_eqb_eq in E3; subst l. reflexivity. }
  destruct (text_eqb l (snd T_span)) eqn:E4.
  { destruct (get_attr attrs A_ruby) as [v|]; [|reflexivity].
    unfold ruby_roles, assoc_text.
    rewrite (text_eqb_sym V_container v), (text_eqb_sym V_base v), (text_eqb_sym V_text v),
            (text_eqb_sym V_delimiter v), (text_eqb_sym V_baseContainer v), (text_eqb_sym V_textContainer v).
    destruct (text_eqb v V_container); [reflexivity|].
    destruct (text_eqb v V_base); [reflexivity|].
    destruct (text_eqb v V_text); [reflexivity|].
    destruct (text_eqb v V_delimiter); [reflexivity|].
    destruct (text_eqb v V_baseContainer); [reflexivity|].
    destruct (text_eqb v V_textContainer); reflexivity. }
  destruct (text_eqb l (snd T_br)) eqn:E5.
  { apply text_eqb_eq in E5; subst l. reflexivity. }
  destruct (text_eqb l (snd T_set)) eqn:E6.
  { apply text_eqb_eq in E6; subst l. reflexivity. }
  destruct (text_eqb l (snd T_region)) eqn:E7.
  { apply text_eqb_eq in E7; subst l. cbn. destruct (get_attr attrs A_id); reflexivity. }
  unfold tt_elements, assoc_text.
  rewrite (text_eqb_sym (snd T_body) l), (text_eqb_sym (snd T_div) l), (text_eqb_sym (snd T_p) l),
          (text_eqb_sym (snd T_br) l), (text_eqb_sym (snd T_set) l), (text_eqb_sym (snd T_region) l).
  rewrite E1, E2, E3, E5, E6, E7. reflexivity.
Qed.

(* ---- rational helpers ---------------------------------------------------------------------------- *)
Lemma Qmax_plus_r a c d : (Qmax (c + a) (d + a) == Qmax c d + a)%Q.
Proof. destruct (Q.max_spec c d) as [[H1 H2]|[H1 H2]]; rewrite H2; [apply Q.max_r; lra | apply Q.max_l; lra]. Qed.

Lemma oq_rel_trans a b c : oq_rel a b -> oq_rel b c -> oq_rel a c.
Proof. destruct a, b, c; simpl; try tauto. intros H1 H2. rewrite H1. exact H2. Qed.
Lemma oq_rel_sym a b : oq_rel a b -> oq_rel b a.
Proof. destruct a, b; simpl; try tauto. intro H. symmetry. exact H. Qed.

Lemma oadd_compat a b x y : (a == b)%Q -> oq_rel x y -> oq_rel (oadd a x) (oadd b y).
Proof. destruct x, y; simpl; try tauto. intros H1 H2. rewrite H1, H2. reflexivity. Qed.

Lemma end_of_compat s1 s2 b1 b2 d e i1 i2 :
  (s1 == s2)%Q -> (b1 == b2)%Q -> oq_rel i1 i2 -> oq_rel (end_of s1 b1 d e i1) (end_of s2 b2 d e i2).
Proof.
  intros Hs Hb Hi. unfold end_of. destruct d, e; simpl.
  - rewrite Hs, Hb. reflexivity.
  - rewrite Hb. reflexivity.
  - rewrite Hs. reflexivity.
  - apply oadd_compat; assumption.
Qed.

(* the interval depends on the syncbase only up to equality of rationals *)
Lemma interval_sync tv p s1 s2 x : (s1 == s2)%Q ->
  (fst (interval tv p s1 x) == fst (interval tv p s2 x))%Q /\
  oq_rel (snd (interval tv p s1 x)) (snd (interval tv p s2 x)).
Proof.
  intro H. destruct x as [tag attrs txt tail cs]. cbn [interval fst snd]. split.
  - rewrite H. reflexivity.
  - apply end_of_compat; [assumption| rewrite H; reflexivity | apply oq_rel_refl].
Qed.

(* ---- outcomes of process and the timed vocabulary ----------------------------------------------- *)
Ltac break_match :=
  repeat match goal with
         | |- context [match ?e with _ => _ end] => destruct e eqn:?
         end.

Lemma process_outcome ev pc x :
  match process ev pc x with
  | PSkip => timed x = false
  | POk _ => timed x = true
  | PErr _ => True
  end.
Proof.
  destruct x as [tag attrs txt tail cs]. unfold timed. cbn [x_tag x_attrs process].
  rewrite classify_s_kind. destruct (classify tag attrs) as [k|]; [|reflexivity].
  match goal with |- context [?t = false] => set (T := t) end.
  destruct (ekind_eqb k KRegion && match get_attr attrs A_id with None => true | Some _ => false end) eqn:E.
  - apply andb_true_iff in E as [E1 E2]. unfold T. destruct k; try discriminate.
    destruct (get_attr attrs A_id); [discriminate|reflexivity].
  - assert (HT : T = true).
    { unfold T. destruct k; try reflexivity. destruct (get_attr attrs A_id); [reflexivity|discriminate]. }
    clearbody T. subst T.
    match goal with |- match ?e with _ => _ end => destruct e eqn:Hbig end; auto.
    revert Hbig. break_match; discriminate.
Qed.

Lemma process_ok_timed ev pc x r : process ev pc x = POk r -> timed x = true.
Proof. intro H. pose proof (process_outcome ev pc x) as P. rewrite H in P. exact P. Qed.
Lemma process_skip_timed ev pc x : process ev pc x = PSkip -> timed x = false.
Proof. intro H. pose proof (process_outcome ev pc x) as P. rewrite H in P. exact P. Qed.

(* a child of a seq container whose implicit end is unknown is never read successfully *)
Lemma process_no_syncbase ev pc x r :
  implicit_begin pc = None -> process ev pc x <> POk r.
Proof.
  intros Hi H. destruct x as [tag attrs txt tail cs]. cbn [process] in H. rewrite Hi in H.
  revert H. break_match; discriminate.
Qed.

(* ---- the induction ------------------------------------------------------------------------------------ *)
Lemma loop_pf_mono proc tm vl k par db pr lg l : forall iend send kids anims nst iF kF aF pF nF,
  children_loop proc tm vl k par db pr lg l iend send kids anims true nst = LDone iF kF aF pF nF -> pF = true.
Proof.
  induction l as [|c l IH]; intros iend send kids anims nst iF kF aF pF nF H; cbn [children_loop] in H.
  - inversion H; reflexivity.
  - revert H. break_match; intro H; try discriminate; try (inversion H; reflexivity); eapply IH; exact H.
Qed.

Lemma is_style_not_timed c : is_style_elem c = true -> timed c = false.
Proof.
  unfold is_style_elem, timed. destruct c as [tag attrs txt tail cs]. cbn [x_tag x_attrs].
  intro H. apply qname_eqb_eq in H. subst tag. reflexivity.
Qed.

Lemma par_dur_none iv mixed l : par_dur iv mixed l None = None.
Proof.
  induction l as [|c l IH]; cbn [par_dur]; [reflexivity|].
  destruct (timed c); cbn [omax]; destruct (mixed && has_text (x_tail c)); exact IH.
Qed.

Lemma seq_dur_compat tv l : forall c1 c2, (c1 == c2)%Q ->
  oq_rel (seq_dur (interval tv) l c1) (seq_dur (interval tv) l c2).
Proof.
  induction l as [|c l IH]; intros c1 c2 H; cbn [seq_dur].
  - exact H.
  - destruct (timed c); [|apply IH; exact H].
    destruct (interval_sync tv true c1 c2 c H) as [_ He].
    destruct (snd (interval tv true c1 c)), (snd (interval tv true c2 c)); simpl in He; try tauto.
    apply IH. exact He.
Qed.

(* the children of a <set> are not read *)
Lemma loop_set proc tm vl par db pr lg l iend send kids anims pf nst :
  children_loop proc tm vl KSet par db pr lg l iend send kids anims pf nst = LDone iend kids anims pf nst.
Proof.
  revert iend send kids anims pf nst. induction l as [|c l IH]; intros iend send kids anims pf nst; cbn [children_loop]; [reflexivity|].
  cbn [ekind_eqb ekind_code Z.eqb andb]. destruct (negb par && _); [apply IH|reflexivity].
Qed.

Section Main.
  Variable ev : env.

  Definition sound (x : xml) : Prop :=
    forall pc r, process ev pc x = POk r -> r_pushfail r = false ->
      exists sync, implicit_begin pc = Some sync /\
        (r_des_begin r == fst (interval (tv_of ev) (negb (pc_par pc)) sync x))%Q /\
        oq_rel (r_des_end r) (snd (interval (tv_of ev) (negb (pc_par pc)) sync x)).

  Lemma loop_par k db pr lg l : ekind_eqb k KSet = false -> Forall sound l ->
    forall iend send kids anims pf nst iF kF aF nF acc,
      children_loop (process ev) (e_to_model ev) (e_valid ev) k true db pr lg l iend send kids anims pf nst = LDone iF kF aF false nF ->
      oq_rel iend (oadd db acc) ->
      oq_rel iF (oadd db (par_dur (interval (tv_of ev)) (k_is_mixed k) l acc)).
  Proof.
    intro Hks. induction 1 as [|c l Hc Hl IH]; intros iend send kids anims pf nst iF kF aF nF acc H Hrel.
    - cbn [children_loop] in H. inversion H; subst. exact Hrel.
    - cbn [children_loop par_dur] in H |- *. rewrite andb_true_r in H. cbn [negb andb] in H. rewrite Hks in H.
      destruct (ekind_eqb k KRegion && is_style_elem c) eqn:Est.
      { apply andb_true_iff in Est as [Ek Es]. rewrite (is_style_not_timed c Es).
        assert (k = KRegion) by (destruct k; try discriminate; reflexivity). subst k. cbn [k_is_mixed andb].
        eapply IH; eassumption. }
      destruct (process ev (mkPctx true send pr lg _) c) as [e| |r] eqn:Ep.
      + discriminate.
      + rewrite (process_skip_timed _ _ _ Ep).
        destruct (x_tail c) as [t|]; cbn [has_text].
        * destruct (k_is_mixed k); cbn [andb].
          -- eapply IH; [exact H|]. exact I.
          -- eapply IH; eassumption.
        * rewrite andb_false_r. eapply IH; eassumption.
      + rewrite (process_ok_timed _ _ _ _ Ep).
        assert (Hpf : pf || r_pushfail r = false).
        { destruct (pf || r_pushfail r) eqn:E; [|reflexivity].
          exfalso. revert H. destruct (x_tail c); [destruct (k_is_mixed k)|]; intro H; apply loop_pf_mono in H; discriminate. }
        apply orb_false_iff in Hpf as [Hpf1 Hpf2]. rewrite Hpf1, Hpf2 in H. cbn [orb] in H.
        destruct (Hc _ _ Ep Hpf2) as [sync [Hs [_ He]]].
        cbn [implicit_begin pc_par] in Hs. inversion Hs; subst sync. cbn [pc_par negb] in He.
        set (se := snd (interval (tv_of ev) false 0 c)) in *.
        assert (Hstep : oq_rel (match iend, r_des_end r with
                                | Some a, Some ce => Some (Qmax a (ce + db))
                                | _, _ => None end) (oadd db (omax acc se))).
        { destruct iend as [a|], acc as [c0|], (r_des_end r) as [ce|], se as [s|]; simpl in *; try tauto.
          rewrite Hrel, He. rewrite (Qplus_comm db c0), Qmax_plus_r. apply Qplus_comm. }
        destruct (x_tail c) as [t|]; cbn [has_text].
        * destruct (k_is_mixed k); cbn [andb].
          -- eapply IH; [exact H|]. exact I.
          -- eapply IH; [exact H|]. exact Hstep.
        * rewrite andb_false_r. eapply IH; [exact H|]. exact Hstep.
  Qed.

  (* sequential container: [send] is the end of the previous child (the cursor of the specification); while the implicit end is
     known it is that cursor plus the begin of the container; once it is unknown it stays unknown *)
  Lemma loop_seq k db pr lg l : ekind_eqb k KSet = false -> Forall sound l ->
    forall iend send kids anims pf nst iF kF aF nF,
      children_loop (process ev) (e_to_model ev) (e_valid ev) k false db pr lg l iend send kids anims pf nst = LDone iF kF aF false nF ->
      match iend with
      | Some ie => forall cursor, send = Some cursor -> (ie == cursor + db)%Q -> oq_rel iF (oadd db (seq_dur (interval (tv_of ev)) l cursor))
      | None => iF = None
      end.
  Proof.
    intro Hks. induction 1 as [|c l Hc Hl IH]; intros iend send kids anims pf nst iF kF aF nF H.
    - cbn [children_loop] in H. inversion H; subst. destruct iF as [ie|]; [|reflexivity].
      intros cursor _ Hcur. cbn [seq_dur oadd oq_rel]. rewrite Hcur. ring.
    - cbn [children_loop] in H. rewrite andb_false_r in H. cbn [negb andb] in H. rewrite Hks in H.
      destruct (ekind_eqb k KRegion && is_style_elem c) eqn:Est.
      { apply andb_true_iff in Est as [Ek Es].
        specialize (IH _ _ _ _ _ _ _ _ _ _ H).
        destruct iend as [ie|]; [|exact IH]. intros cursor Hse Hcur. cbn [seq_dur]. rewrite (is_style_not_timed c Es). apply IH; assumption. }
      destruct send as [cur|].
      2:{ (* the child is skipped: it never begins *)
          specialize (IH _ _ _ _ _ _ _ _ _ _ H). destruct iend as [ie|]; [intros cursor Hse; discriminate|exact IH]. }
      destruct (process ev (mkPctx false (Some cur) pr lg _) c) as [e| |r] eqn:Ep.
      + discriminate.
      + assert (H' : children_loop (process ev) (e_to_model ev) (e_valid ev) k false db pr lg l iend (Some cur) kids anims pf nst = LDone iF kF aF false nF).
        { destruct (x_tail c); exact H. }
        specialize (IH _ _ _ _ _ _ _ _ _ _ H').
        destruct iend as [ie|]; [|exact IH]. intros cursor Hse Hcur. cbn [seq_dur]. rewrite (process_skip_timed _ _ _ Ep). apply IH; assumption.
      + assert (Hpf : pf || r_pushfail r = false).
        { destruct (pf || r_pushfail r) eqn:E; [|reflexivity].
          exfalso. revert H. destruct (x_tail c); intro H; apply loop_pf_mono in H; discriminate. }
        apply orb_false_iff in Hpf as [Hpf1 Hpf2]. rewrite Hpf1, Hpf2 in H. cbn [orb] in H.
        destruct (Hc _ _ Ep Hpf2) as [sync [Hs [_ He]]].
        cbn [implicit_begin pc_par pc_seq_end] in Hs. inversion Hs; subst sync. cbn [pc_par negb] in He.
        assert (H' : children_loop (process ev) (e_to_model ev) (e_valid ev) k false db pr lg l
                       (match iend with
                        | Some _ => match r_des_end r with Some ce => Some (ce + db)%Q | None => None end
                        | None => None end)
                       (r_des_end r)
                       (match r_node r with
                        | Some n => if negb (ekind_eqb (r_kind r) KSet) &&
                                       match r_des_end r with None => true | Some ce => negb (Qeq_bool (r_des_begin r) ce) end
                                    then kids ++ [n] else kids
                        | None => kids end)
                       (match r_anim r with Some a => anims ++ [a] | None => anims end) false nst = LDone iF kF aF false nF).
        { destruct (x_tail c); exact H. }
        specialize (IH _ _ _ _ _ _ _ _ _ _ H').
        destruct iend as [ie|]; [|exact IH].
        intros cursor Hse Hcur. inversion Hse; subst cursor. cbn [seq_dur]. rewrite (process_ok_timed _ _ _ _ Ep).
        destruct (r_des_end r) as [ce|], (snd (interval (tv_of ev) true cur c)) as [s|] eqn:Es; simpl in He; try tauto.
        * eapply oq_rel_trans; [apply (IH ce eq_refl); reflexivity|].
          apply oadd_compat; [reflexivity|]. apply seq_dur_compat. exact He.
        * subst iF. exact I.
  Qed.
End Main.

Lemma s_is_seq_par attrs : s_is_seq attrs = negb (read_par attrs).
Proof.
  unfold s_is_seq, read_par. destruct (get_attr attrs A_timeContainer); [|reflexivity].
  rewrite negb_involutive. reflexivity.
Qed.

Lemma desired_end_of ib db eend edur iF sync b idur :
  (ib == sync)%Q -> (db == b)%Q -> oq_rel iF (oadd b idur) ->
  oq_rel (desired_end ib db eend edur iF) (end_of sync b edur eend idur).
Proof.
  intros H1 H2 H3. unfold desired_end, end_of. destruct eend, edur; simpl.
  - rewrite H1, H2. reflexivity.
  - rewrite H1. reflexivity.
  - rewrite H2. reflexivity.
  - exact H3.
Qed.

Theorem interval_sound ev x : sound ev x.
Proof.
  induction x as [tag attrs txt tail cs IHcs] using xml_ind'.
  intros pc r H Hpush.
  cbn [process] in H.
  pose proof (classify_s_kind tag attrs) as Hk.
  destruct (classify tag attrs) as [k|]; [|discriminate].
  destruct (ekind_eqb k KRegion && match get_attr attrs A_id with None => true | Some _ => false end) eqn:Ereg; [discriminate|].
  assert (Hsk : s_kind tag attrs = Some k).
  { rewrite Hk. destruct k; try reflexivity. destruct (get_attr attrs A_id); [reflexivity|discriminate]. }
  clear Hk.
  destruct (read_time ev (get_attr attrs A_begin)) as [ebegin|] eqn:Eb; [|discriminate].
  destruct (read_time ev (get_attr attrs A_dur)) as [edur|] eqn:Ed; [|discriminate].
  destruct (read_time ev (get_attr attrs A_end)) as [eend|] eqn:Ee; [|discriminate].
  apply read_time_tv in Eb, Ed, Ee.
  destruct (implicit_begin pc) as [ibegin|] eqn:Eib; [|discriminate].
  exists ibegin. split; [reflexivity|].
  set (dbegin := (ibegin + opt_or_zero ebegin)%Q) in *.
  set (par := read_par attrs) in *.
  set (lang := if ekind_eqb k KSet then pc_lang pc else read_lang attrs (pc_lang pc)) in *.
  set (preserve := if ekind_eqb k KSet then pc_preserve pc else read_space attrs (pc_preserve pc)) in *.
  set (iend0 := if k_indefinite_in_par k && pc_par pc then None else Some dbegin) in *.
  set (iend1 := match txt with Some t => if k_is_mixed k && par then None else iend0 | None => iend0 end) in *.
  destruct (children_loop (process ev) (e_to_model ev) (e_valid ev) k par dbegin preserve lang cs iend1 (Some 0%Q)
              (match txt with Some t => if k_is_mixed k && par then [anon_span k preserve lang t] else [] | None => [] end) [] false [])
    as [iF kF aF pF nF|e] eqn:Eloop; [|discriminate].
  set (st1 := if k_has_styles k then referential (e_valid ev) (e_styles ev) (rev (style_refs attrs)) nF else nF) in *.
  destruct (if k_has_children k then push_children k kF else ([], true)) as [pushed ok] eqn:Epush.
  destruct ok; cbn [negb] in H.
  2:{ inversion H; subst r. discriminate. }
  assert (HpF : pF = false /\ r_des_begin r = dbegin /\ r_des_end r = desired_end ibegin dbegin eend edur iF).
  { destruct (ekind_eqb k KSet); inversion H; subst r; cbn in Hpush |- *; auto. }
  destruct HpF as [HpF [Hrb Hre]]. subst pF. rewrite Hrb, Hre. clear H Hrb Hre.
  (* the specification side *)
  cbn [interval fst snd]. rewrite Hsk.
  assert (Hb : (dbegin == ibegin + match tattr (tv_of ev) attrs A_begin with Some v => v | None => 0 end)%Q).
  { unfold dbegin, tattr. rewrite Eb. destruct (get_attr attrs A_begin) as [s|]; [destruct (tv_of ev s)|]; reflexivity. }
  split; [exact Hb|].
  assert (Hd : edur = tattr (tv_of ev) attrs A_dur) by (unfold tattr; exact Ed).
  assert (Hen : eend = tattr (tv_of ev) attrs A_end) by (unfold tattr; exact Ee).
  rewrite <- Hd, <- Hen.
  apply desired_end_of; [reflexivity|exact Hb|].
  set (b := (ibegin + match tattr (tv_of ev) attrs A_begin with Some v => v | None => 0 end)%Q) in *.
  (* implicit duration *)
  rewrite s_atomic_k, negb_involutive, s_childless_k, s_is_seq_par, s_mixed_k. fold par.
  destruct (ekind_eqb k KSet) eqn:Eks.
  { (* <set>: its children are not read; indefinite in a par parent, zero duration in a seq parent *)
    assert (k = KSet) by (destruct k; try discriminate; reflexivity). subst k.
    rewrite loop_set in Eloop. inversion Eloop; subst iF.
    unfold iend1, iend0. cbn [k_is_mixed k_indefinite_in_par andb].
    destruct txt; destruct (pc_par pc); cbn [oadd oq_rel]; try exact I; rewrite <- Hb; ring. }
  destruct (k_indefinite_in_par k && pc_par pc) eqn:Eat.
  - (* indefinite from the start *)
    assert (Hi1 : iend1 = None). { unfold iend1, iend0. destruct txt; [destruct (k_is_mixed k && par)|]; reflexivity. }
    rewrite Hi1 in Eloop. destruct par eqn:Epar.
    + pose proof (loop_par ev k dbegin preserve lang cs Eks IHcs _ _ _ _ _ _ _ _ _ _ None Eloop I) as Hl.
      rewrite par_dur_none in Hl. destruct iF; simpl in Hl; [contradiction|exact I].
    + pose proof (loop_seq ev k dbegin preserve lang cs Eks IHcs _ _ _ _ _ _ _ _ _ _ Eloop) as Hl. cbn in Hl. subst iF. exact I.
  - destruct par eqn:Epar; cbn [negb].
    + rewrite andb_true_r in *.
      pose proof (loop_par ev k dbegin preserve lang cs Eks IHcs _ _ _ _ _ _ _ _ _ _
                    (if k_is_mixed k && has_text txt then None else Some 0%Q) Eloop) as Hl.
      assert (Hrel : oq_rel iend1 (oadd dbegin (if k_is_mixed k && has_text txt then None else Some 0%Q))).
      { unfold iend1, iend0. destruct txt; cbn [has_text]; [destruct (k_is_mixed k); cbn [andb oadd oq_rel]|rewrite andb_false_r; cbn [oadd oq_rel]]; try exact I; ring. }
      specialize (Hl Hrel).
      eapply oq_rel_trans; [exact Hl|]. apply oadd_compat; [exact Hb|apply oq_rel_refl].
    + rewrite andb_false_r in *.
      assert (Hi1 : iend1 = Some dbegin). { unfold iend1, iend0. destruct txt; [rewrite andb_false_r|]; reflexivity. }
      rewrite Hi1 in Eloop.
      pose proof (loop_seq ev k dbegin preserve lang cs Eks IHcs _ _ _ _ _ _ _ _ _ _ Eloop 0%Q eq_refl) as Hl.
      eapply oq_rel_trans; [apply Hl; ring|]. apply oadd_compat; [exact Hb|apply oq_rel_refl].
Qed.
