(* C04, temporal resolution: for every XML tree and every parsing context, the desired begin and end that
   the reader model computes for an element are the begin and end of the TTML2 interval semantics
   (Spec/TtmlTimingSpec.v interval), by induction on the tree (par and seq containers, begin/end/dur,
   anonymous spans, set/br/region). *)
From TT Require Import Base.Prelude Base.ImscXml Model.ImscTime Model.ImscTiming Spec.TtmlTimingSpec.
From Coq Require Import QArith Qminmax Lqa.
Local Open Scope Z_scope.

Definition oq_rel (a b : option Q) : Prop :=
  match a, b with Some x, Some y => (x == y)%Q | None, None => True | _, _ => False end.

Lemma oq_rel_refl a : oq_rel a a.
Proof. destruct a; simpl; [reflexivity|exact I]. Qed.

(* the reader's valuation of time attributes *)
Definition tv_of (ev : env) (s : text) : option Q := parse_time (Some (e_tr ev)) (Some (e_fr ev)) s.

Lemma read_time_tv ev raw v : read_time ev raw = Some v ->
  v = match raw with Some s => tv_of ev s | None => None end.
Proof.
  unfold read_time, tv_of, parse_time. destruct raw as [s|]; [|intro H; inversion H; reflexivity].
  destruct (parse_time_x _ _ s); intro H; inversion H; reflexivity.
Qed.

(* ---- the two vocabularies agree ------------------------------------------------------------- *)
Lemma s_mixed_k k : s_mixed k = k_is_mixed k.
Proof. destruct k; reflexivity. Qed.
Lemma s_atomic_k k : s_atomic k = k_indefinite_in_par k.
Proof. destruct k; reflexivity. Qed.

Lemma text_eqb_sym a b : text_eqb a b = text_eqb b a.
Proof.
  destruct (text_eqb a b) eqn:E1, (text_eqb b a) eqn:E2; try reflexivity.
  - apply text_eqb_eq in E1. subst. rewrite (proj2 (text_eqb_eq b b) eq_refl) in E2. discriminate.
  - apply text_eqb_eq in E2. subst. rewrite (proj2 (text_eqb_eq a a) eq_refl) in E1. discriminate.
Qed.

Lemma classify_s_kind tag attrs :
  s_kind tag attrs =
  match classify tag attrs with
  | Some KRegion => match get_attr attrs A_id with Some _ => Some KRegion | None => None end
  | o => o
  end.
Proof.
  destruct tag as [n l]. unfold s_kind, classify, qname_eqb. cbn [fst snd].
  change (fst T_body) with 1. change (fst T_div) with 1. change (fst T_p) with 1. change (fst T_span) with 1.
  change (fst T_br) with 1. change (fst T_set) with 1. change (fst T_region) with 1. unfold NS_TT.
  destruct (n =? 1) eqn:En; cbn [andb].
  2:{ reflexivity. }
  destruct (text_eqb l (snd T_body)) eqn:E1.
  { apply text_eqb_eq in E1; subst l. reflexivity. }
  destruct (text_eqb l (snd T_div)) eqn:E2.
  { apply text_eqb_eq in E2; subst l. reflexivity. }
  destruct (text_eqb l (snd T_p)) eqn:E3.
  { apply text_eqb_eq in E3; subst l. reflexivity. }
  destruct (text_eqb l (snd T_span)) eqn:E4.
  { destruct (get_attr attrs A_ruby) as [v|]; [|reflexivity].
    unfold ruby_roles, assoc_text.
    rewrite (text_eqb_sym V_container v), (text_eqb_sym V_base v), (text_eqb_sym V_text v),
            (text_eqb_sym V_delimiter v), (text_eqb_sym V_baseContainer v), (text_eqb_sym V_textContainer v).
    destruct (text_eqb v V_container); [reflexivity|].
    destruct (text_eqb v V_base); [reflexivity|].
    destruct (text_eqb v V_text); [reflexivity|].
    destruct (text_eqb v V_delimiter); [reflexivity|].
    destruct (text_eqb v V_baseContainer); [reflexivity|].
    destruct (text_eqb v V_textContainer); reflexivity. }
  destruct (text_eqb l (snd T_br)) eqn:E5.
  { apply text_eqb_eq in E5; subst l. reflexivity. }
  destruct (text_eqb l (snd T_set)) eqn:E6.
  { apply text_eqb_eq in E6; subst l. reflexivity. }
  destruct (text_eqb l (snd T_region)) eqn:E7.
  { apply text_eqb_eq in E7; subst l. cbn. destruct (get_attr attrs A_id); reflexivity. }
  unfold tt_elements, assoc_text.
  rewrite (text_eqb_sym (snd T_body) l), (text_eqb_sym (snd T_div) l), (text_eqb_sym (snd T_p) l),
          (text_eqb_sym (snd T_br) l), (text_eqb_sym (snd T_set) l), (text_eqb_sym (snd T_region) l).
  rewrite E1, E2, E3, E5, E6, E7. reflexivity.
Qed.
