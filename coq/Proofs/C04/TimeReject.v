(* C04, time expressions: completeness of the transcribed recognisers.  A string that the reader model accepts is a member of the
   TTML2 <time-expression> grammar: every string outside the grammar is rejected (the patterns are anchored at both ends and
   match ASCII digits only). *)
From TT Require Import Base.Prelude Base.ImscXml Model.ImscTime Spec.TtmlTimingSpec Proofs.C04.TimeSyntax.
From Coq Require Import QArith.
Local Open Scope Z_scope.

(* ---- inversion of the scanners -------------------------------------------------------------------------------------------- *)
Lemma span_digits_inv s : forall d r, span_digits s = (d, r) -> s = d ++ r /\ forallb is_digit d = true.
Proof.
  induction s as [|c s IH]; intros d r H; cbn [span_digits] in H.
  - inversion H; subst. split; reflexivity.
  - destruct (is_digit c) eqn:E.
    + destruct (span_digits s) as [d' r'] eqn:Es. inversion H; subst. destruct (IH _ _ eq_refl) as [H1 H2].
      split; [cbn [app]; rewrite <- H1; reflexivity|]. cbn [forallb]. rewrite E, H2. reflexivity.
    + inversion H; subst. split; reflexivity.
Qed.

Lemma digits_are_chrs d : forallb is_digit d = true -> exists ds, all_dec ds = true /\ chrs ds = d.
Proof.
  induction d as [|c d IH]; intro H.
  - exists []. split; reflexivity.
  - cbn [forallb] in H. apply andb_true_iff in H as [H1 H2]. destruct (IH H2) as [ds [A B]].
    exists ((c - 48) :: ds). unfold is_digit in H1. split.
    + unfold all_dec in *. cbn [forallb]. rewrite A. unfold is_dec. lia.
    + cbn [chrs List.map]. unfold chrs in B. rewrite B. unfold chr. f_equal. lia.
Qed.

Lemma scan_number_inv s ip fp r : scan_number s = Some (ip, fp, r) ->
  exists ip' fp', is_nonempty_l ip' = true /\ all_dec ip' = true /\ all_dec fp' = true /\ s = chrs ip' ++ frac_text fp' ++ r.
Proof.
  unfold scan_number. destruct (span_digits s) as [d r0] eqn:Es.
  destruct (span_digits_inv _ _ _ Es) as [Hs Hd]. clear Es.
  destruct d as [|c d]; [discriminate|].
  destruct (digits_are_chrs _ Hd) as [ip' [A B]].
  assert (Hne : is_nonempty_l ip' = true). { destruct ip'; [discriminate|reflexivity]. }
  assert (Hplain : Some (c :: d, @nil Z, r0) = Some (ip, fp, r) ->
                   exists ip'0 fp', is_nonempty_l ip'0 = true /\ all_dec ip'0 = true /\ all_dec fp' = true /\ s = chrs ip'0 ++ frac_text fp' ++ r).
  { intro H. inversion H; subst. exists ip', []. repeat split; try assumption. rewrite B. reflexivity. }
  destruct r0 as [|c0 r0']; [exact Hplain|].
  destruct (Z.eq_dec c0 46) as [->|Hc].
  - destruct (span_digits r0') as [f r''] eqn:Ef. destruct (span_digits_inv _ _ _ Ef) as [Hf1 Hf2].
    destruct f as [|f0 f]; [exact Hplain|].
    intro H. inversion H; subst. destruct (digits_are_chrs _ Hf2) as [fp' [C D]].
    exists ip', fp'. repeat split; try assumption. rewrite B.
    assert (Hft : frac_text fp' = 46 :: chrs fp') by (destruct fp'; [discriminate|reflexivity]).
    rewrite Hft, D. reflexivity.
  - intro H. apply Hplain. rewrite <- H.
    destruct c0; try reflexivity. repeat (destruct p; try reflexivity). contradiction.
Qed.

Lemma strip_prefix_inv p : forall s r, strip_prefix p s = Some r -> s = p ++ r.
Proof.
  induction p as [|a p IH]; intros s r H; cbn [strip_prefix] in H.
  - inversion H. reflexivity.
  - destruct s as [|b s]; [discriminate|]. destruct (a =? b) eqn:E; [|discriminate].
    apply Z.eqb_eq in E. subst. cbn [app]. f_equal. apply IH. exact H.
Qed.

Lemma at_end_inv r : at_end r = true -> r = [].
Proof. destruct r; [reflexivity|discriminate]. Qed.

Lemma match_offset_inv (u : text) s v (m : metric) :
  metric_text m = u -> match_offset u s = Some v ->
  exists ip fp, wf_texpr (TOffset ip fp m) = true /\ print_time (TOffset ip fp m) = s.
Proof.
  intros Hm. unfold match_offset. destruct (scan_number s) as [[[ip fp] r]|] eqn:Es; [|discriminate].
  destruct (strip_prefix u r) as [r'|] eqn:Ep; [|discriminate].
  destruct (at_end r') eqn:Ea; [|discriminate]. intros _.
  destruct (scan_number_inv _ _ _ _ Es) as [ip' [fp' [A [B [C D]]]]].
  apply strip_prefix_inv in Ep. subst r.
  apply at_end_inv in Ea. subst r'.
  exists ip', fp'. split.
  - cbn [wf_texpr]. rewrite A, B, C. reflexivity.
  - cbn [print_time]. rewrite Hm, D, app_nil_r. reflexivity.
Qed.

Lemma is_digit_chr c : is_digit c = true -> exists d, is_dec d = true /\ chr d = c.
Proof. intro H. exists (c - 48). unfold is_digit in H. unfold is_dec, chr. split; lia. Qed.

Lemma length_chrs_ge2 ds : (2 <=? Z.of_nat (length (chrs ds))) = true -> (2 <=? Z.of_nat (length ds)) = true.
Proof. rewrite chrs_length. auto. Qed.

Ltac zcases := repeat match goal with |- context [match ?c with _ => _ end] => is_var c; destruct c end; discriminate.

Lemma clock_fraction_inv s v : match_clock_fraction s = Some v ->
  exists hh m1 m2 s1 s2 fp, wf_texpr (TClock hh m1 m2 s1 s2 fp) = true /\ print_time (TClock hh m1 m2 s1 s2 fp) = s.
Proof.
  unfold match_clock_fraction. destruct (span_digits s) as [hd r] eqn:Es.
  destruct (span_digits_inv _ _ _ Es) as [Hs Hd]. clear Es.
  destruct (2 <=? Z.of_nat (length hd)) eqn:Hlen; [|discriminate].
  destruct r as [|c1 [|a1 [|a2 [|c2 [|b1 [|b2 r2]]]]]]; try discriminate; try (solve [zcases]).
  destruct (Z.eq_dec c1 58) as [->|N1].
  2:{ destruct c1; try discriminate; repeat (destruct p; try discriminate); contradiction. }
  destruct (Z.eq_dec c2 58) as [->|N2].
  2:{ destruct c2; try discriminate; repeat (destruct p; try discriminate); contradiction. }
  destruct (is_digit a1 && is_digit a2 && is_digit b1 && is_digit b2) eqn:Ed; [|discriminate].
  apply andb_true_iff in Ed as [Ed D4]. apply andb_true_iff in Ed as [Ed D3]. apply andb_true_iff in Ed as [D1 D2].
  destruct (digits_are_chrs _ Hd) as [hh [Hh1 Hh2]]. subst hd.
  destruct (is_digit_chr _ D1) as [m1 [M1 <-]]. destruct (is_digit_chr _ D2) as [m2 [M2 <-]].
  destruct (is_digit_chr _ D3) as [s1 [S1 <-]]. destruct (is_digit_chr _ D4) as [s2 [S2 <-]].
  apply length_chrs_ge2 in Hlen.
  assert (Hplain : at_end r2 = true ->
            exists hh0 m3 m4 s3 s4 fp, wf_texpr (TClock hh0 m3 m4 s3 s4 fp) = true /\ print_time (TClock hh0 m3 m4 s3 s4 fp) = s).
  { intro Ha. exists hh, m1, m2, s1, s2, []. split.
    - cbn [wf_texpr]. rewrite Hlen, Hh1, M1, M2, S1, S2. reflexivity.
    - apply at_end_inv in Ha. subst r2. rewrite Hs. reflexivity. }
  destruct r2 as [|c3 r3].
  { intros _. apply Hplain. reflexivity. }
  destruct (Z.eq_dec c3 46) as [->|N3].
  - destruct (span_digits r3) as [f r4] eqn:Ef. destruct (span_digits_inv _ _ _ Ef) as [Hf1 Hf2].
    destruct f as [|f0 f]; [discriminate|]. destruct (at_end r4) eqn:Ea; [|discriminate]. intros _.
    destruct (digits_are_chrs _ Hf2) as [fp [F1 F2]].
    exists hh, m1, m2, s1, s2, fp. split.
    + cbn [wf_texpr]. rewrite Hlen, Hh1, M1, M2, S1, S2, F1. reflexivity.
    + assert (Hft : frac_text fp = 46 :: chrs fp) by (destruct fp; [discriminate|reflexivity]).
      apply at_end_inv in Ea. subst r4.
      cbn [print_time]. rewrite Hft, F2, Hs, Hf1, app_nil_r. reflexivity.
  - intro H2. apply Hplain.
    assert (E : match c3 :: r3 with
                | 46 :: r5 => let '(fp, r6) := span_digits r5 in
                              match fp with [] => None | _ :: _ => if at_end r6 then Some (digits_val 0 (chrs hh), dig2 (chr m1) (chr m2), dec_value [chr s1; chr s2] fp) else None end
                | _ => if at_end (c3 :: r3) then Some (digits_val 0 (chrs hh), dig2 (chr m1) (chr m2), dec_value [chr s1; chr s2] []) else None
                end = (if at_end (c3 :: r3) then Some (digits_val 0 (chrs hh), dig2 (chr m1) (chr m2), dec_value [chr s1; chr s2] []) else None)).
    { destruct c3; try reflexivity. repeat (destruct p; try reflexivity). contradiction. }
    rewrite E in H2. destruct (at_end (c3 :: r3)); [reflexivity|discriminate].
Qed.

Lemma clock_frames_inv s v : match_clock_frames s = Some v ->
  exists hh m1 m2 s1 s2 ff, wf_texpr (TClockFrames hh m1 m2 s1 s2 ff) = true /\ print_time (TClockFrames hh m1 m2 s1 s2 ff) = s.
Proof.
  unfold match_clock_frames. destruct (span_digits s) as [hd r] eqn:Es.
  destruct (span_digits_inv _ _ _ Es) as [Hs Hd]. clear Es.
  destruct (2 <=? Z.of_nat (length hd)) eqn:Hlen; [|discriminate].
  destruct r as [|c1 [|a1 [|a2 [|c2 [|b1 [|b2 [|c3 r2]]]]]]]; try discriminate; try (solve [zcases]).
  destruct (Z.eq_dec c1 58) as [->|N1].
  2:{ destruct c1; try discriminate; repeat (destruct p; try discriminate); contradiction. }
  destruct (Z.eq_dec c2 58) as [->|N2].
  2:{ destruct c2; try discriminate; repeat (destruct p; try discriminate); contradiction. }
  destruct (Z.eq_dec c3 58) as [->|N3].
  2:{ destruct c3; try discriminate; repeat (destruct p; try discriminate); contradiction. }
  destruct (is_digit a1 && is_digit a2 && is_digit b1 && is_digit b2) eqn:Ed; [|discriminate].
  apply andb_true_iff in Ed as [Ed D4]. apply andb_true_iff in Ed as [Ed D3]. apply andb_true_iff in Ed as [D1 D2].
  destruct (span_digits r2) as [fd r3] eqn:Ef. destruct (span_digits_inv _ _ _ Ef) as [Hf1 Hf2].
  destruct ((2 <=? Z.of_nat (length fd)) && at_end r3) eqn:E2; [|discriminate]. intros _.
  apply andb_true_iff in E2 as [Hfl Ha].
  destruct (digits_are_chrs _ Hd) as [hh [Hh1 Hh2]]. subst hd.
  destruct (digits_are_chrs _ Hf2) as [ff [F1 F2]]. subst fd.
  destruct (is_digit_chr _ D1) as [m1 [M1 <-]]. destruct (is_digit_chr _ D2) as [m2 [M2 <-]].
  destruct (is_digit_chr _ D3) as [s1 [S1 <-]]. destruct (is_digit_chr _ D4) as [s2 [S2 <-]].
  apply length_chrs_ge2 in Hlen. apply length_chrs_ge2 in Hfl.
  exists hh, m1, m2, s1, s2, ff. split.
  - cbn [wf_texpr]. rewrite Hlen, Hh1, M1, M2, S1, S2, Hfl, F1. reflexivity.
  - apply at_end_inv in Ha. subst r3. cbn [print_time]. rewrite Hs, Hf1, app_nil_r. reflexivity.
Qed.

(* ---- the reader accepts only members of the grammar --------------------------------------------------------------------- *)
Theorem time_accept_in_grammar tr fr s q : parse_time_x tr fr s = TVal q -> in_grammar s.
Proof.
  intros H. unfold parse_time_x in H.
  destruct (match_offset U_f s) as [v|] eqn:Ef.
  { (* also when no frame rate is known, in which case one of the later branches must have accepted the same string *)
    destruct (match_offset_inv U_f s v Mf eq_refl Ef) as [ip [fp [A B]]]. exists (TOffset ip fp Mf). auto. }
  destruct (match_offset U_t s) as [v|] eqn:Et.
  { destruct (match_offset_inv U_t s v Mt eq_refl Et) as [ip [fp [A B]]]. exists (TOffset ip fp Mt). auto. }
  assert (H' : match match_offset U_ms s with
               | Some v => TVal (v / inject_Z 1000)%Q
               | None => match match_offset U_s s with
                 | Some v => TVal v
                 | None => match match_offset U_m s with
                   | Some v => TVal (v * inject_Z 60)%Q
                   | None => match match_offset U_h s with
                     | Some v => TVal (v * inject_Z 3600)%Q
                     | None => match match_clock_fraction s with
                       | Some (h, m, sec) => TVal (inject_Z h * inject_Z 3600 + inject_Z m * inject_Z 60 + sec)%Q
                       | None => match match_clock_frames s, fr with
                         | Some (h, m, sec, ff), Some f =>
                             if Qle_bool f (inject_Z ff) then TBad
                             else TVal (inject_Z h * inject_Z 3600 + inject_Z m * inject_Z 60 + inject_Z sec + inject_Z ff / f)%Q
                         | _, _ => TBad end end end end end end = TVal q).
  { destruct fr, tr; exact H. }
  clear H.
  destruct (match_offset U_ms s) as [v|] eqn:E1.
  { destruct (match_offset_inv U_ms s v Mms eq_refl E1) as [ip [fp [A B]]]. exists (TOffset ip fp Mms). auto. }
  destruct (match_offset U_s s) as [v|] eqn:E2.
  { destruct (match_offset_inv U_s s v Ms eq_refl E2) as [ip [fp [A B]]]. exists (TOffset ip fp Ms). auto. }
  destruct (match_offset U_m s) as [v|] eqn:E3.
  { destruct (match_offset_inv U_m s v Mm eq_refl E3) as [ip [fp [A B]]]. exists (TOffset ip fp Mm). auto. }
  destruct (match_offset U_h s) as [v|] eqn:E4.
  { destruct (match_offset_inv U_h s v Mh eq_refl E4) as [ip [fp [A B]]]. exists (TOffset ip fp Mh). auto. }
  destruct (match_clock_fraction s) as [v|] eqn:E5.
  { destruct (clock_fraction_inv s v E5) as [hh [m1 [m2 [s1 [s2 [fp [A B]]]]]]]. exists (TClock hh m1 m2 s1 s2 fp). auto. }
  destruct (match_clock_frames s) as [v|] eqn:E6.
  { destruct (clock_frames_inv s v E6) as [hh [m1 [m2 [s1 [s2 [ff [A B]]]]]]]. exists (TClockFrames hh m1 m2 s1 s2 ff). auto. }
  destruct fr; discriminate.
Qed.

(* rejection: a string outside the grammar has no value, whatever the rates *)
Corollary time_reject tr fr s : ~ in_grammar s -> parse_time tr fr s = None.
Proof.
  intros Hn. unfold parse_time. destruct (parse_time_x tr fr s) as [q| |] eqn:E; try reflexivity.
  exfalso. apply Hn. eapply time_accept_in_grammar; eassumption.
Qed.

(* and it is rejected as malformed (ValueError, which the attribute readers log), never with a ZeroDivisionError, when the rates are not zero *)
Corollary time_reject_bad tr fr s : ~ in_grammar s -> Qeq_bool tr 0 = false -> Qeq_bool fr 0 = false ->
  parse_time_x (Some tr) (Some fr) s = TBad.
Proof.
  intros Hn Ht Hf. destruct (parse_time_x (Some tr) (Some fr) s) as [q| |] eqn:E; [| reflexivity |].
  - exfalso. apply Hn. eapply time_accept_in_grammar; eassumption.
  - exfalso. unfold parse_time_x, qdiv_res in E. rewrite Ht, Hf in E.
    repeat match type of E with context [match ?e with _ => _ end] => destruct e end; discriminate.
Qed.
