(* C19 — `tt convert` equals the library pipeline, honours options, is deterministic.

   M = Model/Cli.v: a transcription of tt.py (main, convert, get_file_type, read_config_from_json), config.py, every
   */config.py decoder, lcd.py's decoders, the filter registry and argparse as far as `tt` declares it, over an abstract
   JSON value type:
     parse_main  : raw tokens -> usage error | help | options + --config text + --config_file path
     convert / plan / plan_tokens : -> OError exn | OHelp | OPlan reader+cfg lang [filter+cfg] writer+cfg level progress
     run_convert / run_tokens     : the same with the readers, filters and writers put back as ARBITRARY functions that
                                    may raise, logging every effect visible outside (progress, level, read, set_lang,
                                    filter, write, output file).
   S = Spec/CliSpec.v (property text + README): type_ok, documented / meaning per key, the command-line grammar
   tokens_of, spec_options, spec_plan, lib_pipeline, plan_events.

   Proved here, for ALL token lists of the grammar, ALL JSON values, ALL readers / filters / writers:
     - the command line denotes the options README says, the plan is the one README prescribes, the run is the library
       pipeline on that plan and writes its bytes to the -o path (C19_plan_is_pipeline and its three parts);
     - no output file is opened on any run that does not end well, for any token list at all (C19_no_output_on_error);
     - each of the 19 documented keys accepts exactly the documented values and decodes them to their documented
       meaning — unconditionally for ten keys, outside the narrowed triggers of the two remaining findings for nine;
     - a value that is rejected is rejected by the decoder's ValueError, for all JSON values of all 19 keys, and so is a
       configuration or a section that is not a JSON object; stl_reader.program_start_tc is characterised completely;
     - the plan depends on nothing but the documented keys of the consulted sections: not on key order, not on other
       sections, not on undocumented keys (README is silent about those: they are ignored).
   Byte equality of the real process with the real library calls, and independence from the hash seed / earlier
   conversions, are differential (harness/c19.py): M is a function, so inside M they hold by construction. *)
From Coq Require Import String Permutation.
From TT Require Import Base.Prelude Base.CliTypes Gen.CliUnicode Model.Cli Spec.CliSpec Model.CliCases Gen.CliTables Gen.CliShape
  Proofs.C19.Tables Proofs.C19.Plan Proofs.C19.Types Proofs.C19.Accept Proofs.C19.AcceptFont Proofs.C19.AcceptColor
  Proofs.C19.AcceptAll Proofs.C19.Reject Proofs.C19.Args Proofs.C19.Pipeline Proofs.C19.SpecPlan Proofs.C19.Order Proofs.C19.Main.

(* ================================================================== the whole property, as one statement.
   For every token list `convert <options>` of the command-line grammar (options in any order, `flag value` or
   `flag=value`, repeated at will) with -i and -o given, every way the --config text parses and the --config_file reads,
   every reader / filter / writer behaviour: if the configuration sources are readable and every value of a consulted
   section is inside README's table and outside the recorded triggers, then
     - README prescribes a plan p  =>  M's plan is p; the run ends as the library pipeline does on p — the selected
       reader on the -i path, document_lang set once between reading and filtering, the named filters in command-line
       order, the selected writer — with its bytes written to the -o path; and when it ends well its effects are
       exactly plan_events p, in that order;
     - README prescribes none (an undocumented value, a section that is not an object, an unresolvable or unwritable
       type)  =>  the run ends in an error. *)
Theorem C19_plan_is_pipeline :
  forall (doc bytes : Type) (read_doc : reader -> text -> res doc) (set_lang : text -> doc -> doc)
         (run_filter : filter_app -> doc -> res doc) (write_doc : writer -> doc -> res bytes)
         (json_of : text -> option json) (files : text -> file_src) items toks o c cf,
    tokens_of items toks -> spec_options items = Some (o, c, cf) ->
    let i := inline_of json_of c in let f := file_of files cf in
    sources_ok i f = true -> clean o (effective i f) = true ->
    match spec_plan o (effective i f) with
    | Some p => plan_tokens json_of files (T "convert" :: toks) = OPlan p /\
                snd (run_tokens doc bytes read_doc set_lang run_filter write_doc json_of files (T "convert" :: toks)) =
                  match lib_pipeline doc bytes read_doc set_lang run_filter write_doc p (o_input o) with
                  | Ok b => FDone (o_output o) b | Raise e => FError e end /\
                (forall b, lib_pipeline doc bytes read_doc set_lang run_filter write_doc p (o_input o) = Ok b ->
                           fst (run_tokens doc bytes read_doc set_lang run_filter write_doc json_of files (T "convert" :: toks)) =
                           plan_events p (o_input o) (o_output o))
    | None => (exists e, plan_tokens json_of files (T "convert" :: toks) = OError e) /\
              (exists e, snd (run_tokens doc bytes read_doc set_lang run_filter write_doc json_of files (T "convert" :: toks)) = FError e)
    end.
Proof. exact plan_is_pipeline. Qed.

(* ---- its three parts, each without the hypotheses it does not need *)
(* (a) argparse on the grammar: the options README reads off the command line, for every token list of the grammar *)
Theorem C19_args_grammar : forall items toks,
  tokens_of items toks ->
  parse_convert toks = match spec_options items with Some (o, c, cf) => CConvert o c cf | None => CUsage end.
Proof. exact parse_convert_grammar. Qed.
Theorem C19_grammar_recognised : forall items toks, tokens_of items toks <-> spec_items toks = Some items.
Proof. exact grammar_iff. Qed.
(* (b) the plan is the one README prescribes *)
Theorem C19_plan_is_spec_plan : forall o i f,
  sources_ok i f = true -> clean o (effective i f) = true ->
  match spec_plan o (effective i f) with Some p => convert o i f = Ok p | None => exists e, convert o i f = Raise e end.
Proof. exact plan_is_spec. Qed.
Theorem C19_unreadable_sources : forall o i f, sources_ok i f = false -> exists e, convert o i f = Raise e.
Proof. exact bad_sources_fail. Qed.
(* (c) the run follows the plan — no hypothesis on the configuration at all *)
Theorem C19_run_is_pipeline :
  forall (doc bytes : Type) (read_doc : reader -> text -> res doc) (set_lang : text -> doc -> doc)
         (run_filter : filter_app -> doc -> res doc) (write_doc : writer -> doc -> res bytes) o i f,
    match convert o i f with
    | Ok p => snd (run_convert doc bytes read_doc set_lang run_filter write_doc o i f []) =
                match lib_pipeline doc bytes read_doc set_lang run_filter write_doc p (o_input o) with
                | Ok b => Ok (o_output o, b) | Raise e => Raise e end /\
              (forall b, lib_pipeline doc bytes read_doc set_lang run_filter write_doc p (o_input o) = Ok b ->
                         fst (run_convert doc bytes read_doc set_lang run_filter write_doc o i f []) = plan_events p (o_input o) (o_output o))
    | Raise _ => exists e, snd (run_convert doc bytes read_doc set_lang run_filter write_doc o i f []) = Raise e
    end.
Proof. exact run_is_pipeline. Qed.

(* ================================================================== no output on any error path.
   For ANY token list (grammatical or not), any environment, any readers / filters / writers: a run that does not end
   well — usage text, usage error, unreadable or malformed configuration, undocumented value, unsupported type, an
   exception raised by a reader, a filter or the writer — has not opened the output file; one that ends well has opened
   exactly the -o path, once, as its last effect, after the library pipeline returned the bytes. *)
Theorem C19_no_output_on_error :
  forall (doc bytes : Type) (read_doc : reader -> text -> res doc) (set_lang : text -> doc -> doc)
         (run_filter : filter_app -> doc -> res doc) (write_doc : writer -> doc -> res bytes)
         (json_of : text -> option json) (files : text -> file_src) toks,
    (forall path b, snd (run_tokens doc bytes read_doc set_lang run_filter write_doc json_of files toks) <> FDone path b) ->
    no_output_event (fst (run_tokens doc bytes read_doc set_lang run_filter write_doc json_of files toks)) = true.
Proof. exact no_output_on_error. Qed.
Theorem C19_output_only_when_done :
  forall (doc bytes : Type) (read_doc : reader -> text -> res doc) (set_lang : text -> doc -> doc)
         (run_filter : filter_app -> doc -> res doc) (write_doc : writer -> doc -> res bytes)
         (json_of : text -> option json) (files : text -> file_src) toks path b,
    snd (run_tokens doc bytes read_doc set_lang run_filter write_doc json_of files toks) = FDone path b ->
    exists o c cf p, parse_main toks = CConvert o c cf /\ convert o (inline_of json_of c) (file_of files cf) = Ok p /\
                     path = o_output o /\ lib_pipeline doc bytes read_doc set_lang run_filter write_doc p (o_input o) = Ok b /\
                     fst (run_tokens doc bytes read_doc set_lang run_filter write_doc json_of files toks) = plan_events p (o_input o) (o_output o).
Proof. exact output_only_when_done. Qed.
(* the same at the level of the plan *)
Theorem C19_errors_no_output : forall a i f e, plan a i f = OError e -> output_action a (plan a i f) = None.
Proof. exact error_no_output. Qed.
Theorem C19_help_no_output : forall i f, plan NoSubcommand i f = OHelp /\ output_action NoSubcommand (plan NoSubcommand i f) = None.
Proof. exact help_no_output. Qed.
Theorem C19_unknown_subcommand : forall n o i f, n <> T "convert" -> plan (Subcommand n o) i f = OError EExitUsage.
Proof. exact unknown_subcommand. Qed.
Theorem C19_unknown_subcommand_tokens : forall sub toks, sub <> T "convert" -> parse_main (sub :: toks) = CUsage.
Proof. exact parse_main_unknown. Qed.
Theorem C19_output_only_if_valid : forall a i f path w,
  output_action a (plan a i f) = Some (path, w) ->
  exists n o p, a = Subcommand n o /\ n = T "convert" /\ plan a i f = OPlan p /\ path = o_output o /\ w = p_writer p /\
    get_file_type (o_itype o) (splitext (o_input o)) = Ok (reader_type (p_reader p)) /\
    get_file_type (o_otype o) (splitext (o_output o)) = Ok (writer_type w) /\ writable (writer_type w) = true /\
    sources_ok i f = true.
Proof. exact output_only_if_valid. Qed.

(* ================================================================== type inference: --itype/--otype if given, else the
   extension, case-insensitively, else an error *)
Theorem C19_types_iff : forall g p t, get_file_type g (splitext p) = Ok t <-> type_ok g p t = true.
Proof. exact types_iff. Qed.
Theorem C19_types_unique : forall g p t t', type_ok g p t = true -> type_ok g p t' = true -> t = t'.
Proof. exact types_unique. Qed.
Theorem C19_types : forall n o i f p,
  plan (Subcommand n o) i f = OPlan p ->
  type_ok (o_itype o) (o_input o) (reader_type (p_reader p)) = true /\
  type_ok (o_otype o) (o_output o) (writer_type (p_writer p)) = true /\ writable (writer_type (p_writer p)) = true.
Proof. exact plan_types. Qed.
Theorem C19_unsupported_types : forall o i f,
  (forall t, type_ok (o_itype o) (o_input o) t = false) \/
  (forall t, writable t = true -> type_ok (o_otype o) (o_output o) t = false) ->
  exists e, plan (Subcommand (T "convert") o) i f = OError e.
Proof. exact unsupported_types. Qed.

(* ================================================================== a configuration file takes precedence over an inline one *)
Theorem C19_precedence : forall a j1 j2, plan a (IGiven j1) (FGiven j2) = plan a IAbsent (FGiven j2).
Proof. exact precedence. Qed.
Theorem C19_inline_alone : forall a j, plan a (IGiven j) FAbsent = plan a IAbsent (FGiven j).
Proof. exact inline_alone. Qed.
(* the one exception (an observation, not a recorded finding): --config is parsed before --config_file is looked
   at, so malformed inline JSON ends the run even when a file is given *)
Theorem C19_malformed_inline : forall o f, plan (Subcommand (T "convert") o) IMalformed f = OError EJsonDecode.
Proof. exact malformed_inline. Qed.

(* ================================================================== filters and document language (unconditional forms) *)
Theorem C19_filters_order : forall n o i f p,
  plan (Subcommand n o) i f = OPlan p ->
  List.map filter_name (p_filters p) = List.filter spec_known_filter (o_filters o).
Proof. exact filters_order. Qed.
Theorem C19_filters_configured : forall names data fs,
  apply_filters names data = Ok fs -> fs = List.map (fun _ => FLcd (lcd_of data)) (List.filter known_filter names).
Proof. exact apply_filters_spec. Qed.
Theorem C19_lang_override : forall n o i f p,
  plan (Subcommand n o) i f = OPlan p ->
  p_lang p = match general_of (effective i f) with Some (_, _, JStr s) => Some s | _ => None end.
Proof. exact lang_override. Qed.

(* ================================================================== configuration acceptance.
   Full statement:  forall k v, in_table k v = true -> (accepts k v = true <-> documented k v = true) /\
                                (documented k v = true -> decode k v = Ok (meaning k v)).
   It holds unconditionally for ten keys (the eight `true | false` keys, imsc_writer.time_format, lcd.safe_area), for
   imsc_writer.fps below CPython's digit limit, and for the remaining keys outside the narrowed triggers of the two
   findings that are still recorded (Spec/CliSpec.v trigger; refutations in Findings/C19.v). *)
Theorem C19_config_acceptance_exact : forall k v,
  untriggered_key k = true -> in_table k v = true ->
  (accepts k v = true <-> documented k v = true) /\ (documented k v = true -> decode k v = Ok (meaning k v)).
Proof. exact config_exact_untriggered. Qed.
Theorem C19_config_acceptance_fps : forall s,
  (Z.of_nat (length s) <=? 4300) = true ->
  (accepts KFps (JStr s) = true <-> documented KFps (JStr s) = true) /\
  (documented KFps (JStr s) = true -> decode KFps (JStr s) = Ok (meaning KFps (JStr s))).
Proof. exact config_exact_fps. Qed.
Theorem C19_config_acceptance_partial : forall k v,
  in_table k v = true -> trigger k v = false -> (accepts k v = true <-> documented k v = true).
Proof. exact config_accepts. Qed.
Theorem C19_config_meaning_partial : forall k v,
  in_table k v = true -> trigger k v = false -> documented k v = true -> decode k v = Ok (meaning k v).
Proof. exact config_meaning. Qed.
Theorem C19_config_rejects_partial : forall k v,
  in_table k v = true -> trigger k v = false -> documented k v = false -> exists e, decode k v = Raise e.
Proof. exact config_rejects. Qed.
(* how a value is rejected: by the decoder's ValueError ("Invalid ... value. Expect: ..."), for ALL JSON values of ALL 19
   keys — no hypothesis about the table or the acceptance triggers.  (Before the repairs of stl_reader.program_start_tc /
   font_stack, scc_reader.text_align, general.document_lang / log_level this needed a trigger: values of the wrong JSON
   type escaped as AttributeError / TypeError from inside the library.) *)
Theorem C19_config_rejection_is_value_error : forall k v e, decode k v = Raise e -> e = EValue.
Proof. exact decode_raises_value_error. Qed.
Theorem C19_config_rejects_value_error_partial : forall k v,
  in_table k v = true -> trigger k v = false -> documented k v = false -> decode k v = Raise EValue.
Proof. exact config_rejects_value_error. Qed.
(* whole sections, whatever they hold: every module's parse fails by ValueError or not at all *)
Theorem C19_section_rejection_is_value_error : forall d e,
  (parse_general d = Raise e -> e = EValue) /\ (parse_imsc d = Raise e -> e = EValue) /\ (parse_scc d = Raise e -> e = EValue) /\
  (parse_stl d = Raise e -> e = EValue) /\ (parse_srt d = Raise e -> e = EValue) /\ (parse_vtt d = Raise e -> e = EValue) /\
  (parse_lcd d = Raise e -> e = EValue).
Proof.
  exact (fun d e => match sections_raise_value_error d with
                    | conj a (conj b (conj c (conj f (conj g (conj h i))))) => conj (a e) (conj (b e) (conj (c e) (conj (f e) (conj (g e) (conj (h e) (i e))))))
                    end).
Qed.
(* ... and so does read_config_from_json on ANY configuration value, one that is not a JSON object or whose section is
   not a JSON object included: a configuration is read, is absent, or is a ValueError *)
Theorem C19_read_config_rejection_is_value_error : forall data e,
  (read_config "general" parse_general data = Raise e -> e = EValue) /\ (read_config "imsc_writer" parse_imsc data = Raise e -> e = EValue) /\
  (read_config "scc_reader" parse_scc data = Raise e -> e = EValue) /\ (read_config "stl_reader" parse_stl data = Raise e -> e = EValue) /\
  (read_config "srt_writer" parse_srt data = Raise e -> e = EValue) /\ (read_config "vtt_writer" parse_vtt data = Raise e -> e = EValue) /\
  (read_config "lcd" parse_lcd data = Raise e -> e = EValue).
Proof.
  intros data e.
  pose proof (fun d => proj1 (sections_raise_value_error d)) as A.
  pose proof (fun d => proj1 (proj2 (sections_raise_value_error d))) as B.
  pose proof (fun d => proj1 (proj2 (proj2 (sections_raise_value_error d)))) as C.
  pose proof (fun d => proj1 (proj2 (proj2 (proj2 (sections_raise_value_error d))))) as D.
  pose proof (fun d => proj1 (proj2 (proj2 (proj2 (proj2 (sections_raise_value_error d)))))) as E.
  pose proof (fun d => proj1 (proj2 (proj2 (proj2 (proj2 (proj2 (sections_raise_value_error d))))))) as F.
  pose proof (fun d => proj2 (proj2 (proj2 (proj2 (proj2 (proj2 (sections_raise_value_error d))))))) as G.
  exact (conj (read_config_raises_value_error _ _ data A e) (conj (read_config_raises_value_error _ _ data B e)
        (conj (read_config_raises_value_error _ _ data C e) (conj (read_config_raises_value_error _ _ data D e)
        (conj (read_config_raises_value_error _ _ data E e) (conj (read_config_raises_value_error _ _ data F e)
              (read_config_raises_value_error _ _ data G e))))))).
Qed.
(* stl_reader.program_start_tc, for ALL JSON values, no trigger: null = not specified; "TCP" in any letter case = TCP; a
   complete time code — four two-digit fields and three separators, any characters but a line feed — is kept as written;
   every other string and every value that is not a string is a ValueError.  So the accepted strings are exactly the
   documented ones plus the recorded leniency (letter case of TCP, separators), nothing else. *)
Theorem C19_start_tc_outcome : forall v,
  decode KStartTc v =
  match v with
  | JNull => Ok CNone
  | JStr s => if ci_eq s (T "TCP") then Ok (CText (T "TCP")) else if tc_any_sep s then Ok (CText s) else Raise EValue
  | _ => Raise EValue
  end.
Proof. exact start_tc_outcome. Qed.
Theorem C19_start_tc_accepts : forall s,
  accepts KStartTc (JStr s) = (documented KStartTc (JStr s) || trigger_lenient KStartTc (JStr s)) && (ci_eq s (T "TCP") || tc_any_sep s).
Proof. exact start_tc_documented_or_lenient. Qed.
(* colours: for every string free of upper-case letters, ASCII white space and non-ASCII characters and within the digit
   limit, parse_color accepts exactly the TTML2 colours and returns their RGBA value *)
Theorem C19_config_colors : forall s,
  forallb cplain s = true -> (Z.of_nat (length s) <=? 4300) = true ->
  parse_color s = match (if color_ok s then mean_color_text s else None) with Some c => Ok c | None => Raise EValue end /\
  (color_ok s = true -> (if color_ok s then mean_color_text s else None) <> None).
Proof. exact parse_color_spec. Qed.
(* font stacks: every documented stack is accepted (a family name of one character included, since the repair) *)
Theorem C19_font_stack_documented_accepted : forall s, fonts_ok s = true -> accepts KFontStack (JStr s) = true.
Proof. exact font_documented_accepts. Qed.
Theorem C19_font_single_name : forall s,
  forallb letter s = true -> s <> [] -> accepts KFontStack (JStr s) = true /\ documented KFontStack (JStr s) = true.
Proof. exact font_single_name. Qed.
(* whole sections: each module's parse gives the configuration README prescribes for the section object, or fails when
   README prescribes none — for every section object whose documented keys carry values of the table outside the triggers *)
Theorem C19_section_acceptance : forall d,
  (keys_clean "imsc_writer" d = true -> match spec_imsc (JObj d) with Some c => parse_imsc d = Ok c | None => exists e, parse_imsc d = Raise e end) /\
  (keys_clean "scc_reader" d = true -> match spec_scc (JObj d) with Some c => parse_scc d = Ok c | None => exists e, parse_scc d = Raise e end) /\
  (keys_clean "stl_reader" d = true -> match spec_stl (JObj d) with Some c => parse_stl d = Ok c | None => exists e, parse_stl d = Raise e end) /\
  (keys_clean "srt_writer" d = true -> match spec_srt (JObj d) with Some c => parse_srt d = Ok c | None => exists e, parse_srt d = Raise e end) /\
  (keys_clean "vtt_writer" d = true -> match spec_vtt (JObj d) with Some c => parse_vtt d = Ok c | None => exists e, parse_vtt d = Raise e end) /\
  (keys_clean "lcd" d = true -> match spec_lcd (JObj d) with Some c => parse_lcd d = Ok c | None => exists e, parse_lcd d = Raise e end).
Proof. exact (fun d => conj (module_imsc d) (conj (module_scc d) (conj (module_stl d) (conj (module_srt d) (conj (module_vtt d) (module_lcd d)))))). Qed.
Theorem C19_section_acceptance_general : forall d,
  keys_clean "general" d = true ->
  match spec_general (JObj d) with
  | Some (lv, pb, lang) => exists ll dl, parse_general d = Ok (ll, pb, dl) /\ level_dec ll = Ok lv /\ lang_dec dl = Ok lang
  | None => (exists e, parse_general d = Raise e) \/
            exists ll pb dl, parse_general d = Ok (ll, pb, dl) /\ ((exists e, level_dec ll = Raise e) \/ (exists e, lang_dec dl = Raise e))
  end.
Proof. exact module_general. Qed.

(* ================================================================== what the plan does not depend on.
   (M is a function, so "deterministic" is not a statement about it; these are.)  The plan — errors included — is the same
   for two configurations that give the same value to every documented key of every consulted section. *)
Theorem C19_plan_depends_on_consulted_keys_only : forall o c c', cfg_agree o c c' -> convert_with o c = convert_with o c'.
Proof. exact plan_depends_on_consulted_keys_only. Qed.
Theorem C19_convert_is_convert_with : forall o i f, convert o i f = do data <- load_config i f; convert_with o data.
Proof. exact convert_load. Qed.
(* the order of the sections, the order of the keys inside a section *)
Theorem C19_section_order_irrelevant : forall o l l',
  Permutation l l' -> NoDup (List.map fst l) -> convert_with o (Some (JObj l)) = convert_with o (Some (JObj l')).
Proof. exact section_order_irrelevant. Qed.
Theorem C19_key_order_irrelevant : forall o l1 l2 name d d',
  Permutation d d' -> NoDup (List.map fst d) -> ~ In name (List.map fst l2) ->
  convert_with o (Some (JObj (l1 ++ (name, JObj d) :: l2))) = convert_with o (Some (JObj (l1 ++ (name, JObj d') :: l2))).
Proof. exact key_order_irrelevant. Qed.
(* sections the command line does not consult — unknown ones included — whatever they hold *)
Theorem C19_unrelated_sections_irrelevant : forall o l l',
  (forall name, consulted o name = true -> obj_get (T name) l = obj_get (T name) l') ->
  convert_with o (Some (JObj l)) = convert_with o (Some (JObj l')).
Proof. exact unrelated_sections_irrelevant. Qed.
(* keys README does not document for a section: ignored, as README (silently) has it *)
Theorem C19_unknown_key_ignored : forall o l1 l2 name d1 d2 k v,
  known_key name k = false ->
  convert_with o (Some (JObj (l1 ++ (T name, JObj (d1 ++ (k, v) :: d2)) :: l2))) =
  convert_with o (Some (JObj (l1 ++ (T name, JObj (d1 ++ d2)) :: l2))).
Proof. exact unknown_key_ignored. Qed.

(* ================================================================== tie 1 (recompiled whenever the regenerated tables
   change): every table M mentions is the code's, M's decoders equal the code on the fixed probe set, and S is departed
   from on it only inside recorded findings *)
Theorem C19_tables_are_the_codes :
  (list_eqb text_eqb (List.map snd gen_file_types) (List.map fst file_types) = true /\
   forallb (fun nv => text_eqb (py_upper (snd nv)) (fst nv)) gen_file_types = true) /\
  (list_eqb tt_eqb gen_filter_registry [(T "lcd", T "lcd")] = true /\
   list_eqb text_eqb (List.map fst gen_filter_registry) (List.map fst filter_registry) = true) /\
  all2 (fun g m => text_eqb (fst (fst g)) (T (fst m)) &&
                   all2 (fun gf mf => text_eqb (fst (fst gf)) (T (fst mf)) && text_eqb (snd gf) (T (snd mf))) (snd g) (snd m) &&
                   forallb (fun gf => snd (fst gf)) (snd g)) gen_config_fields config_table = true /\
  (list_eqb text_eqb gen_phases (List.map (fun p => T (phase_name p)) phase_order) = true /\
   all2 dispatch_eqb gen_reader_table reader_table = true /\ all2 dispatch_eqb gen_writer_table writer_table = true) /\
  (list_eqb text_eqb gen_subcommands subcommands = true /\ all2 option_row_ok gen_options option_strings = true /\
   all2 (fun (a : text * dest) (b : string * dest) => text_eqb (fst a) (T (fst b)) && (dest_code (snd a) =? dest_code (snd b)))
        (List.filter (fun od => negb (dest_code (snd od) =? 0)) option_strings) spec_flags = true).
Proof. exact (conj file_types_agree (conj filter_registry_agrees (conj config_fields_agree (conj convert_shape_agrees argparse_agrees)))). Qed.
Theorem C19_decoders_on_probe_set :
  forallb probe_ok gen_probes = true /\ forallb (fun p => negb (probe_class p =? 9) && negb (probe_class p =? 8)) gen_probes = true /\
  forallb (fun p => probe_escape p =? 0) gen_probes = true.
Proof. exact (conj probes_agree (conj probes_spec_ok probes_escape_ok)). Qed.
Theorem C19_defaults_are_the_codes :
  default_scc = gen_default_scc /\ default_stl = gen_default_stl /\ default_imsc = gen_default_imsc /\
  default_srt = gen_default_srt /\ default_vtt = gen_default_vtt /\ default_lcd = gen_default_lcd /\
  default_general = gen_default_general.
Proof. exact defaults_agree. Qed.

(* ================================================================== non-vacuity: the hypotheses are satisfiable *)
Definition ex_opts : options := Build_options (T "dir.d/My File.SCC") (T "out/o.dat") None (Some (T "Ttml")) [T "lcd"; T "nope"; T "lcd"].
Definition ex_inline : json := JObj [(T "lcd", JObj [(T "safe_area", JInt 99)])].
Definition ex_file : json :=
  JObj [(T "general", JObj [(T "document_lang", JStr (T "es-419"))]); (T "lcd", JObj [(T "safe_area", JInt 5)]);
        (T "imsc_writer", JObj [(T "fps", JStr (T "30000/1001")); (T "time_format", JStr (T "frames"))])].
Definition ex_plan : plan_t :=
  Build_plan_t (RdScc None) (Some (T "es-419"))
    [FLcd (Build_lcd_cfg 5 false None None); FLcd (Build_lcd_cfg 5 false None None)]
    (WrTtml (Some (Build_imsc_cfg (Some TfFrames) (Some (30000, 1001))))) (Some 20) (Some true).
Example C19_example_plan : plan (Subcommand (T "convert") ex_opts) (IGiven ex_inline) (FGiven ex_file) = OPlan ex_plan.
Proof. vm_compute. reflexivity. Qed.
(* the same command line as tokens, in scrambled order, with a repeated option: hypotheses of C19_plan_is_pipeline hold *)
Definition ex_tokens : list text :=
  [T "--filter"; T "lcd"; T "-o"; T "ignored.srt"; T "--otype=Ttml"; T "--config_file"; T "cfg.json"; T "--filter=nope";
   T "--output"; T "out/o.dat"; T "--config={...}"; T "--filter"; T "lcd"; T "-i=dir.d/My File.SCC"].
Definition ex_items : list (dest * text) :=
  [(DFilter, T "lcd"); (DOutput, T "ignored.srt"); (DOtype, T "Ttml"); (DConfigFile, T "cfg.json"); (DFilter, T "nope");
   (DOutput, T "out/o.dat"); (DConfig, T "{...}"); (DFilter, T "lcd"); (DInput, T "dir.d/My File.SCC")].
Definition ex_json_of (t : text) : option json := Some ex_inline.
Definition ex_files (p : text) : file_src := FGiven ex_file.
Example C19_example_hypotheses :
  spec_items ex_tokens = Some ex_items /\ spec_options ex_items = Some (ex_opts, Some (T "{...}"), Some (T "cfg.json")) /\
  sources_ok (inline_of ex_json_of (Some (T "{...}"))) (file_of ex_files (Some (T "cfg.json"))) = true /\
  clean ex_opts (effective (inline_of ex_json_of (Some (T "{...}"))) (file_of ex_files (Some (T "cfg.json")))) = true /\
  spec_plan ex_opts (effective (inline_of ex_json_of (Some (T "{...}"))) (file_of ex_files (Some (T "cfg.json")))) = Some ex_plan /\
  plan_tokens ex_json_of ex_files (T "convert" :: ex_tokens) = OPlan ex_plan.
Proof. vm_compute. repeat split; reflexivity. Qed.
Example C19_example_run :
  run_tokens Z unit (st_read (-1)) st_lang (st_filter (-1)) (st_write (-1)) ex_json_of ex_files (T "convert" :: ex_tokens) =
    (plan_events ex_plan (T "dir.d/My File.SCC") (T "out/o.dat"), FDone (T "out/o.dat") tt) /\
  (* the second filter call raises: the log stops there, nothing is written *)
  run_tokens Z unit (st_read 2) st_lang (st_filter 2) (st_write 2) ex_json_of ex_files (T "convert" :: ex_tokens) =
    ([EvProgress true; EvLevel 20; EvRead (RdScc None) (T "dir.d/My File.SCC"); EvLang (T "es-419");
      EvFilter (FLcd (Build_lcd_cfg 5 false None None)); EvFilter (FLcd (Build_lcd_cfg 5 false None None))], FError (EStage 1)).
Proof. vm_compute. split; reflexivity. Qed.
Example C19_example_errors :
  plan (Subcommand (T "convert") ex_opts) (IGiven ex_inline) FAbsent = OError EValue /\        (* safe_area 99 *)
  plan (Subcommand (T "convert") (Build_options (T "a.srt") (T "b.scc") None None [])) IAbsent FAbsent = OError EExitUnsupported /\
  plan (Subcommand (T "convert") (Build_options (T "a.txt") (T "b.srt") None None [])) IAbsent FAbsent = OError EValue /\
  plan (Subcommand (T "frobnicate") ex_opts) IAbsent FAbsent = OError EExitUsage /\
  parse_main [T "convert"; T "-i"; T "a.srt"] = CUsage /\ parse_main [T "convert"; T "-o"; T "b"; T "-i"] = CUsage /\
  parse_main [T "convert"; T "-h"] = CHelp /\ parse_main [] = CHelp.
Proof. vm_compute. repeat split; reflexivity. Qed.
Example C19_example_table :
  trigger KSafeArea (JInt 31) = false /\ accepts KSafeArea (JInt 31) = false /\ accepts KSafeArea (JInt 30) = true /\
  accepts KSafeArea (JStr (T "10")) = false /\ accepts KTextFormatting (JStr (T "no")) = false /\
  trigger KFps (JStr (T "30000/1001")) = false /\ decode KFps (JStr (T "50/2")) = Ok (CFrac 25 1) /\ accepts KFps (JStr (T "-25/1")) = false /\
  trigger KStartTc (JStr (T "10:00:00:00")) = false /\ accepts KStartTc (JStr (T "10:00:00:00xyz")) = false /\
  trigger KColor (JStr (T "rgba(255,255,0,128)")) = false /\ decode KColor (JStr (T "rgba(255,255,0,128)")) = Ok (CColor 255 255 0 128) /\
  accepts KColor (JStr (T "#FF0000zz")) = false /\ accepts KColor (JStr (T "rgb(300,0,0)")) = false /\
  accepts KFontStack (JStr (T "a")) = true /\ accepts KMaxRowCount (JBool true) = false.
Proof. vm_compute. repeat split; reflexivity. Qed.
(* the hypotheses of the rejection theorems are satisfiable, and their conclusions are about real rejections *)
Example C19_example_rejections :
  decode KStartTc (JInt 5) = Raise EValue /\ decode KFontStack (JArr [JStr (T "Arial")]) = Raise EValue /\
  decode KSccTextAlign (JStr (T "centre")) = Raise EValue /\ decode KSccTextAlign (JBool true) = Raise EValue /\
  decode KSccTextAlign JNull = Raise EValue /\ decode KDocumentLang (JInt 5) = Raise EValue /\
  decode KLogLevel (JFloat 5 2) = Raise EValue /\ decode KLogLevel (JInt 20) = Raise EValue /\ decode KLogLevel (JStr (T "bogus")) = Raise EValue /\
  decode KLogLevel (JStr (T "WARN")) = Ok (CInt 30) /\ decode KDocumentLang (JStr (T "es-419")) = Ok (CText (T "es-419")) /\
  in_table KColor (JBool true) = true /\ trigger KColor (JBool true) = false /\ documented KColor (JBool true) = false /\
  parse_stl [(T "program_start_tc", JBool true)] = Raise EValue /\ parse_scc [(T "text_align", JBool true)] = Raise EValue /\
  read_config "scc_reader" parse_scc (Some (JObj [(T "scc_reader", JInt 5)])) = Raise EValue /\
  read_config "general" parse_general (Some (JArr [])) = Raise EValue /\
  decode KStartTc (JStr (T "tCp")) = Ok (CText (T "TCP")) /\ decode KStartTc (JStr (T "10:00:00;00")) = Ok (CText (T "10:00:00;00")) /\
  decode KStartTc (JStr (T "10:00:00")) = Raise EValue.
Proof. vm_compute. repeat split; reflexivity. Qed.
Example C19_example_order :
  let d := [(T "fps", JStr (T "30000/1001")); (T "time_format", JStr (T "frames"))] in
  let d' := [(T "time_format", JStr (T "frames")); (T "fps", JStr (T "30000/1001"))] in
  Permutation d d' /\ NoDup (List.map fst d) /\ known_key "imsc_writer" (T "zzz") = false /\
  consulted ex_opts "imsc_writer" = true /\ consulted ex_opts "vtt_writer" = false /\ consulted ex_opts "no_such_section" = false /\
  convert_with ex_opts (Some (JObj [(T "imsc_writer", JObj d)])) = convert_with ex_opts (Some (JObj [(T "vtt_writer", JStr (T "never read")); (T "imsc_writer", JObj ((T "zzz", JNull) :: d'))])).
Proof.
  cbv zeta. split; [apply perm_swap|]. split; [repeat constructor; cbn; intuition discriminate|]. vm_compute. repeat split; reflexivity.
Qed.

Print Assumptions C19_plan_is_pipeline.  Print Assumptions C19_args_grammar.  Print Assumptions C19_grammar_recognised.
Print Assumptions C19_plan_is_spec_plan.  Print Assumptions C19_unreadable_sources.  Print Assumptions C19_run_is_pipeline.
Print Assumptions C19_no_output_on_error.  Print Assumptions C19_output_only_when_done.
Print Assumptions C19_errors_no_output.  Print Assumptions C19_help_no_output.  Print Assumptions C19_unknown_subcommand.
Print Assumptions C19_unknown_subcommand_tokens.  Print Assumptions C19_output_only_if_valid.
Print Assumptions C19_types_iff.  Print Assumptions C19_types_unique.  Print Assumptions C19_types.  Print Assumptions C19_unsupported_types.
Print Assumptions C19_precedence.  Print Assumptions C19_inline_alone.  Print Assumptions C19_malformed_inline.
Print Assumptions C19_filters_order.  Print Assumptions C19_filters_configured.  Print Assumptions C19_lang_override.
Print Assumptions C19_config_acceptance_exact.  Print Assumptions C19_config_acceptance_fps.  Print Assumptions C19_config_acceptance_partial.
Print Assumptions C19_config_meaning_partial.  Print Assumptions C19_config_rejects_partial.  Print Assumptions C19_config_colors.
Print Assumptions C19_config_rejection_is_value_error.  Print Assumptions C19_read_config_rejection_is_value_error.  Print Assumptions C19_config_rejects_value_error_partial.
Print Assumptions C19_section_rejection_is_value_error.  Print Assumptions C19_start_tc_outcome.  Print Assumptions C19_start_tc_accepts.
Print Assumptions C19_font_stack_documented_accepted.  Print Assumptions C19_font_single_name.
Print Assumptions C19_section_acceptance.  Print Assumptions C19_section_acceptance_general.
Print Assumptions C19_plan_depends_on_consulted_keys_only.  Print Assumptions C19_convert_is_convert_with.
Print Assumptions C19_section_order_irrelevant.  Print Assumptions C19_key_order_irrelevant.
Print Assumptions C19_unrelated_sections_irrelevant.  Print Assumptions C19_unknown_key_ignored.
Print Assumptions C19_tables_are_the_codes.  Print Assumptions C19_decoders_on_probe_set.  Print Assumptions C19_defaults_are_the_codes.
