From Coq Require Import String.
From TT Require Import Base.Prelude Base.CliTypes Gen.CliUnicode Model.Cli Spec.CliSpec Proofs.C19.Tables Proofs.C19.Plan Proofs.C19.Types Proofs.C19.Accept.
Theorem C19_precedence : forall a j1 j2, plan a (IGiven j1) (FGiven j2) = plan a IAbsent (FGiven j2).
Proof. exact precedence. Qed.
Print Assumptions C19_precedence.
