(* C19 — `tt convert` equals the library pipeline, honours options, is deterministic.

   M = Model/Cli.v `plan : argv x --config x --config_file -> OError exn | OHelp | OPlan reader+cfg lang [filter+cfg] writer+cfg`
   (transcription of tt.py, config.py, every */config.py decoder, lcd.py's decoders, the filter registry),
   S = Spec/CliSpec.v (property text + README: type_ok, effective, documented, spec_known_filter).
   What is proved here, for ALL command lines and ALL JSON values, is the plan-level half of the property:
   type inference, configuration precedence, filter order, document_lang, no output action on any error, and the
   per-key acceptance table.  Byte equality of the written file with the library pipeline run on this plan, and
   determinism / history independence of the real process, are established by differential execution in
   harness/c19.py (M is pure, so they hold of M by construction and are not theorems). *)
From Coq Require Import String.
From TT Require Import Base.Prelude Base.CliTypes Gen.CliUnicode Model.Cli Spec.CliSpec Model.CliCases Gen.CliTables
  Proofs.C19.Tables Proofs.C19.Plan Proofs.C19.Types Proofs.C19.Accept.

(* ---- type inference: --itype/--otype if given, else the extension, case-insensitively, else an error *)
Theorem C19_types_iff : forall g p t, get_file_type g (splitext p) = Ok t <-> type_ok g p t = true.
Proof. exact types_iff. Qed.
Theorem C19_types_unique : forall g p t t', type_ok g p t = true -> type_ok g p t' = true -> t = t'.
Proof. exact types_unique. Qed.
Theorem C19_types : forall n o i f p,
  plan (Subcommand n o) i f = OPlan p ->
  type_ok (o_itype o) (o_input o) (reader_type (p_reader p)) = true /\
  type_ok (o_otype o) (o_output o) (writer_type (p_writer p)) = true /\ writable (writer_type (p_writer p)) = true.
Proof. exact plan_types. Qed.
Theorem C19_unsupported_types : forall o i f,
  (forall t, type_ok (o_itype o) (o_input o) t = false) \/
  (forall t, writable t = true -> type_ok (o_otype o) (o_output o) t = false) ->
  exists e, plan (Subcommand (T "convert") o) i f = OError e.
Proof. exact unsupported_types. Qed.

(* ---- a configuration file takes precedence over an inline configuration *)
Theorem C19_precedence : forall a j1 j2, plan a (IGiven j1) (FGiven j2) = plan a IAbsent (FGiven j2).
Proof. exact precedence. Qed.
Theorem C19_inline_alone : forall a j, plan a (IGiven j) FAbsent = plan a IAbsent (FGiven j).
Proof. exact inline_alone. Qed.
(* the one exception (an observation, not a recorded finding): --config is parsed before --config_file is looked
   at, so malformed inline JSON ends the run even when a file is given *)
Theorem C19_malformed_inline : forall o f, plan (Subcommand (T "convert") o) IMalformed f = OError EJsonDecode.
Proof. exact malformed_inline. Qed.

(* ---- the named document filters, in command-line order; unknown names are skipped (logged), not errors *)
Theorem C19_filters_order : forall n o i f p,
  plan (Subcommand n o) i f = OPlan p ->
  List.map filter_name (p_filters p) = List.filter spec_known_filter (o_filters o).
Proof. exact filters_order. Qed.
Theorem C19_filters_configured : forall names data fs,
  apply_filters names data = Ok fs -> fs = List.map (fun _ => FLcd (lcd_of data)) (List.filter known_filter names).
Proof. exact apply_filters_spec. Qed.

(* ---- document_lang of the configuration in force overrides the document language *)
Theorem C19_lang_override : forall n o i f p,
  plan (Subcommand n o) i f = OPlan p ->
  p_lang p = match general_of (effective i f) with Some (_, _, JStr s) => Some s | _ => None end.
Proof. exact lang_override. Qed.

(* ---- an Error plan never names an output action; neither does the usage text; unknown sub-commands are errors;
        an output action implies convert + resolved types + writable output type + readable configuration *)
Theorem C19_errors_no_output : forall a i f e, plan a i f = OError e -> output_action a (plan a i f) = None.
Proof. exact error_no_output. Qed.
Theorem C19_help_no_output : forall i f, plan NoSubcommand i f = OHelp /\ output_action NoSubcommand (plan NoSubcommand i f) = None.
Proof. exact help_no_output. Qed.
Theorem C19_unknown_subcommand : forall n o i f, n <> T "convert" -> plan (Subcommand n o) i f = OError EExitUsage.
Proof. exact unknown_subcommand. Qed.
Theorem C19_output_only_if_valid : forall a i f path w,
  output_action a (plan a i f) = Some (path, w) ->
  exists n o p, a = Subcommand n o /\ n = T "convert" /\ plan a i f = OPlan p /\ path = o_output o /\ w = p_writer p /\
    get_file_type (o_itype o) (splitext (o_input o)) = Ok (reader_type (p_reader p)) /\
    get_file_type (o_otype o) (splitext (o_output o)) = Ok (writer_type w) /\ writable (writer_type w) = true /\
    sources_ok i f = true.
Proof. exact output_only_if_valid. Qed.

(* ---- configuration parsing accepts exactly the documented values.
   Full statement (false of the faithful model, see Findings/C19.v):
       forall k v, v <> JNull -> (accepts k v = true <-> documented k v = true).
   Proved: the same, for the 16 keys other than colours and font stacks, on every value outside the executable
   triggers of the three recorded findings (Spec/CliSpec.v trigger). *)
Theorem C19_config_accepts_partial : forall k v,
  table_key k = true -> v <> JNull -> trigger k v = false -> (accepts k v = true <-> documented k v = true).
Proof. exact config_accepts. Qed.
(* no trigger is involved for imsc_writer.time_format: the decoder is exact *)
Theorem C19_config_accepts_time_format : forall v, v <> JNull -> (accepts KTimeFormat v = true <-> documented KTimeFormat v = true).
Proof. exact acc_time_format. Qed.
(* colours and font stacks, partial.  Colours: every documented colour (named, #rrggbb, #rrggbbaa, rgb(), rgba() with
   components 0..255) shorter than CPython's int() digit limit is accepted, and non-strings are rejected.  Missing: the
   converse for strings (an accepted string outside the trigger is documented) — the regular-expression scanners of
   parse_color against the grammar.  Font stacks: non-strings rejected, a single family name of two or more letters
   is documented and accepted; multi-family stacks and quoted names are covered by the probe and correspondence
   runs only. *)
Theorem C19_config_accepts_color_complete : forall k s,
  (k = KColor \/ k = KBgColor) -> (Z.of_nat (length s) <=? 4290) = true -> documented k (JStr s) = true -> accepts k (JStr s) = true.
Proof. exact color_complete_documented. Qed.
Theorem C19_config_accepts_color_font_partial :
  (forall k v, (k = KColor \/ k = KBgColor \/ k = KFontStack) -> v <> JNull -> (forall s, v <> JStr s) ->
               accepts k v = false /\ documented k v = false) /\
  (forall k s, (k = KColor \/ k = KBgColor) -> one_of s ttml_named_colors = true -> accepts k (JStr s) = true) /\
  (forall k h, (k = KColor \/ k = KBgColor) -> forallb hexdigit h = true -> (length h = 6 \/ length h = 8)%nat ->
               accepts k (JStr (35 :: h)) = true /\ documented k (JStr (35 :: h)) = true) /\
  (forall s, forallb letter s = true -> (2 <= length s)%nat ->
             accepts KFontStack (JStr s) = true /\ documented KFontStack (JStr s) = true).
Proof. exact (conj acc_not_string (conj color_named_accepted (conj color_hex_accepted font_single_name))). Qed.

(* ---- tie 1 (recompiled whenever the regenerated tables change): M's decoders equal the code on the fixed probe
        set, S is departed from on it only inside recorded findings, defaults and tables are the code's *)
Theorem C19_decoders_on_probe_set : forallb probe_ok gen_probes = true /\ forallb (fun p => negb (probe_class p =? 9)) gen_probes = true.
Proof. exact (conj probes_agree probes_spec_ok). Qed.
Theorem C19_defaults_are_the_codes :
  default_scc = gen_default_scc /\ default_stl = gen_default_stl /\ default_imsc = gen_default_imsc /\
  default_srt = gen_default_srt /\ default_vtt = gen_default_vtt /\ default_lcd = gen_default_lcd /\
  default_general = gen_default_general.
Proof. exact defaults_agree. Qed.

(* ---- non-vacuity *)
Definition ex_opts : options := Build_options (T "dir.d/My File.SCC") (T "out/o.dat") None (Some (T "Ttml")) [T "lcd"; T "nope"; T "lcd"].
Definition ex_inline : json := JObj [(T "lcd", JObj [(T "safe_area", JInt 99)])].
Definition ex_file : json :=
  JObj [(T "general", JObj [(T "document_lang", JStr (T "es-419"))]); (T "lcd", JObj [(T "safe_area", JInt 5)]);
        (T "imsc_writer", JObj [(T "fps", JStr (T "30000/1001")); (T "time_format", JStr (T "frames"))])].
Example C19_example_plan :
  plan (Subcommand (T "convert") ex_opts) (IGiven ex_inline) (FGiven ex_file) =
  OPlan (Build_plan_t (RdScc None) (Some (T "es-419"))
           [FLcd (Build_lcd_cfg 5 false None None); FLcd (Build_lcd_cfg 5 false None None)]
           (WrTtml (Some (Build_imsc_cfg (Some TfFrames) (Some (30000, 1001))))) (Some 20) (Some true)).
Proof. vm_compute. reflexivity. Qed.
Example C19_example_errors :
  plan (Subcommand (T "convert") ex_opts) (IGiven ex_inline) FAbsent = OError EValue /\        (* safe_area 99 *)
  plan (Subcommand (T "convert") (Build_options (T "a.srt") (T "b.scc") None None [])) IAbsent FAbsent = OError EExitUnsupported /\
  plan (Subcommand (T "convert") (Build_options (T "a.txt") (T "b.srt") None None [])) IAbsent FAbsent = OError EValue /\
  plan (Subcommand (T "frobnicate") ex_opts) IAbsent FAbsent = OError EExitUsage.
Proof. vm_compute. repeat split; reflexivity. Qed.
Example C19_example_table :
  trigger KSafeArea (JInt 31) = false /\ accepts KSafeArea (JInt 31) = false /\ accepts KSafeArea (JInt 30) = true /\
  trigger KFps (JStr (T "30000/1001")) = false /\ accepts KFps (JStr (T "30000/1001")) = true /\
  trigger KStartTc (JStr (T "10:00:00:00")) = false /\ trigger KTextFormatting (JBool false) = false.
Proof. vm_compute. repeat split; reflexivity. Qed.

Print Assumptions C19_types_iff.  Print Assumptions C19_types_unique.  Print Assumptions C19_types.
Print Assumptions C19_unsupported_types.  Print Assumptions C19_precedence.  Print Assumptions C19_inline_alone.
Print Assumptions C19_malformed_inline.  Print Assumptions C19_filters_order.  Print Assumptions C19_filters_configured.
Print Assumptions C19_lang_override.  Print Assumptions C19_errors_no_output.  Print Assumptions C19_help_no_output.
Print Assumptions C19_unknown_subcommand.  Print Assumptions C19_output_only_if_valid.
Print Assumptions C19_config_accepts_partial.  Print Assumptions C19_config_accepts_time_format.
Print Assumptions C19_config_accepts_color_complete.  Print Assumptions C19_config_accepts_color_font_partial.  Print Assumptions C19_decoders_on_probe_set.
Print Assumptions C19_defaults_are_the_codes.
