From TT Require Import Proofs.C16.All.
