(* C16 — the LCD filter simplifies style and layout but keeps the text timeline.
   M = Model/Lcd.v (`lcd cfg d : res doc`, transcription of LCDDocFilter.process and the two clean-up filters),
   S = Spec/LcdSpec.v.  Every statement is for all documents, all configurations and (timeline) all rational times;
   the hypotheses are the well-formedness facts of the canonical model (C15) that the list-based document type does not
   carry: style dictionaries of regions have unique keys, regions have unique ids, references name regions of the
   document, region geometry is of its value class and not in em (style_properties.py validate).
   Statements that are false of the faithful model are refuted in Findings/C16.v and proved here as `_partial` under
   the executable triggers of Model/LcdCases.v. *)
From Coq Require Import Permutation.
From TT Require Import Proofs.C16.All.

(* no animation step anywhere in the result *)
Theorem C16_no_anim : forall c d d', lcd c d = Ok d' -> no_anim d'.
Proof. exact no_anim_thm. Qed.

(* every region occupies exactly the safe area: origin (sa%, sa%), extent ((100-2sa)%, (100-2sa)%) *)
Theorem C16_safe_area : forall c d d', lcd c d = Ok d' -> safe_area (c_sa c) d'.
Proof. exact safe_area_thm. Qed.

(* style keys of elements, regions and initial values are within displayAlign / extent / origin and, as configured,
   color / backgroundColor / textAlign (a configured colour is the only value of its key; textAlign is center unless preserved).
   Full statement (false: Findings/C16.v C16_whitelist_refuted, finding lcd-position-survives):
     forall c d d', lcd c d = Ok d' -> region_keys_unique d -> whitelist (c_pta c) (c_color c) (c_bg c) d'.
   Partial: when tts:position occurs on region elements only. *)
Theorem C16_whitelist_partial : forall c d d',
  lcd c d = Ok d' -> region_keys_unique d -> trig_position_content d = false ->
  whitelist (c_pta c) (c_color c) (c_bg c) d'.
Proof. exact whitelist_partial_thm. Qed.

(* merged: the remaining regions are regions of the source and pairwise different in (timing, source writing mode,
   resulting displayAlign) — the proof shows them different already in (timing, resulting displayAlign) *)
Theorem C16_merged : forall c d d', lcd c d = Ok d' -> regions_have_ids d -> merged d d'.
Proof. exact merged_thm. Qed.

(* all references redirected: every region reference of the result names a region of the result *)
Theorem C16_refs_redirected : forall c d d',
  lcd c d = Ok d' -> regions_have_ids d -> refs_in_doc d -> refs_resolved d'.
Proof. exact refs_resolved_thm. Qed.

(* ... and redirected to the retained region: the body keeps its skeleton (kinds, ids, timing, text) and every region
   reference is mapped by one function f of the region id; f leaves remaining regions alone and sends every region to a
   remaining region of equal timing (begin None = 0, equal ends; since fix c0beb1f an end of 0 is no longer "unbounded") *)
Theorem C16_redirected : forall c d d',
  lcd c d = Ok d' -> regions_have_ids d -> NoDup (rids (d_regions d)) -> refs_in_doc d ->
  exists f, body_mapped f d d' /\ alias_ok f d d'.
Proof. exact redirected_thm. Qed.

(* applying the filter twice equals applying it once (any safe area below 50; the configuration allows 0..30) *)
Theorem C16_idempotent : forall c d d', lcd c d = Ok d' -> region_keys_unique d -> c_sa c < 50 -> lcd c d' = Ok d'.
Proof. exact idem_thm. Qed.

(* the filter succeeds (since fix a7b547e also with bg_color on a document without body).
   Full statement (false: Findings/C16.v C16_total_refuted_position, finding lcd-position):
     forall c d, lcd_typed d = true -> exists d', lcd c d = Ok d'.
   Partial: no region carries tts:position with an extent that is not already in rh/rw. *)
Theorem C16_total_partial : forall c d, lcd_typed d = true -> trig_position d = false -> exists d', lcd c d = Ok d'.
Proof. exact total_partial_thm. Qed.

(* text timeline: at every time the visible leaves — TTML2 leaf specification of Spec/IsdSpec.v (C01), each leaf tagged with
   the xml:id of its paragraph — are the same multiset before and after the filter.
   Full statement (false: Findings/C16.v C16_timeline_refuted_nested, finding lcd-nested-region-conflict):
     forall c d d' t, lcd c d = Ok d' -> regions_have_ids d -> NoDup (rids (d_regions d)) -> refs_in_doc d ->
       no_hiding_b d = true -> timeline_at d d' t.
   Partial: no element carries a region attribute below an ancestor associated with another region that the filter merges
   with it. *)
Theorem C16_timeline_partial : forall c d d' t,
  lcd c d = Ok d' -> regions_have_ids d -> NoDup (rids (d_regions d)) -> refs_in_doc d ->
  no_hiding_b d = true -> trig_nested c d = false ->
  timeline_at d d' t.
Proof. exact timeline_thm. Qed.
(* the same without the tags: the lists C01 proves a snapshot shows, region by region *)
Theorem C16_timeline_leaves_partial : forall c d d' t,
  lcd c d = Ok d' -> regions_have_ids d -> NoDup (rids (d_regions d)) -> refs_in_doc d ->
  no_hiding_b d = true -> trig_nested c d = false ->
  Permutation (all_leaves_spec d t) (all_leaves_spec d' t).
Proof. exact timeline_leaves_thm. Qed.

(* the hypotheses are satisfiable by a document on which the filter does something: two regions of equal timing, the second
   referenced by a division with an animated, styled paragraph; the filter merges them, and the text stays visible *)
Definition ex_region (i : text) (st : smap) : elem := Elem (mkAttrs KRegion (Some i) None None None st [] false [] []) [].
Definition ex_doc : doc :=
  mkDoc [ex_region [114; 48] [(p_Origin, VCoord (mkLen (inject_Z 10) Upct) (mkLen (inject_Z 20) Upct))]; ex_region [114; 49] [(p_WritingMode, VEnum 2)]]
        (Some (Elem (mkAttrs KBody None None None None [] [] false [] [])
           [Elem (mkAttrs KDiv None None None (Some [114; 49]) [] [] false [] [])
              [Elem (mkAttrs KP (Some [112]) (Some (inject_Z 1)) (Some (inject_Z 3)) None [(p_FontStyle, VEnum 1)]
                             [mkAnim p_Color None (Some (inject_Z 2)) (VColor 255); mkAnim p_Color (Some (inject_Z 2)) None (VColor 65535)] false [] [])
                 [Elem (mkAttrs KSpan None None None None [] [] false [] []) [Elem (mkAttrs KText None None None None [] [] false [] [104; 105]) []]]]]))
        [] 15 32 1080 1920 None None [].
Definition ex_cfg : lcd_cfg := mkCfg 10 false (Some 4294967295) None.
Example C16_example :
  lcd_typed ex_doc = true /\ trig_position ex_doc = false /\ trig_position_content ex_doc = false /\
  no_hiding_b ex_doc = true /\ trig_nested ex_cfg ex_doc = false /\
  region_keys_unique ex_doc /\ regions_have_ids ex_doc /\ NoDup (rids (d_regions ex_doc)) /\ refs_in_doc ex_doc /\
  exists d', lcd ex_cfg ex_doc = Ok d' /\ Z.of_nat (length (d_regions d')) = 1 /\
             visible ex_doc (inject_Z 2) = [(Some [112], LText [104; 105])] /\ visible d' (inject_Z 2) = [(Some [112], LText [104; 105])].
Proof.
  repeat (split; [vm_compute; reflexivity|]).
  split. { intros r [<-|[<-|[]]]; cbn; repeat constructor; cbn; intuition discriminate. }
  split. { intros r [<-|[<-|[]]]; eexists; reflexivity. }
  split. { cbn. repeat constructor; cbn; intuition discriminate. }
  split. { intros a r [<-|[<-|[<-|[<-|[<-|[]]]]]] H; cbn in H; try discriminate. inversion H; subst.
           exists (ex_region [114; 49] [(p_WritingMode, VEnum 2)]). split; [right; left; reflexivity | reflexivity]. }
  eexists. split; [vm_compute; reflexivity|]. split; [reflexivity|]. split; vm_compute; reflexivity.
Qed.

(* the two repaired defects (fixed: a7b547e, c0beb1f) on their old witnesses: bg_color on a document without body succeeds;
   a region with end = 0 is no longer merged with an always-active one *)
Example C16_fixed_witnesses :
  (exists d', lcd (mkCfg 10 false None (Some 4278190335)) (mkDoc [] None [] 15 32 1080 1920 None None []) = Ok d') /\
  (exists d', lcd (mkCfg 10 false None None)
                  (mkDoc [Elem (mkAttrs KRegion (Some [114; 48]) None (Some 0%Q) None [] [] false [] []) []; ex_region [114; 49] []]
                         None [] 15 32 1080 1920 None None []) = Ok d' /\ Z.of_nat (length (d_regions d')) = 2).
Proof. split; eexists; [vm_compute; reflexivity | split; [vm_compute; reflexivity | reflexivity]]. Qed.

Print Assumptions C16_no_anim.  Print Assumptions C16_safe_area.  Print Assumptions C16_whitelist_partial.
Print Assumptions C16_merged.  Print Assumptions C16_refs_redirected.  Print Assumptions C16_redirected.  Print Assumptions C16_idempotent.
Print Assumptions C16_total_partial.  Print Assumptions C16_timeline_partial.  Print Assumptions C16_timeline_leaves_partial.
Print Assumptions C16_example.  Print Assumptions C16_fixed_witnesses.
