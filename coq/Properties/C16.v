(* C16 — the LCD filter simplifies style and layout but keeps the text timeline.
   M = Model/Lcd.v (`lcd cfg d : res doc`, transcription of LCDDocFilter.process and the two clean-up filters),
   S = Spec/LcdSpec.v.  Every statement is for all documents and all configurations; hypotheses are the
   well-formedness facts of the canonical model (C15) that the list-based document type does not carry:
   style dictionaries of regions have unique keys, regions have ids, references name regions of the document.
   Statements that are false of the faithful model are refuted in Findings/C16.v and proved here as `_partial`
   under the executable triggers of Model/LcdCases.v. *)
From TT Require Import Proofs.C16.All.

(* no animation step anywhere in the result *)
Theorem C16_no_anim : forall c d d', lcd c d = Ok d' -> no_anim d'.
Proof. exact no_anim_thm. Qed.

(* every region occupies exactly the safe area: origin (sa%, sa%), extent ((100-2sa)%, (100-2sa)%) *)
Theorem C16_safe_area : forall c d d', lcd c d = Ok d' -> safe_area (c_sa c) d'.
Proof. exact safe_area_thm. Qed.

(* style keys of elements, regions and initial values are within displayAlign / extent / origin and, as configured,
   color / backgroundColor / textAlign.
   Full statement (false: Findings/C16.v C16_whitelist_refuted, finding lcd-position-survives):
     forall c d d', lcd c d = Ok d' -> region_keys_unique d -> whitelist (c_pta c) (c_color c) (c_bg c) d'.
   Partial: when tts:position occurs on region elements only. *)
Theorem C16_whitelist_partial : forall c d d',
  lcd c d = Ok d' -> region_keys_unique d -> trig_position_content d = false ->
  whitelist (c_pta c) (c_color c) (c_bg c) d'.
Proof. exact whitelist_partial_thm. Qed.

(* all references redirected: every region reference of the result names a region of the result *)
Theorem C16_refs_redirected : forall c d d',
  lcd c d = Ok d' -> regions_have_ids d -> refs_in_doc d -> refs_resolved d'.
Proof. exact refs_resolved_thm. Qed.

(* applying the filter twice equals applying it once (any safe area below 50; the configuration allows 0..30) *)
Theorem C16_idempotent : forall c d d', lcd c d = Ok d' -> region_keys_unique d -> c_sa c < 50 -> lcd c d' = Ok d'.
Proof. exact idem_thm. Qed.

Print Assumptions C16_no_anim.  Print Assumptions C16_safe_area.  Print Assumptions C16_whitelist_partial.
Print Assumptions C16_refs_redirected.  Print Assumptions C16_idempotent.
