(* C16 — the LCD filter simplifies style and layout but keeps the text timeline.
   M = Model/Lcd.v (`lcd cfg d : res doc`, transcription of LCDDocFilter.process and the two clean-up filters),
   S = Spec/LcdSpec.v.  Every statement is for all documents, all configurations and (timeline) all rational times;
   the hypotheses are the well-formedness facts of the canonical model (C15) that the list-based document type does not
   carry: style dictionaries of regions have unique keys, regions have unique ids, references name regions of the
   document, region geometry is of its value class and not in em (style_properties.py validate).
   The one statement that is false of the faithful model (the text timeline, finding lcd-nested-region-conflict) is refuted in
   Findings/C16.v and proved here as `_partial` under the executable trigger of Model/LcdCases.v.  M follows /repo after the
   repairs d8691ec (extent computed before tts:position), 5958b0b (tts:position supported on regions only) and 2d34128
   (tts:textAlign in the fingerprint when it is preserved): whitelist and totality are full theorems since. *)
From Coq Require Import Permutation.
From TT Require Import Proofs.C16.All.

(* no animation step anywhere in the result *)
Theorem C16_no_anim : forall c d d', lcd c d = Ok d' -> no_anim d'.
Proof. exact no_anim_thm. Qed.

(* every region occupies exactly the safe area: origin (sa%, sa%), extent ((100-2sa)%, (100-2sa)%) *)
Theorem C16_safe_area : forall c d d', lcd c d = Ok d' -> safe_area (c_sa c) d'.
Proof. exact safe_area_thm. Qed.

(* style keys of elements, regions and initial values are within displayAlign / extent / origin and, as configured,
   color / backgroundColor / textAlign (a configured colour is the only value of its key; textAlign is center unless preserved).
   Full since fix 5958b0b (tts:position is supported on regions only, where it is converted to tts:origin and removed). *)
Theorem C16_whitelist : forall c d d',
  lcd c d = Ok d' -> region_keys_unique d -> regions_childless d ->
  whitelist (c_pta c) (c_color c) (c_bg c) d'.
Proof. exact whitelist_thm. Qed.

(* merged: the remaining regions are regions of the source and pairwise different in (timing, source writing mode,
   resulting displayAlign and, when text alignment is preserved, their own textAlign: since fix 2d34128 regions that differ
   in it are kept apart) — the proof shows them different already in (timing, resulting displayAlign, preserved textAlign) *)
Theorem C16_merged : forall c d d', lcd c d = Ok d' -> regions_have_ids d -> merged (c_pta c) d d'.
Proof. exact merged_thm. Qed.

(* all references redirected: every region reference of the result names a region of the result *)
Theorem C16_refs_redirected : forall c d d',
  lcd c d = Ok d' -> regions_have_ids d -> refs_in_doc d -> refs_resolved d'.
Proof. exact refs_resolved_thm. Qed.

(* ... and redirected to the retained region: the body keeps its skeleton (kinds, ids, timing, text) and every region
   reference is mapped by one function f of the region id; f leaves remaining regions alone and sends every region to a
   remaining region of equal timing (begin None = 0, equal ends; since fix c0beb1f an end of 0 is no longer "unbounded") *)
Theorem C16_redirected : forall c d d',
  lcd c d = Ok d' -> regions_have_ids d -> NoDup (rids (d_regions d)) -> refs_in_doc d ->
  exists f, body_mapped f d d' /\ alias_ok f d d'.
Proof. exact redirected_thm. Qed.

(* applying the filter twice equals applying it once (any safe area below 50; the configuration allows 0..30) *)
Theorem C16_idempotent : forall c d d', lcd c d = Ok d' -> region_keys_unique d -> c_sa c < 50 -> lcd c d' = Ok d'.
Proof. exact idem_thm. Qed.

(* the filter succeeds on every document whose region geometry is of its value class and units (style_properties.py validate,
   enforced by set_style / put_initial_value) — since fix a7b547e also with bg_color on a document without body, since fix
   d8691ec also on regions with tts:position, whatever their extent: no trigger is left *)
Theorem C16_total : forall c d, lcd_typed d = true -> exists d', lcd c d = Ok d'.
Proof. exact total_thm. Qed.

(* text timeline: at every time the visible leaves — TTML2 leaf specification of Spec/IsdSpec.v (C01), each leaf tagged with
   the xml:id of its paragraph — are the same multiset before and after the filter.
   Full statement (false: Findings/C16.v C16_timeline_refuted_nested, finding lcd-nested-region-conflict):
     forall c d d' t, lcd c d = Ok d' -> regions_have_ids d -> NoDup (rids (d_regions d)) -> refs_in_doc d ->
       no_hiding_b d = true -> timeline_at d d' t.
   Partial: no element carries a region attribute below an ancestor associated with another region that the filter merges
   with it. *)
Theorem C16_timeline_partial : forall c d d' t,
  lcd c d = Ok d' -> regions_have_ids d -> NoDup (rids (d_regions d)) -> refs_in_doc d ->
  no_hiding_b d = true -> trig_nested c d = false ->
  timeline_at d d' t.
Proof. exact timeline_thm. Qed.
(* the same without the tags: the lists C01 proves a snapshot shows, region by region *)
Theorem C16_timeline_leaves_partial : forall c d d' t,
  lcd c d = Ok d' -> regions_have_ids d -> NoDup (rids (d_regions d)) -> refs_in_doc d ->
  no_hiding_b d = true -> trig_nested c d = false ->
  Permutation (all_leaves_spec d t) (all_leaves_spec d' t).
Proof. exact timeline_leaves_thm. Qed.

(* nothing is lost — for EVERY document (display / visibility / opacity styling or not, nested region conflicts or not): at every time
   every (paragraph, leaf) that is visible before the filter occurs after it at least as often.  (Text can be gained: the filter removes
   display styling, and merging two regions resolves a nested conflict — the recorded finding.)  The second form is the executable
   clause of Spec/LcdSpec.v that the check evaluates on the implementation's result. *)
Theorem C16_timeline_kept : forall c d d' t,
  lcd c d = Ok d' -> regions_have_ids d -> NoDup (rids (d_regions d)) -> refs_in_doc d ->
  forall x, (cnt x (visible d t) <= cnt x (visible d' t))%nat.
Proof. exact timeline_kept_thm. Qed.
Theorem C16_timeline_kept_b : forall c d d' t,
  lcd c d = Ok d' -> regions_have_ids d -> NoDup (rids (d_regions d)) -> refs_in_doc d -> timeline_kept_b d d' t = true.
Proof. exact timeline_kept_b_thm. Qed.

(* the filter succeeds and keeps the text timeline: totality and the timeline theorem in one statement *)
Theorem C16_total_timeline_partial : forall c d t,
  lcd_typed d = true -> regions_have_ids d -> NoDup (rids (d_regions d)) -> refs_in_doc d ->
  no_hiding_b d = true -> trig_nested c d = false ->
  exists d', lcd c d = Ok d' /\ timeline_at d d' t.
Proof. exact total_timeline_thm. Qed.

(* computed colours and alignment: in every snapshot (Model/Isd.v: the transcription of ISD.from_model tied to isd.py by C01/C03/C13)
   of the filtered document, at every time, an element that carries tts:color carries the configured colour, every paragraph carries
   the configured background colour, and — unless text alignment is preserved — tts:textAlign = center.  Hypothesis: the content
   model of the canonical document (regions are region elements; in the body no region element, br/text without children, no p
   inside a p — model.py's push_child type checks). *)
Theorem C16_computed : forall c d d' t s,
  lcd c d = Ok d' -> lcd_content_b d = true -> isd d' t = Ok s ->
  computed_b (c_pta c) (c_color c) (c_bg c) s = true.
Proof. exact computed_thm. Qed.

(* preserved alignment: with preserve_text_align, for the alias function f of C16_redirected, every source region x and the region x' of
   the result that stands for it (rid x' = f (rid x)) give every element of the body — every prefix of every chain — the same computed
   text alignment (Spec/LcdSpec.v computed_align: nearest specified tts:textAlign going up, else the region's, else the initial value).
   True since fix 2d34128 (regions are merged only when their own tts:textAlign agrees); ta_typed: region textAlign values are
   enumeration members (TextAlign.validate). *)
Theorem C16_alignment_preserved : forall c d d',
  lcd c d = Ok d' -> c_pta c = true -> regions_have_ids d -> NoDup (rids (d_regions d)) -> refs_in_doc d -> ta_typed d ->
  exists f, body_mapped f d d' /\ alias_ok f d d' /\ align_kept f d d'.
Proof. exact align_thm. Qed.
(* ... and computed_align is the value C03 specifies (Spec/StyleSpec.v `plain`, proved of the snapshot model by C03_plain_value) for a
   chain without tts:textAlign animation: links are (element, interval) pairs from the root of the body down, r is the region *)
Theorem C16_alignment_is_cascade : forall d t r riv, e_kind r = KRegion -> static_ta r ->
  forall links : list StyleSpec.link, (forall x, In x links -> e_kind (fst x) <> KRegion /\ static_ta (fst x)) ->
  StyleSpec.plain d t p_TextAlign (rev links ++ [(r, riv)]) = computed_align d r (map fst links).
Proof. exact align_is_plain. Qed.

(* the hypotheses are satisfiable by a document on which the filter does something: two regions of equal timing, the second
   referenced by a division with an animated, styled paragraph; the filter merges them, and the text stays visible *)
Definition ex_region (i : text) (st : smap) : elem := Elem (mkAttrs KRegion (Some i) None None None st [] false [] []) [].
Definition ex_doc : doc :=
  mkDoc [ex_region [114; 48] [(p_Origin, VCoord (mkLen (inject_Z 10) Upct) (mkLen (inject_Z 20) Upct))]; ex_region [114; 49] [(p_WritingMode, VEnum 2)]]
        (Some (Elem (mkAttrs KBody None None None None [] [] false [] [])
           [Elem (mkAttrs KDiv None None None (Some [114; 49]) [] [] false [] [])
              [Elem (mkAttrs KP (Some [112]) (Some (inject_Z 1)) (Some (inject_Z 3)) None [(p_FontStyle, VEnum 1)]
                             [mkAnim p_Color None (Some (inject_Z 2)) (VColor 255); mkAnim p_Color (Some (inject_Z 2)) None (VColor 65535)] false [] [])
                 [Elem (mkAttrs KSpan None None None None [] [] false [] []) [Elem (mkAttrs KText None None None None [] [] false [] [104; 105]) []]]]]))
        [] 15 32 1080 1920 None None [].
Definition ex_cfg : lcd_cfg := mkCfg 10 false (Some 4294967295) None.
Example C16_example :
  lcd_typed ex_doc = true /\ lcd_content_b ex_doc = true /\
  no_hiding_b ex_doc = true /\ trig_nested ex_cfg ex_doc = false /\
  region_keys_unique ex_doc /\ regions_childless ex_doc /\ regions_have_ids ex_doc /\ NoDup (rids (d_regions ex_doc)) /\ refs_in_doc ex_doc /\
  exists d', lcd ex_cfg ex_doc = Ok d' /\ Z.of_nat (length (d_regions d')) = 1 /\
             visible ex_doc (inject_Z 2) = [(Some [112], LText [104; 105])] /\ visible d' (inject_Z 2) = [(Some [112], LText [104; 105])] /\
             exists s, isd d' (inject_Z 2) = Ok s /\ Z.of_nat (length s) = 1.
Proof.
  repeat (split; [vm_compute; reflexivity|]).
  split. { intros r [<-|[<-|[]]]; cbn; repeat constructor; cbn; intuition discriminate. }
  split. { intros r [<-|[<-|[]]]; reflexivity. }
  split. { intros r [<-|[<-|[]]]; eexists; reflexivity. }
  split. { cbn. repeat constructor; cbn; intuition discriminate. }
  split. { intros a r [<-|[<-|[<-|[<-|[<-|[]]]]]] H; cbn in H; try discriminate. inversion H; subst.
           exists (ex_region [114; 49] [(p_WritingMode, VEnum 2)]). split; [right; left; reflexivity | reflexivity]. }
  eexists. split; [vm_compute; reflexivity|]. split; [reflexivity|]. split; [vm_compute; reflexivity|]. split; [vm_compute; reflexivity|].
  eexists. split; [vm_compute; reflexivity | reflexivity].
Qed.

(* the three defects repaired in the second phase (d8691ec, 5958b0b, 2d34128) on their old witnesses: a region with tts:position
   10% 10% and tts:extent 80% 80% is filtered; tts:position on a paragraph is gone; with preserve_text_align two regions that
   differ only in tts:textAlign are kept apart (and merged without it) *)
Definition ex_pos : value := VPos (mkLen (inject_Z 10) Upct) 0 (mkLen (inject_Z 10) Upct) 0.
Definition ex_p (rs : list elem) (pst : smap) : doc :=
  mkDoc rs (Some (Elem (mkAttrs KBody None None None None [] [] false [] [])
                    [Elem (mkAttrs KDiv None None None (Some [114; 49]) [] [] false [] [])
                       [Elem (mkAttrs KP (Some [112]) None None None pst [] false [] []) []]])) [] 15 32 1080 1920 None None [].
Example C16_repaired_witnesses :
  (exists d', lcd (mkCfg 10 false None None)
                  (ex_p [ex_region [114; 49] [(p_Position, ex_pos); (p_Extent, VExtent (mkLen (inject_Z 80) Upct) (mkLen (inject_Z 80) Upct))]] []) = Ok d') /\
  (exists d', lcd (mkCfg 10 false None None) (ex_p [ex_region [114; 49] []] [(p_Position, ex_pos)]) = Ok d' /\
              whitelist_b false None None d' = true) /\
  (exists d', lcd (mkCfg 10 true None None) (ex_p [ex_region [114; 48] [(p_TextAlign, VEnum 0)]; ex_region [114; 49] [(p_TextAlign, VEnum 1)]] []) = Ok d' /\
              Z.of_nat (length (d_regions d')) = 2) /\
  (exists d', lcd (mkCfg 10 false None None) (ex_p [ex_region [114; 48] [(p_TextAlign, VEnum 0)]; ex_region [114; 49] [(p_TextAlign, VEnum 1)]] []) = Ok d' /\
              Z.of_nat (length (d_regions d')) = 1).
Proof.
  split; [eexists; vm_compute; reflexivity|].
  split; [eexists; split; vm_compute; reflexivity|].
  split; eexists; (split; [vm_compute; reflexivity | reflexivity]).
Qed.

(* the hypotheses of C16_alignment_preserved are satisfiable: two regions with different tts:textAlign, preserve_text_align set *)
Definition ex_ta_doc : doc := ex_p [ex_region [114; 48] [(p_TextAlign, VEnum 0)]; ex_region [114; 49] [(p_TextAlign, VEnum 1)]] [].
Example C16_alignment_example :
  c_pta (mkCfg 10 true None None) = true /\ regions_have_ids ex_ta_doc /\ NoDup (rids (d_regions ex_ta_doc)) /\ refs_in_doc ex_ta_doc /\
  ta_typed ex_ta_doc /\ exists d', lcd (mkCfg 10 true None None) ex_ta_doc = Ok d'.
Proof.
  split; [reflexivity|].
  split. { intros r [<-|[<-|[]]]; eexists; reflexivity. }
  split. { cbn. repeat constructor; cbn; intuition discriminate. }
  split. { intros a r [<-|[<-|[<-|[]]]] H; cbn in H; try discriminate. inversion H; subst.
           exists (ex_region [114; 49] [(p_TextAlign, VEnum 1)]). split; [right; left; reflexivity | reflexivity]. }
  split. { intros r [<-|[<-|[]]]; exact I. }
  eexists. vm_compute. reflexivity.
Qed.

(* the two defects repaired earlier (fixed: a7b547e, c0beb1f) on their old witnesses: bg_color on a document without body succeeds;
   a region with end = 0 is no longer merged with an always-active one *)
Example C16_fixed_witnesses :
  (exists d', lcd (mkCfg 10 false None (Some 4278190335)) (mkDoc [] None [] 15 32 1080 1920 None None []) = Ok d') /\
  (exists d', lcd (mkCfg 10 false None None)
                  (mkDoc [Elem (mkAttrs KRegion (Some [114; 48]) None (Some 0%Q) None [] [] false [] []) []; ex_region [114; 49] []]
                         None [] 15 32 1080 1920 None None []) = Ok d' /\ Z.of_nat (length (d_regions d')) = 2).
Proof. split; eexists; [vm_compute; reflexivity | split; [vm_compute; reflexivity | reflexivity]]. Qed.

Print Assumptions C16_no_anim.  Print Assumptions C16_safe_area.  Print Assumptions C16_whitelist.
Print Assumptions C16_merged.  Print Assumptions C16_refs_redirected.  Print Assumptions C16_redirected.  Print Assumptions C16_idempotent.
Print Assumptions C16_total.  Print Assumptions C16_total_timeline_partial.  Print Assumptions C16_computed.
Print Assumptions C16_timeline_kept.  Print Assumptions C16_timeline_kept_b.  Print Assumptions C16_alignment_preserved.  Print Assumptions C16_alignment_is_cascade.  Print Assumptions C16_timeline_partial.  Print Assumptions C16_timeline_leaves_partial.
Print Assumptions C16_example.  Print Assumptions C16_alignment_example.  Print Assumptions C16_repaired_witnesses.  Print Assumptions C16_fixed_witnesses.
