(* C04 — reading IMSC/TTML XML follows TTML timing semantics.
   Only statements, `exact`, and Print Assumptions.  M = Model/ImscTime.v, Model/ImscTiming.v (transcription of
   ttconv/imsc/utils.py, attributes.py, elements.py), S = Spec/TtmlTimingSpec.v.  All statements are for unbounded
   inputs (every time expression of the grammar, every XML tree, every parsing context). *)
From TT Require Import Base.Prelude Base.ImscXml Model.ImscTime Model.ImscTiming Spec.TtmlTimingSpec.
From TT Require Import Proofs.C04.TimeSyntax Proofs.C04.Interval Proofs.C04.Total Proofs.C04.Params.
From Coq Require Import QArith.
Local Open Scope Z_scope.

(* every member of the TTML2 <time-expression> grammar (clock time with fraction, clock time with frames, and the
   h / m / s / ms / f / t offsets), printed, is parsed to the value the grammar gives it under the frame rate and the
   tick rate; a frames term that is not smaller than the frame rate is rejected *)
Theorem C04_time_syntax : forall e tr fr, wf_texpr e = true -> 0 < tr -> (0 < fr)%Q ->
  tres_equiv (parse_time_x (Some tr) (Some fr) (print_time e)) (time_value fr (inject_Z tr) e).
Proof. exact time_syntax. Qed.

(* a string whose last character is neither a digit nor a metric letter is not a time expression *)
Theorem C04_time_not_in_grammar : forall l c, is_digit c = false -> ~ In c [104; 109; 115; 102; 116] -> ~ in_grammar (l ++ [c]).
Proof. exact not_in_grammar_last. Qed.
(* full statement, not proved (what is missing: the completeness direction of the recognisers):
     C04_time_reject_partial : forall tr fr s, lax_trigger s = false -> ~ in_grammar s -> parse_time tr fr s = None
   the unconditional statement is refuted in Findings/C04.v (C04_time_reject_refuted). *)

(* intervals: for every XML tree x and every parsing context in which the reader model returns (and reports no
   content-model error), its desired begin and end of x are the begin and end of the TTML2 interval semantics of x,
   relative to the begin of the parent, with the syncbase the reader was given (0 in a par parent, the end of the
   previous sibling in a seq parent); by induction on the tree *)
Theorem C04_interval : forall ev x pc r,
  process ev pc x = POk r -> r_pushfail r = false ->
  exists sync, implicit_begin pc = Some sync /\
    (r_des_begin r == fst (interval (tv_of ev) (negb (pc_par pc)) sync x))%Q /\
    oq_rel (r_des_end r) (snd (interval (tv_of ev) (negb (pc_par pc)) sync x)).
Proof. exact interval_sound. Qed.

(* totality: with non-zero rates, a tree without sequential containers is always read.  The unconditional statement is
   refuted in Findings/C04.v (C04_read_total_refuted, finding seq-indefinite-sibling; C04_zero_rate_refuted). *)
Theorem C04_read_total_partial : forall ev x pc, rates_ok ev -> pc_par pc = true -> no_seq x = true ->
  forall e, process ev pc x <> PErr e.
Proof. intros ev x pc H. exact (read_total_no_seq ev x H pc). Qed.

(* document parameters on well-formed attribute values *)
Theorem C04_frame_rate : forall attrs fr mult, frame_rate_wf attrs fr mult ->
  exists q, extract_frame_rate attrs = Some q /\ (q == spec_frame_rate attrs)%Q /\ (q == inject_Z fr * mult)%Q.
Proof. exact frame_rate_given. Qed.
Theorem C04_tick_rate_partial : forall attrs s n, get_attr attrs A_tickRate = Some s -> pos_int s = Some n ->
  extract_tick_rate attrs = n /\ (spec_tick_rate attrs == inject_Z n)%Q.
Proof. exact tick_rate_given. Qed.
Theorem C04_tick_rate_default_partial : forall attrs, get_attr attrs A_tickRate = None -> spec_frame_rate_attr attrs = None ->
  extract_tick_rate attrs = 1 /\ (spec_tick_rate attrs == 1)%Q.
Proof. exact tick_rate_default. Qed.

(* non-vacuity: "00:00:01:12" at 25 fps is 1.48 s; <div begin="1s"><p dur="2s"/><p end="5s"/></div> ends at 6 s *)
Example C04_example_clock_frames :
  parse_time (Some 1) (Some (25 # 1)) (print_time (TClockFrames [0; 0] 0 0 0 1 [1; 2])) = Some (0 * 3600 + 0 * 60 + 1 + (12 # 1) / (25 # 1))%Q.
Proof. reflexivity. Qed.
Example C04_example_interval :
  let x := X T_div [(A_begin, [49; 115])] None None [X T_p [(A_dur, [50; 115])] None None []; X T_p [(A_end, [53; 115])] None None []] in
  match process (mkEnv 1 (30 # 1) [] (fun _ _ => false)) (mkPctx true None 0 false [] true) x with
  | POk r => Qeq_bool (r_des_begin r) 1 && match r_des_end r with Some e => Qeq_bool e 6 | None => false end && negb (r_pushfail r)
  | _ => false
  end = true.
Proof. vm_compute. reflexivity. Qed.

Print Assumptions C04_time_syntax.  Print Assumptions C04_time_not_in_grammar.  Print Assumptions C04_interval.
Print Assumptions C04_read_total_partial.  Print Assumptions C04_frame_rate.  Print Assumptions C04_tick_rate_partial.
Print Assumptions C04_tick_rate_default_partial.
