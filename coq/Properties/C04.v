From TT Require Import Base.Prelude Base.ImscXml Model.ImscTime Model.ImscTiming Spec.TtmlTimingSpec.
From TT Require Import Proofs.C04.TimeSyntax Proofs.C04.Interval.
