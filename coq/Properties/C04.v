(* C04 — reading IMSC/TTML XML follows TTML timing semantics.
   Only statements, `exact`, and Print Assumptions.  M = Model/ImscTime.v, Model/ImscTiming.v, Model/ImscStyles.v (transcription of
   ttconv/imsc/utils.py, attributes.py, elements.py), S = Spec/TtmlTimingSpec.v, Spec/TtmlStyleSpec.v,
   Spec/TtmlColorSpec.v (colour values: M = Model/ImscWrite.v parse_color, transcription of ttconv/utils.py).  All statements are for
   unbounded inputs (every string, every attribute list, every XML tree, every parsing context, every style table).
   An XML tree (Base/ImscXml.v xml) has any qualified name as tag and any children, each with its own text and tail: the trees the
   theorems quantify over - C04_interval, C04_process_total, C04_read_total, C04_bad_attr_* - contain, anywhere, children that are no
   content elements (tt:metadata and the ttm: vocabulary, foreign elements, unknown tt: elements, the comment and processing-instruction
   nodes of ElementTree); C04_noncontent_* say what the reader does with them. *)
From TT Require Import Base.Prelude Base.ImscXml Model.ImscTime Model.ImscStyles Model.ImscTiming Spec.TtmlTimingSpec Spec.TtmlContentSpec.
From TT Require Import Model.ImscWrite Spec.TtmlColorSpec Proofs.C04.Color.
From TT Require Import Proofs.C04.TimeSyntax Proofs.C04.TimeReject Proofs.C04.Interval Proofs.C04.Total Proofs.C04.Params Proofs.C04.BadAttr Proofs.C04.Styles Proofs.C04.Flatten Proofs.C04.Transparent.
From Coq Require Import QArith.
Local Open Scope Z_scope.

(* every member of the TTML2 <time-expression> grammar (clock time with fraction, clock time with frames, and the
   h / m / s / ms / f / t offsets), printed, is parsed to the value the grammar gives it under the frame rate and the
   tick rate; a frames term that is not smaller than the frame rate is rejected *)
Theorem C04_time_syntax : forall e tr fr, wf_texpr e = true -> (0 < tr)%Q -> (0 < fr)%Q ->
  tres_equiv (parse_time_x (Some tr) (Some fr) (print_time e)) (time_value fr tr e).
Proof. exact time_syntax. Qed.

(* a string whose last character is neither a digit nor a metric letter is not a time expression *)
Theorem C04_time_not_in_grammar : forall l c, is_digit c = false -> ~ In c [104; 109; 115; 102; 116] -> ~ in_grammar (l ++ [c]).
Proof. exact not_in_grammar_last. Qed.
(* rejection: every string outside the grammar has no value, whatever the rates; under non-zero rates it is reported as malformed
   (ValueError: logged, attribute ignored) *)
Theorem C04_time_reject : forall tr fr s, ~ in_grammar s -> parse_time tr fr s = None.
Proof. exact time_reject. Qed.
Theorem C04_time_reject_malformed : forall tr fr s, ~ in_grammar s -> Qeq_bool tr 0 = false -> Qeq_bool fr 0 = false ->
  parse_time_x (Some tr) (Some fr) s = TBad.
Proof. exact time_reject_bad. Qed.

(* intervals: for every XML tree x and every parsing context in which the reader model returns (and reports no
   content-model error), its desired begin and end of x are the begin and end of the TTML2 interval semantics of x,
   relative to the begin of the parent, with the syncbase the reader was given (0 in a par parent, the end of the
   previous sibling in a seq parent); by induction on the tree *)
Theorem C04_interval : forall ev x pc r,
  process ev pc x = POk r -> r_pushfail r = false ->
  exists sync, implicit_begin pc = Some sync /\
    (r_des_begin r == fst (interval (tv_of ev) (negb (pc_par pc)) sync x))%Q /\
    oq_rel (r_des_end r) (snd (interval (tv_of ev) (negb (pc_par pc)) sync x)).
Proof. exact interval_sound. Qed.

(* totality: with non-zero rates no exception leaves process, for every tree (par and seq containers, any content model, any
   style table) in every context that has a syncbase; the parameter readers never return a zero rate; hence every <tt> tree is
   read, whatever its attribute values *)
Theorem C04_process_total : forall ev x pc, rates_ok ev -> implicit_begin pc <> None -> forall e, process ev pc x <> PErr e.
Proof. intros ev x pc H. exact (process_total ev x H pc). Qed.
Theorem C04_rates_positive : forall attrs, (0 < extract_frame_rate attrs)%Q /\ (0 < extract_tick_rate attrs)%Q.
Proof. intro attrs. split; [apply frame_rate_positive|apply tick_rate_positive]. Qed.
Theorem C04_read_total : forall tm vl x, exists d, read_tt tm vl x = DOk d.
Proof. exact read_tt_total. Qed.

(* document parameters, for EVERY attribute list (well-formed, malformed, zero or absent values): the effective frame rate and the
   tick rate the reader uses are those of TTML2 7.2 (malformed values ignored; tick rate default = effective frame rate when
   ttp:frameRate is specified, else 1) *)
Theorem C04_frame_rate : forall attrs, (extract_frame_rate attrs == spec_frame_rate attrs)%Q.
Proof. exact frame_rate_spec. Qed.
Theorem C04_tick_rate : forall attrs, (extract_tick_rate attrs == spec_tick_rate attrs)%Q.
Proof. exact tick_rate_spec. Qed.
Theorem C04_frame_rate_given : forall attrs fr mult, frame_rate_wf attrs fr mult -> (extract_frame_rate attrs == inject_Z fr * mult)%Q.
Proof. exact frame_rate_given. Qed.

(* malformed attributes are ignored: the element is read exactly as without the attribute, in every context, for a begin / dur / end
   value that is not a time expression, an xml:space value other than default / preserve, a timeContainer value other than seq (par is
   the default), a tts:ruby value that is not one of the six keywords; a style attribute whose value is rejected is skipped by specified
   styling, and a value the model rejects in a referenced or nested <style> is skipped by referential / nested styling *)
Theorem C04_bad_attr_ignored_time : forall ev pc tag attrs txt tail cs a s,
  time_attr a -> get_attr attrs a = Some s -> parse_time_x (Some (e_tr ev)) (Some (e_fr ev)) s = TBad ->
  (forall v, e_to_model ev a v = None) ->
  process ev pc (X tag attrs txt tail cs) = process ev pc (X tag (remove_attr attrs a) txt tail cs).
Proof. exact bad_time_attr_ignored. Qed.
Theorem C04_bad_attr_ignored_space : forall ev pc tag attrs txt tail cs v,
  get_attr attrs A_space = Some v -> text_eqb v V_default = false -> text_eqb v V_preserve = false ->
  (forall w, e_to_model ev A_space w = None) ->
  process ev pc (X tag attrs txt tail cs) = process ev pc (X tag (remove_attr attrs A_space) txt tail cs).
Proof. exact bad_space_ignored. Qed.
Theorem C04_bad_attr_ignored_time_container : forall ev pc tag attrs txt tail cs v,
  get_attr attrs A_timeContainer = Some v -> text_eqb v V_seq = false ->
  (forall w, e_to_model ev A_timeContainer w = None) ->
  process ev pc (X tag attrs txt tail cs) = process ev pc (X tag (remove_attr attrs A_timeContainer) txt tail cs).
Proof. exact bad_time_container_ignored. Qed.
Theorem C04_bad_attr_ignored_ruby : forall ev pc tag attrs txt tail cs v,
  get_attr attrs A_ruby = Some v -> ruby_keyword v = false -> (forall w, e_to_model ev A_ruby w = None) ->
  process ev pc (X tag attrs txt tail cs) = process ev pc (X tag (remove_attr attrs A_ruby) txt tail cs).
Proof. exact bad_ruby_ignored. Qed.
Theorem C04_bad_attr_ignored_style : forall tm vl attrs a v,
  get_attr attrs a = Some v -> (tm a v = None \/ exists p x, tm a v = Some (p, x) /\ vl p x = false) ->
  forall d, NoDup (List.map fst attrs) -> apply_specified tm vl attrs d = apply_specified tm vl (remove_attr attrs a) d.
Proof. exact bad_style_attr_ignored. Qed.
Theorem C04_bad_attr_in_style_element_ignored : forall tm vl attrs a v,
  get_attr attrs a = Some v -> (tm a v = None \/ exists p x, tm a v = Some (p, x) /\ vl p x = false) ->
  forall d, NoDup (List.map fst attrs) -> collect tm vl attrs d = collect tm vl (remove_attr attrs a) d.
Proof. exact bad_attr_in_style_element_ignored. Qed.
Theorem C04_bad_value_in_style_ignored : forall vl s1 k x s2, vl k x = false ->
  forall d, merge_absent vl (s1 ++ (k, x) :: s2) d = merge_absent vl (s1 ++ s2) d.
Proof. exact invalid_style_value_ignored. Qed.
(* not covered: attributes the reader does not know are ignored without a log record (finding unknown-attribute-not-logged; log records
   are not modelled). *)

(* style precedence of the reader model, as look-up equations for every property p: specified styling makes an inline value win over
   what the element had; set-if-absent keeps what the element has (nested styling before referential) and takes the first valid value
   of the style; references are visited later ones first and the first style that has (a valid value of) p provides it *)
Theorem C04_styles_inline : forall tm vl attrs d p,
  dict_get (apply_specified tm vl attrs d) p = inline_value tm vl attrs p (dict_get d p).
Proof. exact specified_get. Qed.
Theorem C04_styles_set_if_absent : forall vl src d p,
  dict_get (merge_absent vl src d) p = match dict_get d p with Some x => Some x | None => valid_get vl src p end.
Proof. exact merge_absent_get. Qed.
Theorem C04_styles_referential : forall vl t refs d p,
  dict_get (referential vl t refs d) p = match dict_get d p with Some x => Some x | None => first_provider vl t refs p end.
Proof. exact referential_get. Qed.

(* chained referential styling: StylingElement.from_xml flattens the table with merge_chained (on every style, in declaration order,
   mutating the table as it goes).  For a table whose reference graph has no loop (loops are an error in TTML2) - whatever the order in
   which the styles are declared, with diamonds, missing references - every style ends without references and with the dictionary of
   its TTML2 resolution [resolve]: its own attributes first, then the resolutions of the styles it references, later references first.
   [rank] is any numbering that decreases along the references to defined styles and stays below the size of the table. *)
Theorem C04_styles_flatten : forall t rank, acyclic_ranked t rank ->
  forall i s, tbl_get (flatten t) i = Some s -> st_refs s = [] /\ forall p, dict_get (st_styles s) p = resolve t (length t) i p.
Proof. exact flatten_resolves. Qed.
(* hence the result does not depend on the declaration order: two tables with the same styles under the same identifiers give the same
   look-ups *)
Theorem C04_styles_flatten_order_independent : forall t u rank, acyclic_ranked t rank -> acyclic_ranked u rank ->
  (forall j, tbl_get t j = tbl_get u j) -> length t = length u ->
  forall i s s' p, tbl_get (flatten t) i = Some s -> tbl_get (flatten u) i = Some s' -> dict_get (st_styles s) p = dict_get (st_styles s') p.
Proof. exact flatten_order_independent. Qed.
(* [resolve] on the model's table is compared with Spec/TtmlStyleSpec.v style_set on the XML (attribute strings, well-formedness table)
   on generated style graphs: any declaration order, depth up to 6, diamonds, conflicting properties. *)

(* ---- colour values (ttconv/utils.py parse_color, after the repair "parse_color accepted trailing characters, components above 255
   and non-ASCII digits") -------------------------------------------------------------------------------------------------------------
   The strings the reader accepts as a colour are exactly the colour expressions of Spec/TtmlColorSpec.v - the TTML2 <color> syntax
   (named colour | #rrggbb | #rrggbbaa | rgb(r,g,b) | rgba(r,g,b,a), decimal components at most 255) with the documented tolerances
   (letter case of names; white space around decimal components, except before the first comma of rgba()) - and the colour read is
   the one the grammar denotes; every other string is rejected (ValueError: logged, attribute ignored). *)
Theorem C04_color_accepted_iff : forall s c, parse_color s = Some c <-> color_expr s c.
Proof. exact parse_color_iff. Qed.
Theorem C04_color_rejected_iff : forall s, parse_color s = None <-> ~ exists c, color_expr s c.
Proof. exact parse_color_rejects_iff. Qed.
(* every accepted string denotes an RGBA8 colour: four components in [0, 255] *)
Theorem C04_color_rgba8 : forall s c, parse_color s = Some c -> rgba8 c.
Proof. exact parse_color_rgba8. Qed.
(* every strict TTML2 <color> (no white space, names in lower case) is accepted with its denotation *)
Theorem C04_color_ttml_accepted : forall s c, ttml_color s c -> parse_color s = Some c.
Proof. exact ttml_color_accepted. Qed.
(* the leniencies the repair removed, each for all strings of the shape: "#" followed by other than six or eight characters; an rgb() /
   rgba() whose components have the shape of the grammar and one of which exceeds 255; any string with a character outside ASCII
   other than the KELVIN SIGN (digits and white space outside ASCII in particular) *)
Theorem C04_color_hex_length : forall h, length h <> 6%nat -> length h <> 8%nat -> parse_color (35 :: h) = None.
Proof. exact hex_length_rejected. Qed.
Theorem C04_color_rgb_above_255 : forall r g b, comp_shape r = true -> comp_shape g = true -> comp_shape b = true ->
  255 < comp_value r \/ 255 < comp_value g \/ 255 < comp_value b -> parse_color (yield (ARgb r g b)) = None.
Proof. exact rgb_above_255_rejected. Qed.
Theorem C04_color_rgba_above_255 : forall r g b a, comp_shape r = true -> c_post r = [] -> comp_shape g = true -> comp_shape b = true -> comp_shape a = true ->
  255 < comp_value r \/ 255 < comp_value g \/ 255 < comp_value b \/ 255 < comp_value a -> parse_color (yield (ARgba r g b a)) = None.
Proof. exact rgba_above_255_rejected. Qed.
Theorem C04_color_characters : forall s c, parse_color s = Some c -> forallb plain_char s = true.
Proof. exact parse_color_chars. Qed.

(* ---- children that are no content elements -------------------------------------------------------------------------------------------------
   Elements of the TTML2 metadata vocabulary, comments, processing instructions and elements of foreign namespaces are outside the timed
   vocabulary of the specification and outside the content classes of the reader, whatever their attributes; the reader skips such a
   child in every context (its tail is read by the parent). *)
Theorem C04_noncontent_vocabulary : forall q attrs,
  In q metadata_vocabulary \/ is_comment_or_pi q = true \/ is_foreign q = true -> s_kind q attrs = None /\ classify q attrs = None.
Proof. exact noncontent_vocabulary. Qed.
Theorem C04_noncontent_skipped : forall ev pc c,
  In (x_tag c) metadata_vocabulary \/ is_comment_or_pi (x_tag c) = true \/ is_foreign (x_tag c) = true -> process ev pc c = PSkip.
Proof. exact noncontent_skipped. Qed.
Theorem C04_untimed_skipped : forall ev pc c, timed c = false -> process ev pc c = PSkip.
Proof. exact untimed_skip. Qed.

(* transparency: for every tree x, environment and parsing context, the reader returns for x what it returns for [strip x] - x without
   every child that its parent does not read as content (Spec/TtmlContentSpec.v keeps: a content element keeps the timed vocabulary, a
   region also its nested styles, a set nothing; recursively), the tail of each removed child appended to the text that precedes it -
   up to the split of adjacent anonymous spans: same outcome, same kind, same desired begin and end, same animation step, same
   content-model error flag, and model elements that are [same_node]: equal but for runs of adjacent anonymous spans t1 .. tn where
   the other has the one anonymous span t1 ++ .. ++ tn.  In particular the implicit end is the same: text after a non-content child
   makes a paragraph indefinite exactly like any other text.
   For every tree: since the repair of seq-region-break-hides-nested-style (the children of a sequential container that follow a child with
   an indefinite end are skipped one by one, so that the nested styles of a region are read wherever they stand) there is no exception. *)
Theorem C04_noncontent_children_transparent : forall ev pc x, pres_rel (process ev pc x) (process ev pc (strip x)).
Proof. intros ev pc x. exact (transparent ev x pc). Qed.
(* the whole document: tt, head, layout and styling read the children they know (head and body; layout and styling; region; initial and
   style) and nothing else - no other child, no text, no tail - and the body and the regions are read as above *)
Theorem C04_read_noncontent_transparent : forall tm vl x, x_tag x = T_tt -> dres_rel (read_tt tm vl x) (read_tt tm vl (strip x)).
Proof. exact read_tt_transparent. Qed.
(* the specification itself is transparent, without exception: the TTML2 interval of every tree is the interval of the tree without the
   children that are no content (a text after such a child makes a paragraph indefinite like any other text; nothing inside such a child
   counts) *)
Theorem C04_spec_interval_transparent : forall tv x pseq sync, interval tv pseq sync (strip x) = interval tv pseq sync x.
Proof. intros tv x pseq sync. exact (interval_strip tv x pseq sync). Qed.
(* what [same_node] keeps besides kinds, times, attributes and styles: the characters, in order *)
Theorem C04_same_node_same_characters : forall n n', same_node n n' -> chars n = chars n'.
Proof. exact same_node_chars. Qed.

(* non-vacuity: "00:00:01:12" at 25 fps is 1.48 s; <div begin="1s"><p dur="2s"/><p end="5s"/></div> ends at 6 s; a seq container whose
   first child never ends is read, with that child only *)
Example C04_example_clock_frames :
  parse_time (Some 1%Q) (Some (25 # 1)) (print_time (TClockFrames [0; 0] 0 0 0 1 [1; 2])) = Some (0 * 3600 + 0 * 60 + 1 + (12 # 1) / (25 # 1))%Q.
Proof. reflexivity. Qed.
Example C04_example_interval :
  let x := X T_div [(A_begin, [49; 115])] None None [X T_p [(A_dur, [50; 115])] None None []; X T_p [(A_end, [53; 115])] None None []] in
  match process (mkEnv 1 (30 # 1) [] (fun _ _ => None) (fun _ _ => true) []) (mkPctx true (Some 0%Q) false [] true) x with
  | POk r => Qeq_bool (r_des_begin r) 1 && match r_des_end r with Some e => Qeq_bool e 6 | None => false end && negb (r_pushfail r)
  | _ => false
  end = true.
Proof. vm_compute. reflexivity. Qed.
Example C04_example_seq_indefinite :
  let x := X T_div [(A_timeContainer, V_seq)] None None [X T_p [] (Some [97]) None []; X T_p [] (Some [98]) None []] in
  match process (mkEnv 1 (30 # 1) [] (fun _ _ => None) (fun _ _ => true) []) (mkPctx true (Some 0%Q) false [] true) x with
  | POk r => match r_node r with Some (MElem _ _ _ None _ _ _ _ _ [MElem KP _ _ _ _ _ _ _ _ _]) => true | _ => false end
  | _ => false
  end = true.
Proof. vm_compute. reflexivity. Qed.
(* children that are no content: of <p>Hello <metadata begin="5s"><ttm:desc>x</ttm:desc></metadata>world<!-- c -->!<f:x/></p>
   [strip] makes <p>Hello world!</p>, the reader makes three anonymous spans of the first and one of the second;
   <p><span begin="1s" end="2s">one</span><metadata/>two</p> never ends (the tail of the metadata element is text of the paragraph), and
   C04_interval applies to it: the specification says the same *)
Definition ex_env : env := mkEnv 1 (30 # 1) [] (fun _ _ => None) (fun _ _ => true) [].
Definition ex_pc : pctx := mkPctx true (Some 0%Q) false [] true.
Definition ex_mixed : xml :=
  X T_p [] (Some [72; 101; 108; 108; 111; 32]) None
    [X T_metadata [(A_begin, [53; 115])] None (Some [119; 111; 114; 108; 100]) [X T_ttm_desc [] (Some [120]) None []];
     X T_comment [] (Some [32; 99; 32]) (Some [33]) [];
     X (100, [120]) [] None None []].
Example C04_example_noncontent_strip :
  strip ex_mixed = X T_p [] (Some [72; 101; 108; 108; 111; 32; 119; 111; 114; 108; 100; 33]) None [] /\
  match process ex_env ex_pc ex_mixed, process ex_env ex_pc (strip ex_mixed) with
  | POk r, POk r' =>
      match r_node r, r_node r' with
      | Some (MElem KP _ _ None _ _ _ _ _ [MElem KSpan _ _ _ _ _ _ _ _ [MText a]; MElem KSpan _ _ _ _ _ _ _ _ [MText b]; MElem KSpan _ _ _ _ _ _ _ _ [MText c]]),
        Some (MElem KP _ _ None _ _ _ _ _ [MElem KSpan _ _ _ _ _ _ _ _ [MText abc]]) => (a ++ b ++ c)%list = abc
      | _, _ => False
      end
  | _, _ => False
  end.
Proof. repeat split. Qed.
(* the shape of the repaired finding: <region xml:id="r" timeContainer="seq"><p>a</p><metadata/><style tts:color="x"/></region> - the nested
   style after the metadata element is read (the region gets the style), as in the document without the metadata element *)
Definition ex_env_color : env :=
  mkEnv 1 (30 # 1) [] (fun q _ => if qname_eqb q (NS_TTS, [99; 111; 108; 111; 114]) then Some (1, SO 0) else None) (fun _ _ => true) [].
Definition ex_seq_region : xml :=
  X T_region [(A_id, [114]); (A_timeContainer, V_seq)] None None
    [X T_p [] (Some [97]) None []; X T_metadata [] None None []; X T_style [((NS_TTS, [99; 111; 108; 111; 114]), [120])] None None []].
Example C04_example_seq_region_nested_style :
  match process ex_env_color ex_pc ex_seq_region with
  | POk r => match r_node r with Some (MElem KRegion _ _ _ _ _ _ st _ _) => st = [(1, SO 0)] | _ => False end
  | _ => False
  end /\ process ex_env_color ex_pc (strip ex_seq_region) = process ex_env_color ex_pc ex_seq_region.
Proof. split; reflexivity. Qed.
Definition ex_tail : xml :=
  X T_p [] None None
    [X T_span [(A_begin, [49; 115]); (A_end, [50; 115])] (Some [111; 110; 101]) None []; X T_metadata [] None (Some [116; 119; 111]) []].
Example C04_example_noncontent_tail :
  match process ex_env ex_pc ex_tail with
  | POk r => r_des_end r = None /\ r_pushfail r = false /\ snd (interval (tv_of ex_env) false 0 ex_tail) = None
  | _ => False
  end.
Proof. repeat split. Qed.
(* a style declared before the styles it references (c -> b -> a, declared c, b, a): the hypotheses of C04_styles_flatten hold and the nearer style wins *)
Example C04_example_flatten :
  let ta := mkSty [97] [(1, SO 10); (2, SO 20)] [] in
  let tb := mkSty [98] [(1, SO 11)] [[97]] in
  let tc := mkSty [99] [(3, SO 30)] [[98]] in
  let t := [tc; tb; ta] in
  acyclic_ranked t (fun i => match i with [97] => O | [98] => 1%nat | _ => 2%nat end) /\
  match tbl_get (flatten t) [99] with
  | Some s => (dict_get (st_styles s) 1, dict_get (st_styles s) 2, dict_get (st_styles s) 3) = (Some (SO 11), Some (SO 20), Some (SO 30))
  | None => False
  end.
Proof. exact flatten_example. Qed.

(* colours: "rgba( 1,2 , 3,\t255 )" is a colour expression (and denotes (1, 2, 3, 255)); "#ff0000x", "rgb(1,2,256)", "rgb(1,2,3) " and
   "rgba(1 ,2,3,4)" are none; the hypotheses of C04_color_rgb_above_255 are satisfiable *)
Example C04_example_color_tolerant :
  color_expr [114; 103; 98; 97; 40; 32; 49; 44; 50; 32; 44; 32; 51; 44; 9; 50; 53; 53; 32; 41] (1, 2, 3, 255).
Proof. apply parse_color_iff. reflexivity. Qed.
Example C04_example_color_rejected :
  parse_color [35; 102; 102; 48; 48; 48; 48; 120] = None /\ parse_color [114; 103; 98; 40; 49; 44; 50; 44; 50; 53; 54; 41] = None /\
  parse_color [114; 103; 98; 40; 49; 44; 50; 44; 51; 41; 32] = None /\ parse_color [114; 103; 98; 97; 40; 49; 32; 44; 50; 44; 51; 44; 52; 41] = None /\
  parse_color [114; 103; 98; 40; 1633; 44; 50; 44; 51; 41] = None.
Proof. repeat split; reflexivity. Qed.
Example C04_example_color_above_255 :
  let c := mkComp [] [50; 53; 54] [32] in comp_shape c = true /\ 255 < comp_value c.
Proof. split; reflexivity. Qed.

Print Assumptions C04_time_syntax.  Print Assumptions C04_time_not_in_grammar.  Print Assumptions C04_time_reject.  Print Assumptions C04_time_reject_malformed.
Print Assumptions C04_interval.  Print Assumptions C04_process_total.  Print Assumptions C04_rates_positive.  Print Assumptions C04_read_total.
Print Assumptions C04_frame_rate.  Print Assumptions C04_tick_rate.  Print Assumptions C04_frame_rate_given.
Print Assumptions C04_bad_attr_ignored_time.  Print Assumptions C04_bad_attr_ignored_space.  Print Assumptions C04_bad_attr_ignored_time_container.
Print Assumptions C04_bad_attr_in_style_element_ignored.  Print Assumptions C04_bad_attr_ignored_ruby.  Print Assumptions C04_bad_attr_ignored_style.  Print Assumptions C04_bad_value_in_style_ignored.
Print Assumptions C04_styles_inline.  Print Assumptions C04_styles_set_if_absent.  Print Assumptions C04_styles_referential.
Print Assumptions C04_styles_flatten.  Print Assumptions C04_styles_flatten_order_independent.
Print Assumptions C04_color_accepted_iff.  Print Assumptions C04_color_rejected_iff.  Print Assumptions C04_color_rgba8.  Print Assumptions C04_color_ttml_accepted.
Print Assumptions C04_color_hex_length.  Print Assumptions C04_color_rgb_above_255.  Print Assumptions C04_color_rgba_above_255.  Print Assumptions C04_color_characters.
Print Assumptions C04_noncontent_vocabulary.  Print Assumptions C04_noncontent_skipped.  Print Assumptions C04_untimed_skipped.
Print Assumptions C04_noncontent_children_transparent.  Print Assumptions C04_read_noncontent_transparent.  Print Assumptions C04_same_node_same_characters.  Print Assumptions C04_spec_interval_transparent.
