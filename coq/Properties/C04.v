(* C04 — reading IMSC/TTML XML follows TTML timing semantics.
   Only statements, `exact`, and Print Assumptions.  M = Model/ImscTime.v, Model/ImscTiming.v (transcription of
   ttconv/imsc/utils.py, attributes.py, elements.py), S = Spec/TtmlTimingSpec.v.  All statements are for unbounded
   inputs (every time expression of the grammar, every XML tree, every parsing context). *)
From TT Require Import Base.Prelude Base.ImscXml Model.ImscTime Model.ImscStyles Model.ImscTiming Model.ImscTriggers Spec.TtmlTimingSpec.
From TT Require Import Proofs.C04.TimeSyntax Proofs.C04.TimeReject Proofs.C04.Interval Proofs.C04.Total Proofs.C04.TotalSeq Proofs.C04.Params Proofs.C04.BadAttr Proofs.C04.Styles.
From Coq Require Import QArith.
Local Open Scope Z_scope.

(* every member of the TTML2 <time-expression> grammar (clock time with fraction, clock time with frames, and the
   h / m / s / ms / f / t offsets), printed, is parsed to the value the grammar gives it under the frame rate and the
   tick rate; a frames term that is not smaller than the frame rate is rejected *)
Theorem C04_time_syntax : forall e tr fr, wf_texpr e = true -> 0 < tr -> (0 < fr)%Q ->
  tres_equiv (parse_time_x (Some tr) (Some fr) (print_time e)) (time_value fr (inject_Z tr) e).
Proof. exact time_syntax. Qed.

(* a string whose last character is neither a digit nor a metric letter is not a time expression *)
Theorem C04_time_not_in_grammar : forall l c, is_digit c = false -> ~ In c [104; 109; 115; 102; 116] -> ~ in_grammar (l ++ [c]).
Proof. exact not_in_grammar_last. Qed.
(* rejection: a string outside the grammar has no value, unless it ends with a line feed or is a frame offset followed by anything
   (executable trigger lax_trigger: the finding lax-value-syntax; the unconditional statement is refuted in Findings/C04.v) *)
Theorem C04_time_reject_partial : forall tr fr s, lax_trigger s = false -> ~ in_grammar s -> parse_time tr fr s = None.
Proof. exact time_reject. Qed.

(* intervals: for every XML tree x and every parsing context in which the reader model returns (and reports no
   content-model error), its desired begin and end of x are the begin and end of the TTML2 interval semantics of x,
   relative to the begin of the parent, with the syncbase the reader was given (0 in a par parent, the end of the
   previous sibling in a seq parent); by induction on the tree *)
Theorem C04_interval : forall ev x pc r,
  process ev pc x = POk r -> r_pushfail r = false ->
  exists sync, implicit_begin pc = Some sync /\
    (r_des_begin r == fst (interval (tv_of ev) (negb (pc_par pc)) sync x))%Q /\
    oq_rel (r_des_end r) (snd (interval (tv_of ev) (negb (pc_par pc)) sync x)).
Proof. exact interval_sound. Qed.

(* totality: with non-zero rates, a tree without sequential containers is always read, unless set_style raises ValueError during
   referential or nested styling (outcome 5, finding style-invalid-value-abort).  The unconditional statement is refuted in
   Findings/C04.v (C04_read_total_refuted: finding seq-indefinite-sibling; C04_zero_rate_refuted; C04_style_abort_refuted). *)
Theorem C04_read_total_partial : forall ev x pc, rates_ok ev -> pc_par pc = true -> no_seq x = true ->
  forall e, process ev pc x = PErr e -> e = 5.
Proof. intros ev x pc H. exact (read_total_no_seq ev x H pc). Qed.

(* the same with sequential containers and the narrow trigger of the finding seq-indefinite-sibling (Model/ImscTriggers.v: a timed child of
   a seq container follows a sibling whose TTML2 end is indefinite, or a seq br/set/region in a par parent has a timed child): on a
   tree with a plain content model (no ruby containers; children of the kinds their parents accept) on which the trigger does not
   fire, process never raises TypeError or ZeroDivisionError, in any context that has a syncbase *)
Theorem C04_read_total_seq_partial : forall ev x pc, rates_ok ev -> simple_content x = true -> implicit_begin pc <> None ->
  trigger_seq (tv_of ev) (negb (pc_par pc)) x = false -> forall e, process ev pc x = PErr e -> e = 5.
Proof. intros ev x pc Hr Hs. exact (read_total_narrow ev x Hr Hs pc). Qed.

(* document parameters on well-formed attribute values *)
Theorem C04_frame_rate : forall attrs fr mult, frame_rate_wf attrs fr mult ->
  exists q, extract_frame_rate attrs = Some q /\ (q == spec_frame_rate attrs)%Q /\ (q == inject_Z fr * mult)%Q.
Proof. exact frame_rate_given. Qed.
Theorem C04_tick_rate_partial : forall attrs s n, get_attr attrs A_tickRate = Some s -> pos_int s = Some n ->
  extract_tick_rate attrs = n /\ (spec_tick_rate attrs == inject_Z n)%Q.
Proof. exact tick_rate_given. Qed.
Theorem C04_tick_rate_default_partial : forall attrs, get_attr attrs A_tickRate = None -> spec_frame_rate_attr attrs = None ->
  extract_tick_rate attrs = 1 /\ (spec_tick_rate attrs == 1)%Q.
Proof. exact tick_rate_default. Qed.

(* malformed attributes are ignored: the element is read exactly as without the attribute, in every context, for a begin / dur / end
   value that is not a time expression, an xml:space value other than default / preserve, a timeContainer value other than seq (par is
   the default); and a style attribute whose value is rejected is skipped by specified styling *)
Theorem C04_bad_attr_ignored_time : forall ev pc tag attrs txt tail cs a s,
  time_attr a -> get_attr attrs a = Some s -> parse_time_x (Some (e_tr ev)) (Some (e_fr ev)) s = TBad ->
  (forall v, e_to_model ev a v = None) ->
  process ev pc (X tag attrs txt tail cs) = process ev pc (X tag (remove_attr attrs a) txt tail cs).
Proof. exact bad_time_attr_ignored. Qed.
Theorem C04_bad_attr_ignored_space : forall ev pc tag attrs txt tail cs v,
  get_attr attrs A_space = Some v -> text_eqb v V_default = false -> text_eqb v V_preserve = false ->
  (forall w, e_to_model ev A_space w = None) ->
  process ev pc (X tag attrs txt tail cs) = process ev pc (X tag (remove_attr attrs A_space) txt tail cs).
Proof. exact bad_space_ignored. Qed.
Theorem C04_bad_attr_ignored_time_container : forall ev pc tag attrs txt tail cs v,
  get_attr attrs A_timeContainer = Some v -> text_eqb v V_seq = false ->
  (forall w, e_to_model ev A_timeContainer w = None) ->
  process ev pc (X tag attrs txt tail cs) = process ev pc (X tag (remove_attr attrs A_timeContainer) txt tail cs).
Proof. exact bad_time_container_ignored. Qed.
Theorem C04_bad_attr_ignored_style : forall tm vl attrs a v,
  get_attr attrs a = Some v -> (tm a v = None \/ exists p x, tm a v = Some (p, x) /\ vl p x = false) ->
  forall d, NoDup (List.map fst attrs) -> apply_specified tm vl attrs d = apply_specified tm vl (remove_attr attrs a) d.
Proof. exact bad_style_attr_ignored. Qed.
(* the unconditional "every malformed attribute is ignored and logged" is refuted for the cases of the findings lax-value-syntax,
   zero-rate-division, tt-parameter-abort, bad-ruby-drops-span, style-invalid-value-abort, lax-style-syntax (Findings/C04.v and the
   corrupt stream of the check); log records are not modelled. *)

(* style precedence of the reader model, as look-up equations for every property p: specified styling makes an inline value win over
   what the element had; set-if-absent keeps what the element has (nested styling before referential); references are visited later
   ones first and the first style that has p provides it.  Chained references are flattened beforehand (merge_chained): that step is
   compared with Spec/TtmlStyleSpec.v on generated style graphs only. *)
Theorem C04_styles_inline : forall tm vl attrs d p,
  dict_get (apply_specified tm vl attrs d) p = inline_value tm vl attrs p (dict_get d p).
Proof. exact specified_get. Qed.
Theorem C04_styles_set_if_absent : forall vl src d d' p, merge_absent vl src d = Some d' ->
  dict_get d' p = match dict_get d p with Some x => Some x | None => dict_get src p end.
Proof. exact merge_absent_get. Qed.
Theorem C04_styles_referential : forall vl t refs d d' p, referential vl t refs d = Some d' ->
  dict_get d' p = match dict_get d p with Some x => Some x | None => first_provider t refs p end.
Proof. exact referential_get. Qed.

(* non-vacuity: "00:00:01:12" at 25 fps is 1.48 s; <div begin="1s"><p dur="2s"/><p end="5s"/></div> ends at 6 s *)
Example C04_example_clock_frames :
  parse_time (Some 1) (Some (25 # 1)) (print_time (TClockFrames [0; 0] 0 0 0 1 [1; 2])) = Some (0 * 3600 + 0 * 60 + 1 + (12 # 1) / (25 # 1))%Q.
Proof. reflexivity. Qed.
Example C04_example_interval :
  let x := X T_div [(A_begin, [49; 115])] None None [X T_p [(A_dur, [50; 115])] None None []; X T_p [(A_end, [53; 115])] None None []] in
  match process (mkEnv 1 (30 # 1) [] (fun _ _ => None) (fun _ _ => true) []) (mkPctx true None 0 false [] true) x with
  | POk r => Qeq_bool (r_des_begin r) 1 && match r_des_end r with Some e => Qeq_bool e 6 | None => false end && negb (r_pushfail r)
  | _ => false
  end = true.
Proof. vm_compute. reflexivity. Qed.

Print Assumptions C04_time_syntax.  Print Assumptions C04_time_not_in_grammar.  Print Assumptions C04_time_reject_partial.  Print Assumptions C04_interval.
Print Assumptions C04_read_total_partial.  Print Assumptions C04_read_total_seq_partial.  Print Assumptions C04_frame_rate.  Print Assumptions C04_tick_rate_partial.
Print Assumptions C04_tick_rate_default_partial.
Print Assumptions C04_bad_attr_ignored_time.  Print Assumptions C04_bad_attr_ignored_space.  Print Assumptions C04_bad_attr_ignored_time_container.
Print Assumptions C04_bad_attr_ignored_style.  Print Assumptions C04_styles_inline.  Print Assumptions C04_styles_set_if_absent.  Print Assumptions C04_styles_referential.
