(* C11 — the WebVTT reader reproduces cues, inline markup and cue-setting geometry.
   Only statements, `exact`, and Print Assumptions.  M = Model/VttTokenizer.v + Model/VttReader.v (transcriptions
   of ttconv/vtt/tokenizer.py and ttconv/vtt/reader.py), S = Spec/VttSpec.v.  All statements are for unbounded
   inputs.  What is false of the faithful model is in Findings/C11.v (one finding is left: ruby-structure). *)
From Coq Require Import QArith.
From TT Require Import Base.Prelude Model.VttTokenizer Model.VttReader Spec.VttSpec.
From TT Require Import Proofs.C11.Tokenizer Proofs.C11.Time Proofs.C11.Region Proofs.C11.Tree Proofs.C11.Lines Proofs.C11.Outcome.

(* tokenizing the WebVTT syntax of a token list returns the list: every list of string / start-tag (with classes
   and annotation) / end-tag / timestamp tokens in normal form, of any length.  Annotations may hold any characters:
   `&`, `<`, `>` are printed as character references and decoded by the annotation state (repaired in 541c2c8). *)
Theorem C11_tokenizer_roundtrip : forall ts, nf_list ts -> tokenize (print_tokens ts) = ts.
Proof. exact tokenizer_roundtrip. Qed.
(* the same with strings spelled with any mix of literal characters and character references `&…;` (items): the
   tokenizer returns every string's VALUE - each reference as html.unescape decodes "&…;" (with its `;`, repaired in
   30019ef) - and every other token as printed *)
Theorem C11_tokenizer_items : forall l, nf_items l -> tokenize (items_print l) = map item_token l.
Proof. exact tokenizer_items. Qed.
(* the references WebVTT lists by name decode to the characters the standard gives them *)
Theorem C11_webvtt_named_refs : Forall ref_good (map RefNamed [[97;109;112]; [108;116]; [103;116]; [108;114;109]; [114;108;109]; [110;98;115;112]]).
Proof. exact webvtt_refs_good. Qed.
(* numeric references as a class: &#D…; and &#xH…; of every number that html.unescape maps to itself (a scalar value
   outside html's remapping and removal tables: numeric_charref n = [n], executable) mean that character *)
Theorem C11_dec_ref_good : forall n, 0 <= n < 10 ^ 40 -> numeric_charref n = [n] -> ref_good (RefDec n).
Proof. exact dec_ref_good. Qed.
Theorem C11_hex_ref_good : forall n, 0 <= n < 16 ^ 40 -> numeric_charref n = [n] -> ref_good (RefHex n).
Proof. exact hex_ref_good. Qed.

(* a printed timestamp (hours optional, two or more hour digits) is read as exactly value/1000 *)
Theorem C11_exact_time : forall t, wf_ts t -> vtt_timestamp_to_secs (print_ts t) = Some (Qmake (ts_ms t) 1000).
Proof. exact exact_time. Qed.
Theorem C11_time_value : forall t,
  (Qmake (ts_ms t) 1000 ==
   inject_Z (match ts_hours t with Some hd => digits_value hd | None => 0 end) * 3600 +
   inject_Z (ts_min t) * 60 + inject_Z (ts_sec t) + Qmake (ts_frac t) 1000)%Q.
Proof. exact ts_ms_seconds. Qed.

(* the region selected by ANY list of setting strings - every combination of vertical, line (percentage or line
   number, zero, negative, beyond the grid), position, size, align, valid or not - lies inside the root container with
   non-negative extent.  No trigger hypothesis is left (repairs 5598a49, b972272, ffa7cc9, e725a80, 39537f7). *)
Theorem C11_region_inside : forall cs, inside_root (compute_region cs).
Proof. exact region_inside. Qed.
(* in the words of S: the containment clause of Spec/VttSpec.v (clause 20 of the check) accepts the region M computes
   for every list of setting strings *)
Theorem C11_region_inside_spec : forall cs, VttSpec.region_inside (VttCases.view_region (compute_region cs)) = true.
Proof. exact region_inside_spec. Qed.

(* equal settings share a region: after a cue's settings produced or found region i, the same settings find
   region i again and add nothing, whatever was appended in between; i designates the computed region *)
Theorem C11_region_sharing : forall rs l rs1 i, get_or_make_region rs l = (rs1, i) ->
  (exists added, rs1 = rs ++ added) /\
  (exists r, nth_error rs1 (Z.to_nat i) = Some r /\ region_eqb r (compute_region l) = true) /\
  forall ext, get_or_make_region (rs1 ++ ext) l = (rs1 ++ ext, i).
Proof. exact region_sharing. Qed.
(* over the cues of one document (`assign` = the reader's region list, cue after cue): two cues get the same region
   if and only if their settings compute the same region value - same box, writing mode, display and text alignment *)
Theorem C11_region_sharing_iff : forall ls rs ids a b la lb ia ib, assign [] ls = (rs, ids) ->
  nth_error ls a = Some la -> nth_error ls b = Some lb ->
  nth_error ids a = Some ia -> nth_error ids b = Some ib ->
  (ia = ib <-> region_eqb (compute_region la) (compute_region lb) = true).
Proof. exact region_sharing_iff. Qed.
(* the same for the paragraphs of a file (read_cues = what C11_cues / C11_blocks show to_model computes) *)
Theorem C11_cues_share_region_iff : forall cs rs ps a b ca cb pa pb, Forall (fun c => rc_lines c <> []) cs ->
  read_cues cs [] [] = OkDoc rs ps ->
  nth_error cs a = Some ca -> nth_error cs b = Some cb -> nth_error ps a = Some pa -> nth_error ps b = Some pb ->
  (pa_region pa = pa_region pb <->
   region_eqb (compute_region (rc_settings ca)) (compute_region (rc_settings cb)) = true).
Proof. exact cues_share_region_iff. Qed.

(* cue tree round trip, by induction on the tree: parsing the printed cue text of ANY tree of text (literal characters
   and character references that mean what S says, ref_good), inline timestamps, b/i/u/c.classes/lang/v elements
   (annotations with any characters) nested to any depth and END TAGS THAT CLOSE NOTHING builds exactly the span tree that
   carries those styles on exactly the enclosed text, and every text span carries the begin, relative to the cue, of the
   last timestamp before it in the cue text - inside or outside tags, after any number of timestamps (spans_of threads
   that time through the tree; repaired in f39339e).  What the tree is when end tags are unmatched or misnested
   (repaired in 2ddde69): an end tag that does not name - in lower case, as the reader compares - the innermost open
   element is ignored (SEnd: spans_of gives it no element and lets it end nothing); at the top level of the cue text
   every end tag is ignored (ignored_end None); doubled, wrong-name and upper-case end tags of another name are instances.
   This is the full statement for cue texts without ruby whose elements are all closed. *)
Theorem C11_tree : forall pb ns, wf_nodes ns ->
  parse_cue_text pb (print_cue_text (flat_map nodes_of ns)) = inl (fst (spans_of pb true None ns)).
Proof. exact tree_roundtrip. Qed.
(* the same when end tags are missing: a cue text that ends inside elements (a forest, then a start tag that nothing
   closes, then the same again; an end tag naming an outer element while an inner one is open is ignored, so the outer one
   stays open as well).  Every unclosed element lasts to the end of the cue text and holds what follows its start tag. *)
Theorem C11_tree_unclosed : forall pb t, wf_otree None t ->
  parse_cue_text pb (print_cue_text (onodes t)) = inl (ospans pb true None t).
Proof. exact tree_unclosed_roundtrip. Qed.
(* with ruby.  Full statement (every cue text of the grammar Spec.VttSpec.cnode): refuted, Findings
   C11_ruby_structure_refuted / C11_ruby_base_timestamp_refuted (recorded finding ruby-structure).  Partial: ruby
   elements at the top level of the cue, every base one line of text, annotations any forest of text, timestamps,
   elements and ignored end tags without a line break directly inside rt (wf_tnodes), the last </rt> present or omitted
   (TRubyOmit: </ruby> also ends the open rt, 2ddde69): Rbc holds one Rb per base, Rtc one Rt per annotation, the time
   of the last timestamp is threaded base, annotation, base, … *)
Theorem C11_tree_ruby_partial : forall pb ns, wf_tnodes ns ->
  parse_cue_text pb (print_cue_text (flat_map tnodes_of ns)) = inl (fst (tspans_of pb None ns)).
Proof. exact tree_ruby_roundtrip. Qed.
(* outcome: for EVERY cue text the cue-text parser returns a tree or raises the TypeError / RuntimeError of push_child
   (recorded finding ruby-structure), and for EVERY file text these are the only exceptions of to_model.  AttributeError
   (the parent moved above the paragraph by an unmatched end tag, 2ddde69; ruby_rbc / ruby_rtc unset), UnboundLocalError and
   ValueError cannot occur. *)
Theorem C11_cue_text_exceptions : forall pb txt e, parse_cue_text pb txt = inr e -> e = ExType \/ e = ExRuntime.
Proof. exact cue_text_exceptions. Qed.
Theorem C11_to_model_exceptions : forall file e, to_model file = Raised e -> e = ExType \/ e = ExRuntime.
Proof. exact to_model_exceptions. Qed.

(* the file-level line machine, by induction on the list of cues: a file made of the header line and cue blocks
   (optional identifier line, timing line with hours optional and any setting words, zero or more non-blank
   payload lines) separated by one blank line is read as exactly one paragraph per cue that has a payload, in
   order, with exactly the printed begin and end (rationals), the region its settings select
   (get_or_make_region, shared as in C11_region_sharing) and the tree parsed from its payload; a cue without
   payload yields no paragraph, raises nothing and leaves its neighbours untouched (repaired in 05a353c);
   read_cues (Proofs/C11/Lines.v) is that meaning.  For payloads without leading/trailing CR and without
   backslashes the parsed text is the lines joined by LF.  The empty file is the empty document (7ed55ac).
   NOTE/STYLE/REGION blocks: C11_blocks below. *)
Theorem C11_cues : forall hdr cs, no_lf hdr = true -> Forall rcue_ok cs ->
  to_model (file_text hdr cs) = read_cues cs [] [].
Proof. exact file_cues. Qed.
(* NOTE / STYLE / REGION blocks are skipped, as a theorem about the block splitter for EVERY line list: a file whose
   blocks are cue blocks and blocks to skip - first line "NOTE …" or "STYLE…" followed by any non-blank lines (lines
   holding "-->" included), or any block none of whose lines holds "-->" (REGION blocks) - in any order, reads exactly
   as the file of its cue blocks. *)
Theorem C11_blocks : forall hdr bs, no_lf hdr = true -> Forall rblock_ok bs ->
  to_model (file_text_b hdr bs) = read_cues (cues_of_blocks bs) [] [].
Proof. exact file_blocks. Qed.
Theorem C11_skipped_blocks_invisible : forall hdr bs, no_lf hdr = true -> Forall rblock_ok bs ->
  to_model (file_text_b hdr bs) = to_model (file_text hdr (cues_of_blocks bs)).
Proof. exact skipped_blocks_invisible. Qed.
Theorem C11_note_block : forall first body, line_ok (s_NOTE_ ++ first) = true -> forallb line_ok body = true ->
  rblock_ok (RSkip ((s_NOTE_ ++ first) :: body)).
Proof. exact note_block_ok. Qed.
Theorem C11_style_block : forall first body, line_ok (s_STYLE ++ first) = true -> forallb line_ok body = true ->
  rblock_ok (RSkip ((s_STYLE ++ first) :: body)).
Proof. exact style_block_ok. Qed.
Theorem C11_region_block : forall body,
  forallb (fun l => line_ok l && negb (note_or_style l) && negb (contains s_arrow (nl l))) body = true ->
  rblock_ok (RSkip (s_REGION :: body)).
Proof. exact region_block_ok. Qed.
Theorem C11_empty_file : to_model [] = OkDoc [] [].
Proof. exact empty_file. Qed.
Theorem C11_cue_text_lines : forall c, rc_lines c <> [] -> plain_payload (rc_lines c) = true ->
  cue_text c = join_lf (rc_lines c).
Proof. exact cue_text_plain. Qed.

(* non-vacuity *)
Example C11_example_file :
  Forall rcue_ok [mkRcue (Some [105;100]) (mkTs None 0 1 0) (mkTs (Some [0;0]) 0 2 500) [[108;105;110;101;58;48]] [[97];[98;32;99]];
                  mkRcue None (mkTs None 0 2 600) (mkTs None 0 2 900) [] [];
                  mkRcue None (mkTs None 0 3 0) (mkTs None 0 4 0) [] [[60;98;62;120]]].
Proof. exact file_example. Qed.
Example C11_example_tokens :
  nf_list [TString [97;38;60]; TStart [99] (Some [[114;101;100];[98;103;95;98;108;117;101]]) None; TString [120];
           TEnd [99]; TStart [118] (Some []) (Some [84;111;109;32;38;32;74]); TTs [48;48;58;48;49;46;48;48;48]; TEnd []].
Proof. exact nf_example. Qed.
Example C11_example_items :
  nf_items [IStr [PLit [97]; PRef (RefNamed [108;114;109]); PRef (RefDec 233); PRef (RefHex 128512); PLit [38;60]];
            ITok (TStart [98] None None); IStr [PRef (RefNamed [110;98;115;112])]; ITok (TEnd [98])].
Proof. exact items_example. Qed.
Example C11_example_tree :
  wf_nodes [SText [PLit [97;10;98]]; SEnd [98];
            STag TgB [STag (TgC [[114;101;100]]) [SText [PLit [120]]]; SEnd [105]; STs (mkTs None 0 12 0); SEnd [73]; SText [PLit [121]]];
            SEnd [98];
            STag (TgV [84;111;109;32;38;32;74]) [SText [PLit [122]; PRef (RefNamed [108;114;109])]]; STag (TgLang [101;110]) []].
Proof. exact tree_example. Qed.
Example C11_example_tree_unclosed :
  wf_otree None (OOpen [SText [PLit [97]]] TgB (OOpen [SText [PLit [120]]] TgI
                   (ODone [SText [PLit [121]]; SEnd [98]; SText [PLit [122]]]))).
Proof. exact tree_unclosed_example. Qed.
Example C11_example_numeric_refs : ref_good (RefDec 233) /\ ref_good (RefHex 128512) /\ ref_good (RefDec 60).
Proof. exact numeric_refs_example. Qed.
Example C11_example_tree_ruby :
  wf_tnodes [TPlain (SText [PLit [120]]);
             TRuby [([PLit [98;97;115;101]], [SText [PLit [97;110]]; STag TgB [SText [PLit [110]]]; SEnd [120]]); ([PLit [98;50]], [])];
             TPlain (SText [PLit [121]]);
             TRubyOmit [] ([PLit [98;51]], [SText [PLit [99]]])].
Proof. exact tree_ruby_example. Qed.
(* S accepts what M reads on </b><ruby>a<rt>b</ruby>c</ruby><b><i>x</b>y</i>z (every clause of the judge) *)
Example C11_example_unmatched_judged :
  VttSpec.cue_text_valid (c_payload (match f_blocks unmatched_example with BCue c :: _ => c | _ => mkCue None (mkTs None 0 0 0) (mkTs None 0 0 0) [] [] end)) = true /\
  VttCases.judge unmatched_example (print_file unmatched_example) (to_model (print_file unmatched_example)) = [].
Proof. exact unmatched_example_judged. Qed.
Example C11_example_blocks :
  Forall rblock_ok
    [RSkip [[78;79;84;69;32;97]; [48;48;58;48;49;46;48;48;48;32;45;45;62;32;120]];
     RCue (mkRcue None (mkTs None 0 1 0) (mkTs None 0 2 0) [] [[97]]);
     RSkip [[83;84;89;76;69]; [58;58;99;117;101;32;123;125]];
     RSkip [s_REGION; [105;100;58;102;114;101;100]];
     RCue (mkRcue (Some [105;100]) (mkTs None 0 3 0) (mkTs None 0 4 0) [] [[98]])].
Proof. exact blocks_example. Qed.
Example C11_example_time :
  vtt_timestamp_to_secs (print_ts (mkTs (Some [1;0;2]) 3 4 280)) = Some (Qmake 367384280 1000).
Proof. exact exact_time_example. Qed.

Print Assumptions C11_tokenizer_roundtrip.
Print Assumptions C11_exact_time.
Print Assumptions C11_time_value.
Print Assumptions C11_region_inside.
Print Assumptions C11_region_inside_spec.
Print Assumptions C11_region_sharing.
Print Assumptions C11_region_sharing_iff.
Print Assumptions C11_cues_share_region_iff.
Print Assumptions C11_tokenizer_items.
Print Assumptions C11_webvtt_named_refs.
Print Assumptions C11_dec_ref_good.
Print Assumptions C11_hex_ref_good.
Print Assumptions C11_tree.
Print Assumptions C11_tree_unclosed.
Print Assumptions C11_tree_ruby_partial.
Print Assumptions C11_cue_text_exceptions.
Print Assumptions C11_to_model_exceptions.
Print Assumptions C11_cues.
Print Assumptions C11_blocks.
Print Assumptions C11_skipped_blocks_invisible.
Print Assumptions C11_note_block.
Print Assumptions C11_style_block.
Print Assumptions C11_region_block.
Print Assumptions C11_cue_text_lines.
Print Assumptions C11_empty_file.
