(* C11 — the WebVTT reader reproduces cues, inline markup and cue-setting geometry.
   Only statements, `exact`, and Print Assumptions.  M = Model/VttTokenizer.v + Model/VttReader.v (transcriptions
   of ttconv/vtt/tokenizer.py and ttconv/vtt/reader.py), S = Spec/VttSpec.v.  All statements are for unbounded
   inputs.  What is false of the faithful model is in Findings/C11.v. *)
From Coq Require Import QArith.
From TT Require Import Base.Prelude Model.VttTokenizer Model.VttReader Spec.VttSpec.
From TT Require Import Proofs.C11.Tokenizer Proofs.C11.Time Proofs.C11.Region Proofs.C11.Tree Proofs.C11.Lines.

(* tokenizing the WebVTT syntax of a token list returns the list: every list of string / start-tag (with classes
   and annotation) / end-tag / timestamp tokens in normal form, of any length.
   Full statement (WebVTT also allows character references inside annotations, printed `&amp;`): refuted,
   Findings C11_annotation_charref_refuted; nf_token therefore excludes `&` from annotations. *)
Theorem C11_tokenizer_roundtrip : forall ts, nf_list ts -> tokenize (print_tokens ts) = ts.
Proof. exact tokenizer_roundtrip. Qed.

(* a printed timestamp (hours optional, two or more hour digits) is read as exactly value/1000 *)
Theorem C11_exact_time : forall t, wf_ts t -> vtt_timestamp_to_secs (print_ts t) = Some (Qmake (ts_ms t) 1000).
Proof. exact exact_time. Qed.
Theorem C11_time_value : forall t,
  (Qmake (ts_ms t) 1000 ==
   inject_Z (match ts_hours t with Some hd => digits_value hd | None => 0 end) * 3600 +
   inject_Z (ts_min t) * 60 + inject_Z (ts_sec t) + Qmake (ts_frac t) 1000)%Q.
Proof. exact ts_ms_seconds. Qed.

(* the region selected by ANY list of setting strings outside the recorded triggers lies inside the root
   container with non-negative extent.  Full statement (no trigger hypothesis): refuted, Findings
   C11_region_not_clamped_refuted, C11_line_number_nonpositive_refuted, C11_vertical_line_center_refuted. *)
Theorem C11_region_inside_partial : forall cs, region_trigger cs = false -> inside_root (compute_region cs).
Proof. exact region_inside_partial. Qed.

(* equal settings share a region: after a cue's settings produced or found region i, the same settings find
   region i again and add nothing, whatever was appended in between; i designates the computed region *)
Theorem C11_region_sharing : forall rs l rs1 i, get_or_make_region rs l = (rs1, i) ->
  (exists added, rs1 = rs ++ added) /\
  (exists r, nth_error rs1 (Z.to_nat i) = Some r /\ region_eqb r (compute_region l) = true) /\
  forall ext, get_or_make_region (rs1 ++ ext) l = (rs1 ++ ext, i).
Proof. exact region_sharing. Qed.

(* cue tree round trip, by induction on the tree: parsing the printed cue text of ANY tree of the fragment
   (text, b/i/u/c.classes/lang/v nested to any depth) builds exactly the span tree that carries those styles
   on exactly the enclosed text.  Partial: timestamps, character references other than the printer's escapes
   and ruby are outside the fragment (see Findings for what fails there). *)
Theorem C11_tree_partial : forall pb att ns, wf_nodes ns ->
  parse_cue_text pb att (print_cue_text (map node_of ns)) = inl (spans_of true ns).
Proof. exact tree_roundtrip. Qed.

(* the file-level line machine, by induction on the list of cues: a file made of the header line and cue blocks
   (optional identifier line, timing line with hours optional and any setting words, zero or more non-blank
   payload lines) separated by one blank line is read as exactly one paragraph per cue that has a payload, in
   order, with exactly the printed begin and end (rationals), the region its settings select
   (get_or_make_region, shared as in C11_region_sharing) and the tree parsed from its payload; a cue without
   payload yields no paragraph, raises nothing and leaves its neighbours untouched (repaired in 05a353c);
   read_cues (Proofs/C11/Lines.v) is that meaning.  For payloads without leading/trailing CR and without
   backslashes the parsed text is the lines joined by LF.  The empty file is the empty document (7ed55ac).
   NOTE/STYLE/REGION blocks are not part of this statement (they are exercised by the correspondence run). *)
Theorem C11_cues : forall hdr cs, no_lf hdr = true -> Forall rcue_ok cs ->
  to_model (file_text hdr cs) = read_cues cs [] [].
Proof. exact file_cues. Qed.
Theorem C11_empty_file : to_model [] = OkDoc [] [].
Proof. exact empty_file. Qed.
Theorem C11_cue_text_lines : forall c, rc_lines c <> [] -> plain_payload (rc_lines c) = true ->
  cue_text c = join_lf (rc_lines c).
Proof. exact cue_text_plain. Qed.

(* non-vacuity *)
Example C11_example_file :
  Forall rcue_ok [mkRcue (Some [105;100]) (mkTs None 0 1 0) (mkTs (Some [0;0]) 0 2 500) [[108;105;110;101;58;48]] [[97];[98;32;99]];
                  mkRcue None (mkTs None 0 2 600) (mkTs None 0 2 900) [] [];
                  mkRcue None (mkTs None 0 3 0) (mkTs None 0 4 0) [] [[60;98;62;120]]].
Proof. exact file_example. Qed.
Example C11_example_tokens :
  nf_list [TString [97;38;60]; TStart [99] (Some [[114;101;100];[98;103;95;98;108;117;101]]) None; TString [120];
           TEnd [99]; TStart [118] (Some []) (Some [84;111;109;32;74]); TTs [48;48;58;48;49;46;48;48;48]; TEnd []].
Proof. exact nf_example. Qed.
Example C11_example_region :
  region_trigger [[108;105;110;101;58;50;48;44;101;110;100]; [97;108;105;103;110;58;108;101;102;116]] = false.
Proof. exact region_inside_example. Qed.
Example C11_example_time :
  vtt_timestamp_to_secs (print_ts (mkTs (Some [1;0;2]) 3 4 280)) = Some (Qmake 367384280 1000).
Proof. exact exact_time_example. Qed.

Print Assumptions C11_tokenizer_roundtrip.
Print Assumptions C11_exact_time.
Print Assumptions C11_time_value.
Print Assumptions C11_region_inside_partial.
Print Assumptions C11_region_sharing.
Print Assumptions C11_tree_partial.
Print Assumptions C11_cues.
Print Assumptions C11_cue_text_lines.
Print Assumptions C11_empty_file.
