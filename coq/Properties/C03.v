(* C03 — every snapshot element carries the style values TTML style resolution prescribes.
   M = Model/Isd.v (style_phase, compute_prop), S = Spec/StyleSpec.v (computed_spec). *)
From TT Require Import Model.Doc Gen.StyleTables Model.Isd Spec.IsdSpec Spec.StyleSpec Proofs.C03.Values.

Theorem C03_length_resolution : forall l pct em c px,
  compute_length l pct em c px = match rel l pct em c px with Some r => Ok r | None => Err errCompute end.
Proof. exact compute_length_rel. Qed.
Print Assumptions C03_length_resolution.
