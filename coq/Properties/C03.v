(* C03 — every snapshot element carries the style values TTML style resolution prescribes.
   M = Model/Isd.v (style_phase: animation, specified, direction, inheritance, initial values, ordered computation),
   S = Spec/StyleSpec.v (computed_spec: by-property cascade and length resolution).
   `styles_along d t chain` is the style map M builds for the element at the head of `chain` (its ancestors follow,
   the region last); C03_snapshot_styles ties it to the snapshot tree.
   Proved for EVERY document, time and ancestor chain, for ALL 36 properties (C03_all_properties): the cascade of the
   21 plain properties, tts:fontSize (incl. ruby halving), tts:textDecoration (merged per component), tts:direction
   (writing-mode semantics on regions), tts:writingMode (the region's), tts:extent, tts:origin / tts:position,
   tts:padding, tts:disparity (computed since the repair `fix: tts:disparity was never computed`: resolved like a
   width, right after the font size), tts:lineHeight, tts:linePadding, tts:rubyReserve, tts:textOutline, tts:textShadow and tts:textEmphasis
   (the latter since the repair of _get_writing_mode's use: the region's writing mode is carried down).
   C03_snapshot_values lifts this to every element of every snapshot `isd d t` (rose-tree induction over _process_element).
   The only hypothesis beyond the shape of the chain is `td_typed`: the tts:textDecoration values in effect are
   TextDecoration values (ttconv.model validates this whenever a value is set). *)
From TT Require Import Model.Doc Gen.StyleTables Model.Isd Spec.IsdSpec Spec.StyleSpec.
From TT Require Import Proofs.C03.Values Proofs.C03.Cascade Proofs.C03.Chain Proofs.C03.FontSize.
From TT Require Import Spec.IsdShape.
From TT Require Import Proofs.C03.Phase Proofs.C03.Inherited Proofs.C03.Geometry Proofs.C03.FontRelative Proofs.C03.All Proofs.C03.Snapshot.

Theorem C03_length_resolution : forall l pct em c px,
  compute_length l pct em c px = match rel l pct em c px with Some r => Ok r | None => Err errCompute end.
Proof. exact compute_length_rel. Qed.

(* animation step > specified > inherited (inheritable properties, not on regions) > document initial > default *)
Theorem C03_plain_value : forall d t p, plain_prop p = true -> In p all_props ->
  forall chain st, chain_ok chain = true -> styles_along d t chain = Ok st -> sget st p = plain d t p chain.
Proof. exact styles_along_plain. Qed.
Theorem C03_plain_is_spec : forall d t chain p, plain_prop p = true -> computed_spec d t chain p = plain d t p chain.
Proof. exact plain_is_spec. Qed.

(* font size: % and em of the parent's computed size (one cell for a region), c and px of the cell/pixel height;
   inherited otherwise, ruby text at half the parent's size *)
Theorem C03_font_size : forall d t chain st, chain_ok chain = true -> styles_along d t chain = Ok st ->
  exists l, sget st p_FontSize = Some (VLen l) /\ font_size d t chain = Some l.
Proof. exact styles_along_fontsize. Qed.

(* text decoration: each of underline / line-through / overline is the nearest specified component along the chain *)
Theorem C03_text_decoration : forall d t chain st, chain_ok chain = true -> styles_along d t chain = Ok st ->
  td_typed d t chain = true -> sget st p_TextDecoration = text_decoration d t chain.
Proof. exact styles_along_text_decoration. Qed.

(* direction: on a region without tts:direction it follows a specified tts:writingMode lrtb / rltb; inherited below *)
Theorem C03_direction : forall d t chain st, chain_ok chain = true -> styles_along d t chain = Ok st ->
  sget st p_Direction = direction d t chain.
Proof. exact styles_along_direction. Qed.

(* writing mode: while an element is resolved it carries the computed writing mode of its region *)
Theorem C03_writing_mode : forall d t chain st, chain_ok chain = true -> styles_along d t chain = Ok st ->
  sget st p_WritingMode = writing_mode d t chain.
Proof. exact styles_along_writing_mode. Qed.

(* extent: % of the root container, c / px per axis, em of the element's own computed font size *)
Theorem C03_extent : forall d t chain st, chain_ok chain = true -> styles_along d t chain = Ok st ->
  exists h w, sget st p_Extent = Some (VExtent h w) /\ extent d t chain = Some (h, w).
Proof. exact styles_along_extent. Qed.

(* origin and position coincide; a specified position is resolved against (100 - computed extent) and the edges *)
Theorem C03_origin_position : forall d t chain st, chain_ok chain = true -> styles_along d t chain = Ok st ->
  exists x y, sget st p_Origin = Some (VCoord x y) /\
              sget st p_Position = Some (VPos x e_PositionType_HEdge_left y e_PositionType_VEdge_top) /\
              origin d t chain = Some (x, y).
Proof. exact styles_along_origin. Qed.

(* padding: % of the computed extent along the axis the region's writing mode gives, em of the own font size *)
Theorem C03_padding : forall d t chain st, chain_ok chain = true -> styles_along d t chain = Ok st ->
  sget st p_Padding = padding d t chain.
Proof. exact styles_along_padding. Qed.

(* disparity: % of the root container width, c / px of the cell / pixel width, em of the element's own computed font size *)
Theorem C03_disparity : forall d t chain st, chain_ok chain = true -> styles_along d t chain = Ok st ->
  sget st p_Disparity = disparity d t chain.
Proof. exact styles_along_disparity. Qed.

(* lineHeight, linePadding, rubyReserve, textOutline, textShadow, textEmphasis: specified here -> resolved against the
   element's own computed font size / colour / region writing mode; otherwise the parent's computed value *)
Theorem C03_font_relative : forall d t p, In p fr_props ->
  forall chain st, chain_ok chain = true -> styles_along d t chain = Ok st -> sget st p = font_relative_prop d t p chain.
Proof. exact styles_along_font_relative. Qed.

(* all 36 properties *)
Theorem C03_all_properties : forall d t chain st p, In p all_props -> chain_ok chain = true ->
  (p = p_TextDecoration -> td_typed d t chain = true) ->
  styles_along d t chain = Ok st -> sget st p = computed_spec d t chain p.
Proof. exact styles_along_all. Qed.

(* the style map of a snapshot element is that map restricted to the properties applicable to its kind *)
Theorem C03_snapshot_styles : forall d t sel inh par pb pe a cs a' cs',
  proc d t sel inh par pb pe (Elem a cs) = Ok (Some (Elem a' cs')) ->
  exists st, style_phase d t a par (make_absolute (e_begin a) (e_end a) pb pe) = Ok st /\
             e_styles a' = strip_inapplicable (e_kind a) st.
Proof. exact proc_styles. Qed.

(* whole snapshots: every element of every region of a snapshot, other than br and text nodes, carries for every property
   applicable to its kind the computed value of the source element with its kind and xml:id along its ancestor chain
   (Spec/StyleSpec.v elem_resolved); styles_wf: regions are regions, the body contains none, br / text have no children *)
Theorem C03_snapshot_values : forall d t rs, doc_td_typed d t -> styles_wf d = true -> isd d t = Ok rs ->
  Forall (fun r' => Forall (fun x => elem_resolved d t (eattrs x)) (all_elems r')) rs.
Proof. exact snapshot_values. Qed.

(* the hypotheses of C03_all_properties are satisfiable *)
Example C03_hypotheses_satisfiable : chain_ok ex_chain = true /\ td_typed ex_doc 0 ex_chain = true /\
  exists st, styles_along ex_doc 0 ex_chain = Ok st /\ sget st p_TextDecoration = Some (VTextDec 1 0 0).
Proof. exact ex_hypotheses. Qed.

Example C03_snapshot_hypotheses_satisfiable : doc_td_typed ex_snap_doc 0 /\ styles_wf ex_snap_doc = true /\
  exists rs, isd ex_snap_doc 0 = Ok rs /\ rs <> [].
Proof. exact ex_snap_hypotheses. Qed.

Print Assumptions C03_length_resolution.  Print Assumptions C03_plain_value.  Print Assumptions C03_plain_is_spec.
Print Assumptions C03_font_size.  Print Assumptions C03_text_decoration.  Print Assumptions C03_direction.
Print Assumptions C03_writing_mode.  Print Assumptions C03_extent.  Print Assumptions C03_origin_position.
Print Assumptions C03_padding.  Print Assumptions C03_disparity.  Print Assumptions C03_font_relative.  Print Assumptions C03_all_properties.
Print Assumptions C03_snapshot_styles.  Print Assumptions C03_snapshot_values.  Print Assumptions C03_hypotheses_satisfiable.
Print Assumptions C03_snapshot_hypotheses_satisfiable.
