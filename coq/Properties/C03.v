(* C03 — every snapshot element carries the style values TTML style resolution prescribes.
   M = Model/Isd.v (style_phase: animation, specified, direction, inheritance, initial values, ordered computation),
   S = Spec/StyleSpec.v (computed_spec: by-property cascade and length resolution).
   `styles_along d t chain` is the style map M builds for the element at the head of `chain` (its ancestors follow,
   the region last); C03_snapshot_styles ties it to the snapshot tree.
   Proved for EVERY document, time, chain: the 25 properties whose computed value is the cascaded value, and
   tts:fontSize (the reference of every other relative length, incl. the ruby halving rule).
   Not proved (evaluated on every styled element of the model's and the code's snapshots by harness/c03.py):
   textDecoration merging, direction, and the 8 other length-bearing properties (extent, origin/position, padding,
   lineHeight, linePadding, rubyReserve, textOutline, textShadow) — and textEmphasis, which is REFUTED for the
   faithful model (recorded finding textemphasis-auto-parent-writing-mode). *)
From TT Require Import Model.Doc Gen.StyleTables Model.Isd Spec.IsdSpec Spec.StyleSpec.
From TT Require Import Proofs.C03.Values Proofs.C03.Cascade Proofs.C03.Chain Proofs.C03.FontSize.

Theorem C03_length_resolution : forall l pct em c px,
  compute_length l pct em c px = match rel l pct em c px with Some r => Ok r | None => Err errCompute end.
Proof. exact compute_length_rel. Qed.

(* animation step > specified > inherited (inheritable properties, not on regions) > document initial > default *)
Theorem C03_plain_value : forall d t p, plain_prop p = true -> In p all_props ->
  forall chain st, chain_ok chain = true -> styles_along d t chain = Ok st -> sget st p = plain d t p chain.
Proof. exact styles_along_plain. Qed.
Theorem C03_plain_is_spec : forall d t chain p, plain_prop p = true -> computed_spec d t chain p = plain d t p chain.
Proof. exact plain_is_spec. Qed.

(* font size: % and em of the parent's computed size (one cell for a region), c and px of the cell/pixel height;
   inherited otherwise, ruby text at half the parent's size *)
Theorem C03_font_size : forall d t chain st, chain_ok chain = true -> styles_along d t chain = Ok st ->
  exists l, sget st p_FontSize = Some (VLen l) /\ font_size d t chain = Some l.
Proof. exact styles_along_fontsize. Qed.

(* the style map of a snapshot element is that map restricted to the properties applicable to its kind *)
Theorem C03_snapshot_styles : forall d t sel inh par pb pe a cs a' cs',
  proc d t sel inh par pb pe (Elem a cs) = Ok (Some (Elem a' cs')) ->
  exists st, style_phase d t a par (make_absolute (e_begin a) (e_end a) pb pe) = Ok st /\
             e_styles a' = strip_inapplicable (e_kind a) st.
Proof. exact proc_styles. Qed.

Print Assumptions C03_length_resolution.  Print Assumptions C03_plain_value.  Print Assumptions C03_plain_is_spec.
Print Assumptions C03_font_size.  Print Assumptions C03_snapshot_styles.
