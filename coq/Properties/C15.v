(* C15 - the canonical model stays a well-formed tree under any sequence of API calls.
   M = Model/Heap.v (step), S = Spec/ModelWF.v (WF, wf_b), representation invariant of the private
   state = Model/HeapRep.v (Rep: Region._users is the set of referencing elements, every Region has an
   id), proofs = Proofs/C15/*.v.

   The full statement holds of the model of the repaired code, for every call and every argument:
       Inv h := WF h /\ Rep h
       forall h c, Inv h -> Inv (fst (step h c))
       forall elems ndoc calls, elems_ok elems ndoc = true -> WF (run (init elems ndoc) calls)
       forall h c e, Inv h -> single_element c = true -> snd (step h c) = ORaised e -> fst (step h c) = h
   No call shape is excluded any more (Findings/C15.v is empty). *)
From Coq Require Import List Arith Bool.
From TT Require Import Proofs.C15.All.
Import ListNotations.

Theorem C15_wf_init : forall elems ndoc, elems_ok elems ndoc = true -> WF (init elems ndoc) /\ Rep (init elems ndoc).
Proof. exact init_Inv. Qed.

(* every call - accepted or rejected, whatever its arguments - preserves well-formedness (together with
   the representation invariant that remove_region and put_region rely on) *)
Theorem C15_wf_step : forall h c, WF h /\ Rep h -> WF (fst (step h c)) /\ Rep (fst (step h c)).
Proof. exact step_Inv. Qed.

(* hence every reachable state is well formed: all finite call sequences, no hypothesis on the calls *)
Theorem C15_reachable : forall elems ndoc calls,
  elems_ok elems ndoc = true -> WF (run (init elems ndoc) calls).
Proof. exact reachable_WF. Qed.

(* a rejected single-element call (every method except push_children, remove_children and the two copy_to)
   leaves the model unchanged; this covers the methods added to the machine: remove_animation_step,
   remove_initial_value, set_text, the five document parameters and every read-only method *)
Theorem C15_atomic : forall h c e,
  WF h /\ Rep h -> single_element c = true -> snd (step h c) = ORaised e -> fst (step h c) = h.
Proof. exact step_atomic. Qed.
(* ... and a rejected Ruby/Rtc push_children too (the prefix that was pushed is removed again) *)
Theorem C15_push_children_atomic : forall h s cs e,
  WF h /\ Rep h -> ordered_kind (kind_of h s) = true -> snd (step h (CPushChildren s cs)) = ORaised e ->
  fst (step h (CPushChildren s cs)) = h.
Proof. exact push_children_atomic. Qed.
(* ContentDocument.copy_to is never rejected (so it cannot be half applied either) *)
Theorem C15_doc_copy_to_total : forall h d dst, WF h -> d < ndocs h -> exists h', doc_copy_to h d dst = ROk h'.
Proof. exact doc_copy_to_total. Qed.
(* the read-only methods change nothing *)
Theorem C15_query_pure : forall h q, fst (step h (CQuery q)) = h.
Proof. exact step_query_pure. Qed.

(* fuel adequacy: the link walks of the model are given `nnodes h` (+1) units of fuel; on a well-formed
   heap a chain of parents has no repetition, so that is enough and no call ever answers EFuel *)
Theorem C15_no_fuel : forall h c, WF h /\ Rep h -> snd (step h c) <> ORaised EFuel.
Proof. exact step_no_fuel. Qed.
Theorem C15_dfs_fuel : forall h k s, WF h -> s < nnodes h -> nnodes h <= k -> dfs k h s <> None.
Proof. exact WF_dfs_total. Qed.
Theorem C15_ancestors_bound : forall h i l, WF h -> i < nnodes h -> Path h i l -> S (length l) <= nnodes h.
Proof. exact WF_Path_length. Qed.

(* the doubly linked child lists against the abstraction `children : element -> list element` *)
Theorem C15_push_child_dll : forall h s c cs,
  s < nnodes h -> c < nnodes h -> Children h s cs -> n_parent (nd h c) = None ->
  Children (push_heap h s c) s (cs ++ [c]) /\
  forall p l, p <> s -> Children h p l -> Children (push_heap h s c) p l.
Proof. exact push_child_dll. Qed.
Theorem C15_remove_child_dll : forall h s c a b,
  s < nnodes h -> Children h s (a ++ c :: b) ->
  Children (remove_heap h s c) s (a ++ b) /\
  forall p l, p <> s -> Children h p l -> Children (remove_heap h s c) p l.
Proof. exact remove_child_dll. Qed.

(* acyclic in the usual sense: nobody is its own ancestor *)
Theorem C15_acyclic : forall h i, WF h -> i < nnodes h -> ~ up h i i.
Proof. exact WF_no_cycle. Qed.

(* exactly the values of the property's documented type pass validate (each font-family item included) *)
Theorem C15_validate_sound : forall p v, validate p v = VTrue -> spec_valid p v = true.
Proof. exact validate_sound. Qed.
Theorem C15_validate_iff : forall p v, validate p v = VTrue <-> spec_valid p v = true.
Proof. exact validate_iff. Qed.

(* the executable checker that judges the dumped object graphs is equivalent to the specification *)
Theorem C15_wf_b_sound : forall h, wf_b h = true -> WF h.
Proof. exact wf_b_sound. Qed.
Theorem C15_wf_b_complete : forall h, WF h -> wf_b h = true.
Proof. exact wf_b_complete. Qed.
Theorem C15_wf_b_iff : forall h, wf_b h = true <-> WF h.
Proof. exact wf_b_iff. Qed.
Theorem C15_rep_b_iff : forall h, rep_b h = true <-> Rep h.
Proof. exact rep_b_iff. Qed.

(* the hypotheses are satisfiable by non-trivial histories; the former findings' call shapes are part of
   this one and leave the model well formed *)
Example C15_example_history :
  let elems := [(KBody, Some 0, None); (KDiv, Some 0, None); (KP, Some 0, None); (KSpan, Some 0, None);
                (KRegion, Some 0, Some 1); (KRuby, Some 0, None); (KRb, Some 0, None); (KRt, Some 0, None);
                (KRegion, Some 0, Some 1); (KRtc, None, None); (KRbc, Some 0, None)] in
  let calls := [CPushChild 0 1; CPushChild 1 2; CPushChild 2 3; CPutRegion 0 4; CSetBody 0 (Some 0);
                CSetRegion 2 (Some 4); CSetRegion 5 (Some 4); CSetRegion 3 (Some 8); CPutRegion 0 8;
                CPushChildren 5 [6; 7]; CPushChild 2 5; CPushChild 3 2; CPushChildren 5 [10; 9];
                CSetStyle 3 (PValid PFontFamily) (Some (VTuple [FStr; FGeneric]));
                CSetStyle 3 (PValid PFontFamily) (Some (VTuple [FOther])); CRemoveRegion 0 1; CRemove 3; CSetDoc 0 None;
                CQuery (QDfs 0)] in
  let h := run (init elems 1) calls in
  elems_ok elems 1 = true /\ wf_b h = true /\ rep_b h = true /\
  n_region (nd h 2) = None /\ n_region (nd h 5) = None /\ n_parent (nd h 5) = Some 2 /\ n_doc (nd h 5) = None /\ n_doc (nd h 3) = Some 0.
Proof. vm_compute. repeat split. Qed.

Print Assumptions C15_wf_init.
Print Assumptions C15_wf_step.
Print Assumptions C15_reachable.
Print Assumptions C15_atomic.
Print Assumptions C15_push_children_atomic.
Print Assumptions C15_doc_copy_to_total.
Print Assumptions C15_query_pure.
Print Assumptions C15_no_fuel.
Print Assumptions C15_dfs_fuel.
Print Assumptions C15_ancestors_bound.
Print Assumptions C15_push_child_dll.
Print Assumptions C15_remove_child_dll.
Print Assumptions C15_acyclic.
Print Assumptions C15_validate_sound.
Print Assumptions C15_validate_iff.
Print Assumptions C15_wf_b_sound.
Print Assumptions C15_wf_b_complete.
Print Assumptions C15_wf_b_iff.
Print Assumptions C15_rep_b_iff.
