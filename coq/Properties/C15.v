(* C15 - the canonical model stays a well-formed tree under any sequence of API calls.
   M = Model/Heap.v (step), S = Spec/ModelWF.v (WF, wf_b), triggers of the recorded findings =
   Model/HeapTriggers.v, proofs = Proofs/C15/*.v, refutations = Findings/C15.v.

   Full statement (false of the faithful model, see Findings/C15.v: eight call shapes break it):
       forall h c, WF h -> WF (fst (step h c))
       forall h c e, WF h -> single_element c = true -> snd (step h c) = ORaised e -> fst (step h c) = h
   Proved: the same for every call whose `trigger` is None (atomicity: whose trigger is not 4);
   nothing else is excluded. *)
From Coq Require Import List Arith Bool.
From TT Require Import Proofs.C15.All.
Import ListNotations.

Theorem C15_wf_init : forall elems ndoc, elems_ok elems ndoc = true -> WF (init elems ndoc).
Proof. exact init_WF. Qed.

Theorem C15_wf_step_partial : forall h c,
  WF h -> trigger h c = None -> WF (fst (step h c)).
Proof. exact step_WF. Qed.

Theorem C15_reachable_partial : forall elems ndoc calls,
  elems_ok elems ndoc = true -> admissible (init elems ndoc) calls = true -> WF (run (init elems ndoc) calls).
Proof. exact reachable_WF. Qed.

Theorem C15_atomic_partial : forall h c e,
  WF h -> single_element c = true -> trigger h c <> Some 4 ->
  snd (step h c) = ORaised e -> fst (step h c) = h.
Proof. exact step_atomic. Qed.

(* the doubly linked child lists against the abstraction `children : element -> list element` *)
Theorem C15_push_child_dll : forall h s c cs,
  s < nnodes h -> c < nnodes h -> Children h s cs -> n_parent (nd h c) = None ->
  Children (push_heap h s c) s (cs ++ [c]) /\
  forall p l, p <> s -> Children h p l -> Children (push_heap h s c) p l.
Proof. exact push_child_dll. Qed.
Theorem C15_remove_child_dll : forall h s c a b,
  s < nnodes h -> Children h s (a ++ c :: b) ->
  Children (remove_heap h s c) s (a ++ b) /\
  forall p l, p <> s -> Children h p l -> Children (remove_heap h s c) p l.
Proof. exact remove_child_dll. Qed.

(* acyclic in the usual sense: nobody is its own ancestor *)
Theorem C15_acyclic : forall h i, WF h -> i < nnodes h -> ~ up h i i.
Proof. exact WF_no_cycle. Qed.

(* only values of the property's documented type pass validate (each font-family item included) *)
Theorem C15_validate_sound : forall p v, validate p v = VTrue -> spec_valid p v = true.
Proof. exact validate_sound. Qed.

(* the executable checker that judges the dumped object graphs is sound for WF *)
Theorem C15_wf_b_sound : forall h, wf_b h = true -> WF h.
Proof. exact wf_b_sound. Qed.

(* the hypotheses are satisfiable by non-trivial histories *)
Example C15_example_history :
  let elems := [(KBody, Some 0, None); (KDiv, Some 0, None); (KP, Some 0, None); (KSpan, Some 0, None);
                (KRegion, Some 0, Some 1); (KRuby, Some 0, None); (KRb, Some 0, None); (KRt, Some 0, None)] in
  let calls := [CPushChild 0 1; CPushChild 1 2; CPushChild 2 3; CPutRegion 0 4; CSetBody 0 (Some 0);
                CSetRegion 2 (Some 4); CPushChildren 5 [6; 7]; CPushChild 2 5; CPushChild 3 2; CSetDoc 5 None;
                CSetStyle 3 (PValid PFontFamily) (Some (VTuple [FStr; FGeneric]));
                CSetStyle 3 (PValid PFontFamily) (Some (VTuple [FOther])); CRemoveRegion 0 1; CRemove 3] in
  elems_ok elems 1 = true /\ admissible (init elems 1) calls = true /\
  n_region (nd (run (init elems 1) calls) 2) = None /\ n_parent (nd (run (init elems 1) calls) 5) = Some 2.
Proof. vm_compute. repeat split. Qed.

Print Assumptions C15_wf_init.
Print Assumptions C15_wf_step_partial.
Print Assumptions C15_reachable_partial.
Print Assumptions C15_atomic_partial.
Print Assumptions C15_push_child_dll.
Print Assumptions C15_remove_child_dll.
Print Assumptions C15_acyclic.
Print Assumptions C15_validate_sound.
Print Assumptions C15_wf_b_sound.
