From TT Require Import Proofs.C15.All.
Theorem C15_validate_sound : forall p v, validate p v = VTrue -> spec_valid p v = true.
Proof. exact validate_sound. Qed.
Print Assumptions C15_validate_sound.
