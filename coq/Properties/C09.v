(* C09 — the EBU STL reader reproduces every subtitle's time, text and attributes.
   Only statements, `exact`, and Print Assumptions.
   M = Model/Iso6937.v, Model/StlTf.v, Model/StlDatafile.v (transcriptions of ttconv/stl/{iso6937,tf,datafile,reader}.py
   over tables regenerated from the source) and Model/TimeCode.v (C12); S = Spec/Ebu3264Spec.v (Tech 3264 interpreter,
   ISO 6937 repertoire derived from Unicode data, ISO 8859-5/6/7/8, SMPTE 12M counts) and Spec/Smpte12M.v.
   The observation relation between M's document and S's presentation and the trigger of the one recorded finding
   (df-23976): Model/StlTriggers.v; its refutation: Findings/C09.v.
   Finite domains (bytes, pairs of bytes) are decided in the kernel with the bound in the statement; everything else is
   for all inputs.  The whole-file pipeline (GSI decoding, 128-byte blocks, skipping, extension chains, cumulative sets,
   divisions per SGN, region sharing) is C09_file_partial / C09_blocks below. *)
From Coq Require Import QArith.
From TT Require Import Base.Prelude Gen.StlTables Model.TimeCode Model.Iso6937 Model.StlTf Model.StlDatafile Model.StlTriggers.
From TT Require Import Spec.Smpte12M Spec.Ebu3264Spec.
From TT Require Import Proofs.C09.Tables Proofs.C09.TextField Proofs.C09.Text Proofs.C09.Times Proofs.C09.Datafile Proofs.C09.File Proofs.C09.Config.
Open Scope Z_scope.

(* ---- character code tables ---------------------------------------------------------------------------------- *)
(* ISO 6937: every single byte and every pair of bytes decode as in the standard (all 156 diacritic + letter
   compositions, the spacing forms, one U+FFFD for anything else); byte 0xA4 included since the repair of iso6937-a4 *)
Theorem C09_iso6937_single : forall b, 0 <= b < 256 -> decode6937 [b] = decode_iso6937 [b].
Proof. exact iso6937_single. Qed.
Theorem C09_iso6937_pair : forall b1 b2, 0 <= b1 < 256 -> 0 <= b2 < 256 -> decode6937 [b1; b2] = decode_iso6937 [b1; b2].
Proof. exact iso6937_pair. Qed.
(* ... and so do byte strings of any length *)
Theorem C09_iso6937 : forall bs, Forall is_byte bs -> decode6937 bs = decode_iso6937 bs.
Proof. exact iso6937_list. Qed.
(* CPython's iso8859_5..8 codecs (as regenerated tables) are the standard's tables *)
Theorem C09_iso8859 : forall b, is_byte b ->
  nth (Z.to_nat b) iso8859_5_table fffd = iso8859_5 b /\ nth (Z.to_nat b) iso8859_6_table fffd = iso8859_6 b /\
  nth (Z.to_nat b) iso8859_7_table fffd = iso8859_7 b /\ nth (Z.to_nat b) iso8859_8_table fffd = iso8859_8 b.
Proof. exact iso8859_tables. Qed.
(* the decoder selected by the CCT field, on any byte string *)
Theorem C09_decoder : forall cct bs, Forall is_byte bs -> decoder_of_cct cct bs = decoder_spec cct bs.
Proof. exact decoder_agrees. Qed.

(* ---- text field -------------------------------------------------------------------------------------------------- *)
(* the transcribed classifiers are the source's functions on every byte (table regenerated on every run) *)
Theorem C09_classifiers : forall b, 0 <= b < 256 -> class_mask b = nth (Z.to_nat b) tf_class_table (-1).
Proof. exact classifiers_are_source. Qed.
(* the one-pass machine of tf.to_model = the staged Tech 3264 interpretation, for every list of integers, both
   teletext and open, any decoder (full strength since the repair of blank-row-dropped) *)
Theorem C09_tf : forall dec tele bs, map piece_of_leaf (tf_model dec tele bs) = tf_spec dec tele bs.
Proof. exact tf_refines. Qed.
(* text, line breaks, colours, italics, underline of a text field under the declared character code table *)
Theorem C09_text : forall cct tele bs, Forall is_byte bs ->
  map piece_of_leaf (tf_model (decoder_of_cct cct) tele bs) = tf_spec (decoder_spec cct) tele bs.
Proof. exact text_full. Qed.
(* "up to the first unused-space byte": TF.partition(b'\x8f')[0] is the cut, for every field (since the repair of
   tf-strip-not-cut) *)
Theorem C09_cut : forall tf, before_8f tf = text_of_field tf.
Proof. exact cut_is_cut. Qed.

(* ---- times ------------------------------------------------------------------------------------------------------- *)
(* the code's DFC table names the rates of S *)
Theorem C09_dfc_rates :
  map (fun kv => dfc_rate (fst kv)) dfc_fraction_map =
  map (fun kv => let '(n, d) := snd kv in
                 Some (mkFR n d (ceil_div n d) (if (n =? 30000) && (d =? 1001) then 2 else 0))) dfc_fraction_map.
Proof. exact dfc_rates_agree. Qed.
(* the n-th address of the SMPTE 12M counting sequence is presented n frame periods after 00:00:00:00 (from C12) *)
Theorem C09_times_24 : forall n : nat, offset_q r24 (label_spec 24 0 n) = Qmake (Z.of_nat n) 24.  Proof. exact times24. Qed.
Theorem C09_times_25 : forall n : nat, offset_q r25 (label_spec 25 0 n) = Qmake (Z.of_nat n) 25.  Proof. exact times25. Qed.
Theorem C09_times_50 : forall n : nat, offset_q r50 (label_spec 50 0 n) = Qmake (Z.of_nat n) 50.  Proof. exact times50. Qed.
Theorem C09_times_2997 : forall n : nat, offset_q r2997 (label_spec 30 2 n) = Qmake (Z.of_nat n * 1001) 30000.  Proof. exact times2997. Qed.
(* and on every label, valid or not, the conversion is S's closed form *)
Theorem C09_offset_24 : forall l, offset_q r24 l = time_of (mkFR 24 1 24 0) l.  Proof. exact offset24. Qed.
Theorem C09_offset_25 : forall l, offset_q r25 l = time_of (mkFR 25 1 25 0) l.  Proof. exact offset25. Qed.
Theorem C09_offset_50 : forall l, offset_q r50 l = time_of (mkFR 50 1 50 0) l.  Proof. exact offset50. Qed.
Theorem C09_offset_2997 : forall l, offset_q r2997 l = time_of (mkFR 30000 1001 30 2) l.  Proof. exact offset2997. Qed.
(* 24000/1001: only within the first minute (finding df-23976) *)
Theorem C09_offset_23976_partial : forall l, beyond_first_minute l = false -> offset_q r23976 l = time_of (mkFR 24000 1001 24 0) l.
Proof. exact offset23976_partial. Qed.
(* whatever the DFC: the rate the reader selects converts every label as S's rate does (24000/1001: first minute) *)
Theorem C09_rates_partial : forall dfc r, dfc_rate dfc = Some r ->
  exists n d, map_get_bytes dfc_fraction_map dfc = Some (n, d) /\
              forall l, is_stl23 dfc && beyond_first_minute l = false -> offset_q (mkRate n d) l = time_of r l.
Proof. exact rates. Qed.

(* ---- vertical position ------------------------------------------------------------------------------------------- *)
(* rows needed = S's rows_occupied; the region is S's top-anchored region of the first row (VP; row 1 for VP = 0) when
   that is < max_rows // 2, or S's bottom-anchored region of the last row *)
Theorem C09_rows : forall tf, line_count tf (has_double_height_char tf) * (if has_double_height_char tf then 2 else 1) = rows_occupied tf.
Proof. exact rows_agree. Qed.
Theorem C09_region : forall max_rows vp tf r, region_for max_rows vp tf (has_double_height_char tf) = Some r ->
  (first_row vp < max_rows / 2 /\ rect_equiv (rect_of r) (top_anchored max_rows (first_row vp))) \/
  (max_rows / 2 <= first_row vp /\ rect_equiv (rect_of r) (bottom_anchored max_rows (first_row vp + rows_occupied tf - 1))).
Proof. exact region_choice. Qed.
Theorem C09_region_top_inside : forall rows vp, 0 < rows -> 1 <= vp <= rows + 1 -> inside_safe_area (top_anchored rows vp).
Proof. exact top_inside. Qed.
Theorem C09_region_bottom_inside : forall rows last, 0 < rows -> 0 <= last <= rows -> inside_safe_area (bottom_anchored rows last).
Proof. exact bottom_inside. Qed.
(* the region the reader computes lies inside the safe area whenever the rows of the subtitle fit the grid - for every
   VP, 0 included (since the repair of vp-zero-above-safe-area) *)
Theorem C09_region_inside : forall rows vp tf r, 0 < rows -> region_for rows vp tf (has_double_height_char tf) = Some r ->
  first_row vp + rows_occupied tf - 1 <= rows -> inside_safe_area (rect_of r).
Proof. exact region_inside. Qed.
(* ... and the row count the reader works with is at least 1 for EVERY GSI block and EVERY configuration (since the repair
   of the row count below 1: MNR 00, max_row_count 0 or negative give the default grid), so the region of a subtitle
   always exists and lies inside the safe area when the rows fit - no hypothesis on the configuration is left *)
Theorem C09_init_rows : forall g cfg f, init g cfg = inl f -> 1 <= f_max_rows f.
Proof. exact init_rows. Qed.
Theorem C09_reader_region_exists : forall g cfg f vp tf dh, init g cfg = inl f -> exists r, region_for (f_max_rows f) vp tf dh = Some r.
Proof. exact reader_region_exists. Qed.
Theorem C09_reader_region_inside : forall g cfg f vp tf r, init g cfg = inl f ->
  region_for (f_max_rows f) vp tf (has_double_height_char tf) = Some r ->
  first_row vp + rows_occupied tf - 1 <= f_max_rows f -> inside_safe_area (rect_of r).
Proof. exact reader_region_inside. Qed.

(* ... and at document level: every region of the document the reader returns, whatever the file and the configuration,
   is S's top-anchored region of a first row or bottom-anchored region of a last row on a grid of at least one row *)
Theorem C09_reader_regions : forall file cfg d, reader_model file cfg = Ok d ->
  exists rows, 1 <= rows /\
    Forall (fun r => exists vp tf,
              (first_row vp < rows / 2 /\ rect_equiv (rect_of r) (top_anchored rows (first_row vp))) \/
              (rows / 2 <= first_row vp /\ rect_equiv (rect_of r) (bottom_anchored rows (first_row vp + rows_occupied tf - 1))))
           (d_regions d).
Proof. exact reader_regions_spec. Qed.

(* ---- subtitle numbers -------------------------------------------------------------------------------------------- *)
(* subtitle numbers are compared by value (repaired by 434048d; formerly finding sn-identity): a block opens a new
   paragraph exactly when its number differs from the number of the last paragraph opened *)
Theorem C09_sn_value : forall sn last, sn_differs sn last = true <-> last <> Some sn.
Proof. exact sn_value. Qed.

(* ---- grouping and the single subtitle (process_tti / complete_subtitle, the per-block steps of the reader) --------- *)
(* extension blocks are concatenated and user-data/reserved/comment blocks skipped: after any run of non-terminal and
   skipped blocks, the terminal block is completed with the concatenation of the texts of the text-carrying blocks, as
   Tech 3264 cuts them *)
Theorem C09_grouping : forall f ts s t, st_in_ext s = false -> Forall ext_or_skip ts -> text_block t = true -> t_ebn t = 255 ->
  exists s', fold_blocks f s ts = inl s' /\
             process_tti f s' t =
             complete_subtitle f s' t (concat (map (fun x => text_of_field (t_tf x)) (filter text_block (ts ++ [t])))).
Proof. exact grouping. Qed.
(* a non-cumulative subtitle with a new number becomes a paragraph visible exactly from TCI to TCO minus the programme
   start, holding the pieces of its text field, aligned by JC, in the region of its VP *)
Theorem C09_subtitle : forall f s t tf r,
  t_cs t = 0 -> st_last_sn s <> Some (t_sn t) ->
  let b := (offset_q (f_fps f) (t_tci t) - f_start f)%Q in
  let e := (offset_q (f_fps f) (t_tco t) - f_start f)%Q in
  q_neg b = false -> q_lt e b = false ->
  region_for (f_max_rows f) (t_vp t) tf (has_double_height_char tf) = Some r ->
  exists s', complete_subtitle f s t tf = inl s' /\
    st_cur s' = Some (t_sgn t,
                      mkPara (fst (get_region (st_regions s) r)) (text_align_of (t_jc t))
                             (if f_teletext f && negb (has_double_height_char tf) then default_single_height_font_size_pct
                              else default_double_height_font_size_pct)
                             default_line_height_pct (Some (b, e))
                             (map PLeaf (tf_model (decoder_of_cct (f_cct f)) (f_teletext f) tf))) /\
    st_regions s' = snd (get_region (st_regions s) r).
Proof. exact new_subtitle. Qed.
(* subtitles that start before the programme start are dropped *)
Theorem C09_early_dropped : forall f s t tf,
  q_neg (offset_q (f_fps f) (t_tci t) - f_start f) = true ->
  exists s', complete_subtitle f s t tf = inl s' /\ st_divs s' = st_divs s /\ st_cur s' = st_cur s /\
             st_regions s' = st_regions s /\ st_last_sn s' = st_last_sn s /\ st_in_ext s' = false.
Proof. exact early_subtitle_dropped. Qed.
(* cumulative subtitles accumulate in the open paragraph, each on its own interval *)
Theorem C09_cumulative : forall f s t tf sgn p,
  t_cs t = 2 \/ t_cs t = 3 -> st_cur s = Some (sgn, p) ->
  let b := (offset_q (f_fps f) (t_tci t) - f_start f)%Q in
  let e := (offset_q (f_fps f) (t_tco t) - f_start f)%Q in
  q_neg b = false -> q_lt e b = false ->
  exists s', complete_subtitle f s t tf = inl s' /\
    st_cur s' = Some (sgn, mkPara (p_region p) (p_align p) (p_font_size p) (p_line_height p) (p_time p)
                                  (p_items p ++ [PSub b e (tf_model (decoder_of_cct (f_cct f)) (f_teletext f) tf ++
                                                           (if t_cs t =? 2 then [LBr] else []))])) /\
    st_divs s' = st_divs s /\ st_regions s' = st_regions s.
Proof. exact cumulative_member. Qed.
(* no block makes the reader fail for want of a paragraph (since the repair of cumulative-before-first); for any data
   file parameters the only failure of a block is the division by a row count of zero *)
Theorem C09_no_attribute_error : forall f s t, process_tti f s t <> inr EAttribute.
Proof. exact process_no_attribute_error. Qed.
Theorem C09_block_errors : forall f s t e, process_tti f s t = inr e -> e = EZeroDiv /\ f_max_rows f = 0.
Proof. exact process_errors. Qed.
(* ... and a whole file, whatever its bytes and the configuration, fails only on a short GSI/TTI block or an unparsable
   configured start time code: the division by zero is gone (since the repair of the row count below 1; formerly
   C09_reader_zero_div "needs a row count of zero", C18's stl-zero-row-count) *)
Theorem C09_reader_errors : forall file cfg e, reader_model file cfg = Err e -> e = EStruct \/ e = EValue.
Proof. exact reader_errors. Qed.
Theorem C09_reader_no_zero_div : forall file cfg, reader_model file cfg <> Err EZeroDiv.
Proof. exact reader_no_zero_div. Qed.
(* a file of 1024 + 128 k bytes is read into a document under every configuration whose start time code (if any)
   SmpteTimeCode.parse accepts - which is every configuration that STLReaderConfiguration.parse lets through
   (C09_config_start_parses) *)
Theorem C09_reader_total : forall file cfg k, length file = (1024 + 128 * k)%nat ->
  (forall t, cf_start cfg = StStr t -> forall fps, parse_tc t fps <> None) ->
  exists d, reader_model file cfg = Ok d.
Proof. exact reader_total. Qed.

(* ---- configuration: STLReaderConfiguration.parse (stl/config.py, ttconv/config.py) ------------------------------------- *)
(* program_start_tc.  _decode_start_tc lets through EXACTLY: null; "TCP" in any letter case (-> "TCP"); a complete time
   code - two ASCII digits, a character that is not a new-line, two digits, ... eleven characters with nothing before or
   after them - which is kept as it is.  (Since the repair "program_start_tc accepted trailing text after the time
   code": re.fullmatch; formerly only "a string that starts with a time code" could be stated.) *)
Theorem C09_config_start_accepts : forall v s,
  decode_start_tc v = inl s <->
  (v = VNull /\ s = StNone) \/
  (exists t, v = VStr t /\ any_case [84; 67; 80] t /\ s = StTCP) \/
  (exists t, v = VStr t /\ complete_time_code not_newline t /\ s = StStr t).
Proof. exact decode_start_accepts. Qed.
Theorem C09_config_start_tcp : forall v, decode_start_tc v = inl StTCP <-> exists t, v = VStr t /\ any_case [84; 67; 80] t.
Proof. exact decode_start_tcp. Qed.
(* ... text after a complete time code is a ValueError whatever it is; everything that is not accepted - any other
   string, and any value that is not a string: a boolean, a number, a list (since the repair of start-tc-non-string) - is
   a ValueError *)
Theorem C09_config_start_no_trailing : forall t x u, complete_time_code not_newline t -> decode_start_tc (VStr (t ++ x :: u)) = inr EValue.
Proof. exact decode_start_no_trailing. Qed.
Theorem C09_config_start_rejects : forall v e,
  decode_start_tc v = inr e <->
  e = EValue /\ v <> VNull /\ forall t, v = VStr t -> ~ any_case [84; 67; 80] t /\ ~ complete_time_code not_newline t.
Proof. exact decode_start_rejects. Qed.
Theorem C09_config_start_non_string : forall v, v <> VNull -> (forall t, v <> VStr t) -> decode_start_tc v = inr EValue.
Proof. exact decode_start_non_string. Qed.
(* whatever _decode_start_tc lets through, SmpteTimeCode.parse accepts (no ValueError from DataFile.__init__ after
   STLReaderConfiguration.parse); the documented form HH:MM:SS:FF is accepted, kept, and means what S reads; a value
   that is kept is one S reads exactly when its separators are colons *)
Theorem C09_config_start_parses : forall v t, decode_start_tc v = inl (StStr t) -> forall fps, parse_tc t fps <> None.
Proof. exact decode_start_parses. Qed.
Theorem C09_config_start_label : forall t l, label_of_text t = Some l ->
  decode_start_tc (VStr t) = inl (StStr t) /\ spec_start (StStr t) = Some (StartLabel l).
Proof. exact decode_start_label. Qed.
Theorem C09_config_start_spec : forall v t, decode_start_tc v = inl (StStr t) ->
  (exists l, spec_start (StStr t) = Some (StartLabel l)) <-> complete_time_code (fun c => c = 58) t.
Proof. exact decode_start_spec. Qed.
(* max_row_count.  _decode_max_row_count lets through EXACTLY: null; "MNR" in any letter case; an integer that is not a
   boolean.  true / false (since the repair "max_row_count accepted true and false as integers"), digits in a string
   and everything else are ValueErrors *)
Theorem C09_config_rows_accepts : forall v r,
  decode_max_row_count v = inl r <->
  (v = VNull /\ r = MrNone) \/ (exists t, v = VStr t /\ any_case [77; 78; 82] t /\ r = MrMNR) \/ (exists n, v = VInt n /\ r = MrInt n).
Proof. exact decode_rows_accepts. Qed.
Theorem C09_config_rows_rejects : forall v e, decode_max_row_count v = inr e -> e = EValue.
Proof. exact decode_rows_rejects. Qed.
Theorem C09_config_rows_bool : forall b, decode_max_row_count (VBool b) = inr EValue.
Proof. exact decode_rows_bool. Qed.
Theorem C09_config_rows_digits : forall t, Forall ascii_digit t -> decode_max_row_count (VStr t) = inr EValue.
Proof. exact decode_rows_digits. Qed.
(* disable_fill_line_gap, disable_line_padding.  decode_bool lets through EXACTLY the two JSON booleans and returns them
   (since the repair "fields documented as true | false accepted any JSON value by truthiness"); null, 0, 1, "false" are
   ValueErrors *)
Theorem C09_config_flag_accepts : forall v b, decode_bool v = inl b <-> v = VBool b.
Proof. exact decode_bool_accepts. Qed.
Theorem C09_config_flag_rejects : forall v e, decode_bool v = inr e <-> e = EValue /\ forall b, v <> VBool b.
Proof. exact decode_bool_rejects. Qed.
(* the dictionary: parse returns a configuration exactly when every key holds a value its decoder accepts, and it holds
   the decoded values (absent keys: False / None); a parsed configuration never makes the reader fail on a file of
   1024 + 128 k bytes (no hypothesis on the start time code is left: compare C09_reader_total) *)
Theorem C09_config_parse : forall fill start pad rows cfg,
  parse_config fill start pad rows = inl cfg <->
  exists nofill st nopad r,
    decode_bool (dict_get fill (VBool false)) = inl nofill /\ decode_start_tc (dict_get start VNull) = inl st /\
    decode_bool (dict_get pad (VBool false)) = inl nopad /\ decode_max_row_count (dict_get rows VNull) = inl r /\
    cfg = mkConfig st r nofill nopad None.
Proof. exact parse_config_accepts. Qed.
Theorem C09_config_reader_total : forall fill start pad rows cfg file k,
  parse_config fill start pad rows = inl cfg -> length file = (1024 + 128 * k)%nat -> exists d, reader_model file cfg = Ok d.
Proof. exact parse_config_reader_total. Qed.
(* a rejected dictionary is rejected with ValueError, whatever its values: STLReaderConfiguration.parse raises no other
   exception (formerly false: AttributeError on a program_start_tc that is not a string, start-tc-non-string) *)
Theorem C09_config_errors : forall fill start pad rows e, parse_config fill start pad rows = inr e -> e = EValue.
Proof. exact parse_config_errors. Qed.

(* ---- the whole file ---------------------------------------------------------------------------------------------- *)
(* every list of TTI blocks in the specification's domain, read from the initial state by the reader's per-block step,
   yields divisions that are the specification's subtitle groups, paragraph by paragraph (same alignment, exactly the
   same timed parts, a region that is S's top- or bottom-anchored region) - induction over the blocks with the reader's
   state as invariant *)
Theorem C09_blocks : forall f r start cct tele rows bl subs ps,
  f_start f = start -> f_cct f = cct -> f_teletext f = tele -> f_max_rows f = rows -> 1 <= rows ->
  Forall (fun b => carries_text b = true ->
                   Forall is_byte (b_tf b) /\ offset_q (f_fps f) (b_tci b) = time_of r (b_tci b) /\
                   offset_q (f_fps f) (b_tco b) = time_of r (b_tco b)) bl ->
  subtitles_of bl = Some subs ->
  paragraphs_go r start (decoder_spec cct) tele subs (-1) [] None = Some ps ->
  exists s, fold_blocks f state0 (map tti_of bl) = inl s /\
            Forall2 (Forall2 (para_matches rows (st_regions s))) (map snd (commit s)) (by_group ps).
Proof. exact blocks_presentation. Qed.
(* every file of bytes in the specification's domain, every reader configuration (any max_row_count: S's grid for a
   count below 1 is the default grid, and so is the repaired reader's), outside finding df-23976: the reader
   returns a document whose divisions are S's presentation of the file.
   Full statement (false at 24000/1001 beyond the first minute, Findings/C09.v): the same without the trigger hypothesis *)
Theorem C09_file_partial : forall file cfg sc groups rows,
  Forall is_byte file -> spec_start (cf_start cfg) = Some sc ->
  presentation file sc (spec_rows (cf_rows cfg)) = Some (groups, rows) ->
  trigger_23976 file cfg = false ->
  exists d, reader_model file cfg = Ok d /\ doc_matches rows d groups.
Proof. exact file_presentation. Qed.

(* non-vacuity *)
Example C09_example_tf :
  map piece_of_leaf (tf_model decode6937 true [13; 3; 200; 97; 32; 98; 138; 138; 128; 99; 143; 100]) =
  [Run (mkAttrs 4294902015 255 false false) [228; 32; 98]; Break; Run (mkAttrs 4294967295 255 true false) [99]].
Proof. vm_compute. reflexivity. Qed.
(* the hypotheses of C09_file_partial are satisfiable: a file with a cumulative set, a coloured two-row subtitle at VP 0
   and a comment block is in the domain, two paragraphs are prescribed and the trigger is off *)
Example C09_example_file :
  Forall is_byte example_file /\ spec_start (cf_start cfg0) = Some StartNone /\
  (exists groups, presentation example_file StartNone (spec_rows (cf_rows cfg0)) = Some (groups, 23) /\ length (concat groups) = 2%nat) /\
  trigger_23976 example_file cfg0 = false /\ paragraphs_of (reader_model example_file cfg0) = 2.
Proof.
  split; [exact example_file_bytes|]. split; [reflexivity|]. split; [eexists; split; vm_compute; reflexivity|].
  split; vm_compute; reflexivity.
Qed.
(* the inputs of the repaired defects are now read as the specification prescribes:
   invalid TCP -> no shift, invalid MNR -> 23 rows, a repeated subtitle number above 256 re-uses the paragraph (9e84fe8,
   41b1329, 434048d); an intermediate cumulative member as first block opens a paragraph, TNB = 0 is harmless, a comment
   block is not presented, 0xA4 is the dollar sign, an empty row is kept, text after an unused-space byte is not presented *)
Example C09_example_tcp_fallback :
  paragraphs_of (reader_model (put 256 [48; 48; 48; 48; 88; 88; 48; 48] witness_gsi ++ witness_tti 0 1 2 20 0 0 [65])
                              (mkConfig StTCP MrNone false false None)) = 1.
Proof. vm_compute. reflexivity. Qed.
Example C09_example_mnr_fallback :
  paragraphs_of (reader_model (put 11 [48] (put 253 [88; 88] witness_gsi) ++ witness_tti 0 30 31 20 0 0 [65])
                              (mkConfig StNone MrMNR false false None)) = 1.
Proof. vm_compute. reflexivity. Qed.
Example C09_example_sn_by_value :
  paragraphs_of (reader_model (witness_gsi ++ witness_tti 300 1 2 20 0 0 [65] ++ witness_tti 300 3 4 20 0 0 [66]) cfg0) = 1 /\
  paragraphs_of (reader_model (witness_gsi ++ witness_tti 5 1 2 20 0 0 [65] ++ witness_tti 5 3 4 20 0 0 [66]) cfg0) = 1.
Proof. vm_compute. split; reflexivity. Qed.
Example C09_example_repaired :
  paragraphs_of (reader_model (witness_gsi ++ witness_tti 0 1 2 20 2 0 [65]) cfg0) = 1 /\
  paragraphs_of (reader_model (put 238 [48; 48; 48; 48; 48] witness_gsi ++ witness_tti 0 1 2 20 0 0 [65]) cfg0) = 1 /\
  paragraphs_of (reader_model (witness_gsi ++ witness_tti 0 1 2 20 0 1 [65]) cfg0) = 0 /\
  decode6937 [164] = [36] /\
  map piece_of_leaf (tf_model (fun x => x) true [65; 138; 138; 66]) = tf_spec (fun x => x) true [65; 138; 138; 66] /\
  before_8f [143; 65; 66] = [].
Proof. vm_compute. repeat split; reflexivity. Qed.
(* MNR 00, max_row_count 0 and a negative max_row_count (open subtitles) used to raise ZeroDivisionError / place the
   subtitle on a negative grid: they are in S's domain now (23 rows), read into one paragraph, and the hypotheses of
   C09_reader_total hold of them *)
Example C09_example_zero_rows :
  let file := put 11 [48] (put 253 [48; 48] witness_gsi) ++ witness_tti 0 1 2 20 0 0 [65] in
  paragraphs_of (reader_model file (mkConfig StNone MrMNR false false None)) = 1 /\
  paragraphs_of (reader_model file (mkConfig StNone (MrInt 0) false false None)) = 1 /\
  paragraphs_of (reader_model file (mkConfig StNone (MrInt (-3)) false false None)) = 1 /\
  (exists groups, presentation file StartNone RowsMNR = Some (groups, 23)) /\
  (exists groups, presentation file StartNone (RowsInt 0) = Some (groups, 23)) /\
  (exists groups, presentation file StartNone (RowsInt (-3)) = Some (groups, 23)) /\
  length file = (1024 + 128 * 1)%nat.
Proof. cbv zeta. repeat split; try (eexists; vm_compute; reflexivity); vm_compute; reflexivity. Qed.
(* the hypotheses of the configuration theorems are satisfiable, and the inputs of the three repaired defects are rejected:
   "10:00:00:00" is kept, "10:00:00:00x" / "10:00:00:00" + new-line / "10:00:00" are ValueErrors, tCp is TCP;
   max_row_count true and "23" are ValueErrors, 23 and mnr are accepted; disable_fill_line_gap "false" / null / 0 are
   ValueErrors; a dictionary with all four keys is parsed into the configuration; program_start_tc true / 5 / a list are ValueErrors *)
Example C09_example_config :
  let tc := [49; 48; 58; 48; 48; 58; 48; 48; 58; 48; 48] in
  complete_time_code not_newline tc /\ label_of_text tc = Some (10, 0, 0, 0) /\
  decode_start_tc (VStr tc) = inl (StStr tc) /\
  decode_start_tc (VStr (tc ++ [120])) = inr EValue /\ decode_start_tc (VStr (tc ++ [10])) = inr EValue /\
  decode_start_tc (VStr (firstn 8 tc)) = inr EValue /\
  decode_start_tc (VStr [116; 67; 112]) = inl StTCP /\ decode_start_tc (VStr [84; 67; 80; 32]) = inr EValue /\
  decode_max_row_count (VBool true) = inr EValue /\ decode_max_row_count (VStr [50; 51]) = inr EValue /\
  decode_max_row_count (VInt 23) = inl (MrInt 23) /\ decode_max_row_count (VStr [109; 110; 114]) = inl MrMNR /\
  decode_bool (VStr [102; 97; 108; 115; 101]) = inr EValue /\ decode_bool VNull = inr EValue /\ decode_bool (VInt 0) = inr EValue /\
  parse_config (Some (VBool true)) (Some (VStr tc)) (Some (VBool false)) (Some (VInt 11)) = inl (mkConfig (StStr tc) (MrInt 11) true false None) /\
  parse_config None None None None = inl cfg0 /\
  parse_config (Some VNull) None None None = inr EValue /\
  decode_start_tc (VBool true) = inr EValue /\ decode_start_tc (VInt 5) = inr EValue /\ decode_start_tc VOther = inr EValue.
Proof.
  cbv zeta. split; [|repeat split; reflexivity].
  exists 49, 48, 58, 48, 48, 58, 48, 48, 58, 48, 48. split; [reflexivity|].
  split; repeat (apply Forall_cons; [unfold ascii_digit, not_newline; lia|]); apply Forall_nil.
Qed.
Example C09_example_region : region_for 23 20 [65; 138; 66] false = Some (mkRegion (qz 5) (qz 10) (qz 90) (qz 21 / qz 23 * qz 80)%Q true).
Proof. reflexivity. Qed.

Print Assumptions C09_iso6937_single.  Print Assumptions C09_iso6937_pair.  Print Assumptions C09_iso6937.
Print Assumptions C09_iso8859.  Print Assumptions C09_decoder.  Print Assumptions C09_classifiers.
Print Assumptions C09_tf.  Print Assumptions C09_text.  Print Assumptions C09_cut.
Print Assumptions C09_dfc_rates.
Print Assumptions C09_times_24.  Print Assumptions C09_times_25.  Print Assumptions C09_times_50.  Print Assumptions C09_times_2997.
Print Assumptions C09_offset_24.  Print Assumptions C09_offset_25.  Print Assumptions C09_offset_50.  Print Assumptions C09_offset_2997.
Print Assumptions C09_offset_23976_partial.  Print Assumptions C09_rates_partial.
Print Assumptions C09_rows.  Print Assumptions C09_region.  Print Assumptions C09_region_top_inside.  Print Assumptions C09_region_bottom_inside.
Print Assumptions C09_region_inside.  Print Assumptions C09_init_rows.  Print Assumptions C09_reader_region_exists.
Print Assumptions C09_reader_region_inside.  Print Assumptions C09_reader_regions.
Print Assumptions C09_sn_value.
Print Assumptions C09_grouping.  Print Assumptions C09_subtitle.  Print Assumptions C09_early_dropped.  Print Assumptions C09_cumulative.
Print Assumptions C09_no_attribute_error.  Print Assumptions C09_block_errors.  Print Assumptions C09_reader_errors.
Print Assumptions C09_reader_no_zero_div.  Print Assumptions C09_reader_total.
Print Assumptions C09_config_start_accepts.  Print Assumptions C09_config_start_tcp.  Print Assumptions C09_config_start_no_trailing.
Print Assumptions C09_config_start_rejects.  Print Assumptions C09_config_start_non_string.  Print Assumptions C09_config_start_parses.  Print Assumptions C09_config_start_label.
Print Assumptions C09_config_start_spec.  Print Assumptions C09_config_rows_accepts.  Print Assumptions C09_config_rows_rejects.
Print Assumptions C09_config_rows_bool.  Print Assumptions C09_config_rows_digits.  Print Assumptions C09_config_flag_accepts.
Print Assumptions C09_config_flag_rejects.  Print Assumptions C09_config_parse.  Print Assumptions C09_config_reader_total.
Print Assumptions C09_config_errors.
Print Assumptions C09_blocks.  Print Assumptions C09_file_partial.
