From TT Require Import Base.Prelude Model.Iso6937 Model.StlTf Model.StlTriggers Spec.Ebu3264Spec Proofs.C09.Tables Proofs.C09.TextField.
Theorem C09_tf_partial : forall dec tele bs, trigger_blank_row bs = false ->
  map piece_of_leaf (tf_model dec tele bs) = tf_spec dec tele bs.
Proof. exact tf_refines. Qed.
Print Assumptions C09_tf_partial.
