(* C09 — the EBU STL reader reproduces every subtitle's time, text and attributes.
   Only statements, `exact`, and Print Assumptions.
   M = Model/Iso6937.v, Model/StlTf.v, Model/StlDatafile.v (transcriptions of ttconv/stl/{iso6937,tf,datafile,reader}.py
   over tables regenerated from the source) and Model/TimeCode.v (C12); S = Spec/Ebu3264Spec.v (Tech 3264 interpreter,
   ISO 6937 repertoire derived from Unicode data, ISO 8859-5/6/7/8, SMPTE 12M counts) and Spec/Smpte12M.v.
   Triggers of the recorded findings: Model/StlTriggers.v; their refutations: Findings/C09.v.
   Finite domains (bytes, pairs of bytes) are decided in the kernel with the bound in the statement; everything else is
   for all inputs.  NOT proved (compared on every run instead, harness/c09.py): that the whole-file pipeline
   reader_model (GSI decoding, EBN grouping, cumulative sets, divisions per SGN) equals S's `presentation`. *)
From Coq Require Import QArith.
From TT Require Import Base.Prelude Gen.StlTables Model.TimeCode Model.Iso6937 Model.StlTf Model.StlDatafile Model.StlTriggers.
From TT Require Import Spec.Smpte12M Spec.Ebu3264Spec.
From TT Require Import Proofs.C09.Tables Proofs.C09.TextField Proofs.C09.Text Proofs.C09.Times Proofs.C09.Datafile.
Open Scope Z_scope.

(* ---- character code tables ---------------------------------------------------------------------------------- *)
(* ISO 6937: every single byte and every pair of bytes decode as in the standard (all 156 diacritic + letter
   compositions, the spacing forms, one U+FFFD for anything else) — outside finding iso6937-a4 (byte 0xA4) *)
Theorem C09_iso6937_single_partial : forall b, 0 <= b < 256 -> b <> 164 -> decode6937 [b] = decode_iso6937 [b].
Proof. exact iso6937_single. Qed.
Theorem C09_iso6937_pair_partial : forall b1 b2, 0 <= b1 < 256 -> 0 <= b2 < 256 -> trigger_a4 [b1; b2] = false ->
  decode6937 [b1; b2] = decode_iso6937 [b1; b2].
Proof. exact iso6937_pair. Qed.
(* ... and so do byte strings of any length *)
Theorem C09_iso6937_partial : forall bs, Forall is_byte bs -> trigger_a4 bs = false -> decode6937 bs = decode_iso6937 bs.
Proof. exact iso6937_list. Qed.
(* CPython's iso8859_5..8 codecs (as regenerated tables) are the standard's tables *)
Theorem C09_iso8859 : forall b, is_byte b ->
  nth (Z.to_nat b) iso8859_5_table fffd = iso8859_5 b /\ nth (Z.to_nat b) iso8859_6_table fffd = iso8859_6 b /\
  nth (Z.to_nat b) iso8859_7_table fffd = iso8859_7 b /\ nth (Z.to_nat b) iso8859_8_table fffd = iso8859_8 b.
Proof. exact iso8859_tables. Qed.
(* the decoder selected by the CCT field, on any byte string *)
Theorem C09_decoder_partial : forall cct bs, Forall is_byte bs -> trigger_a4_cct cct bs = false ->
  decoder_of_cct cct bs = decoder_spec cct bs.
Proof. exact decoder_agrees. Qed.

(* ---- text field -------------------------------------------------------------------------------------------------- *)
(* the transcribed classifiers are the source's functions on every byte (table regenerated on every run) *)
Theorem C09_classifiers : forall b, 0 <= b < 256 -> class_mask b = nth (Z.to_nat b) tf_class_table (-1).
Proof. exact classifiers_are_source. Qed.
(* the one-pass machine of tf.to_model = the staged Tech 3264 interpretation, for every list of integers, both
   teletext and open, any decoder — outside finding blank-row-dropped.
   Full statement (false, see Findings/C09.v C09_tf_refuted):  forall dec tele bs, map piece_of_leaf (tf_model dec tele bs) = tf_spec dec tele bs *)
Theorem C09_tf_partial : forall dec tele bs, trigger_blank_row bs = false ->
  map piece_of_leaf (tf_model dec tele bs) = tf_spec dec tele bs.
Proof. exact tf_refines. Qed.
(* text, line breaks, colours, italics, underline of a text field under the declared character code table *)
Theorem C09_text_partial : forall cct tele bs, Forall is_byte bs -> trigger_blank_row bs = false -> trigger_a4_cct cct bs = false ->
  map piece_of_leaf (tf_model (decoder_of_cct cct) tele bs) = tf_spec (decoder_spec cct) tele bs.
Proof. exact text_partial. Qed.
(* "up to the first unused-space byte": bytes.strip(b'\x8f') is the cut, outside finding tf-strip-not-cut *)
Theorem C09_strip_partial : forall tf, trigger_strip tf = false -> strip_8f tf = text_of_field tf.
Proof. exact strip_is_cut. Qed.

(* ---- times ------------------------------------------------------------------------------------------------------- *)
(* the code's DFC table names the rates of S *)
Theorem C09_dfc_rates :
  map (fun kv => dfc_rate (fst kv)) dfc_fraction_map =
  map (fun kv => let '(n, d) := snd kv in
                 Some (mkFR n d (ceil_div n d) (if (n =? 30000) && (d =? 1001) then 2 else 0))) dfc_fraction_map.
Proof. exact dfc_rates_agree. Qed.
(* the n-th address of the SMPTE 12M counting sequence is presented n frame periods after 00:00:00:00 (from C12) *)
Theorem C09_times_24 : forall n : nat, offset_q r24 (label_spec 24 0 n) = Qmake (Z.of_nat n) 24.  Proof. exact times24. Qed.
Theorem C09_times_25 : forall n : nat, offset_q r25 (label_spec 25 0 n) = Qmake (Z.of_nat n) 25.  Proof. exact times25. Qed.
Theorem C09_times_50 : forall n : nat, offset_q r50 (label_spec 50 0 n) = Qmake (Z.of_nat n) 50.  Proof. exact times50. Qed.
Theorem C09_times_2997 : forall n : nat, offset_q r2997 (label_spec 30 2 n) = Qmake (Z.of_nat n * 1001) 30000.  Proof. exact times2997. Qed.
(* and on every label, valid or not, the conversion is S's closed form *)
Theorem C09_offset_24 : forall l, offset_q r24 l = time_of (mkFR 24 1 24 0) l.  Proof. exact offset24. Qed.
Theorem C09_offset_25 : forall l, offset_q r25 l = time_of (mkFR 25 1 25 0) l.  Proof. exact offset25. Qed.
Theorem C09_offset_50 : forall l, offset_q r50 l = time_of (mkFR 50 1 50 0) l.  Proof. exact offset50. Qed.
Theorem C09_offset_2997 : forall l, offset_q r2997 l = time_of (mkFR 30000 1001 30 2) l.  Proof. exact offset2997. Qed.
(* 24000/1001: only within the first minute (finding df-23976) *)
Theorem C09_offset_23976_partial : forall l, beyond_first_minute l = false -> offset_q r23976 l = time_of (mkFR 24000 1001 24 0) l.
Proof. exact offset23976_partial. Qed.

(* ---- vertical position ------------------------------------------------------------------------------------------- *)
(* rows needed = S's rows_occupied; the region is S's top-anchored region of row VP (VP < max_rows // 2) or S's
   bottom-anchored region of the last row *)
Theorem C09_rows : forall tf, line_count tf (has_double_height_char tf) * (if has_double_height_char tf then 2 else 1) = rows_occupied tf.
Proof. exact rows_agree. Qed.
Theorem C09_region : forall max_rows vp tf r, region_for max_rows vp tf (has_double_height_char tf) = Some r ->
  (vp < max_rows / 2 /\ rect_equiv (rect_of r) (top_anchored max_rows vp)) \/
  (max_rows / 2 <= vp /\ rect_equiv (rect_of r) (bottom_anchored max_rows (vp + rows_occupied tf - 1))).
Proof. exact region_choice. Qed.
(* both lie inside the safe area when the rows of the subtitle lie inside the grid; VP = 0 is finding vp-zero-above-safe-area *)
Theorem C09_region_top_inside : forall rows vp, 0 < rows -> 1 <= vp <= rows + 1 -> inside_safe_area (top_anchored rows vp).
Proof. exact top_inside. Qed.
Theorem C09_region_bottom_inside : forall rows last, 0 < rows -> 0 <= last <= rows -> inside_safe_area (bottom_anchored rows last).
Proof. exact bottom_inside. Qed.

(* ---- subtitle numbers -------------------------------------------------------------------------------------------- *)
(* subtitle numbers are compared by value (repaired by 434048d; formerly finding sn-identity): a block opens a new
   paragraph exactly when its number differs from the number of the last paragraph opened *)
Theorem C09_sn_value : forall sn last, sn_differs sn last = true <-> last <> Some sn.
Proof. exact sn_value. Qed.

(* ---- grouping and the single subtitle (stretch; statements about process_tti, the per-block step of the reader) ---- *)
(* extension blocks are concatenated and user-data/reserved blocks skipped: after any run of non-terminal and skipped
   blocks, the field the terminal block is decoded from is the concatenation of the texts of the text-carrying blocks,
   as Tech 3264 cuts them (outside finding tf-strip-not-cut) *)
Theorem C09_grouping_partial : forall f ts s t, st_in_ext s = false -> Forall ext_or_skip ts -> text_block t = true ->
  Forall (fun x => trigger_strip (t_tf x) = false) (filter text_block (ts ++ [t])) ->
  exists s', fold_blocks f s ts = inl s' /\
             fst (block_view f s' t) = concat (map (fun x => text_of_field (t_tf x)) (filter text_block (ts ++ [t]))).
Proof. exact grouping_partial. Qed.
(* a non-cumulative subtitle with a new number becomes a paragraph visible exactly from TCI to TCO minus the programme
   start, holding the pieces of its text field, aligned by JC, in the region of its VP *)
Theorem C09_subtitle : forall f s t r,
  text_block t = true -> t_ebn t = 255 -> t_cs t = 0 -> st_last_sn s <> Some (t_sn t) ->
  let tf := acc_tf s ++ strip_8f (t_tf t) in
  let b := (offset_q (f_fps f) (t_tci t) - f_start f)%Q in
  let e := (offset_q (f_fps f) (t_tco t) - f_start f)%Q in
  q_neg b = false -> q_lt e b = false ->
  region_for (f_max_rows f) (t_vp t) tf (has_double_height_char tf) = Some r ->
  exists s', process_tti f s t = inl s' /\
    st_cur s' = Some (t_sgn t,
                      mkPara (fst (get_region (st_regions s) r)) (text_align_of (t_jc t))
                             (if f_teletext f && negb (has_double_height_char tf) then default_single_height_font_size_pct
                              else default_double_height_font_size_pct)
                             default_line_height_pct (Some (b, e))
                             (map PLeaf (tf_model (decoder_of_cct (f_cct f)) (f_teletext f) tf))) /\
    st_regions s' = snd (get_region (st_regions s) r).
Proof. exact new_subtitle. Qed.
(* subtitles that start before the programme start are dropped *)
Theorem C09_early_dropped : forall f s t,
  text_block t = true -> t_ebn t = 255 -> q_neg (offset_q (f_fps f) (t_tci t) - f_start f) = true ->
  exists s', process_tti f s t = inl s' /\ st_divs s' = st_divs s /\ st_cur s' = st_cur s /\
             st_regions s' = st_regions s /\ st_last_sn s' = st_last_sn s /\ st_in_ext s' = false.
Proof. exact early_subtitle_dropped. Qed.
(* cumulative subtitles accumulate in the open paragraph, each on its own interval *)
Theorem C09_cumulative : forall f s t sgn p,
  text_block t = true -> t_ebn t = 255 -> t_cs t = 2 \/ t_cs t = 3 -> st_cur s = Some (sgn, p) ->
  let tf := acc_tf s ++ strip_8f (t_tf t) in
  let b := (offset_q (f_fps f) (t_tci t) - f_start f)%Q in
  let e := (offset_q (f_fps f) (t_tco t) - f_start f)%Q in
  q_neg b = false -> q_lt e b = false ->
  exists s', process_tti f s t = inl s' /\
    st_cur s' = Some (sgn, mkPara (p_region p) (p_align p) (p_font_size p) (p_line_height p) (p_time p)
                                  (p_items p ++ [PSub b e (tf_model (decoder_of_cct (f_cct f)) (f_teletext f) tf ++
                                                           (if t_cs t =? 2 then [LBr] else []))])) /\
    st_divs s' = st_divs s /\ st_regions s' = st_regions s.
Proof. exact cumulative_member. Qed.

(* non-vacuity *)
Example C09_example_tf :
  map piece_of_leaf (tf_model decode6937 true [13; 3; 200; 97; 32; 98; 138; 138; 128; 99; 143; 100]) =
  [Run (mkAttrs 4294902015 255 false false) [228; 32; 98]; Break; Run (mkAttrs 4294967295 255 true false) [99]].
Proof. vm_compute. reflexivity. Qed.
(* the inputs of the three repaired defects (9e84fe8, 41b1329, 434048d) are now read as the specification prescribes:
   invalid TCP -> no shift, invalid MNR -> 23 rows, a repeated subtitle number above 256 re-uses the paragraph *)
Example C09_example_tcp_fallback :
  paragraphs_of (reader_model (put 256 [48; 48; 48; 48; 88; 88; 48; 48] witness_gsi ++ witness_tti 0 1 2 20 0 0 [65])
                              (mkConfig StTCP MrNone false false None)) = 1.
Proof. vm_compute. reflexivity. Qed.
Example C09_example_mnr_fallback :
  paragraphs_of (reader_model (put 11 [48] (put 253 [88; 88] witness_gsi) ++ witness_tti 0 30 31 20 0 0 [65])
                              (mkConfig StNone MrMNR false false None)) = 1.
Proof. vm_compute. reflexivity. Qed.
Example C09_example_sn_by_value :
  paragraphs_of (reader_model (witness_gsi ++ witness_tti 300 1 2 20 0 0 [65] ++ witness_tti 300 3 4 20 0 0 [66]) cfg0) = 1 /\
  paragraphs_of (reader_model (witness_gsi ++ witness_tti 5 1 2 20 0 0 [65] ++ witness_tti 5 3 4 20 0 0 [66]) cfg0) = 1.
Proof. vm_compute. split; reflexivity. Qed.
Example C09_example_region : region_for 23 20 [65; 138; 66] false = Some (mkRegion (qz 5) (qz 10) (qz 90) (qz 21 / qz 23 * qz 80)%Q true).
Proof. reflexivity. Qed.

Print Assumptions C09_iso6937_single_partial.  Print Assumptions C09_iso6937_pair_partial.  Print Assumptions C09_iso6937_partial.
Print Assumptions C09_iso8859.  Print Assumptions C09_decoder_partial.  Print Assumptions C09_classifiers.
Print Assumptions C09_tf_partial.  Print Assumptions C09_text_partial.  Print Assumptions C09_strip_partial.
Print Assumptions C09_dfc_rates.
Print Assumptions C09_times_24.  Print Assumptions C09_times_25.  Print Assumptions C09_times_50.  Print Assumptions C09_times_2997.
Print Assumptions C09_offset_24.  Print Assumptions C09_offset_25.  Print Assumptions C09_offset_50.  Print Assumptions C09_offset_2997.
Print Assumptions C09_offset_23976_partial.
Print Assumptions C09_rows.  Print Assumptions C09_region.  Print Assumptions C09_region_top_inside.  Print Assumptions C09_region_bottom_inside.
Print Assumptions C09_sn_value.
Print Assumptions C09_grouping_partial.  Print Assumptions C09_subtitle.  Print Assumptions C09_early_dropped.  Print Assumptions C09_cumulative.
