(* C14 — snapshot acceleration and repeated use never change results or the source.
   M = Model/SigTimes.v (cached_docs, content_interval, isd_cached, isd_sequence), Model/Isd.v (isd),
       Model/IsdCache.v (the interval / activity caches of ISD._process_element as explicit state).
   S = Spec/RenderSpec.v (render: the regions that paint), Spec/DocWf.v (the content model the model API enforces).
   Proved for every well-formed document (ruby included) and every rational time:
     - whatever the cache skips paints nothing (`C14_skipped_paints_nothing`, full);
     - the cached snapshot is the uncached one minus regions that paint nothing, hence renders identically
       (`C14_cached_render_equiv_partial`; full for documents with at most one region: `C14_render_equiv_small`);
     - the generated sequence consists of cached snapshots that render like the uncached ones (`C14_sequence_render_partial`);
     - one significant-times object used for any list of times gives what a fresh one gives (`C14_cache_reuse`), and the
       interval cache it carries, however it was filled by earlier calls (raising ones included), never changes a result
       (`C14_cache_state_*`).
   `_partial` = outside the executable trigger `clone_empties_doc` of the recorded finding ruby-base-emptied-by-region
   (Findings/C14.v refutes the unconditional statements: the cached path raises, or drops an empty <rb>).
   When the UNCACHED path raises (recorded C01 finding ruby-inactive-annotation) nothing is claimed: the cached path may
   raise too or return a snapshot (it prunes more before Ruby.push_children looks).
   "The source document is unchanged" holds of an immutable model by construction and is established for the Python
   object graph by fingerprinted operation histories (testing, harness/c14.py). *)
From TT Require Import Model.Doc Gen.StyleTables Model.Isd Model.SigTimes Model.CloneTrigger Model.IsdCache Spec.RenderSpec Spec.DocWf.
From TT Require Import Proofs.C14.Cache Proofs.C14.Restrict Proofs.C14.Sound Proofs.C14.Sequence Proofs.C14.CacheState.

Theorem C14_cached_docs_small : forall d, (length (d_regions d) <= 1)%nat -> cached_docs d = Ok [d].
Proof. exact cached_docs_small. Qed.

(* snapshot generation reads the document only through its initial values and cell/pixel resolutions *)
Theorem C14_params_only : forall d d', same_params d d' ->
  forall t sel e inh par pb pe, proc d t sel inh par pb pe e = proc d' t sel inh par pb pe e.
Proof. exact proc_ext. Qed.

(* the per-region clone gives the same region snapshot as the document itself — any element tree, ruby included *)
Theorem C14_clone_region_partial : forall d r c t rid o,
  clone_keeps d rid -> e_id (eattrs r) = Some rid -> clone_one_region d r = Ok c ->
  proc_region d t (Some rid) r = Ok o -> isd c t = Ok (match o with Some x => [x] | None => [] end).
Proof. exact clone_region_same. Qed.

(* (i) soundness of the content interval: what the cache skips paints nothing (c = the document or one of its clones) *)
Theorem C14_skipped_paints_nothing : forall c t rs,
  doc_wf c = true -> skip_cached t (content_interval c) = true -> isd c t = Ok rs -> Forall (fun r => paints r = false) rs.
Proof. exact skipped_paints_nothing. Qed.
Theorem C14_clone_wf : forall d r c, doc_wf d = true -> In r (d_regions d) -> clone_one_region d r = Ok c -> doc_wf c = true.
Proof. exact clone_wf. Qed.

(* (i)+(ii) MAIN: cached and uncached render identically *)
Theorem C14_cached_render_equiv_partial : forall d t ds rs,
  doc_wf d = true -> clone_empties_doc d = false -> cached_docs d = Ok ds -> isd d t = Ok rs ->
  exists rs', isd_cached d t = Ok rs' /\ omits_only (fun r => paints r = false) rs' rs /\ render rs' = render rs.
Proof. exact cached_render_equiv. Qed.
(* ... unconditionally when nothing is cloned *)
Theorem C14_render_equiv_small : forall d t rs,
  doc_wf d = true -> (length (d_regions d) <= 1)%nat -> isd d t = Ok rs ->
  exists rs', isd_cached d t = Ok rs' /\ omits_only (fun r => paints r = false) rs' rs /\ render rs' = render rs.
Proof. exact render_equiv_small. Qed.

(* outcomes: the cached call raises only if the uncached call raises *)
Theorem C14_cached_raises_only_if_uncached_partial : forall d t ds c,
  doc_wf d = true -> clone_empties_doc d = false -> cached_docs d = Ok ds -> isd_cached d t = Err c -> exists c', isd d t = Err c'.
Proof. exact cached_raises_only_if_uncached. Qed.

(* (iii) generate_isd_sequence = the cached snapshots at the significant times, each rendering like the uncached one *)
Theorem C14_sequence_render_partial : forall d s,
  doc_wf d = true -> clone_empties_doc d = false -> isd_sequence d = Ok s ->
  exists l, sig d = Ok l /\ map fst s = l /\
            Forall (fun p => isd_cached d (fst p) = Ok (snd p) /\
                             forall rs, isd d (fst p) = Ok rs -> omits_only (fun r => paints r = false) (snd p) rs /\ render (snd p) = render rs) s.
Proof. exact sequence_render. Qed.

(* (iv) one significant-times object, any list of times in any order *)
Theorem C14_cache_reuse : forall d ds, cached_docs d = Ok ds ->
  forall ts, map (fun t => isd_cached_docs t ds) ts = map (fun t => isd_cached d t) ts.
Proof. exact cache_reuse. Qed.
Theorem C14_cache_reuse_render_partial : forall d ds, doc_wf d = true -> clone_empties_doc d = false -> cached_docs d = Ok ds ->
  forall ts, Forall (fun t => forall rs, isd d t = Ok rs -> exists rs', isd_cached_docs t ds = Ok rs' /\ render rs' = render rs) ts.
Proof. exact cache_reuse_render. Qed.

(* the interval/activity dictionaries of ISD._process_element as explicit state (Model/IsdCache.v).  One cached document:
   from a sound state (interval entries = absolute intervals, activity entries = activity at t) the call returns what the
   cache-free transcription returns and leaves a sound state; a call without sig_times (empty dictionaries) IS `isd` *)
Theorem C14_cache_state_document : forall c t dc,
  dsound (Some t) c dc -> fst (isd_st c t dc) = isd c t /\ dsound (Some t) c (snd (isd_st c t dc)).
Proof. exact isd_st_sound. Qed.
Theorem C14_from_model_plain : forall d t, from_model_plain d t = isd d t.
Proof. exact from_model_plain_eq. Qed.
(* one call with a SignificantTimes object whose interval caches are sound (stale activity entries are dropped) *)
Theorem C14_cache_state_call : forall t s, state_sound s ->
  fst (from_model_st t s) = isd_cached_docs t (map fst s) /\ state_sound (snd (from_model_st t s)) /\
  map fst (snd (from_model_st t s)) = map fst s.
Proof. exact from_model_st_sound. Qed.
(* (iv) what significant_times builds is sound; any list of query times in any order on that one object returns, at each
   time, what ISD.from_model(doc, t, <fresh object>) returns — whatever the earlier calls wrote into the caches, and also
   when some of them raised *)
Theorem C14_cache_state_built : forall ds, state_sound (built_state ds).
Proof. exact built_state_sound. Qed.
Theorem C14_cache_state_history : forall d ds, cached_docs d = Ok ds -> forall ts,
  fst (run_history ts (built_state ds)) = map (fun t => isd_cached d t) ts.
Proof. exact history_built. Qed.

(* the hypotheses are satisfiable, and the cache does skip a region there (2 regions uncached, 1 cached) *)
Example C14_hypotheses_satisfiable :
  doc_wf ex_doc = true /\ clone_empties_doc ex_doc = false /\ (exists ds, cached_docs ex_doc = Ok ds) /\
  (exists s, isd_sequence ex_doc = Ok s) /\ (exists rs, isd ex_doc (Qmake 3 1) = Ok rs /\ render rs <> []) /\
  (exists rs rs', isd ex_doc (Qmake 5 1) = Ok rs /\ isd_cached ex_doc (Qmake 5 1) = Ok rs' /\ length rs' = 1%nat /\ length rs = 2%nat).
Proof. exact hypotheses_satisfiable. Qed.

Print Assumptions C14_cached_docs_small.  Print Assumptions C14_params_only.  Print Assumptions C14_clone_region_partial.
Print Assumptions C14_skipped_paints_nothing.  Print Assumptions C14_clone_wf.  Print Assumptions C14_cached_render_equiv_partial.
Print Assumptions C14_render_equiv_small.  Print Assumptions C14_cached_raises_only_if_uncached_partial.  Print Assumptions C14_sequence_render_partial.  Print Assumptions C14_cache_reuse.
Print Assumptions C14_cache_reuse_render_partial.  Print Assumptions C14_cache_state_document.  Print Assumptions C14_from_model_plain.
Print Assumptions C14_cache_state_call.  Print Assumptions C14_cache_state_built.  Print Assumptions C14_cache_state_history.
Print Assumptions C14_hypotheses_satisfiable.
