(* C14 — snapshot acceleration and repeated use never change results or the source.  M = Model/SigTimes.v. *)
From TT Require Import Model.Doc Gen.StyleTables Model.Isd Model.SigTimes Spec.RenderSpec Proofs.C14.Cache.

Theorem C14_cached_docs_small : forall d, (length (d_regions d) <= 1)%nat -> cached_docs d = Ok [d].
Proof. exact cached_docs_small. Qed.
Print Assumptions C14_cached_docs_small.
