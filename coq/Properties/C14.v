(* C14 — snapshot acceleration and repeated use never change results or the source.
   M = Model/SigTimes.v (cached_docs, content_interval, isd_cached), Model/Isd.v (isd).
   Proved, for every document without ruby containers (kinds body/div/p/span/br/text: `body_plain`), every
   rational time: the cached snapshot is the uncached snapshot with whole regions left out — every region it
   does contain is EQUAL to the uncached one, so acceleration can never show different content.
   Not proved (full statement): the regions left out paint nothing (soundness of the content interval), and the
   same for documents with ruby; both are evaluated on the model and on the code by harness/c14.py through
   Spec/RenderSpec.v.  "The source document is unchanged" holds of an immutable model by construction and is
   established for the Python object graph by fingerprinted operation histories (testing, harness/c14.py). *)
From TT Require Import Model.Doc Gen.StyleTables Model.Isd Model.SigTimes Spec.RenderSpec Proofs.C14.Cache Proofs.C14.Restrict.

Theorem C14_cached_docs_small : forall d, (length (d_regions d) <= 1)%nat -> cached_docs d = Ok [d].
Proof. exact cached_docs_small. Qed.

(* snapshot generation reads the document only through its initial values and cell/pixel resolutions *)
Theorem C14_params_only : forall d d', same_params d d' ->
  forall t sel e inh par pb pe, proc d t sel inh par pb pe e = proc d' t sel inh par pb pe e.
Proof. exact proc_ext. Qed.

(* the per-region clone gives the same region snapshot as the document itself *)
Theorem C14_clone_region_partial : forall d r c t rid o,
  body_plain d -> e_id (eattrs r) = Some rid -> clone_one_region d r = Ok c ->
  proc_region d t (Some rid) r = Ok o -> isd c t = Ok (match o with Some x => [x] | None => [] end).
Proof. exact clone_region_same. Qed.

Theorem C14_cached_omits_regions_partial : forall d t ds rs,
  body_plain d -> Forall (fun r => exists rid, e_id (eattrs r) = Some rid) (d_regions d) ->
  cached_docs d = Ok ds -> isd d t = Ok rs -> exists rs', isd_cached d t = Ok rs' /\ omits_regions rs' rs.
Proof. exact cached_omits_regions. Qed.

Print Assumptions C14_cached_docs_small.  Print Assumptions C14_params_only.
Print Assumptions C14_clone_region_partial.  Print Assumptions C14_cached_omits_regions_partial.
