(* C18 — readers fail only in documented ways: theorems about the guard models (Model/ReaderGuards.v) judged by
   Spec/RobustSpec.v.  Proofs: Proofs/C18/*.v.  Refutations of the unconditional statements that remain false: Findings/C18.v.

   Scope: these theorems establish totality OF THE TRANSCRIBED GUARDS ONLY.  SccLine.process, stl tf.to_model, html.parser
   (which turns SRT cue text into the callback sequence) and the WebVTT tokenizer are oracles (their observed results are fed to
   the models by the correspondence check); stack depth, memory, and termination of expat / html.parser are not modelled; that
   the transcription marks every Python failure point is enforced by the transcription rule and audited by the outcome-class
   correspondence, not proved.

   Full statement, one per reader guard:
     forall input oracle, (no answer of the oracle is an internal error) -> reader_ok (obs_of_outcome (guard oracle input)) = true
   It now holds for all four line-level guards (C18_srt_total, C18_vtt_total, C18_scc_total, C18_stl_total) and, with the oracle
   of the SRT reader replaced by the transcribed cue-text cursor, for the SRT reader as a whole modulo html.parser
   (C18_srt_composed_total).  The one executable trigger left is in the WebVTT cue-text cursor: a <ruby> start tag
   (finding vtt-ruby-structure).  The triggers of vtt-empty-file, vtt-cue-without-payload, stl-bad-tcp, stl-bad-mnr,
   srt-stray-end-tag, vtt-rt-outside-ruby, stl-zero-block-count, stl-cumulative-block-first, vtt-stray-end-tag,
   vtt-percentage-overflow, srt-font-color-without-value and stl-zero-row-count went with the repairs of the code. *)
From TT Require Import Base.Prelude Model.Outcome Gen.GuardTables Model.ReaderGuards Spec.RobustSpec Model.GuardCueCases.
From TT Require Import Proofs.C18.SpecLink Proofs.C18.Srt Proofs.C18.Vtt Proofs.C18.Scc Proofs.C18.Stl Proofs.C18.Statements Proofs.C18.CueText.

(* ---- 1. SRT --------------------------------------------------------------------------------------------------- *)
(* every internal error of the SRT reader guard is one the cue-text parser raised: the line machine itself (which
   variables are bound in COUNTER / TC / TEXT / TEXT_MORE, what the terminator does in each state) adds none *)
Theorem C18_srt_internal_origin : forall oracle content k,
  srt_run oracle content = Internal k -> In (SubInternal k) oracle.
Proof. exact srt_run_internal. Qed.
Print Assumptions C18_srt_internal_origin.

Theorem C18_srt_total : forall oracle content,
  (forall r, In r oracle -> sub_is_internal r = false) ->
  reader_ok (obs_of_outcome (srt_run oracle content)) = true.
Proof. exact srt_total_ok. Qed.
Print Assumptions C18_srt_total.

(* the same over every sequence of line classifications, i.e. independently of the regular expressions *)
Theorem C18_srt_total_any_classification : forall oracle items k,
  srt_views true oracle items = Internal k -> In (SubInternal k) oracle.
Proof. exact srt_views_internal. Qed.
Print Assumptions C18_srt_total_any_classification.

(* _TextParser on EVERY callback sequence — unmatched, mismatched and surplus end tags (repository commit 818e997), <font> with
   a color attribute that is absent, valueless (lab commit 02aa1c0), rejected or accepted: no internal error *)
Theorem C18_srt_cursor_total : forall attached events,
  reader_ok (obs_of_outcome (srt_cursor_run attached events)) = true.
Proof. exact srt_cursor_total_ok. Qed.
Print Assumptions C18_srt_cursor_total.

(* ... because the cursor never leaves the paragraph: after any callbacks that do not end the parse it is the paragraph or a
   span below it, as deep as there are open tags *)
Theorem C18_srt_cursor_below_paragraph : forall attached events c,
  srt_cursor_state attached {| sc_parent := CP; sc_open := [] |} events = Some c ->
  sc_parent c = match length (sc_open c) with O => CP | S d => CSpan d end.
Proof. exact srt_cursor_below_paragraph. Qed.
Print Assumptions C18_srt_cursor_below_paragraph.

(* line machine and cursor together: whatever the text and whatever callback sequences html.parser produces for the cues, the SRT
   reader guard does not end with an internal error.  Remaining oracle: html.parser itself (finding srt-markup-declaration is an
   AssertionError raised inside it) and the classification of a color value by utils.parse_color *)
Theorem C18_srt_composed_total : forall cues content,
  reader_ok (obs_of_outcome (srt_run (srt_cue_oracle cues) content)) = true.
Proof. exact srt_composed_total_ok. Qed.
Print Assumptions C18_srt_composed_total.

(* the time-code line after repository commit 4d63802: an hour field of ANY width of two or more ASCII digits is matched (the SRT writer
   prints as many digits as the hours need), whatever follows *)
Theorem C18_srt_hour_field_any_width : forall hh m1 m2 s1 s2 f1 f2 f3 rest,
  forallb ascii_digit hh = true -> (2 <= length hh)%nat -> forallb ascii_digit [m1; m2; s1; s2; f1; f2; f3] = true ->
  srt_ts (hh ++ 58 :: m1 :: m2 :: 58 :: s1 :: s2 :: 44 :: f1 :: f2 :: f3 :: rest) = Some (Z.of_nat (length hh), rest).
Proof. exact srt_ts_any_hours. Qed.
Print Assumptions C18_srt_hour_field_any_width.

(* ... and where a format error (a documented outcome) of the SRT guard comes from: the cue-text parser (a colour parse_color rejects), or
   int() of an hour field with more digits than the interpreter converts — which needs a line longer than that limit *)
Theorem C18_srt_format_error_origin : forall oracle content k,
  srt_run oracle content = FormatError k ->
  In (SubFormat k) oracle \/ (k = ValueErr /\ existsb (fun l => sv_tc_long (srt_classify l)) (readlines content) = true).
Proof. exact srt_run_format. Qed.
Print Assumptions C18_srt_format_error_origin.

Theorem C18_srt_format_error_short_lines : forall oracle content k,
  (forall l, In l (readlines content) -> Z.of_nat (length l) <= int_max_str_digits) ->
  srt_run oracle content = FormatError k -> In (SubFormat k) oracle.
Proof. exact srt_run_format_short. Qed.
Print Assumptions C18_srt_format_error_short_lines.

(* ---- 2. WebVTT ------------------------------------------------------------------------------------------------ *)
(* on every text, the empty one included, with any cue settings (lab commit cb365b8 removed the last trigger, a percentage
   that overflows a float) *)
Theorem C18_vtt_internal_origin : forall oracle content k,
  vtt_run oracle content = Internal k -> In (SubInternal k) oracle.
Proof. exact vtt_run_internal. Qed.
Print Assumptions C18_vtt_internal_origin.

Theorem C18_vtt_total : forall oracle content,
  (forall r, In r oracle -> sub_is_internal r = false) ->
  reader_ok (obs_of_outcome (vtt_run oracle content)) = true.
Proof. exact vtt_total_ok. Qed.
Print Assumptions C18_vtt_total.

Theorem C18_vtt_total_any_classification : forall oracle items k,
  vtt_views oracle items = Internal k -> In (SubInternal k) oracle.
Proof. exact vtt_views_internal. Qed.
Print Assumptions C18_vtt_total_any_classification.

(* _TextCueParser on every token sequence without a <ruby> start tag — unmatched, mismatched and surplus end tags (lab commit
   654d3f5), <rt> anywhere (commit 15db449), timestamp tags (commit 8eaaab8): no internal error.  With <ruby> the unconditional
   statement is false (finding vtt-ruby-structure, Findings/C18.v) *)
Theorem C18_vtt_cursor_partial : forall attached events,
  vtt_has_ruby events = false ->
  reader_ok (obs_of_outcome (vtt_cursor_run attached events)) = true.
Proof. exact vtt_cursor_partial_ok. Qed.
Print Assumptions C18_vtt_cursor_partial.

(* for EVERY token sequence, ruby included: while the parse goes on the cursor is the paragraph or below it — never None, the
   div or the body (what finding vtt-stray-end-tag was about) *)
Theorem C18_vtt_cursor_never_above_paragraph : forall (attached : bool) events c,
  let tail : list vkind := if attached then [KDiv; KBody] else [] in
  vtt_cursor_state {| c_path := KP :: tail; c_ruby := None; c_open := [] |} events = Some c ->
  exists pre, c_path c = pre ++ KP :: tail.
Proof. exact vtt_cursor_never_above_p. Qed.
Print Assumptions C18_vtt_cursor_never_above_paragraph.

(* the exact trigger of finding vtt-ruby-structure on a cue TEXT (tokenizer included) is C11's model of _parse_cue_text, which the check
   evaluates on every cue text of a run (Model/GuardCueCases.v cue_class): for every text it returns (0), raises TypeError (21) or raises
   RuntimeError (29) — C11_cue_text_exceptions in C18's codes.  Any other exception of the code, and a TypeError / RuntimeError on a text for
   which cue_class computes something else, is therefore a violation, ruby or not *)
Theorem C18_vtt_cue_text_classes : forall cue_text, cue_class cue_text = 0 \/ cue_class cue_text = 21 \/ cue_class cue_text = 29.
Proof. exact cue_class_values. Qed.
Print Assumptions C18_vtt_cue_text_classes.

(* line machine and cursor together, for files whose cues have no <ruby> tag; remaining oracle: the tokenizer *)
Theorem C18_vtt_composed_partial : forall cues content,
  (forall c, In c cues -> vtt_has_ruby (snd c) = false) ->
  reader_ok (obs_of_outcome (vtt_run (vtt_cue_oracle cues) content)) = true.
Proof. exact vtt_composed_partial_ok. Qed.
Print Assumptions C18_vtt_composed_partial.

(* ---- 3. SCC --------------------------------------------------------------------------------------------------- *)
(* SccLine.from_str / SccWord.from_str on every line of every text: None, a line, or ValueError — never IndexError,
   although SccWord.from_str alone can raise it (Findings/C18.v C18_scc_word_refuted).  Remaining oracle: SccLine.process *)
Theorem C18_scc_internal_origin : forall oracle content k,
  scc_run oracle content = Internal k -> In (SubInternal k) oracle.
Proof. exact scc_run_internal. Qed.
Print Assumptions C18_scc_internal_origin.

Theorem C18_scc_total : forall oracle content,
  (forall r, In r oracle -> sub_is_internal r = false) ->
  reader_ok (obs_of_outcome (scc_run oracle content)) = true.
Proof. exact scc_total_ok. Qed.
Print Assumptions C18_scc_total.

(* ---- 4. EBU STL ----------------------------------------------------------------------------------------------- *)
(* over byte lists of any length and every reader configuration: struct.error for wrong sizes, otherwise no internal error
   unless tf.to_model (the remaining oracle) raises one.  The three triggers went with repository commits c08d0ef, 8f4f9e5 and
   lab commit 7e042d3 *)
Theorem C18_stl_internal_origin : forall cfg oracle file k,
  stl_run cfg oracle file = Internal k -> In (SubInternal k) oracle.
Proof. exact stl_run_internal. Qed.
Print Assumptions C18_stl_internal_origin.

Theorem C18_stl_total : forall cfg oracle file,
  (forall r, In r oracle -> sub_is_internal r = false) ->
  reader_ok (obs_of_outcome (stl_run cfg oracle file)) = true.
Proof. exact stl_total_ok. Qed.
Print Assumptions C18_stl_total.

(* a file shorter than the GSI block is a struct.error under every configuration *)
Theorem C18_stl_short_file : forall cfg oracle file,
  (length file < 1024)%nat -> stl_run cfg oracle file = FormatError StructErr.
Proof. exact stl_short_header. Qed.
Print Assumptions C18_stl_short_file.

(* ---- S and the guard outcomes --------------------------------------------------------------------------------- *)
Theorem C18_spec_iff_not_internal : forall o, reader_ok (obs_of_outcome o) = negb (is_internal o).
Proof. exact reader_ok_obs. Qed.
Print Assumptions C18_spec_iff_not_internal.

(* ---- the hypotheses are satisfiable (and the conclusions are about real work) -------------------------------------- *)
(* "WEBVTT\n\nNOTE x\n\n1\n00:01.000 --> 00:02.000 size:50%\nhello\n\n" *)
Example C18_vtt_total_applies :
  let content := [87;69;66;86;84;84;10;10;78;79;84;69;32;120;10;10;49;10;48;48;58;48;49;46;48;48;48;32;45;45;62;32;48;48;58;48;50;46;48;48;48;32;115;105;122;101;58;53;48;37;10;104;101;108;108;111;10;10] in
  vtt_run [] content = OkDoc /\ vtt_calls [] content = [true] /\ vtt_run [] [] = OkDoc.
Proof. repeat split; vm_compute; reflexivity. Qed.

(* "1\n00:00:01,000 --> 00:00:02,000\nhello\n\n2\n" : one cue parsed, then the end of input in state TC; a file whose counter
   line is missing returns None *)
Example C18_srt_runs :
  srt_run [] [49;10;48;48;58;48;48;58;48;49;44;48;48;48;32;45;45;62;32;48;48;58;48;48;58;48;50;44;48;48;48;10;104;101;108;108;111;10;10;50;10] = OkDoc
  /\ srt_calls [] [49;10;48;48;58;48;48;58;48;49;44;48;48;48;32;45;45;62;32;48;48;58;48;48;58;48;50;44;48;48;48;10;104;101;108;108;111;10;10;50;10] = [true]
  /\ srt_run [] [104; 105; 10] = OkNone.
Proof. repeat split; vm_compute; reflexivity. Qed.

(* "1000:00:00,000 --> 12345:00:01,000\n" is a time-code line; with an hour field of 4301 digits the reader raises ValueError (int()), with
   4300 digits it does not *)
Definition C18_tc_line (h : text) : text :=
  h ++ [58;48;48;58;48;48;44;48;48;48;32;45;45;62;32;49;50;51;52;53;58;48;48;58;48;49;44;48;48;48;10].
Example C18_srt_hour_widths_classified :
  srt_classify (C18_tc_line [49;48;48;48]) = {| sv_blank := false; sv_counter := true; sv_tc := true; sv_tc_long := false |}.
Proof. vm_compute. reflexivity. Qed.
Example C18_srt_hour_4301_digits : srt_run [] ([49;10] ++ C18_tc_line (repeat 49 4301) ++ [120;10]) = FormatError ValueErr.
Proof. vm_compute. reflexivity. Qed.
Example C18_srt_hour_4300_digits : srt_run [] ([49;10] ++ C18_tc_line (repeat 49 4300) ++ [120;10]) = OkDoc.
Proof. vm_compute. reflexivity. Qed.
(* the hypothesis of C18_srt_format_error_short_lines is satisfiable *)
Example C18_srt_short_lines_applies :
  forall l, In l (readlines ([49;10] ++ C18_tc_line [49;48;48;48])) -> Z.of_nat (length l) <= int_max_str_digits.
Proof. intros l H. vm_compute in H. destruct H as [H|[H|[]]]; subst; vm_compute; discriminate. Qed.

(* the predicate of finding vtt-ruby-structure takes its three values: <b><ruby>, <ruby><b>, and a ruby whose annotation holds formatting
   nested two deep, followed by more base text and another annotation ("<ruby>a<rt><c><i>x</i></c></rt>b<rt>y</rt></ruby>") *)
Example C18_vtt_cue_text_classes_reached :
  cue_class [60;98;62;60;114;117;98;121;62] = 21
  /\ cue_class [60;114;117;98;121;62;60;98;62] = 29
  /\ cue_class [60;114;117;98;121;62;97;60;114;116;62;60;99;62;60;105;62;120;60;47;105;62;60;47;99;62;60;47;114;116;62;98;60;114;116;62;121;60;47;114;116;62;60;47;114;117;98;121;62] = 0.
Proof. exact cue_class_examples. Qed.

(* "Scenarist_SCC V1.0\n\n00:00:00:00\t9420 9470 c1c2\n" is read; "00:00:00:00\t94zz\n" is a ValueError *)
Example C18_scc_runs :
  scc_run [] [83;99;101;110;97;114;105;115;116;95;83;67;67;32;86;49;46;48;10;10;48;48;58;48;48;58;48;48;58;48;48;9;57;52;50;48;32;57;52;55;48;32;99;49;99;50;10] = OkDoc
  /\ scc_run [] [48;48;58;48;48;58;48;48;58;48;48;9;57;52;122;122;10] = FormatError ValueErr.
Proof. split; vm_compute; reflexivity. Qed.

(* a one-subtitle STL file under the default configuration; a file cut inside a TTI block is a struct.error; MNR = "00" under
   max_row_count = "MNR" is read with the default row count *)
Example C18_stl_total_applies :
  let gsi := repeat 32 3 ++ [83;84;76;50;53;46;48;49] ++ repeat 32 1013 in
  let block := [0; 1; 0; 255; 0; 0; 0; 5; 0; 0; 0; 6; 0; 20; 2; 0] ++ repeat 143 112 in
  let cfg := {| cfg_start := StartNone; cfg_rows := RowsNone |} in
  stl_run cfg [] (gsi ++ block) = OkDoc /\ stl_run cfg [] (gsi ++ firstn 100 block) = FormatError StructErr
  /\ stl_run {| cfg_start := StartNone; cfg_rows := RowsMNR |} [] (firstn 253 gsi ++ [48; 48] ++ skipn 255 gsi ++ block) = OkDoc.
Proof. repeat split; vm_compute; reflexivity. Qed.


(* the cursor theorems are about real work: "<b><i>x</b>y</i></i>" (mismatched, then surplus end tags) and "<font color>z" are parsed
   to the end; a WebVTT cue "a</b><c>b<rt>c</rt></c></v>d" too; the composed oracle of a cue with a bad colour is a ValueError *)
Example C18_cursor_theorems_apply :
  srt_cursor_run true [EvStart 0 None; EvStart 1 None; EvData; EvEnd 0; EvData; EvEnd 1; EvEnd 1; EvStart 2 (Some ColorNoValue); EvData] = OkDoc
  /\ vtt_has_ruby [TData 0; TEnd 0; TStartSpan 1; TData 0; TStartRt 2; TData 0; TEnd 2; TEnd 1; TEnd 3; TData 0] = false
  /\ vtt_cursor_run true [TData 0; TEnd 0; TStartSpan 1; TData 0; TStartRt 2; TData 0; TEnd 2; TEnd 1; TEnd 3; TData 0] = OkDoc
  /\ srt_cue_oracle [(true, [EvStart 0 (Some ColorBad)])] = [SubFormat ValueErr].
Proof. repeat split; reflexivity. Qed.

(* the hypothesis of C18_vtt_composed_partial is satisfiable, and the composed guard does real work: the cue of
   "WEBVTT\n\n00:01.000 --> 00:02.000\na</b>c\n" handed to the cursor as [text; </b>; text] *)
Example C18_vtt_composed_applies :
  let cues := [(true, [TData 0; TEnd 0; TData 0])] in
  let content := [87;69;66;86;84;84;10;10;48;48;58;48;49;46;48;48;48;32;45;45;62;32;48;48;58;48;50;46;48;48;48;10;97;60;47;98;62;99;10] in
  (forall c, In c cues -> vtt_has_ruby (snd c) = false) /\ vtt_cue_oracle cues = [SubOk]
  /\ vtt_run (vtt_cue_oracle cues) content = OkDoc /\ vtt_calls (vtt_cue_oracle cues) content = [true].
Proof. repeat split; try (vm_compute; reflexivity). intros c [E|[]]; subst; reflexivity. Qed.

(* ... and the premise of C18_vtt_cursor_never_above_paragraph too: after "<ruby>a<rt>b</ruby></i></ruby>" the cursor is the paragraph *)
Example C18_vtt_never_above_applies :
  exists c, vtt_cursor_state {| c_path := [KP; KDiv; KBody]; c_ruby := None; c_open := [] |}
              [TStartRuby 0; TData 0; TStartRt 1; TData 0; TEnd 0; TEnd 2; TEnd 0] = Some c /\ c_path c = [KP; KDiv; KBody].
Proof. eexists. split; reflexivity. Qed.

(* ---- 6. The complete reader and writer models of the other properties ------------------------------------------------------
   The guard models above treat the cue-text parsers, SccLine.process and tf.to_model as oracles.  The complete transcriptions built
   for C04, C05, C08, C09, C10 and C11 (each tied to the code by its own property's correspondence run) have no oracle; what their
   theorems say about failure is restated here (Proofs/C18/FullModels.v holds nothing but the references). *)
From TT Require Proofs.C18.FullModels.
From TT Require Base.SrtTypes Model.SrtReader Model.VttReader Model.StlDatafile Model.SccReader Base.SccDoc Base.ImscXml Model.ImscTiming Model.ImscWrite.

(* SRT: for every text, through a newline-translating file or a raw stream, nothing but ValueError is raised *)
Theorem C18_full_srt_reader : forall content,
  Proofs.C10.Outcomes.value_error_only (Model.SrtReader.to_model content) /\
  Proofs.C10.Outcomes.value_error_only (Model.SrtReader.to_model_file content) /\
  Proofs.C10.Outcomes.value_error_only (Model.SrtReader.read_cues content) /\
  Proofs.C10.Outcomes.value_error_only (Model.SrtReader.read_cues_file content).
Proof. exact Proofs.C18.FullModels.srt_reader_only_value_error. Qed.
Print Assumptions C18_full_srt_reader.

(* WebVTT: for every file text the only exceptions are TypeError and RuntimeError, i.e. the recorded finding vtt-ruby-structure *)
Theorem C18_full_vtt_reader : forall file e,
  Model.VttReader.to_model file = Model.VttReader.Raised e -> e = Model.VttReader.ExType \/ e = Model.VttReader.ExRuntime.
Proof. exact Proofs.C18.FullModels.vtt_reader_exceptions. Qed.
Print Assumptions C18_full_vtt_reader.

(* EBU STL: for every byte string and configuration the only errors are struct.error and ValueError *)
Theorem C18_full_stl_reader : forall file cfg e,
  Model.StlDatafile.reader_model file cfg = Model.StlDatafile.Err e -> e = Model.StlDatafile.EStruct \/ e = Model.StlDatafile.EValue.
Proof. exact Proofs.C18.FullModels.stl_reader_errors. Qed.
Print Assumptions C18_full_stl_reader.

(* SCC: to_model raises iff some line holds a malformed word *)
Theorem C18_full_scc_reader : forall talign lines,
  Model.SccReader.to_model talign lines = Base.SccDoc.DocErr <-> exists l, List.In l lines /\ Model.SccReader.from_str l = Model.SccReader.LErr.
Proof. exact Proofs.C18.FullModels.scc_reader_raises_iff. Qed.
Print Assumptions C18_full_scc_reader.

(* IMSC (from the ElementTree on): every tree is read into a document *)
Theorem C18_full_imsc_reader : forall tm vl x, exists d, Model.ImscTiming.read_tt tm vl x = Model.ImscTiming.DOk d.
Proof. exact Proofs.C18.FullModels.imsc_reader_total. Qed.
Print Assumptions C18_full_imsc_reader.
