(* C18 — readers fail only in documented ways: theorems about the guard models (Model/ReaderGuards.v) judged by
   Spec/RobustSpec.v.  Proofs: Proofs/C18/*.v.  Refutations of the unconditional statements: Findings/C18.v.

   Scope: these theorems establish totality OF THE TRANSCRIBED GUARDS ONLY.  The cue-text parsers, SccLine.process and
   stl tf.to_model are oracles (their observed results are fed to the models by the correspondence check); stack depth,
   memory, and termination of expat / html.parser are not modelled; that the transcription marks every Python failure
   point is enforced by the transcription rule and audited by the outcome-class correspondence, not proved.

   Full statement (false today, see Findings/C18.v):
     forall reader input, reader_ok (obs_of_outcome (reader_guard input)) = true
   What holds: unconditionally for the SRT and SCC guards; for WebVTT and STL outside the executable triggers below
     (one for WebVTT, three for STL; the empty-file, cue-without-payload, bad-TCP and bad-MNR triggers went with
     repository commits 7ed55ac, 05a353c, 9e84fe8, 41b1329). *)
From TT Require Import Base.Prelude Model.Outcome Model.ReaderGuards Spec.RobustSpec.
From TT Require Import Proofs.C18.SpecLink Proofs.C18.Srt Proofs.C18.Vtt Proofs.C18.Scc Proofs.C18.Stl.

(* ---- 1. SRT --------------------------------------------------------------------------------------------------- *)
(* every internal error of the SRT reader guard is one the cue-text parser raised: the line machine itself (which
   variables are bound in COUNTER / TC / TEXT / TEXT_MORE, what the terminator does in each state) adds none *)
Theorem C18_srt_internal_origin : forall oracle content k,
  srt_run oracle content = Internal k -> In (SubInternal k) oracle.
Proof. exact srt_run_internal. Qed.
Print Assumptions C18_srt_internal_origin.

Theorem C18_srt_total : forall oracle content,
  (forall r, In r oracle -> sub_is_internal r = false) ->
  reader_ok (obs_of_outcome (srt_run oracle content)) = true.
Proof. intros. apply not_internal_ok. apply srt_total. assumption. Qed.
Print Assumptions C18_srt_total.

(* the same over every sequence of line classifications, i.e. independently of the regular expressions *)
Theorem C18_srt_total_any_classification : forall oracle items k,
  srt_views true oracle items = Internal k -> In (SubInternal k) oracle.
Proof. exact srt_views_internal. Qed.
Print Assumptions C18_srt_total_any_classification.

(* _TextParser on every callback sequence, unmatched and mismatched end tags included (the trigger srt-stray-end-tag went with
   repository commit 818e997): no internal error unless a color attribute has no value (finding srt-font-color-without-value) *)
Theorem C18_srt_cursor_partial : forall attached events,
  srt_font_novalue events = false ->
  reader_ok (obs_of_outcome (srt_cursor_run attached events)) = true.
Proof. intros. apply not_internal_ok. apply srt_cursor_partial; assumption. Qed.
Print Assumptions C18_srt_cursor_partial.

(* ---- 2. WebVTT ------------------------------------------------------------------------------------------------ *)
(* on every text, the empty one included; the only trigger left is a percentage setting that overflows a float
   (vtt-percentage-overflow) *)
Theorem C18_vtt_partial : forall oracle content,
  vtt_any_overflow (map vtt_classify (readlines content)) = false ->
  (forall r, In r oracle -> sub_is_internal r = false) ->
  reader_ok (obs_of_outcome (vtt_run oracle content)) = true.
Proof. intros. apply not_internal_ok. apply vtt_partial; assumption. Qed.
Print Assumptions C18_vtt_partial.

Theorem C18_vtt_internal_origin_partial : forall oracle items k,
  vtt_any_overflow items = false ->
  vtt_views oracle items = Internal k -> In (SubInternal k) oracle.
Proof. exact vtt_views_partial. Qed.
Print Assumptions C18_vtt_internal_origin_partial.

(* _TextCueParser without a <ruby> tag (<rt> alone is an ordinary tag since commit 15db449, timestamp tags open nothing since
   commit 8eaaab8): no internal error unless an end tag closes nothing (vtt-stray-end-tag); with <ruby> the unconditional
   statement is false (vtt-ruby-structure) and nothing is proved *)
Theorem C18_vtt_cursor_partial : forall attached events,
  vtt_stray_end events = false -> vtt_has_ruby events = false ->
  reader_ok (obs_of_outcome (vtt_cursor_run attached events)) = true.
Proof. intros. apply not_internal_ok. apply vtt_cursor_partial; assumption. Qed.
Print Assumptions C18_vtt_cursor_partial.

(* ---- 3. SCC --------------------------------------------------------------------------------------------------- *)
(* SccLine.from_str / SccWord.from_str on every line of every text: None, a line, or ValueError — never IndexError,
   although SccWord.from_str alone can raise it (Findings/C18.v C18_scc_word_refuted) *)
Theorem C18_scc_internal_origin : forall oracle content k,
  scc_run oracle content = Internal k -> In (SubInternal k) oracle.
Proof. exact scc_run_internal. Qed.
Print Assumptions C18_scc_internal_origin.

Theorem C18_scc_total : forall oracle content,
  (forall r, In r oracle -> sub_is_internal r = false) ->
  reader_ok (obs_of_outcome (scc_run oracle content)) = true.
Proof. intros. apply not_internal_ok. apply scc_total. assumption. Qed.
Print Assumptions C18_scc_total.

(* ---- 4. EBU STL ----------------------------------------------------------------------------------------------- *)
(* over byte lists of any length and every reader configuration: struct.error for wrong sizes, otherwise no internal error
   unless the executable trigger of stl-zero-row-count fires or tf.to_model (oracle) raises one (the triggers
   stl-zero-block-count and stl-cumulative-block-first went with repository commits c08d0ef and 8f4f9e5) *)
Theorem C18_stl_partial : forall cfg oracle file,
  trig_zero_rows cfg (firstn 1024 file) = false ->
  (forall r, In r oracle -> sub_is_internal r = false) ->
  reader_ok (obs_of_outcome (stl_run cfg oracle file)) = true.
Proof. intros. apply not_internal_ok. apply stl_partial; assumption. Qed.
Print Assumptions C18_stl_partial.

Theorem C18_stl_internal_origin_partial : forall cfg oracle file k,
  trig_zero_rows cfg (firstn 1024 file) = false ->
  stl_run cfg oracle file = Internal k -> In (SubInternal k) oracle.
Proof. exact stl_run_internal. Qed.
Print Assumptions C18_stl_internal_origin_partial.

(* ---- S and the guard outcomes --------------------------------------------------------------------------------- *)
Theorem C18_spec_iff_not_internal : forall o, reader_ok (obs_of_outcome o) = negb (is_internal o).
Proof. exact reader_ok_obs. Qed.
Print Assumptions C18_spec_iff_not_internal.

(* ---- the hypotheses are satisfiable (and the conclusions are about real work) -------------------------------------- *)
(* "WEBVTT\n\nNOTE x\n\n1\n00:01.000 --> 00:02.000 size:50%\nhello\n\n" *)
Example C18_vtt_partial_applies :
  let content := [87;69;66;86;84;84;10;10;78;79;84;69;32;120;10;10;49;10;48;48;58;48;49;46;48;48;48;32;45;45;62;32;48;48;58;48;50;46;48;48;48;32;115;105;122;101;58;53;48;37;10;104;101;108;108;111;10;10] in
  vtt_any_overflow (map vtt_classify (readlines content)) = false /\ vtt_run [] content = OkDoc /\ vtt_calls [] content = [true]
  /\ vtt_run [] [] = OkDoc.
Proof. repeat split; vm_compute; reflexivity. Qed.

(* "1\n00:00:01,000 --> 00:00:02,000\nhello\n\n2\n" : one cue parsed, then the end of input in state TC; a file whose counter
   line is missing returns None *)
Example C18_srt_runs :
  srt_run [] [49;10;48;48;58;48;48;58;48;49;44;48;48;48;32;45;45;62;32;48;48;58;48;48;58;48;50;44;48;48;48;10;104;101;108;108;111;10;10;50;10] = OkDoc
  /\ srt_calls [] [49;10;48;48;58;48;48;58;48;49;44;48;48;48;32;45;45;62;32;48;48;58;48;48;58;48;50;44;48;48;48;10;104;101;108;108;111;10;10;50;10] = [true]
  /\ srt_run [] [104; 105; 10] = OkNone.
Proof. repeat split; vm_compute; reflexivity. Qed.

(* "Scenarist_SCC V1.0\n\n00:00:00:00\t9420 9470 c1c2\n" is read; "00:00:00:00\t94zz\n" is a ValueError *)
Example C18_scc_runs :
  scc_run [] [83;99;101;110;97;114;105;115;116;95;83;67;67;32;86;49;46;48;10;10;48;48;58;48;48;58;48;48;58;48;48;9;57;52;50;48;32;57;52;55;48;32;99;49;99;50;10] = OkDoc
  /\ scc_run [] [48;48;58;48;48;58;48;48;58;48;48;9;57;52;122;122;10] = FormatError ValueErr.
Proof. split; vm_compute; reflexivity. Qed.

(* a one-subtitle STL file under the default configuration: no trigger fires; a file cut inside a TTI block is a struct.error *)
Example C18_stl_partial_applies :
  let gsi := repeat 32 3 ++ [83;84;76;50;53;46;48;49] ++ repeat 32 1013 in
  let block := [0; 1; 0; 255; 0; 0; 0; 5; 0; 0; 0; 6; 0; 20; 2; 0] ++ repeat 143 112 in
  let cfg := {| cfg_start := StartNone; cfg_rows := RowsNone |} in
  trig_zero_rows cfg (firstn 1024 (gsi ++ block)) = false
  /\ stl_run cfg [] (gsi ++ block) = OkDoc /\ stl_run cfg [] (gsi ++ firstn 100 block) = FormatError StructErr.
Proof. repeat split; vm_compute; reflexivity. Qed.
