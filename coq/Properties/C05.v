(* C05 — writing a document as IMSC and reading it back presents identically.
   Only statements, `exact`, and Print Assumptions.  M = Model/ImscWrite.v (value printers of the IMSC writer, value parsers of the
   IMSC reader), Model/ImscTime.v (the reader's time-expression parser, C04), Model/TimeCode.v (C12).  All statements are for
   unbounded inputs unless a bound is written in the statement. *)
From TT Require Import Base.Prelude Base.ImscXml Model.ImscTime Model.TimeCode Model.ImscWrite Gen.ImscTables.
From TT Require Import Proofs.C04.TimeSyntax Proofs.C05.Times Proofs.C05.Values.
From Coq Require Import QArith.
Local Open Scope Z_scope.

(* ---- times ------------------------------------------------------------------------------------------------------------------- *)
(* clock time: a millisecond multiple below 100 h is written as hh:mm:ss.mmm and read back exactly, whatever the reader's rates *)
Theorem C05_time_clock : forall t k fps tr fr,
  (t == k # 1000)%Q -> 0 <= k < 360000000 -> 0 < tr -> (0 < fr)%Q ->
  exists s, to_time_format SyClock fps t = Some s /\ exists q, parse_time_x (Some tr) (Some fr) s = TVal q /\ (q == t)%Q.
Proof. exact time_clock. Qed.

(* frames: t >= 0 is written as "Nf" with N = ceil(t * fps), and read back under the same frame rate as N / fps ... *)
Theorem C05_time_frames : forall t fps tr, (0 <= t)%Q -> (0 < fps)%Q ->
  exists s, to_time_format SyFrames (Some fps) t = Some s /\
            exists q, parse_time_x tr (Some fps) s = TVal q /\ (q == inject_Z (frames_of t fps) / fps)%Q.
Proof. exact time_frames. Qed.
(* ... which is never earlier than t and later by less than one frame, ... *)
Theorem C05_time_frames_error : forall t fps, (0 < fps)%Q ->
  let q := (inject_Z (frames_of t fps) / fps)%Q in (t <= q)%Q /\ (q - t < 1 / fps)%Q.
Proof. exact frames_error. Qed.
(* ... exact on whole frames, and order-preserving *)
Theorem C05_time_frames_exact : forall k fps, (0 < fps)%Q -> frames_of (inject_Z k / fps) fps = k.
Proof. exact frames_exact. Qed.
Theorem C05_time_frames_monotone : forall t1 t2 fps, (0 < fps)%Q -> (t1 <= t2)%Q -> frames_of t1 fps <= frames_of t2 fps.
Proof. exact frames_monotone. Qed.

(* clock time with frames (integer frame rate F, two-digit frames field): t >= 0 below 100 h is written hh:mm:ss:ff and read back under
   the same frame rate as floor(t * F) / F, which is never later than t and earlier by less than one frame *)
Theorem C05_time_clock_frames : forall t F tr, 2 <= F <= 99 -> (0 <= t)%Q -> (t < 360000 # 1)%Q ->
  let k := (Qnum t * F) / (Zpos (Qden t) * 1) in
  exists s, to_time_format SyClockFrames (Some (inject_Z F)) t = Some s /\
            exists q, parse_time_x tr (Some (inject_Z F)) s = TVal q /\ (q == inject_Z k / inject_Z F)%Q.
Proof. exact time_clock_frames. Qed.
Theorem C05_time_clock_frames_error : forall t F, 0 < F ->
  let k := (Qnum t * F) / (Zpos (Qden t) * 1) in
  let q := (inject_Z k / inject_Z F)%Q in (q <= t)%Q /\ (t - q < 1 / inject_Z F)%Q.
Proof. exact clock_frames_error. Qed.
(* the frame rate itself: ttp:frameRate and ttp:frameRateMultiplier as the writer emits them are read back as the same rate, for each
   of the seven frame rates of the property (finite domain, enumerated) *)
Theorem C05_frame_rate_roundtrip : forallb rate_roundtrip [24 # 1; 25 # 1; 30 # 1; 50 # 1; 60 # 1; 24000 # 1001; 30000 # 1001]%Q = true.
Proof. exact frame_rate_roundtrip. Qed.

(* ---- attribute values -------------------------------------------------------------------------------------------------------- *)
(* the 16 enumeration-valued properties (tables regenerated from the source): every member is read back *)
Theorem C05_attr_roundtrip_enum : forall p o s, print_style p (SEnum o) = WAttr s -> read_style p s = Some (SEnum o).
Proof. exact enum_roundtrip. Qed.
Theorem C05_attr_roundtrip_bool : forall b, exists s, print_style P_FillLineGap (SBool b) = WAttr s /\ read_style P_FillLineGap s = Some (SBool b).
Proof. exact bool_roundtrip. Qed.
(* colours: every RGBA8 colour *)
Theorem C05_attr_roundtrip_color : forall r g b a, byte r -> byte g -> byte b -> byte a ->
  read_style P_Color (print_color (r, g, b, a)) = Some (SColor (r, g, b, a)) /\
  print_style P_Color (SColor (r, g, b, a)) = WAttr (print_color (r, g, b, a)).
Proof. exact color_style_roundtrip. Qed.
Theorem C05_attr_roundtrip_background_partial : forall r g b a, byte r -> byte g -> byte b -> byte a ->
  color_eqb (r, g, b, a) transparent = false ->
  print_style P_BackgroundColor (SColor (r, g, b, a)) = WAttr (print_color (r, g, b, a)) /\
  read_style P_BackgroundColor (print_color (r, g, b, a)) = Some (SColor (r, g, b, a)).
Proof. exact background_roundtrip_partial. Qed.
(* lengths: Python's format(x, "g") then parse_length gives x rounded to six significant digits in the same unit, for every rational
   x and every unit, unless the writer switches to exponent notation (trigger uses_exponent: finding g-exponent) *)
Theorem C05_length_roundtrip_partial : forall x u, 0 <= u <= 5 -> uses_exponent x = false ->
  exists v, parse_len (print_len (mkLen x u)) = Some (mkLen v u) /\ (v == round6 x)%Q.
Proof. exact len_roundtrip. Qed.
Theorem C05_attr_roundtrip_length_partial : forall p l, p = P_FontSize \/ p = P_Disparity -> valid_len l ->
  print_style p (SLen l) = WAttr (print_len l) /\ exists l', read_style p (print_len l) = Some (SLen l') /\ len_equiv l l'.
Proof. exact length_property_roundtrip. Qed.
Theorem C05_attr_roundtrip_line_height_partial : forall l, valid_len l ->
  read_style P_LineHeight T_normal = Some SNormal /\ print_style P_LineHeight SNormal = WAttr T_normal /\
  exists l', read_style P_LineHeight (print_len l) = Some (SLen l') /\ len_equiv l l'.
Proof. exact line_height_roundtrip. Qed.
Theorem C05_attr_roundtrip_line_padding_partial : forall l, valid_len l -> l_unit l = U_c ->
  exists l', read_style P_LinePadding (print_len l) = Some (SLen l') /\ len_equiv l l'.
Proof. exact line_padding_roundtrip_partial. Qed.
Theorem C05_attr_roundtrip_extent_partial : forall w h, valid_len w -> valid_len h -> validate_style P_Extent (SExtent w h) = true ->
  exists s, print_style P_Extent (SExtent w h) = WAttr s /\
  exists w' h', read_style P_Extent s = Some (SExtent w' h') /\ len_equiv w w' /\ len_equiv h h'.
Proof. exact extent_roundtrip. Qed.
Theorem C05_attr_roundtrip_origin_partial : forall x y, valid_len x -> valid_len y -> validate_style P_Origin (SOrigin x y) = true ->
  exists s, print_style P_Origin (SOrigin x y) = WAttr s /\
  exists x' y', read_style P_Origin s = Some (SOrigin x' y') /\ len_equiv x x' /\ len_equiv y y'.
Proof. exact origin_roundtrip. Qed.
Theorem C05_attr_roundtrip_padding_partial : forall b e a s, valid_len b -> valid_len e -> valid_len a -> valid_len s ->
  exists t, print_style P_Padding (SPadding b e a s) = WAttr t /\
  exists b' e' a' s', read_style P_Padding t = Some (SPadding b' e' a' s') /\
    len_equiv b b' /\ len_equiv e e' /\ len_equiv a a' /\ len_equiv s s'.
Proof. exact padding_roundtrip. Qed.

(* tts:textDecoration: all 27 values; tts:rubyReserve: none, a position, a position and a length; tts:textOutline: none, a
   thickness, a colour and a thickness *)
Theorem C05_attr_roundtrip_text_decoration : forall u l o,
  exists s, print_style P_TextDecoration (STextDec u l o) = WAttr s /\ read_style P_TextDecoration s = Some (STextDec u l o).
Proof. exact text_decoration_roundtrip. Qed.
Theorem C05_attr_roundtrip_ruby_reserve_partial : forall pos l, 0 <= pos <= 3 -> valid_len l ->
  read_style P_RubyReserve T_none = Some SNone /\ print_style P_RubyReserve SNone = WAttr T_none /\
  (exists s, print_style P_RubyReserve (SReserve pos None) = WAttr s /\ read_style P_RubyReserve s = Some (SReserve pos None)) /\
  (exists s, print_style P_RubyReserve (SReserve pos (Some l)) = WAttr s /\
             exists l', read_style P_RubyReserve s = Some (SReserve pos (Some l')) /\ len_equiv l l').
Proof. exact ruby_reserve_roundtrip. Qed.
Theorem C05_attr_roundtrip_text_outline_partial : forall r g b a l, byte r -> byte g -> byte b -> byte a -> valid_len l ->
  read_style P_TextOutline T_none = Some SNone /\ print_style P_TextOutline SNone = WAttr T_none /\
  (exists s, print_style P_TextOutline (SOutline None l) = WAttr s /\
             exists l', read_style P_TextOutline s = Some (SOutline None l') /\ len_equiv l l') /\
  (exists s, print_style P_TextOutline (SOutline (Some (r, g, b, a)) l) = WAttr s /\
             exists l', read_style P_TextOutline s = Some (SOutline (Some (r, g, b, a)) l') /\ len_equiv l l').
Proof. exact text_outline_roundtrip. Qed.

(* tts:position as the writer prints it (edge, offset, edge, offset) *)
Theorem C05_attr_roundtrip_position_partial : forall he ho ve vo,
  0 <= he <= 1 -> 0 <= ve <= 1 -> valid_len ho -> valid_len vo -> validate_style P_Position (SPosition he ho ve vo) = true ->
  exists s, print_style P_Position (SPosition he ho ve vo) = WAttr s /\
  exists ho' vo', read_style P_Position s = Some (SPosition he ho' ve vo') /\ len_equiv ho ho' /\ len_equiv vo vo'.
Proof. exact position_roundtrip. Qed.

(* tts:textShadow with one shadow, with or without blur radius and colour (two or more shadows: finding textshadow-list, refuted in
   Findings/C05.v) *)
Theorem C05_attr_roundtrip_text_shadow_partial : forall x y blur c, valid_len x -> valid_len y -> ovalid blur -> obyte c ->
  read_style P_TextShadow T_none = Some SNone /\
  exists s, print_style P_TextShadow (SShadows [(x, y, blur, c)]) = WAttr s /\
  exists x' y' blur', read_style P_TextShadow s = Some (SShadows [(x', y', blur', c)]) /\
    len_equiv x x' /\ len_equiv y y' /\ olen_equiv blur blur'.
Proof. exact text_shadow_single_roundtrip. Qed.

(* tts:textEmphasis: the seven styles, the three positions, without colour or with any RGBA8 colour (none: finding none-special-value) *)
Theorem C05_attr_roundtrip_text_emphasis_partial : forall st pos c, 0 <= st <= 6 -> 0 <= pos <= 2 -> obyte c ->
  exists s, print_style P_TextEmphasis (SEmph st c pos) = WAttr s /\ read_style P_TextEmphasis s = Some (SEmph st c pos).
Proof. exact text_emphasis_roundtrip. Qed.

(* the writer's value printers raise AttributeError only on tts:textEmphasis none (finding none-special-value; refuted witness in
   Findings/C05.v) and on `normal` outside tts:lineHeight, which is not a valid model value *)
Theorem C05_total_partial : forall p v, print_style p v = WErr 3 ->
  (v = SNone /\ p = P_TextEmphasis) \/ (v = SNormal /\ p <> P_LineHeight).
Proof. exact print_attribute_error. Qed.
(* not proved (compared on generated documents only): the round trips of tts:fontFamily,
   tts:opacity, tts:shear, tts:luminanceGain; the tree round trip  read (write d cfg) ~ d. *)

(* non-vacuity *)
Example C05_example_g : format_g (1 # 3) = [48; 46; 51; 51; 51; 51; 51; 51] /\ format_g (2500000 # 1) = [50; 46; 53; 101; 43; 48; 54] /\ uses_exponent (1 # 3) = false.
Proof. repeat split; reflexivity. Qed.
Example C05_example_valid_len : valid_len (mkLen (12345678 # 1000) U_px).
Proof. split; [unfold U_px; cbn; lia|reflexivity]. Qed.

Print Assumptions C05_time_clock.  Print Assumptions C05_time_frames.  Print Assumptions C05_time_frames_error.
Print Assumptions C05_time_frames_exact.  Print Assumptions C05_time_frames_monotone.
Print Assumptions C05_attr_roundtrip_enum.  Print Assumptions C05_attr_roundtrip_bool.  Print Assumptions C05_attr_roundtrip_color.
Print Assumptions C05_attr_roundtrip_background_partial.  Print Assumptions C05_length_roundtrip_partial.
Print Assumptions C05_attr_roundtrip_length_partial.  Print Assumptions C05_attr_roundtrip_line_height_partial.
Print Assumptions C05_attr_roundtrip_line_padding_partial.  Print Assumptions C05_attr_roundtrip_extent_partial.
Print Assumptions C05_attr_roundtrip_origin_partial.  Print Assumptions C05_attr_roundtrip_padding_partial.
Print Assumptions C05_total_partial.
Print Assumptions C05_time_clock_frames.  Print Assumptions C05_time_clock_frames_error.  Print Assumptions C05_frame_rate_roundtrip.
Print Assumptions C05_attr_roundtrip_text_decoration.  Print Assumptions C05_attr_roundtrip_ruby_reserve_partial.  Print Assumptions C05_attr_roundtrip_text_outline_partial.  Print Assumptions C05_attr_roundtrip_position_partial.  Print Assumptions C05_attr_roundtrip_text_shadow_partial.  Print Assumptions C05_attr_roundtrip_text_emphasis_partial.
