From TT Require Import Base.Prelude Base.ImscXml Model.ImscTime Model.TimeCode Model.ImscWrite.
From TT Require Import Proofs.C05.Times Proofs.C05.Values.
