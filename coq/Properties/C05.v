(* C05 — writing a document as IMSC and reading it back presents identically.
   Only statements, `exact`, and Print Assumptions.  M = Model/ImscWrite.v (value printers of the IMSC writer, value parsers of the
   IMSC reader), Model/ImscTime.v (the reader's time-expression parser, C04), Model/TimeCode.v (C12).  All statements are for
   unbounded inputs unless a bound is written in the statement. *)
From TT Require Import Base.Prelude Base.ImscXml Model.ImscTime Model.TimeCode Model.ImscWrite Gen.ImscTables.
From TT Require Import Model.ImscStyles Model.ImscTiming Model.ImscWriteTree Model.ImscParams.
From TT Require Import Spec.TtmlColorSpec Proofs.C04.Color.
From TT Require Import Proofs.C04.TimeSyntax Proofs.C05.Times Proofs.C05.Values Proofs.C05.Tree Proofs.C05.Params.
From Coq Require Import QArith Qabs.
Local Open Scope Z_scope.

(* ---- times ------------------------------------------------------------------------------------------------------------------- *)
(* clock time: a millisecond multiple below 100 h is written as hh:mm:ss.mmm and read back exactly, whatever the reader's rates *)
Theorem C05_time_clock : forall t k fps tr fr,
  (t == k # 1000)%Q -> 0 <= k < 360000000 -> (0 < tr)%Q -> (0 < fr)%Q ->
  exists s, to_time_format SyClock fps t = Some s /\ exists q, parse_time_x (Some tr) (Some fr) s = TVal q /\ (q == t)%Q.
Proof. exact time_clock. Qed.

(* frames: t >= 0 is written as "Nf" with N = ceil(t * fps), and read back under the same frame rate as N / fps ... *)
Theorem C05_time_frames : forall t fps tr, (0 <= t)%Q -> (0 < fps)%Q ->
  exists s, to_time_format SyFrames (Some fps) t = Some s /\
            exists q, parse_time_x tr (Some fps) s = TVal q /\ (q == inject_Z (frames_of t fps) / fps)%Q.
Proof. exact time_frames. Qed.
(* ... which is never earlier than t and later by less than one frame, ... *)
Theorem C05_time_frames_error : forall t fps, (0 < fps)%Q ->
  let q := (inject_Z (frames_of t fps) / fps)%Q in (t <= q)%Q /\ (q - t < 1 / fps)%Q.
Proof. exact frames_error. Qed.
(* ... exact on whole frames, and order-preserving *)
Theorem C05_time_frames_exact : forall k fps, (0 < fps)%Q -> frames_of (inject_Z k / fps) fps = k.
Proof. exact frames_exact. Qed.
Theorem C05_time_frames_monotone : forall t1 t2 fps, (0 < fps)%Q -> (t1 <= t2)%Q -> frames_of t1 fps <= frames_of t2 fps.
Proof. exact frames_monotone. Qed.

(* clock time with frames (integer frame rate F, two-digit frames field): t >= 0 below 100 h is written hh:mm:ss:ff and read back under
   the same frame rate as floor(t * F) / F, which is never later than t and earlier by less than one frame *)
Theorem C05_time_clock_frames : forall t F tr, 2 <= F <= 99 -> (0 <= t)%Q -> (t < 360000 # 1)%Q ->
  let k := (Qnum t * F) / (Zpos (Qden t) * 1) in
  exists s, to_time_format SyClockFrames (Some (inject_Z F)) t = Some s /\
            exists q, parse_time_x tr (Some (inject_Z F)) s = TVal q /\ (q == inject_Z k / inject_Z F)%Q.
Proof. exact time_clock_frames. Qed.
Theorem C05_time_clock_frames_error : forall t F, 0 < F ->
  let k := (Qnum t * F) / (Zpos (Qden t) * 1) in
  let q := (inject_Z k / inject_Z F)%Q in (q <= t)%Q /\ (t - q < 1 / inject_Z F)%Q.
Proof. exact clock_frames_error. Qed.
(* the frame rate itself: ttp:frameRate and ttp:frameRateMultiplier as the writer emits them are read back as the same rate, for each
   of the seven frame rates of the property (finite domain, enumerated) *)
Theorem C05_frame_rate_roundtrip : forallb rate_roundtrip [24 # 1; 25 # 1; 30 # 1; 50 # 1; 60 # 1; 24000 # 1001; 30000 # 1001]%Q = true.
Proof. exact frame_rate_roundtrip. Qed.

(* ---- attribute values -------------------------------------------------------------------------------------------------------- *)
(* the 16 enumeration-valued properties (tables regenerated from the source): every member is read back *)
Theorem C05_attr_roundtrip_enum : forall p o s, print_style p (SEnum o) = WAttr s -> read_style p s = Some (SEnum o).
Proof. exact enum_roundtrip. Qed.
Theorem C05_attr_roundtrip_bool : forall b, exists s, print_style P_FillLineGap (SBool b) = WAttr s /\ read_style P_FillLineGap s = Some (SBool b).
Proof. exact bool_roundtrip. Qed.
(* colours: every RGBA8 colour *)
Theorem C05_attr_roundtrip_color : forall r g b a, byte r -> byte g -> byte b -> byte a ->
  read_style P_Color (print_color (r, g, b, a)) = Some (SColor (r, g, b, a)) /\
  print_style P_Color (SColor (r, g, b, a)) = WAttr (print_color (r, g, b, a)).
Proof. exact color_style_roundtrip. Qed.
(* ... and the converse direction (the reader's parse_color after its repair, see Properties/C04.v C04_color_accepted_iff): what the writer
   prints for an RGBA8 colour is a strict TTML2 <color> (Spec/TtmlColorSpec.v: #rrggbb or #rrggbbaa) denoting that colour; the reader stores
   a value for tts:color / tts:backgroundColor exactly when the attribute is a colour expression of the grammar, and stores the colour
   it denotes, which is an RGBA8 colour - so a colour attribute is read back to c iff it denotes c *)
Theorem C05_color_written_is_ttml : forall r g b a, byte r -> byte g -> byte b -> byte a -> ttml_color (print_color (r, g, b, a)) (r, g, b, a).
Proof. exact print_color_ttml. Qed.
Theorem C05_color_read_iff : forall p s v, p = P_Color \/ p = P_BackgroundColor ->
  (read_style p s = Some v <-> exists c, v = SColor c /\ color_expr s c).
Proof. exact color_read_iff. Qed.
Theorem C05_color_read_rgba8 : forall s c, parse_color s = Some c -> rgba8 c.
Proof. exact parse_color_rgba8. Qed.
Theorem C05_attr_roundtrip_background_partial : forall r g b a, byte r -> byte g -> byte b -> byte a ->
  color_eqb (r, g, b, a) transparent = false ->
  print_style P_BackgroundColor (SColor (r, g, b, a)) = WAttr (print_color (r, g, b, a)) /\
  read_style P_BackgroundColor (print_color (r, g, b, a)) = Some (SColor (r, g, b, a)).
Proof. exact background_roundtrip_partial. Qed.
(* lengths: to_ttml_number (Python's format(x, "g") - transcribed exactly over Q - rewritten without exponent by Decimal's "f"
   formatting) then parse_length gives x rounded to six significant digits in the same unit, for every rational x and every unit *)
Theorem C05_length_roundtrip : forall x u, 0 <= u <= 5 ->
  exists v, parse_len (print_len (mkLen x u)) = Some (mkLen v u) /\ (v == round6 x)%Q.
Proof. exact len_roundtrip. Qed.
Theorem C05_attr_roundtrip_length : forall p l, p = P_FontSize \/ p = P_Disparity -> valid_len l ->
  print_style p (SLen l) = WAttr (print_len l) /\ exists l', read_style p (print_len l) = Some (SLen l') /\ len_equiv l l'.
Proof. exact length_property_roundtrip. Qed.
Theorem C05_attr_roundtrip_line_height : forall l, valid_len l ->
  read_style P_LineHeight T_normal = Some SNormal /\ print_style P_LineHeight SNormal = WAttr T_normal /\
  exists l', read_style P_LineHeight (print_len l) = Some (SLen l') /\ len_equiv l l'.
Proof. exact line_height_roundtrip. Qed.
(* ebutts:linePadding in c (the units rh and rw, which the model also accepts, are the recorded finding linepadding-units) *)
Theorem C05_attr_roundtrip_line_padding_partial : forall l, valid_len l -> l_unit l = U_c ->
  exists l', read_style P_LinePadding (print_len l) = Some (SLen l') /\ len_equiv l l'.
Proof. exact line_padding_roundtrip_partial. Qed.
Theorem C05_attr_roundtrip_extent : forall w h, valid_len w -> valid_len h -> validate_style P_Extent (SExtent w h) = true ->
  exists s, print_style P_Extent (SExtent w h) = WAttr s /\
  exists w' h', read_style P_Extent s = Some (SExtent w' h') /\ len_equiv w w' /\ len_equiv h h'.
Proof. exact extent_roundtrip. Qed.
Theorem C05_attr_roundtrip_origin : forall x y, valid_len x -> valid_len y -> validate_style P_Origin (SOrigin x y) = true ->
  exists s, print_style P_Origin (SOrigin x y) = WAttr s /\
  exists x' y', read_style P_Origin s = Some (SOrigin x' y') /\ len_equiv x x' /\ len_equiv y y'.
Proof. exact origin_roundtrip. Qed.
Theorem C05_attr_roundtrip_padding : forall b e a s, valid_len b -> valid_len e -> valid_len a -> valid_len s ->
  exists t, print_style P_Padding (SPadding b e a s) = WAttr t /\
  exists b' e' a' s', read_style P_Padding t = Some (SPadding b' e' a' s') /\
    len_equiv b b' /\ len_equiv e e' /\ len_equiv a a' /\ len_equiv s s'.
Proof. exact padding_roundtrip. Qed.

(* tts:textDecoration: the 26 values with at least one component are written and read back; the value without any component (which
   changes nothing when specified on an element) is not written; tts:rubyReserve: none, a position, a position and a length;
   tts:textOutline: none, a thickness, a colour and a thickness *)
Theorem C05_attr_roundtrip_text_decoration : forall u l o,
  match u, l, o with
  | None, None, None => print_style P_TextDecoration (STextDec u l o) = WSkip
  | _, _, _ => exists s, print_style P_TextDecoration (STextDec u l o) = WAttr s /\ read_style P_TextDecoration s = Some (STextDec u l o)
  end.
Proof. exact text_decoration_roundtrip. Qed.
Theorem C05_attr_roundtrip_ruby_reserve : forall pos l, 0 <= pos <= 3 -> valid_len l ->
  read_style P_RubyReserve T_none = Some SNone /\ print_style P_RubyReserve SNone = WAttr T_none /\
  (exists s, print_style P_RubyReserve (SReserve pos None) = WAttr s /\ read_style P_RubyReserve s = Some (SReserve pos None)) /\
  (exists s, print_style P_RubyReserve (SReserve pos (Some l)) = WAttr s /\
             exists l', read_style P_RubyReserve s = Some (SReserve pos (Some l')) /\ len_equiv l l').
Proof. exact ruby_reserve_roundtrip. Qed.
Theorem C05_attr_roundtrip_text_outline : forall r g b a l, byte r -> byte g -> byte b -> byte a -> valid_len l ->
  read_style P_TextOutline T_none = Some SNone /\ print_style P_TextOutline SNone = WAttr T_none /\
  (exists s, print_style P_TextOutline (SOutline None l) = WAttr s /\
             exists l', read_style P_TextOutline s = Some (SOutline None l') /\ len_equiv l l') /\
  (exists s, print_style P_TextOutline (SOutline (Some (r, g, b, a)) l) = WAttr s /\
             exists l', read_style P_TextOutline s = Some (SOutline (Some (r, g, b, a)) l') /\ len_equiv l l').
Proof. exact text_outline_roundtrip. Qed.

(* tts:position as the writer prints it (edge, offset, edge, offset) *)
Theorem C05_attr_roundtrip_position : forall he ho ve vo,
  0 <= he <= 1 -> 0 <= ve <= 1 -> valid_len ho -> valid_len vo -> validate_style P_Position (SPosition he ho ve vo) = true ->
  exists s, print_style P_Position (SPosition he ho ve vo) = WAttr s /\
  exists ho' vo', read_style P_Position s = Some (SPosition he ho' ve vo') /\ len_equiv ho ho' /\ len_equiv vo vo'.
Proof. exact position_roundtrip. Qed.

(* tts:textShadow: none, and every non-empty list of shadows, each with or without blur radius and colour *)
Theorem C05_attr_roundtrip_text_shadow : forall l, Forall valid_shadow l -> l <> [] ->
  read_style P_TextShadow T_none = Some SNone /\ print_style P_TextShadow SNone = WAttr T_none /\
  exists s, print_style P_TextShadow (SShadows l) = WAttr s /\
  exists l', read_style P_TextShadow s = Some (SShadows l') /\ Forall2 shadow_equiv l l'.
Proof. exact text_shadow_roundtrip. Qed.

(* tts:textEmphasis: none, the seven styles, the three positions, without colour or with any RGBA8 colour *)
Theorem C05_attr_roundtrip_text_emphasis : forall st pos c, 0 <= st <= 6 -> 0 <= pos <= 2 -> obyte c ->
  exists s, print_style P_TextEmphasis (SEmph st c pos) = WAttr s /\ read_style P_TextEmphasis s = Some (SEmph st c pos).
Proof. exact text_emphasis_roundtrip. Qed.
Theorem C05_attr_roundtrip_none : forall p, p = P_TextEmphasis \/ p = P_RubyReserve \/ p = P_TextShadow \/ p = P_TextOutline ->
  print_style p SNone = WAttr T_none /\ read_style p T_none = Some SNone /\ has_px p SNone = false.
Proof. exact none_roundtrip. Qed.

(* tts:opacity and tts:luminanceGain: every number the model holds (an int, a Fraction, a float taken as the rational it denotes) is
   written in fixed notation and read back by float() as the number rounded to six significant digits *)
Theorem C05_attr_roundtrip_number : forall p x, p = P_Opacity \/ p = P_LuminanceGain ->
  exists s, print_style p (SFrac x) = WAttr s /\ exists v, read_style p s = Some (SFrac v) /\ (v == round6 x)%Q.
Proof. exact number_roundtrip. Qed.
Theorem C05_attr_roundtrip_integer : forall p n, p = P_Opacity \/ p = P_LuminanceGain ->
  exists s, print_style p (SInt n) = WAttr s /\ exists v, read_style p s = Some (SFrac v) /\ (v == round6 (inject_Z n))%Q.
Proof. exact integer_roundtrip. Qed.
(* tts:shear: read back rounded to six significant digits when that is within +-100 %; beyond, the reader clamps (finding shear-clamped,
   refuted in Findings/C05.v) *)
Theorem C05_attr_roundtrip_shear_partial : forall x, Qle_bool (Qabs (round6 x)) (100 # 1) = true ->
  exists s, print_style P_Shear (SFrac x) = WAttr s /\ exists v, read_style P_Shear s = Some (SFrac v) /\ (v == round6 x)%Q.
Proof. exact shear_roundtrip_partial. Qed.

(* the writer's value printers never raise AttributeError on a value the model accepts (the special value normal outside
   tts:lineHeight is not one) *)
Theorem C05_total : forall p v, print_style p v = WErr 3 -> v = SNormal /\ p <> P_LineHeight.
Proof. exact print_attribute_error. Qed.
(* ---- the tree: what the writer builds (Model/ImscWriteTree.v write_node, compared with imsc.writer.from_model on whole documents),
   read back by the reader model of C04, element by element ------------------------------------------------------------------------- *)
(* every kind of model element is written ... *)
Theorem C05_tree_every_kind_written : forall cfg pp k id b e pr rg st an cs, k <> KSet -> k <> KText ->
  exists x, write_node cfg pp (WElem k id b e pr rg st an cs) = Some x.
Proof. exact write_node_some. Qed.
(* ... as an element that the reader dispatches to the same class (body, div, p, span, br, region and the six ruby roles, rp included) *)
Theorem C05_tree_kind : forall cfg pp k id b e preserve region styles anims cs x,
  write_node cfg pp (WElem k id b e preserve region styles anims cs) = Some x -> classify (x_tag x) (x_attrs x) = Some k.
Proof. exact written_kind. Qed.
(* its content: the <set> elements of the animation steps, then the children - none dropped, none reordered - with the character data
   of the Text children (adjacent ones are one run) exactly before the first child element or after the element it followed *)
Theorem C05_tree_children : forall cfg pp k id b e preserve region styles anims cs x,
  write_node cfg pp (WElem k id b e preserve region styles anims cs) = Some x -> w_has_children k = true ->
  exists content, x_children x = List.map (write_set cfg) anims ++ content /\
    norm (optl (x_text x) ++ flat_map items_of content) = norm (flat_map (arrive (write_node cfg (Some preserve))) cs).
Proof. exact written_children. Qed.
Theorem C05_tree_leaf : forall cfg pp k id b e preserve region styles anims cs x,
  write_node cfg pp (WElem k id b e preserve region styles anims cs) = Some x -> w_has_children k = false ->
  x_children x = List.map (write_set cfg) anims /\ x_text x = None.
Proof. exact written_leaf. Qed.
(* its attributes as the reader looks them up: xml:space gives back the model value, the region reference is read back, begin / end are
   there exactly when the model element has them (with the printed time, whose value is the subject of the C05_time theorems), and neither
   timeContainer, dur nor a style reference is written (the element is read as a par container without referential styling) *)
Theorem C05_tree_space : forall cfg pp k id b e preserve region styles anims cs x,
  write_node cfg pp (WElem k id b e preserve region styles anims cs) = Some x ->
  forall inherited, (match pp with Some p0 => inherited = p0 | None => inherited = false end) -> read_space (x_attrs x) inherited = preserve.
Proof. exact written_space. Qed.
Theorem C05_tree_region : forall cfg pp k id b e preserve region styles anims cs x,
  write_node cfg pp (WElem k id b e preserve region styles anims cs) = Some x ->
  forall ev, (match region with Some r => mem_text r (e_regions ev) = true | None => True end) ->
  read_region ev k (x_attrs x) = if k_has_region k then region else None.
Proof. exact written_region. Qed.
Theorem C05_tree_begin : forall cfg pp k id b e preserve region styles anims cs x,
  write_node cfg pp (WElem k id b e preserve region styles anims cs) = Some x ->
  get_attr (x_attrs x) A_begin = if w_has_timing k then match b with Some v => to_time_format (w_syn cfg) (w_fps cfg) v | None => None end else None.
Proof. exact written_begin. Qed.
Theorem C05_tree_end : forall cfg pp k id b e preserve region styles anims cs x,
  write_node cfg pp (WElem k id b e preserve region styles anims cs) = Some x ->
  get_attr (x_attrs x) A_end = if w_has_timing k then match e with Some v => to_time_format (w_syn cfg) (w_fps cfg) v | None => None end else None.
Proof. exact written_end. Qed.
Theorem C05_tree_par : forall cfg pp k id b e preserve region styles anims cs x,
  write_node cfg pp (WElem k id b e preserve region styles anims cs) = Some x -> read_par (x_attrs x) = true.
Proof. exact written_par. Qed.
Theorem C05_tree_no_dur_no_refs : forall cfg pp k id b e preserve region styles anims cs x,
  write_node cfg pp (WElem k id b e preserve region styles anims cs) = Some x -> get_attr (x_attrs x) A_dur = None /\ style_refs (x_attrs x) = [].
Proof. exact written_no_dur. Qed.
(* document parameters: what TTElement.from_model writes on tt is read back by the reader's parameter extractors (Model/ImscParams.v, compared
   with the code on generated attribute sets): the language, the cell resolution (the default is not written and is what the reader
   supplies), the display aspect ratio *)
Theorem C05_tt_lang : forall cfg d, get_attr (x_attrs (write_tt cfg d)) A_lang = Some (wd_lang d).
Proof. exact tt_lang. Qed.
Theorem C05_tt_cell_resolution : forall cfg d, 0 < fst (wd_cell d) -> 0 < snd (wd_cell d) ->
  extract_cell_resolution (x_attrs (write_tt cfg d)) = wd_cell d.
Proof. exact tt_cell_resolution. Qed.
Theorem C05_tt_display_aspect_ratio : forall cfg d n m, wd_dar d = Some (n, m) -> 0 < n -> 0 < m ->
  extract_dar (x_attrs (write_tt cfg d)) = Some (inject_Z n / inject_Z m)%Q.
Proof. exact tt_display_aspect_ratio. Qed.
Theorem C05_tt_no_display_aspect_ratio : forall cfg d, wd_dar d = None -> extract_dar (x_attrs (write_tt cfg d)) = None.
Proof. exact tt_no_display_aspect_ratio. Qed.
(* not proved (compared on generated documents only): the pixel extent and the active area on tt; the composition of these element-level facts over the whole tree
   (process (write_node n) ~ n: it involves the reader's implicit ends and its pruning of elements whose interval is empty), the
   language of elements (not written: finding lang-not-written), and the round trip of tts:fontFamily (parse_font_families is not
   transcribed). *)

(* non-vacuity *)
Example C05_example_g : format_g (1 # 3) = [48; 46; 51; 51; 51; 51; 51; 51] /\ format_g (2500000 # 1) = [50; 46; 53; 101; 43; 48; 54] /\
  print_num (2500000 # 1) = [50; 53; 48; 48; 48; 48; 48] /\ print_num (1 # 100000) = [48; 46; 48; 48; 48; 48; 49].
Proof. repeat split; reflexivity. Qed.
Example C05_example_tree :
  write_node (mkWcfg SyClock None) (Some false)
    (WElem KSpan None None None false None [] [] [WText [65]; WElem KSpan None None None false None [] [] []; WText [66]; WText [67]])
  = Some (X T_span [] (Some [65]) None [X T_span [] None (Some [66; 67]) []]).
Proof. reflexivity. Qed.
Example C05_example_valid_len : valid_len (mkLen (12345678 # 1000) U_px).
Proof. unfold valid_len, U_px; cbn; lia. Qed.
Example C05_example_shadows : Forall valid_shadow [(mkLen 1 U_px, mkLen 2 U_px, None, None); (mkLen 3 U_em, mkLen 4 U_em, Some (mkLen 1 U_c), Some (255, 0, 0, 255))].
Proof. repeat constructor; unfold valid_len, U_px, U_em, U_c, byte; cbn; lia. Qed.

(* colours: "rgb( 1 ,2,3)" is read as (1, 2, 3, 255) and "#010203ff0" is not read; (1, 2, 3, 255) is written as the strict "#010203" *)
Example C05_example_color_read :
  read_style P_Color [114; 103; 98; 40; 32; 49; 32; 44; 50; 44; 51; 41] = Some (SColor (1, 2, 3, 255)) /\
  read_style P_Color [35; 48; 49; 48; 50; 48; 51; 102; 102; 48] = None /\ print_color (1, 2, 3, 255) = [35; 48; 49; 48; 50; 48; 51].
Proof. repeat split; reflexivity. Qed.

Print Assumptions C05_time_clock.  Print Assumptions C05_time_frames.  Print Assumptions C05_time_frames_error.
Print Assumptions C05_time_frames_exact.  Print Assumptions C05_time_frames_monotone.
Print Assumptions C05_time_clock_frames.  Print Assumptions C05_time_clock_frames_error.  Print Assumptions C05_frame_rate_roundtrip.
Print Assumptions C05_attr_roundtrip_enum.  Print Assumptions C05_attr_roundtrip_bool.  Print Assumptions C05_attr_roundtrip_color.
Print Assumptions C05_color_written_is_ttml.  Print Assumptions C05_color_read_iff.  Print Assumptions C05_color_read_rgba8.
Print Assumptions C05_attr_roundtrip_background_partial.  Print Assumptions C05_length_roundtrip.
Print Assumptions C05_attr_roundtrip_length.  Print Assumptions C05_attr_roundtrip_line_height.
Print Assumptions C05_attr_roundtrip_line_padding_partial.  Print Assumptions C05_attr_roundtrip_extent.
Print Assumptions C05_attr_roundtrip_origin.  Print Assumptions C05_attr_roundtrip_padding.
Print Assumptions C05_attr_roundtrip_text_decoration.  Print Assumptions C05_attr_roundtrip_ruby_reserve.  Print Assumptions C05_attr_roundtrip_text_outline.
Print Assumptions C05_attr_roundtrip_position.  Print Assumptions C05_attr_roundtrip_text_shadow.  Print Assumptions C05_attr_roundtrip_text_emphasis.
Print Assumptions C05_attr_roundtrip_none.  Print Assumptions C05_attr_roundtrip_number.  Print Assumptions C05_attr_roundtrip_integer.
Print Assumptions C05_attr_roundtrip_shear_partial.  Print Assumptions C05_total.
Print Assumptions C05_tree_every_kind_written.  Print Assumptions C05_tree_kind.  Print Assumptions C05_tree_children.  Print Assumptions C05_tree_leaf.
Print Assumptions C05_tree_space.  Print Assumptions C05_tree_region.  Print Assumptions C05_tree_begin.  Print Assumptions C05_tree_end.
Print Assumptions C05_tree_par.  Print Assumptions C05_tree_no_dur_no_refs.
Print Assumptions C05_tt_lang.  Print Assumptions C05_tt_cell_resolution.  Print Assumptions C05_tt_display_aspect_ratio.  Print Assumptions C05_tt_no_display_aspect_ratio.
