(* C05 — writing a document as IMSC and reading it back presents identically.
   Only statements, `exact`, and Print Assumptions.  M = Model/ImscWrite.v (value printers of the IMSC writer, value parsers of the
   IMSC reader), Model/ImscTime.v (the reader's time-expression parser, C04), Model/TimeCode.v (C12).  All statements are for
   unbounded inputs unless a bound is written in the statement. *)
From TT Require Import Base.Prelude Base.ImscXml Model.ImscTime Model.TimeCode Model.ImscWrite Gen.ImscTables.
From TT Require Import Proofs.C04.TimeSyntax Proofs.C05.Times Proofs.C05.Values.
From Coq Require Import QArith.
Local Open Scope Z_scope.

(* ---- times ------------------------------------------------------------------------------------------------------------------- *)
(* clock time: a millisecond multiple below 100 h is written as hh:mm:ss.mmm and read back exactly, whatever the reader's rates *)
Theorem C05_time_clock : forall t k fps tr fr,
  (t == k # 1000)%Q -> 0 <= k < 360000000 -> 0 < tr -> (0 < fr)%Q ->
  exists s, to_time_format SyClock fps t = Some s /\ exists q, parse_time_x (Some tr) (Some fr) s = TVal q /\ (q == t)%Q.
Proof. exact time_clock. Qed.

(* frames: t >= 0 is written as "Nf" with N = ceil(t * fps), and read back under the same frame rate as N / fps ... *)
Theorem C05_time_frames : forall t fps tr, (0 <= t)%Q -> (0 < fps)%Q ->
  exists s, to_time_format SyFrames (Some fps) t = Some s /\
            exists q, parse_time_x tr (Some fps) s = TVal q /\ (q == inject_Z (frames_of t fps) / fps)%Q.
Proof. exact time_frames. Qed.
(* ... which is never earlier than t and later by less than one frame, ... *)
Theorem C05_time_frames_error : forall t fps, (0 < fps)%Q ->
  let q := (inject_Z (frames_of t fps) / fps)%Q in (t <= q)%Q /\ (q - t < 1 / fps)%Q.
Proof. exact frames_error. Qed.
(* ... exact on whole frames, and order-preserving *)
Theorem C05_time_frames_exact : forall k fps, (0 < fps)%Q -> frames_of (inject_Z k / fps) fps = k.
Proof. exact frames_exact. Qed.
Theorem C05_time_frames_monotone : forall t1 t2 fps, (0 < fps)%Q -> (t1 <= t2)%Q -> frames_of t1 fps <= frames_of t2 fps.
Proof. exact frames_monotone. Qed.

(* ---- attribute values -------------------------------------------------------------------------------------------------------- *)
(* the 16 enumeration-valued properties (tables regenerated from the source): every member is read back *)
Theorem C05_attr_roundtrip_enum : forall p o s, print_style p (SEnum o) = WAttr s -> read_style p s = Some (SEnum o).
Proof. exact enum_roundtrip. Qed.
Theorem C05_attr_roundtrip_bool : forall b, exists s, print_style P_FillLineGap (SBool b) = WAttr s /\ read_style P_FillLineGap s = Some (SBool b).
Proof. exact bool_roundtrip. Qed.
(* colours: every RGBA8 colour *)
Theorem C05_attr_roundtrip_color : forall r g b a, byte r -> byte g -> byte b -> byte a ->
  read_style P_Color (print_color (r, g, b, a)) = Some (SColor (r, g, b, a)) /\
  print_style P_Color (SColor (r, g, b, a)) = WAttr (print_color (r, g, b, a)).
Proof. exact color_style_roundtrip. Qed.
Theorem C05_attr_roundtrip_background_partial : forall r g b a, byte r -> byte g -> byte b -> byte a ->
  color_eqb (r, g, b, a) transparent = false ->
  print_style P_BackgroundColor (SColor (r, g, b, a)) = WAttr (print_color (r, g, b, a)) /\
  read_style P_BackgroundColor (print_color (r, g, b, a)) = Some (SColor (r, g, b, a)).
Proof. exact background_roundtrip_partial. Qed.
(* lengths: Python's format(x, "g") then parse_length gives x rounded to six significant digits in the same unit, for every rational
   x and every unit, unless the writer switches to exponent notation (trigger uses_exponent: finding g-exponent) *)
Theorem C05_length_roundtrip_partial : forall x u, 0 <= u <= 5 -> uses_exponent x = false ->
  exists v, parse_len (print_len (mkLen x u)) = Some (mkLen v u) /\ (v == round6 x)%Q.
Proof. exact len_roundtrip. Qed.
Theorem C05_attr_roundtrip_length_partial : forall p l, p = P_FontSize \/ p = P_Disparity -> valid_len l ->
  print_style p (SLen l) = WAttr (print_len l) /\ exists l', read_style p (print_len l) = Some (SLen l') /\ len_equiv l l'.
Proof. exact length_property_roundtrip. Qed.
Theorem C05_attr_roundtrip_line_height_partial : forall l, valid_len l ->
  read_style P_LineHeight T_normal = Some SNormal /\ print_style P_LineHeight SNormal = WAttr T_normal /\
  exists l', read_style P_LineHeight (print_len l) = Some (SLen l') /\ len_equiv l l'.
Proof. exact line_height_roundtrip. Qed.
Theorem C05_attr_roundtrip_line_padding_partial : forall l, valid_len l -> l_unit l = U_c ->
  exists l', read_style P_LinePadding (print_len l) = Some (SLen l') /\ len_equiv l l'.
Proof. exact line_padding_roundtrip_partial. Qed.
Theorem C05_attr_roundtrip_extent_partial : forall w h, valid_len w -> valid_len h -> validate_style P_Extent (SExtent w h) = true ->
  exists s, print_style P_Extent (SExtent w h) = WAttr s /\
  exists w' h', read_style P_Extent s = Some (SExtent w' h') /\ len_equiv w w' /\ len_equiv h h'.
Proof. exact extent_roundtrip. Qed.
Theorem C05_attr_roundtrip_origin_partial : forall x y, valid_len x -> valid_len y -> validate_style P_Origin (SOrigin x y) = true ->
  exists s, print_style P_Origin (SOrigin x y) = WAttr s /\
  exists x' y', read_style P_Origin s = Some (SOrigin x' y') /\ len_equiv x x' /\ len_equiv y y'.
Proof. exact origin_roundtrip. Qed.
Theorem C05_attr_roundtrip_padding_partial : forall b e a s, valid_len b -> valid_len e -> valid_len a -> valid_len s ->
  exists t, print_style P_Padding (SPadding b e a s) = WAttr t /\
  exists b' e' a' s', read_style P_Padding t = Some (SPadding b' e' a' s') /\
    len_equiv b b' /\ len_equiv e e' /\ len_equiv a a' /\ len_equiv s s'.
Proof. exact padding_roundtrip. Qed.

(* the writer's value printers raise AttributeError only on tts:textEmphasis none (finding none-special-value; refuted witness in
   Findings/C05.v) and on `normal` outside tts:lineHeight, which is not a valid model value *)
Theorem C05_total_partial : forall p v, print_style p v = WErr 3 ->
  (v = SNone /\ p = P_TextEmphasis) \/ (v = SNormal /\ p <> P_LineHeight).
Proof. exact print_attribute_error. Qed.
(* not proved (compared on generated documents only): the round trips of tts:position, tts:textOutline, tts:textShadow, tts:rubyReserve,
   tts:textDecoration, tts:textEmphasis, tts:fontFamily, tts:opacity, tts:shear, tts:luminanceGain; clock_time_with_frames; the tree
   round trip  read (write d cfg) ~ d. *)

(* non-vacuity *)
Example C05_example_g : format_g (1 # 3) = [48; 46; 51; 51; 51; 51; 51; 51] /\ format_g (2500000 # 1) = [50; 46; 53; 101; 43; 48; 54] /\ uses_exponent (1 # 3) = false.
Proof. repeat split; reflexivity. Qed.
Example C05_example_valid_len : valid_len (mkLen (12345678 # 1000) U_px).
Proof. split; [unfold U_px; cbn; lia|reflexivity]. Qed.

Print Assumptions C05_time_clock.  Print Assumptions C05_time_frames.  Print Assumptions C05_time_frames_error.
Print Assumptions C05_time_frames_exact.  Print Assumptions C05_time_frames_monotone.
Print Assumptions C05_attr_roundtrip_enum.  Print Assumptions C05_attr_roundtrip_bool.  Print Assumptions C05_attr_roundtrip_color.
Print Assumptions C05_attr_roundtrip_background_partial.  Print Assumptions C05_length_roundtrip_partial.
Print Assumptions C05_attr_roundtrip_length_partial.  Print Assumptions C05_attr_roundtrip_line_height_partial.
Print Assumptions C05_attr_roundtrip_line_padding_partial.  Print Assumptions C05_attr_roundtrip_extent_partial.
Print Assumptions C05_attr_roundtrip_origin_partial.  Print Assumptions C05_attr_roundtrip_padding_partial.
Print Assumptions C05_total_partial.
