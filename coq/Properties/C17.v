(* C17 — every 16-bit CEA-608 word is decoded totally, unambiguously and per the standard.
   The domain is finite: each statement is decided for all 65 536 words inside the kernel; the
   bound is part of the statement.  M = Model/SccWord.v over the tables regenerated from the source
   (Gen/SccTables.v), S = Spec/Cea608Words.v (bit-layout decoder, no shared table). *)
From TT Require Import Base.Prelude Base.SccTypes Model.SccWord Spec.Cea608Words Proofs.C17.Decode.
(* second tie: Gen/SccWordSrc.v is regenerated from ttconv/scc/word.py by harness/pytrans_scc.py on every run, over
   Base/PyNum.v and the externs of Model/SccWordExt.v (the calls into scc/codes/*.py); see the last section *)
From TT Require Import Base.PyNum Model.SccWordExt Gen.SccWordSrc Proofs.C17.SrcRefines.

Theorem C17_class_exactly_one : forall w, 0 <= w < 65536 -> exists! c, 0 <= c <= 8 /\ d_cls (decode w) = c.
Proof. exact class_exactly_one. Qed.
Theorem C17_parity_irrelevant : forall w, 0 <= w < 65536 -> decode w = decode (Z.land w 32639).
Proof. exact parity_irrelevant. Qed.
Theorem C17_overlap_free : forall w, 0 <= w < 65536 -> match_count w <= 1 /\ entries_matching w <= 1.
Proof. exact overlap_free. Qed.
(* class, channel (field-2 control codes on neither), code identity, PAC row/indent/colour/italics/underline,
   standard, special and extended characters all equal the CTA-608 tables — outside the recorded finding
   (extended character 0x13 0x2C, see Findings/C17.v) *)
Theorem C17_decode_spec_partial : forall w, 0 <= w < 65536 -> trigger_caret w = false -> spec_ok w (decode w) = true.
Proof. exact decode_spec. Qed.
Theorem C17_channel1_only : forall w, 0 <= w < 65536 -> d_chan (decode w) = 1 ->
  Z.land (sb1 w) 8 = 0 /\ ~ (Z.land (sb1 w) 247 = 21 /\ sb2 w < 64).
Proof. exact channel1_only. Qed.
Theorem C17_pac_range : forall w, 0 <= w < 65536 ->
  (negb (d_cls (decode w) =? cPac) ||
   ((1 <=? d_row (decode w)) && (d_row (decode w) <=? 15) &&
    ((d_indent (decode w) =? -1) || ((0 <=? d_indent (decode w)) && (d_indent (decode w) <=? 28) && (d_indent (decode w) mod 4 =? 0))))) = true.
Proof. exact pac_range_b. Qed.

(* non-vacuity: RCL on channel 1, a PAC for row 15 indent 28 underlined on channel 2 *)
Example C17_example : d_cls (decode 5152) = cControl /\ d_chan (decode 5152) = 1 /\
                      d_row (decode 7295) = 15 /\ d_indent (decode 7295) = 28 /\ d_chan (decode 7295) = 2.
Proof. vm_compute. repeat split. Qed.

Print Assumptions C17_class_exactly_one.  Print Assumptions C17_parity_irrelevant.
Print Assumptions C17_overlap_free.  Print Assumptions C17_decode_spec_partial.
Print Assumptions C17_channel1_only.  Print Assumptions C17_pac_range.

(* ==================================================================================================
   The model regenerated from the current ttconv/scc/word.py refines to M.  src_word w wd: SccWord.from_value(w)
   returns the word object wd; src_view wd: the decoded view read off wd through get_code / get_channel /
   to_text / is_code as the harness reads it off the Python object.  Finite domain, decided in the kernel for all
   65 536 values (bound in the statement); range checks and the parity mask also for unbounded integers.     *)
Theorem C17_source_refines : forall w, 0 <= w < 65536 ->
  exists wd, src_word w wd /\ src_view wd = decode w /\
    SccWord_byte_1 wd = inj (byte1 w) /\ SccWord_byte_2 wd = inj (byte2 w) /\ SccWord_value wd = inj (value w) /\
    src_is_code wd = is_code (byte1 w) /\ src_to_text wd = to_text w.
Proof. exact src_refines. Qed.
Theorem C17_source_refines_from_value_range : forall w, 65535 < w -> src_from_value (inj w) = Raise ValueError.
Proof. exact src_from_value_range. Qed.
Theorem C17_source_refines_from_bytes_range : forall a b, 255 < a \/ 255 < b -> src_from_bytes (inj a) (inj b) = Raise ValueError.
Proof. exact src_from_bytes_range. Qed.
Theorem C17_source_refines_parity_bit : forall b, src_decipher_parity_bit (inj b) = inj (Z.land b Gen.SccTables.parity_mask).
Proof. exact src_decipher_parity_bit_refines. Qed.
Theorem C17_source_refines_from_bytes : forall a b, a <= 255 -> b <= 255 ->
  exists wd, src_from_bytes (inj a) (inj b) = Ok wd /\ SccWord_byte_1 wd = inj (Z.land a 127) /\
    SccWord_byte_2 wd = inj (Z.land b 127) /\ SccWord_value wd = inj (Z.land a 127 * 256 + Z.land b 127) /\
    src_is_code wd = is_code (Z.land a 127).
Proof. exact src_from_bytes_fields. Qed.
(* headline theorems restated about the regenerated model *)
Theorem C17_src_parity_irrelevant : forall w, 0 <= w < 65536 ->
  exists wd wd', src_word w wd /\ src_word (Z.land w 32639) wd' /\ src_view wd = src_view wd'.
Proof. exact src_parity_irrelevant. Qed.
Theorem C17_src_decode_spec_partial : forall w, 0 <= w < 65536 -> trigger_caret w = false ->
  exists wd, src_word w wd /\ spec_ok w (src_view wd) = true.
Proof. exact src_decode_spec. Qed.
Example C17_src_example : exists wd, src_word 5152 wd /\ d_cls (src_view wd) = cControl /\ d_chan (src_view wd) = 1.
Proof. destruct (src_refines 5152) as (wd & H & V & _); [lia|]. exists wd. rewrite V. vm_compute. repeat split. exact H. Qed.

Print Assumptions C17_source_refines.  Print Assumptions C17_source_refines_from_value_range.
Print Assumptions C17_source_refines_from_bytes_range.  Print Assumptions C17_source_refines_parity_bit.
Print Assumptions C17_source_refines_from_bytes.  Print Assumptions C17_src_parity_irrelevant.
Print Assumptions C17_src_decode_spec_partial.
