(* C17 — every 16-bit CEA-608 word is decoded totally, unambiguously and per the standard.
   The domain is finite: each statement is decided for all 65 536 words inside the kernel; the
   bound is part of the statement.  M = Model/SccWord.v over the tables regenerated from the source
   (Gen/SccTables.v), S = Spec/Cea608Words.v (bit-layout decoder, no shared table). *)
From TT Require Import Base.Prelude Base.SccTypes Model.SccWord Spec.Cea608Words Proofs.C17.Decode.

Theorem C17_class_exactly_one : forall w, 0 <= w < 65536 -> exists! c, 0 <= c <= 8 /\ d_cls (decode w) = c.
Proof. exact class_exactly_one. Qed.
Theorem C17_parity_irrelevant : forall w, 0 <= w < 65536 -> decode w = decode (Z.land w 32639).
Proof. exact parity_irrelevant. Qed.
Theorem C17_overlap_free : forall w, 0 <= w < 65536 -> match_count w <= 1 /\ entries_matching w <= 1.
Proof. exact overlap_free. Qed.
(* class, channel (field-2 control codes on neither), code identity, PAC row/indent/colour/italics/underline,
   standard, special and extended characters all equal the CTA-608 tables — outside the recorded finding
   (extended character 0x13 0x2C, see Findings/C17.v) *)
Theorem C17_decode_spec_partial : forall w, 0 <= w < 65536 -> trigger_caret w = false -> spec_ok w (decode w) = true.
Proof. exact decode_spec. Qed.
Theorem C17_channel1_only : forall w, 0 <= w < 65536 -> d_chan (decode w) = 1 ->
  Z.land (sb1 w) 8 = 0 /\ ~ (Z.land (sb1 w) 247 = 21 /\ sb2 w < 64).
Proof. exact channel1_only. Qed.
Theorem C17_pac_range : forall w, 0 <= w < 65536 ->
  (negb (d_cls (decode w) =? cPac) ||
   ((1 <=? d_row (decode w)) && (d_row (decode w) <=? 15) &&
    ((d_indent (decode w) =? -1) || ((0 <=? d_indent (decode w)) && (d_indent (decode w) <=? 28) && (d_indent (decode w) mod 4 =? 0))))) = true.
Proof. exact pac_range_b. Qed.

(* non-vacuity: RCL on channel 1, a PAC for row 15 indent 28 underlined on channel 2 *)
Example C17_example : d_cls (decode 5152) = cControl /\ d_chan (decode 5152) = 1 /\
                      d_row (decode 7295) = 15 /\ d_indent (decode 7295) = 28 /\ d_chan (decode 7295) = 2.
Proof. vm_compute. repeat split. Qed.

Print Assumptions C17_class_exactly_one.  Print Assumptions C17_parity_irrelevant.
Print Assumptions C17_overlap_free.  Print Assumptions C17_decode_spec_partial.
Print Assumptions C17_channel1_only.  Print Assumptions C17_pac_range.
