(* C13 — every snapshot satisfies the documented ISD shape.  M = Model/Isd.v (isd), S = Spec/IsdShape.v: the
   checker `shape_clauses` lists the clauses of doc/isd.md and of the property text, one boolean per clause.
   Proved here, for EVERY document and rational time: clauses 0, 1, 2, 4, 7 and 10, and clause 6 on the regions
   of the snapshot (the only elements that carry origin and position).  The remaining clauses
   (3 content model, 5 rh/rw lengths — false of the faithful model for tts:disparity, see KNOWN_FINDINGS —,
   8 no empty text / childless span, 9 collapsed white space) are not proved; they are
   evaluated by the same checker on every snapshot the implementation and the model produce (harness/c13.py). *)
From TT Require Import Model.Doc Gen.StyleTables Model.Isd Spec.IsdShape Proofs.C13.Shape Proofs.C13.Styles Proofs.C13.OriginPosition.

Theorem C13_no_timing : forall d t rs, isd d t = Ok rs -> nth 0 (shape_clauses [] false rs) false = true.
Proof. exact snapshot_no_timing. Qed.
Theorem C13_no_animation : forall d t rs, isd d t = Ok rs -> nth 1 (shape_clauses [] false rs) false = true.
Proof. exact snapshot_no_anims. Qed.
Theorem C13_no_region_refs : forall d t rs, isd d t = Ok rs -> nth 2 (shape_clauses [] false rs) false = true.
Proof. exact snapshot_no_region_refs. Qed.
(* each element carries only applicable style properties and, except br and text, all of them *)
Theorem C13_styles_exact : forall d t rs, isd d t = Ok rs -> nth 4 (shape_clauses [] false rs) false = true.
Proof. exact snapshot_styles_exact. Qed.
(* ... because the style phase gives every one of the 36 properties a value on every non-leaf element *)
Theorem C13_style_phase_complete : forall d t a par iv st,
  is_leaf_kind (e_kind a) = false -> style_phase d t a par iv = Ok st -> forall q, In q all_props -> shas st q = true.
Proof. exact style_phase_complete. Qed.
Theorem C13_no_display_none : forall d t rs, isd d t = Ok rs -> nth 7 (shape_clauses [] false rs) false = true.
Proof. exact snapshot_no_display_none. Qed.
Theorem C13_empty_regions : forall d t rs,
  Forall (fun r => e_kind (eattrs r) = KRegion) (d_regions d) -> isd d t = Ok rs -> nth 10 (shape_clauses [] false rs) false = true.
Proof. exact snapshot_empty_regions. Qed.

(* origin and position coincide on every region of a snapshot (position, when specified, overrides origin) *)
Theorem C13_origin_position_regions : forall d t rs,
  Forall (fun r => e_kind (eattrs r) = KRegion) (d_regions d) -> isd d t = Ok rs -> forallb origin_position_ok rs = true.
Proof. exact snapshot_origin_position. Qed.

Print Assumptions C13_origin_position_regions.
Print Assumptions C13_no_timing.  Print Assumptions C13_no_animation.  Print Assumptions C13_no_region_refs.
Print Assumptions C13_styles_exact.  Print Assumptions C13_style_phase_complete.  Print Assumptions C13_no_display_none.
Print Assumptions C13_empty_regions.
