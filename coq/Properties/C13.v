(* C13 — every snapshot satisfies the documented ISD shape.  M = Model/Isd.v (isd), S = Spec/IsdShape.v: the
   checker `shape_clauses` lists the clauses of doc/isd.md and of the property text, one boolean per clause;
   `isd_shape` is their conjunction with no exception (units_except = [], skip_rp = false).
   Proved here, for EVERY document and rational time: all eleven clauses, and their conjunction (C13_shape).
   Clauses 0, 1, 2, 4, 7 need no hypothesis on the source.  Clauses 3, 6, 8, 9, 10 assume the source content model
   (`doc_content_wf`: registered regions are regions, the body is a body, children of the kinds the parent class
   accepts — nothing is asked of ruby / rtc containers, whose patterns are re-checked when the snapshot is built);
   clause 5 assumes that properties which are not computed carry no length outside rh/rw (`doc_values_wf`; true of
   every value StyleProperty.validate accepts).  Both are executable, are what C15 establishes for documents built
   through the API, and are re-evaluated in Coq on every generated document by harness/c13.py.
   Since the repairs `fix: tts:disparity was never computed ...` and `fix: text below a ruby delimiter (rp) got no
   white-space pass ...` no clause carries an exception any more (formerly C13 recorded disparity-not-computed and
   rp-whitespace-not-collapsed).  Document parameters and ownership of the Python objects are compared by the harness. *)
From TT Require Import Model.Doc Gen.StyleTables Model.Isd Spec.IsdShape.
From TT Require Import Proofs.C13.Shape Proofs.C13.Styles Proofs.C13.OriginPosition Proofs.C13.ContentModel Proofs.C13.NonEmpty
                       Proofs.C13.WhiteSpace Proofs.C13.Units Proofs.C13.Summary.

Theorem C13_no_timing : forall d t rs, isd d t = Ok rs -> nth 0 (shape_clauses [] false rs) false = true.
Proof. exact snapshot_no_timing. Qed.
Theorem C13_no_animation : forall d t rs, isd d t = Ok rs -> nth 1 (shape_clauses [] false rs) false = true.
Proof. exact snapshot_no_anims. Qed.
Theorem C13_no_region_refs : forall d t rs, isd d t = Ok rs -> nth 2 (shape_clauses [] false rs) false = true.
Proof. exact snapshot_no_region_refs. Qed.
(* regions at the top, each with at most one body; every element's children of the kinds its class accepts; ruby and rtc patterns *)
Theorem C13_content_model : forall d t rs,
  doc_content_wf d = true -> isd d t = Ok rs -> nth 3 (shape_clauses [] false rs) false = true.
Proof. exact snapshot_content_model. Qed.
(* each element carries only applicable style properties and, except br and text, all of them *)
Theorem C13_styles_exact : forall d t rs, isd d t = Ok rs -> nth 4 (shape_clauses [] false rs) false = true.
Proof. exact snapshot_styles_exact. Qed.
(* ... because the style phase gives every one of the 36 properties a value on every non-leaf element *)
Theorem C13_style_phase_complete : forall d t a par iv st,
  is_leaf_kind (e_kind a) = false -> style_phase d t a par iv = Ok st -> forall q, In q all_props -> shas st q = true.
Proof. exact style_phase_complete. Qed.
(* every length of every style value is in rh or rw — no property excepted *)
Theorem C13_units : forall d t rs,
  doc_values_wf d = true -> isd d t = Ok rs -> nth 5 (shape_clauses [] false rs) false = true.
Proof. exact snapshot_units. Qed.
(* ... because after the style phase every value of the element's style map is root relative, given a parent whose map is *)
Theorem C13_style_phase_units : forall d t a par iv st,
  forallb (fun kv => src_value_ok (fst kv) (snd kv)) (d_initials d) = true -> attrs_values_ok a = true -> par_ok par ->
  style_phase d t a par iv = Ok st -> forall p, okv (sget st p) = true.
Proof. exact style_phase_units. Qed.
(* origin and position coincide on every region of a snapshot (position, when specified, overrides origin) ... *)
Theorem C13_origin_position_regions : forall d t rs,
  Forall (fun r => e_kind (eattrs r) = KRegion) (d_regions d) -> isd d t = Ok rs -> forallb origin_position_ok rs = true.
Proof. exact snapshot_origin_position. Qed.
(* ... and no other element of a snapshot is a region *)
Theorem C13_origin_position : forall d t rs,
  doc_content_wf d = true -> isd d t = Ok rs -> nth 6 (shape_clauses [] false rs) false = true.
Proof. exact snapshot_origin_position_all. Qed.
Theorem C13_no_display_none : forall d t rs, isd d t = Ok rs -> nth 7 (shape_clauses [] false rs) false = true.
Proof. exact snapshot_no_display_none. Qed.
(* no text node is empty, no span childless *)
Theorem C13_nonempty : forall d t rs,
  doc_content_wf d = true -> isd d t = Ok rs -> nth 8 (shape_clauses [] false rs) false = true.
Proof. exact snapshot_nonempty. Qed.
(* ... because _prune_empty_spans leaves nothing empty below the element it is run on, whatever was there *)
Theorem C13_prune_clean : forall e, forallb (fun c => forallb nonempty_ok (all_elems c)) (echildren (prune_empty e)) = true.
Proof. exact prune_clean. Qed.
(* text whose parent is not xml:space=preserve has no tab / CR / LF and no two consecutive spaces — text below rp included *)
Theorem C13_whitespace : forall d t rs,
  doc_content_wf d = true -> isd d t = Ok rs -> nth 9 (shape_clauses [] false rs) false = true.
Proof. exact snapshot_whitespace. Qed.
(* ... because _process_lwsp leaves every node that is neither a br nor under preserve with a collapsed text *)
Theorem C13_process_lwsp_collapses : forall l,
  Forall2 (fun x t => ti_br x || ti_pre x || collapsed false t = true) l (process_lwsp l).
Proof. exact process_lwsp_good. Qed.
Theorem C13_empty_regions : forall d t rs,
  Forall (fun r => e_kind (eattrs r) = KRegion) (d_regions d) -> isd d t = Ok rs -> nth 10 (shape_clauses [] false rs) false = true.
Proof. exact snapshot_empty_regions. Qed.

(* all clauses, no exception *)
Theorem C13_shape : forall d t rs, doc_wf d = true -> isd d t = Ok rs -> isd_shape rs = true.
Proof. exact snapshot_shape. Qed.

(* the content model of doc/data_model.md on the whole source tree implies the content hypothesis *)
Theorem C13_full_content_model_suffices : forall d,
  forallb (fun r => kind_eqb (kind_of r) KRegion) (d_regions d) = true ->
  match d_body d with None => true | Some b => kind_eqb (kind_of b) KBody && forallb children_ok (all_elems b) end = true ->
  doc_content_wf d = true.
Proof. exact full_content_model_suffices. Qed.

(* the hypotheses are satisfiable: two regions (one timed, one animated), nested divisions, mixed xml:space, a line break,
   an empty span, ruby with delimiters, lengths in all six units *)
Example C13_wf_example : doc_wf ex_doc = true.
Proof. exact ex_doc_wf. Qed.
Example C13_snapshot_example : exists rs, isd ex_doc (inject_Z 2) = Ok rs /\ length rs = 1%nat /\ isd_shape rs = true.
Proof. exact ex_doc_snapshot. Qed.

Print Assumptions C13_no_timing.  Print Assumptions C13_no_animation.  Print Assumptions C13_no_region_refs.
Print Assumptions C13_content_model.  Print Assumptions C13_styles_exact.  Print Assumptions C13_style_phase_complete.
Print Assumptions C13_units.  Print Assumptions C13_style_phase_units.  Print Assumptions C13_origin_position_regions.
Print Assumptions C13_origin_position.  Print Assumptions C13_no_display_none.  Print Assumptions C13_nonempty.
Print Assumptions C13_prune_clean.  Print Assumptions C13_whitespace.  Print Assumptions C13_process_lwsp_collapses.
Print Assumptions C13_empty_regions.  Print Assumptions C13_shape.  Print Assumptions C13_full_content_model_suffices.
Print Assumptions C13_wf_example.  Print Assumptions C13_snapshot_example.
