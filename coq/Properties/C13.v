(* C13 — every snapshot satisfies the documented ISD shape.  M = Model/Isd.v, S = Spec/IsdShape.v. *)
From TT Require Import Model.Doc Gen.StyleTables Model.Isd Spec.IsdShape Proofs.C13.Shape.

Theorem C13_attrs_clean : forall a st,
  e_begin (isd_attrs a st) = None /\ e_end (isd_attrs a st) = None /\ e_anims (isd_attrs a st) = [] /\ e_region (isd_attrs a st) = None.
Proof. exact isd_attrs_clean. Qed.
Print Assumptions C13_attrs_clean.
