(* C07 — SRT/WebVTT outputs are grammatical and tags reflect the computed styles.
   M = Model/IsdFilters.v + Model/CueWriter.v; S = Spec/CueSpec.v (srt_wf, vtt_wf, runs, the styles a snapshot prescribes).
   Proved here, for EVERY snapshot sequence (hence every document): the structural half of the grammar — tags in matching,
   properly nested pairs; no tag at all when text formatting is disabled; counters / cue identifiers 1, 2, 3, ...; begin < end;
   cues in non-decreasing, non-overlapping order; the header and the STYLE block before any cue; and that the writers return a
   string unless the recorded ValueError finding (collapsed interval) fires.
   Proved too: `runs` of every payload is defined and gives each visible character the style of the tags of its enclosing spans
   (C07_runs_tags_*: lexing, balance and the tag-stack walk, at string level).
   Proved too: srt_wf accepts the SubRip file and vtt_wf (strict) the WebVTT file the model prints (C07_srt_wf_partial,
   C07_vtt_wf_partial, outside the two payload findings).
   NOT proved (compared on generated documents only, harness/c07.py): that the style values the spans carry after the style filters are the computed styles (false for a nested
   span that resets a style).  Cue settings: the line / align values are proved to be the ones Spec/CueSettings.v
   prescribes for the region / element process_p is handed, and the region geometry to survive the filters (the C07_cue_settings theorems);
   that this element is the paragraph(s) of the scope is false when paragraphs are merged (Findings/C07.v) and is compared only. *)
From Coq Require Import Sorting.Sorted.
From TT Require Import Model.Doc Gen.StyleTables Model.Isd Model.SigTimes Model.TimeCode Model.IsdFilters Gen.CueTables Model.CueWriter.
From TT Require Import Model.CueTriggers Spec.IsdSpec Spec.CueSpec.
From TT Require Import Spec.CueSettings Proofs.C06.Text Proofs.C07.Tags Proofs.C07.Order Proofs.C07.Settings Proofs.C07.Escape Proofs.C06.Shape Proofs.C07.Single.
From TT Require Import Proofs.C06.Fixed Proofs.C06.Strip Proofs.C07.Runs Proofs.C07.Wf Proofs.C07.Flags Proofs.C07.VttWf.

(* tags balanced and properly nested: the items of every cue are built from characters, concatenation and
   <open> ... </close> around nested items, where (open, close) is one of the writer's tag pairs *)
Theorem C07_tags_balanced_srt : forall fmt seq cs, srt_cues fmt seq = Ok cs -> Forall (fun c => nested srt_pair (c_items c)) cs.
Proof. exact srt_cues_nested. Qed.
Theorem C07_tags_balanced_vtt : forall cfg seq cs css, vtt_cues cfg seq = Ok (cs, css) -> Forall (fun c => nested vtt_pair (c_items c)) cs.
Proof. exact vtt_cues_nested. Qed.

(* none when text formatting is disabled: the payload is the normalised text itself *)
Theorem C07_no_tags_when_disabled : forall seq cs, srt_cues false seq = Ok cs ->
  Forall (fun c => no_tags (c_items c) /\ cue_text esc_none c = normalize_eol (cue_chars c)) cs.
Proof. exact srt_cues_no_tags. Qed.

(* & and < in text are escaped in WebVTT: a content character prints as itself, &amp; or &lt; — never as "<", and "&" only opens
   one of these two references, which the decoder of Spec/CueSpec.v maps back to the character *)
Theorem C07_vtt_text_escaped : forall c, ~ In 60 (esc_vtt c) /\ (In 38 (esc_vtt c) -> esc_vtt c = amp_ref \/ esc_vtt c = lt_ref).
Proof. exact esc_vtt_no_markup. Qed.
Theorem C07_vtt_escape_decodes : forall c,
  match esc_vtt c with
  | 38 :: r => exists name, r = name ++ [59] /\ vtt_escape name = Some c
  | _ => esc_vtt c = [c]
  end.
Proof. exact esc_vtt_decodes. Qed.

(* tags reflect the styles: the payload of every cue, read back by the lexer and the tag-stack walk of Spec/CueSpec.v (srt_runs /
   vtt_runs), is well formed (the result is Some: every tag is one the grammar knows, every end tag closes the innermost open
   element, nothing is left open) and gives every visible character exactly the style of the tags of the spans that enclose it in
   the element list the cue was written from (tree_runs: the span's colour / background class, b, i, u, innermost first).
   WebVTT: for every text.  SubRip: for text without "<" (no escape mechanism).
   NOT proved: that the style values the spans carry after the writers' style filters are the computed styles of the snapshot —
   false for a nested span that resets a style (Findings/C07.v C07_runs_refuted); compared on generated documents (runs_ok). *)
Theorem C07_runs_tags_srt : forall fmt seq cs, srt_cues fmt seq = Ok cs -> Forall (srt_cue_runs fmt) cs.
Proof. exact srt_cues_runs. Qed.
Theorem C07_runs_tags_vtt : forall cfg seq cs css, vtt_cues cfg seq = Ok (cs, css) -> Forall vtt_cue_runs cs.
Proof. exact vtt_cues_runs. Qed.
(* from the tags to the style values: in a paragraph without nested resets (no_reset: no span is non-bold inside a bold span, ...;
   the recorded finding nested-span-resets-style is exactly a reset) the b / i / u flags the walk gives a character are the flags of
   the innermost span around it — the span whose computed style is the character's style; and the writers' style filters (lists
   regenerated from the code, every configuration) keep the b / i / u flag of every element whose style map has one binding per
   property.  Colours are compared on generated documents only. *)
Theorem C07_runs_flags_partial_srt : forall cs0, forallb (no_reset plain_flags) cs0 = true ->
  run_flags (flat_map (tree_runs (srt_span_opens true) []) cs0) = flat_map (inner_flags plain_flags) cs0.
Proof. exact srt_paragraph_flags. Qed.
Theorem C07_runs_flags_partial_vtt : forall cs0, forallb (no_reset plain_flags) cs0 = true ->
  run_flags (flat_map (tree_runs vtt_span_opens []) cs0) = flat_map (inner_flags plain_flags) cs0.
Proof. exact vtt_paragraph_flags. Qed.
Theorem C07_filters_keep_flags_srt : forall c d, srt_filters = writer_filters true c d -> cfg_keeps c /\ dfl_keeps d.
Proof. exact srt_cfg_keeps. Qed.
Theorem C07_filters_keep_flags_vtt : forall cfg fs c d,
  vtt_filters cfg = Some fs -> fs = writer_filters (negb (line_position cfg)) c d -> cfg_keeps c /\ dfl_keeps d.
Proof. exact vtt_cfg_keeps. Qed.
Theorem C07_filter_keeps_flags : forall f a, smap_ok (e_styles a) -> keeps_flag_values f ->
  span_flags (with_styles a (filter f (e_styles a))) = span_flags a.
Proof. exact filter_keeps_flags. Qed.

(* the lexers read the flattened payload back item by item: one token per tag, one per character (WebVTT: escapes resolved) *)
Theorem C07_lex_vtt : forall l, items_ok vtt_tag_lex l -> vtt_lex LText (flat esc_vtt l) = Some (toks vtt_tok l).
Proof. exact vtt_lex_flat. Qed.
Theorem C07_lex_srt : forall l, items_ok srt_tag_lex l -> ~ In 60 (chars_of l) -> srt_lex LText (flat esc_none l) = toks srt_tok l.
Proof. exact srt_lex_flat. Qed.

(* counters: the k-th SubRip cue is printed with the number k; WebVTT cue identifiers, when written, are 1 .. n *)
Theorem C07_counters_srt : forall cs k ss, srt_strings k cs = Ok ss ->
  Forall2 (fun i s => exists rest, s = print_z i ++ 10 :: rest) (zseq k (length cs)) ss.
Proof. exact srt_strings_counters. Qed.
Theorem C07_counters_vtt : forall cfg seq cs css, cue_id cfg = true -> vtt_cues cfg seq = Ok (cs, css) ->
  map c_id cs = map Some (zseq 1 (length cs)).
Proof. exact vtt_cues_ids. Qed.

(* well-formedness of the cue list (the part of srt_wf / vtt_wf that does not depend on the payload text): whenever the writer
   gets as far as printing, every cue has begin < end, an earlier cue ends no later than a later one begins unless both cover
   the very same interval, and the numbers are consecutive from 1 *)
Theorem C07_wf_partial_srt : forall d fmt seq cs ss,
  isd_sequence d = Ok seq -> srt_cues fmt seq = Ok cs -> srt_strings 1 cs = Ok ss ->
  Forall span_ok cs /\ ForallOrdPairs before cs /\
  Forall2 (fun i s => exists rest, s = print_z i ++ 10 :: rest) (zseq 1 (length cs)) ss.
Proof. exact srt_cues_wf. Qed.
Theorem C07_wf_partial_vtt : forall d cfg seq cs css ss,
  isd_sequence d = Ok seq -> vtt_cues cfg seq = Ok (cs, css) -> vtt_strings cs = Ok ss ->
  Forall span_ok cs /\ ForallOrdPairs before cs /\
  (cue_id cfg = true -> map c_id cs = map Some (zseq 1 (length cs))) /\
  Forall2 (fun c s => match c_id c with Some k => exists rest, s = print_z k ++ 10 :: rest | None => True end) cs ss.
Proof. exact vtt_cues_wf. Qed.
(* SubRip: regions and paragraphs are merged first, so a snapshot gives at most one cue, and the cues of a document that follows
   the content model never overlap: each ends no later than the next begins *)
Theorem C07_srt_single_cue_per_snapshot : forall fmt b en regions n cs n', strict_shape regions = true ->
  srt_add_isd fmt b en (apply_filters srt_filters regions) n = (cs, n') -> (length cs <= 1)%nat.
Proof. exact srt_snapshot_single. Qed.
Theorem C07_srt_non_overlapping : forall d fmt seq cs ss,
  doc_block_wf d = true -> isd_sequence d = Ok seq -> srt_cues fmt seq = Ok cs -> srt_strings 1 cs = Ok ss ->
  ForallOrdPairs strictly_before cs.
Proof. exact srt_cues_strict. Qed.

(* the SubRip file is grammatical: srt_wf of Spec/CueSpec.v (lines, blocks, counter line, timing line, payload lines, counters
   1, 2, 3, ..., begin < end, order, tags) accepts the string the model prints, for every document that follows the block content
   model — outside the recorded findings (a payload line that is blank or holds "-->") and for payloads without carriage return and
   without "<" in the text (srt_cue_printable, executable; it also bounds the times by the 20 hour digits of the model's printer).
   The timing line is read back to the very millisecond counts. *)
Theorem C07_timing_line_reads_back : forall sep b e, ms_ok b -> ms_ok e ->
  parse_timing sep (print_ms sep b ++ arrow ++ print_ms sep e) = Some (b, e, []).
Proof. exact parse_print_timing. Qed.
Theorem C07_srt_parse_records : forall rs, Forall srec_ok rs -> srt_parse (join_text [10] (map sr_string rs)) = Some (map sr_cue rs).
Proof. exact srt_parse_file. Qed.
Theorem C07_srt_wf_partial : forall d fmt seq cs out,
  doc_block_wf d = true -> isd_sequence d = Ok seq -> srt_cues fmt seq = Ok cs -> srt_of_seq fmt (Ok seq) = Ok out ->
  forallb srt_cue_printable cs = true -> Z.of_nat (length cs) < 10 ^ 40 -> srt_wf out = true.
Proof. exact srt_wf_model. Qed.
Example C07_srt_wf_satisfiable : exists seq cs out,
  doc_block_wf w_ruby = true /\ isd_sequence w_ruby = Ok seq /\ srt_cues true seq = Ok cs /\
  srt_of_seq true (Ok seq) = Ok out /\ forallb srt_cue_printable cs = true /\ cs <> [] /\ srt_wf out = true.
Proof. exact srt_wf_example. Qed.

(* the WebVTT file is grammatical: vtt_wf of Spec/CueSpec.v (strict: WEBVTT line, blank line, STYLE block before any cue, cue blocks
   with or without identifier, timing line, cue settings read back and checked, payload lines, identifiers 1, 2, 3, ..., begin < end,
   order with same-interval cues allowed, tags) accepts the string the model prints in every configuration — outside the recorded
   findings (a payload line that is empty or holds "-->") and for payloads without carriage return (vtt_cue_printable, executable;
   it also bounds the times by the 20 hour digits of the model's printer); the cue settings are decided on their whole finite
   domain (C07_vtt_settings_domain: align x 3, line 0..100 x 3, in which the repaired writer stays: C07_vtt_settings_in_domain). *)
Theorem C07_vtt_settings_domain :
  forallb (fun ta => forallb (fun ln => settings_good (vtt_settings_text ta ln)) line_domain) ta_domain = true.
Proof. exact settings_domain_good. Qed.
Theorem C07_vtt_settings_in_domain : forall cfg seq cs css, vtt_cues cfg seq = Ok (cs, css) -> Forall (cue_fields_ok cfg) cs.
Proof. exact vtt_cues_fields. Qed.
Theorem C07_vtt_parse_records : forall css rs, Forall vrec_ok rs -> rs <> [] ->
  vtt_parse_blocks true (vtt_file css rs) = Some (style_vblocks css ++ map (fun r => VCue (vr_cue r)) rs).
Proof. exact vtt_parse_file. Qed.
Theorem C07_vtt_wf_partial : forall d cfg seq cs css out,
  isd_sequence d = Ok seq -> vtt_cues cfg seq = Ok (cs, css) -> vtt_of_seq cfg (Ok seq) = Ok out ->
  forallb vtt_cue_printable cs = true -> Z.of_nat (length cs) < 10 ^ 40 -> cs <> [] -> vtt_wf out = true.
Proof. exact vtt_wf_model. Qed.
Example C07_vtt_wf_satisfiable : exists seq cs css out,
  isd_sequence w_linerange = Ok seq /\ vtt_cues lp seq = Ok (cs, css) /\ vtt_of_seq lp (Ok seq) = Ok out /\
  forallb vtt_cue_printable cs = true /\ cs <> [] /\ vtt_wf out = true.
Proof. exact vtt_wf_example. Qed.

(* WEBVTT header, then the STYLE block (if any class was registered), then the cues *)
Theorem C07_vtt_file_shape : forall cfg seq out, vtt_of_seq cfg (Ok seq) = Ok out ->
  exists cs css ss, vtt_cues cfg seq = Ok (cs, css) /\ vtt_strings cs = Ok ss /\ out = webvtt_header ++ style_block css ++ join_text [10] ss.
Proof. exact vtt_file_shape. Qed.
Theorem C07_srt_file_shape : forall fmt seq out, srt_of_seq fmt (Ok seq) = Ok out ->
  exists cs ss, srt_cues fmt seq = Ok cs /\ srt_strings 1 cs = Ok ss /\ out = join_text [10] ss.
Proof. exact srt_file_shape. Qed.

(* the writers do not fail — outside the recorded finding collapsed-interval (a cue whose interval collapses after rounding to the
   millisecond).  Every cue has an end: finish() of the repaired WebVTT writer reaches every cue of the unbounded last interval;
   the SubRip writer has at most one there.  FULL STATEMENT (refuted in Findings/C07.v): without trig_collapsed. *)
Theorem C07_every_cue_ends_vtt : forall cfg seq cs css, vtt_cues cfg seq = Ok (cs, css) -> trig_unbounded cs = false.
Proof. exact vtt_cues_bounded. Qed.
Theorem C07_every_cue_ends_srt : forall d fmt seq cs,
  doc_block_wf d = true -> isd_sequence d = Ok seq -> srt_cues fmt seq = Ok cs -> trig_unbounded cs = false.
Proof. exact srt_cues_bounded. Qed.
Theorem C07_total_partial_srt : forall d fmt seq cs,
  doc_block_wf d = true -> isd_sequence d = Ok seq -> srt_cues fmt seq = Ok cs -> trig_collapsed cs = false -> exists out, srt_of_seq fmt (Ok seq) = Ok out.
Proof. exact srt_total_collapsed. Qed.
Theorem C07_total_partial_vtt : forall cfg seq cs css,
  vtt_cues cfg seq = Ok (cs, css) -> trig_collapsed cs = false -> exists out, vtt_of_seq cfg (Ok seq) = Ok out.
Proof. exact vtt_total_collapsed. Qed.

(* cue settings.  line: the value written is, in whole percent and limited to the 0..100 of a WebVTT percentage, the edge of the
   region that tts:displayAlign selects, with the matching line alignment; align: the value written is the one the element's computed textAlign / direction prescribe *)
Theorem C07_cue_settings_line : forall ra n k da,
  sget (e_styles ra) p_DisplayAlign = Some (VEnum da) -> line_setting ra = Ok (n, k) ->
  exists q a, spec_line ra = Some (q, a) /\ whole_percent q n = true /\ nth (Z.to_nat k) vtt_line_alignment [] = a.
Proof. exact line_setting_spec. Qed.
Theorem C07_cue_settings_align : forall p,
  spec_align p = option_map (fun k => nth (Z.to_nat k) vtt_text_alignment []) (textalign_setting p).
Proof. exact textalign_setting_spec. Qed.
(* with line positions the filters leave position, extent and displayAlign of every region as the snapshot computed them *)
Theorem C07_cue_settings_geometry_kept : forall cfg fs p, line_position cfg = true -> vtt_filters cfg = Some fs -> geometry_prop p ->
  forall rs r', In r' (apply_filters fs rs) -> exists r, In r rs /\ sget (e_styles (eattrs r')) p = sget (e_styles (eattrs r)) p.
Proof. exact region_geometry_filtered. Qed.
(* every cue of the output takes its settings (and only the configured ones) from a region of its own filtered snapshot and a
   paragraph that process_div reaches below that region's body *)
Theorem C07_cue_settings_partial : forall cfg fs seq cs css,
  vtt_filters cfg = Some fs -> vtt_cues cfg seq = Ok (cs, css) -> Forall (cue_settings_sound cfg fs seq) cs.
Proof. exact vtt_cues_settings. Qed.

Example C07_hypotheses_satisfiable :
  exists cs, srt_cues true c06_example = Ok cs /\ trig_collapsed cs = false /\ trig_unbounded cs = false /\ cs <> [].
Proof. exact c07_example_ok. Qed.

(* the witnesses of the repaired defects, on the model *)
Example C07_fixed_unbounded : exists out cs,
  vtt_from_model w_unbounded lp = Ok out /\ vtt_wf out = true /\ vtt_parse out = Some cs /\
  map (fun c => (r_begin c, r_end c)) cs = [(1000, 11000); (1000, 11000)].
Proof. exact fixed_unbounded. Qed.
Example C07_fixed_line_range : exists out cs,
  vtt_from_model w_linerange lp = Ok out /\ vtt_wf out = true /\ vtt_parse out = Some cs /\
  map r_settings cs = [[32;108;105;110;101;58;49;48;48;37;44;101;110;100]].
Proof. exact fixed_line_range. Qed.

Print Assumptions C07_tags_balanced_srt.  Print Assumptions C07_tags_balanced_vtt.  Print Assumptions C07_no_tags_when_disabled.
Print Assumptions C07_runs_tags_srt.  Print Assumptions C07_runs_tags_vtt.  Print Assumptions C07_lex_vtt.  Print Assumptions C07_lex_srt.
Print Assumptions C07_runs_flags_partial_srt.  Print Assumptions C07_runs_flags_partial_vtt.  Print Assumptions C07_filter_keeps_flags.
Print Assumptions C07_filters_keep_flags_srt.  Print Assumptions C07_filters_keep_flags_vtt.
Print Assumptions C07_vtt_text_escaped.  Print Assumptions C07_vtt_escape_decodes.
Print Assumptions C07_counters_srt.  Print Assumptions C07_counters_vtt.
Print Assumptions C07_wf_partial_srt.  Print Assumptions C07_wf_partial_vtt.
Print Assumptions C07_srt_single_cue_per_snapshot.  Print Assumptions C07_srt_non_overlapping.
Print Assumptions C07_vtt_file_shape.  Print Assumptions C07_srt_file_shape.
Print Assumptions C07_timing_line_reads_back.  Print Assumptions C07_srt_parse_records.  Print Assumptions C07_srt_wf_partial.
Print Assumptions C07_vtt_settings_domain.  Print Assumptions C07_vtt_settings_in_domain.  Print Assumptions C07_vtt_parse_records.
Print Assumptions C07_vtt_wf_partial.
Print Assumptions C07_every_cue_ends_vtt.  Print Assumptions C07_every_cue_ends_srt.
Print Assumptions C07_total_partial_srt.  Print Assumptions C07_total_partial_vtt.
Print Assumptions C07_cue_settings_line.  Print Assumptions C07_cue_settings_align.  Print Assumptions C07_cue_settings_geometry_kept.
Print Assumptions C07_cue_settings_partial.
