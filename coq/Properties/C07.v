(* C07 — SRT/WebVTT outputs are grammatical and tags reflect the computed styles.
   M = Model/IsdFilters.v + Model/CueWriter.v; S = Spec/CueSpec.v (srt_wf, vtt_wf, runs, the styles a snapshot prescribes).
   Proved here, for EVERY snapshot sequence (hence every document): the structural half of the grammar — tags in matching,
   properly nested pairs; no tag at all when text formatting is disabled; counters / cue identifiers 1, 2, 3, ...; begin < end;
   cues in non-decreasing, non-overlapping order; the header and the STYLE block before any cue; and that the writers return a
   string unless one of the two recorded ValueError findings fires.
   NOT proved (compared on generated documents only, harness/c07.py): that the recognisers srt_wf / vtt_wf of Spec/CueSpec.v
   accept the printed string (false of the faithful model for payloads holding "-->", blank-looking lines or out-of-range line
   percentages: Findings/C07.v), and that `runs` of every payload gives each character its computed style (C07_runs, false for
   a nested span that resets a style).  Cue settings: the line / align values are proved to be the ones Spec/CueSettings.v
   prescribes for the region / element process_p is handed, and the region geometry to survive the filters (the C07_cue_settings theorems);
   that this element is the paragraph(s) of the scope is false when paragraphs are merged (Findings/C07.v) and is compared only. *)
From Coq Require Import Sorting.Sorted.
From TT Require Import Model.Doc Gen.StyleTables Model.Isd Model.SigTimes Model.TimeCode Model.IsdFilters Gen.CueTables Model.CueWriter.
From TT Require Import Model.CueTriggers Spec.IsdSpec Spec.CueSpec.
From TT Require Import Spec.CueSettings Proofs.C06.Text Proofs.C07.Tags Proofs.C07.Order Proofs.C07.Settings Proofs.C07.Escape Proofs.C06.Shape Proofs.C07.Single.

(* tags balanced and properly nested: the items of every cue are built from characters, concatenation and
   <open> ... </close> around nested items, where (open, close) is one of the writer's tag pairs *)
Theorem C07_tags_balanced_srt : forall fmt seq cs, srt_cues fmt seq = Ok cs -> Forall (fun c => nested srt_pair (c_items c)) cs.
Proof. exact srt_cues_nested. Qed.
Theorem C07_tags_balanced_vtt : forall cfg seq cs css, vtt_cues cfg seq = Ok (cs, css) -> Forall (fun c => nested vtt_pair (c_items c)) cs.
Proof. exact vtt_cues_nested. Qed.

(* none when text formatting is disabled: the payload is the normalised text itself *)
Theorem C07_no_tags_when_disabled : forall seq cs, srt_cues false seq = Ok cs ->
  Forall (fun c => no_tags (c_items c) /\ cue_text esc_none c = normalize_eol (cue_chars c)) cs.
Proof. exact srt_cues_no_tags. Qed.

(* & and < in text are escaped in WebVTT: a content character prints as itself, &amp; or &lt; — never as "<", and "&" only opens
   one of these two references, which the decoder of Spec/CueSpec.v maps back to the character *)
Theorem C07_vtt_text_escaped : forall c, ~ In 60 (esc_vtt c) /\ (In 38 (esc_vtt c) -> esc_vtt c = amp_ref \/ esc_vtt c = lt_ref).
Proof. exact esc_vtt_no_markup. Qed.
Theorem C07_vtt_escape_decodes : forall c,
  match esc_vtt c with
  | 38 :: r => exists name, r = name ++ [59] /\ vtt_escape name = Some c
  | _ => esc_vtt c = [c]
  end.
Proof. exact esc_vtt_decodes. Qed.

(* counters: the k-th SubRip cue is printed with the number k; WebVTT cue identifiers, when written, are 1 .. n *)
Theorem C07_counters_srt : forall cs k ss, srt_strings k cs = Ok ss ->
  Forall2 (fun i s => exists rest, s = print_z i ++ 10 :: rest) (zseq k (length cs)) ss.
Proof. exact srt_strings_counters. Qed.
Theorem C07_counters_vtt : forall cfg seq cs css, cue_id cfg = true -> vtt_cues cfg seq = Ok (cs, css) ->
  map c_id cs = map Some (zseq 1 (length cs)).
Proof. exact vtt_cues_ids. Qed.

(* well-formedness of the cue list (the part of srt_wf / vtt_wf that does not depend on the payload text): whenever the writer
   gets as far as printing, every cue has begin < end, an earlier cue ends no later than a later one begins unless both cover
   the very same interval, and the numbers are consecutive from 1 *)
Theorem C07_wf_partial_srt : forall d fmt seq cs ss,
  isd_sequence d = Ok seq -> srt_cues fmt seq = Ok cs -> srt_strings 1 cs = Ok ss ->
  Forall span_ok cs /\ ForallOrdPairs before cs /\
  Forall2 (fun i s => exists rest, s = print_z i ++ 10 :: rest) (zseq 1 (length cs)) ss.
Proof. exact srt_cues_wf. Qed.
Theorem C07_wf_partial_vtt : forall d cfg seq cs css ss,
  isd_sequence d = Ok seq -> vtt_cues cfg seq = Ok (cs, css) -> vtt_strings cs = Ok ss ->
  Forall span_ok cs /\ ForallOrdPairs before cs /\
  (cue_id cfg = true -> map c_id cs = map Some (zseq 1 (length cs))) /\
  Forall2 (fun c s => match c_id c with Some k => exists rest, s = print_z k ++ 10 :: rest | None => True end) cs ss.
Proof. exact vtt_cues_wf. Qed.
(* SubRip: regions and paragraphs are merged first, so a snapshot gives at most one cue, and the cues of a document that follows
   the content model never overlap: each ends no later than the next begins *)
Theorem C07_srt_single_cue_per_snapshot : forall fmt b en regions n cs n', strict_shape regions = true ->
  srt_add_isd fmt b en (apply_filters srt_filters regions) n = (cs, n') -> (length cs <= 1)%nat.
Proof. exact srt_snapshot_single. Qed.
Theorem C07_srt_non_overlapping : forall d fmt seq cs ss,
  doc_block_wf d = true -> isd_sequence d = Ok seq -> srt_cues fmt seq = Ok cs -> srt_strings 1 cs = Ok ss ->
  ForallOrdPairs strictly_before cs.
Proof. exact srt_cues_strict. Qed.

(* WEBVTT header, then the STYLE block (if any class was registered), then the cues *)
Theorem C07_vtt_file_shape : forall cfg seq out, vtt_of_seq cfg (Ok seq) = Ok out ->
  exists cs css ss, vtt_cues cfg seq = Ok (cs, css) /\ vtt_strings cs = Ok ss /\ out = webvtt_header ++ style_block css ++ join_text [10] ss.
Proof. exact vtt_file_shape. Qed.
Theorem C07_srt_file_shape : forall fmt seq out, srt_of_seq fmt (Ok seq) = Ok out ->
  exists cs ss, srt_cues fmt seq = Ok cs /\ srt_strings 1 cs = Ok ss /\ out = join_text [10] ss.
Proof. exact srt_file_shape. Qed.

(* the writers do not fail — outside the two recorded findings (a cue whose interval collapses after rounding, a cue of the
   unbounded last interval that finish() did not reach).  FULL STATEMENT (refuted in Findings/C07.v): without the triggers. *)
Theorem C07_total_partial_srt : forall fmt seq cs,
  srt_cues fmt seq = Ok cs -> trig_collapsed cs = false -> trig_unbounded cs = false -> exists out, srt_of_seq fmt (Ok seq) = Ok out.
Proof. exact srt_total. Qed.
Theorem C07_total_partial_vtt : forall cfg seq cs css,
  vtt_cues cfg seq = Ok (cs, css) -> trig_collapsed cs = false -> trig_unbounded cs = false -> exists out, vtt_of_seq cfg (Ok seq) = Ok out.
Proof. exact vtt_total. Qed.

(* cue settings.  line: the value written is, in whole percent, the edge of the region that tts:displayAlign selects, with the
   matching line alignment; align: the value written is the one the element's computed textAlign / direction prescribe *)
Theorem C07_cue_settings_line : forall ra n k da,
  sget (e_styles ra) p_DisplayAlign = Some (VEnum da) -> line_setting ra = Ok (n, k) ->
  exists q a, spec_line ra = Some (q, a) /\ whole_percent q n = true /\ nth (Z.to_nat k) vtt_line_alignment [] = a.
Proof. exact line_setting_spec. Qed.
Theorem C07_cue_settings_align : forall p,
  spec_align p = option_map (fun k => nth (Z.to_nat k) vtt_text_alignment []) (textalign_setting p).
Proof. exact textalign_setting_spec. Qed.
(* with line positions the filters leave position, extent and displayAlign of every region as the snapshot computed them *)
Theorem C07_cue_settings_geometry_kept : forall cfg fs p, line_position cfg = true -> vtt_filters cfg = Some fs -> geometry_prop p ->
  forall rs r', In r' (apply_filters fs rs) -> exists r, In r rs /\ sget (e_styles (eattrs r')) p = sget (e_styles (eattrs r)) p.
Proof. exact region_geometry_filtered. Qed.
(* every cue of the output takes its settings (and only the configured ones) from a region of its own filtered snapshot and an
   element two levels below that region's body *)
Theorem C07_cue_settings_partial : forall cfg fs seq cs css,
  vtt_filters cfg = Some fs -> vtt_cues cfg seq = Ok (cs, css) -> Forall (cue_settings_sound cfg fs seq) cs.
Proof. exact vtt_cues_settings. Qed.

Example C07_hypotheses_satisfiable :
  exists cs, srt_cues true c06_example = Ok cs /\ trig_collapsed cs = false /\ trig_unbounded cs = false /\ cs <> [].
Proof. exact c07_example_ok. Qed.

Print Assumptions C07_tags_balanced_srt.  Print Assumptions C07_tags_balanced_vtt.  Print Assumptions C07_no_tags_when_disabled.
Print Assumptions C07_vtt_text_escaped.  Print Assumptions C07_vtt_escape_decodes.
Print Assumptions C07_counters_srt.  Print Assumptions C07_counters_vtt.
Print Assumptions C07_wf_partial_srt.  Print Assumptions C07_wf_partial_vtt.
Print Assumptions C07_srt_single_cue_per_snapshot.  Print Assumptions C07_srt_non_overlapping.
Print Assumptions C07_vtt_file_shape.  Print Assumptions C07_srt_file_shape.
Print Assumptions C07_total_partial_srt.  Print Assumptions C07_total_partial_vtt.
Print Assumptions C07_cue_settings_line.  Print Assumptions C07_cue_settings_align.  Print Assumptions C07_cue_settings_geometry_kept.
Print Assumptions C07_cue_settings_partial.
