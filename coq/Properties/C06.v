(* C06 — SRT/WebVTT cues carry exactly the visible text over exactly its intervals.
   M = Model/IsdFilters.v (the four ISD filters) + Model/CueWriter.v (both writers) on the snapshot sequence of
   Model/SigTimes.v; S = Spec/CueSpec.v (cue_spec) on top of C01's per-leaf specification (Spec/IsdSpec.v).
   All statements are for EVERY snapshot sequence (hence every document), by induction over the sequence, then the tree.
   Characters are compared through `visc` (the characters that are not white space): S compares modulo TTML white-space
   handling (C13), and white space is what the writers' normalize_eol may drop.  Line-break placement and the white-space
   normal form are compared on generated documents only (harness/c06.py against Spec/CueSpec.v cues_ok).
   `base_text` / `base_leaves`: the Br/Text leaves outside ruby annotations (rt, rtc, rp) — ruby base text is carried by the
   repaired writers, annotation text is not (S accepts a payload with or without it).
   SubRip has no escape mechanism: the text statements for the SubRip writer are for text without "<" (the blank test of the
   writer removes what reads as a tag); the WebVTT statements have no such restriction. *)
From Coq Require Import Sorting.Sorted.
From TT Require Import Model.Doc Gen.StyleTables Model.Isd Model.SigTimes Model.TimeCode Model.IsdFilters Gen.CueTables Model.CueWriter.
From TT Require Import Model.CueTriggers Spec.IsdSpec Spec.CueSpec.
From TT Require Import Proofs.C06.Filters Proofs.C06.Inline Proofs.C06.Strip Proofs.C06.Loop Proofs.C06.Text Proofs.C06.SpecLink Proofs.C06.Shape Proofs.C06.Exists Proofs.C06.Breaks.
From TT Require Import Proofs.C06.Content Proofs.C06.Fixed Proofs.C06.BaseSpec.

(* ---- the ISD filters keep the leaves -------------------------------------------------------------------------------------- *)
(* region merging keeps every Br/Text leaf, in region then document order (repaired code: every division of every region) *)
Theorem C06_merge_regions_preserves_leaves : forall rs,
  regions_shape rs = true -> flat_map shown_leaves (merge_regions rs) = flat_map shown_leaves rs.
Proof. exact merge_regions_preserves_leaves. Qed.
(* paragraph merging keeps every text leaf in order and only adds line breaks (the Br between merged paragraphs) *)
Theorem C06_merge_paragraphs_preserves_leaves : forall rs,
  paragraphs_shape rs = true -> flat_map leaves_text (merge_paragraphs rs) = flat_map leaves_text rs.
Proof. exact merge_paragraphs_preserves_leaves. Qed.
(* ... and the same outside ruby annotations (what the writers carry) *)
Theorem C06_merge_regions_preserves_base : forall rs,
  regions_shape rs = true -> flat_map base_leaves (merge_regions rs) = flat_map base_leaves rs.
Proof. exact merge_regions_preserves_base. Qed.
Theorem C06_merge_paragraphs_preserves_base : forall rs,
  paragraphs_shape rs = true -> flat_map base_text (merge_paragraphs rs) = flat_map base_text rs.
Proof. exact merge_paragraphs_preserves_base. Qed.
Theorem C06_style_filters_preserve_leaves : forall f rs,
  match f with FSupported _ | FDefaults _ => True | _ => False end ->
  flat_map shown_leaves (apply_filter f rs) = flat_map shown_leaves rs.
Proof. exact style_filters_preserve_leaves. Qed.
(* the filter lists of both writers in every configuration (as generated from the code) keep the text of a snapshot *)
Theorem C06_filters_preserve_text : forall merge c d rs,
  snapshot_shape rs = true -> flat_map leaves_text (apply_filters (writer_filters merge c d) rs) = flat_map leaves_text rs.
Proof. exact filters_preserve_text. Qed.
Theorem C06_filters_preserve_base : forall merge c d rs,
  snapshot_shape rs = true -> flat_map base_text (apply_filters (writer_filters merge c d) rs) = flat_map base_text rs.
Proof. exact filters_preserve_base. Qed.
Theorem C06_srt_filters_form : exists c d, srt_filters = writer_filters true c d.
Proof. exact srt_filters_form. Qed.
Theorem C06_vtt_filters_form : forall cfg fs, vtt_filters cfg = Some fs -> exists c d, fs = writer_filters (negb (line_position cfg)) c d.
Proof. exact vtt_filters_form. Qed.

(* ---- times ------------------------------------------------------------------------------------------------------------------ *)
(* the cue list is one group of cues per snapshot, in order; every cue of the group of the snapshot at s_i begins at
   round_ms s_i and ends at round_ms s_(i+1); in the last (unbounded) interval a cue ends 10 s after it begins (or has no end
   if finish() did not reach it, and then the writer raises: C07) *)
Theorem C06_times_srt : forall fmt seq cs,
  srt_cues fmt seq = Ok cs -> cue_groups (fun t next _ group => Forall (times_ok t next) group) seq cs.
Proof. exact times_srt. Qed.
Theorem C06_times_vtt : forall cfg seq cs css,
  vtt_cues cfg seq = Ok (cs, css) -> cue_groups (fun t next _ group => Forall (times_ok t next) group) seq cs.
Proof. exact times_vtt. Qed.
(* the times of the sequence are the significant times *)
Theorem C06_sequence_times : forall d seq, isd_sequence d = Ok seq -> sig d = Ok (map fst seq).
Proof. exact sequence_times. Qed.

(* ---- text -------------------------------------------------------------------------------------------------------------------- *)
(* the blank test of the repaired writers (the paragraph text without its tags is empty or white space) decides exactly whether the
   characters of the paragraph are all white space: WebVTT always, SubRip when no character is "<" *)
Theorem C06_blank_test_vtt : forall c, items_ok vtt_tag_ok (c_items c) -> vtt_blank c = only_whitespace (cue_chars c).
Proof. exact vtt_blank_exact. Qed.
Theorem C06_blank_test_srt : forall c, items_ok srt_tag_ok (c_items c) -> ~ In 60 (cue_chars c) -> srt_blank c = only_whitespace (cue_chars c).
Proof. exact srt_blank_exact. Qed.
(* group by group: the cues of a snapshot hold exactly the visible characters of the snapshot's text leaves outside ruby annotations,
   in region then document order, nothing dropped, invented, repeated or reordered — when the writer's dispatch skips no element that
   holds text (srt_sees_all / vtt_sees_all of the filtered snapshot: true for every snapshot of a document that follows the content
   model, C06_content_sees_all below) *)
Theorem C06_text_srt : forall fmt seq cs,
  srt_cues fmt seq = Ok cs -> cue_groups (fun _ _ regions group => text_ok srt_sees_all srt_filters regions group) seq cs.
Proof. exact text_partial_srt. Qed.
Theorem C06_text_vtt : forall cfg fs seq cs css,
  vtt_filters cfg = Some fs -> vtt_cues cfg seq = Ok (cs, css) ->
  cue_groups (fun _ _ regions group => text_ok vtt_sees_all fs regions group) seq cs.
Proof. exact text_partial_vtt. Qed.
(* the whole output: all visible characters of all snapshots, once each, in order *)
Theorem C06_text_total_srt : forall fmt seq cs,
  seq_shape seq = true -> trig_lost_srt seq = false -> srt_cues fmt seq = Ok cs -> visc (flat_map cue_chars cs) = visc (seq_text seq).
Proof. exact srt_text_total. Qed.
Theorem C06_text_total_vtt : forall cfg seq cs css,
  seq_shape seq = true -> trig_lost_vtt cfg seq = false -> vtt_cues cfg seq = Ok (cs, css) -> visc (flat_map cue_chars cs) = visc (seq_text seq).
Proof. exact vtt_text_total. Qed.

(* line breaks (before normalize_eol collapses runs and trims the ends): a br is a line feed; the paragraphs the merging filters put
   into one cue — all paragraphs of all regions, in order — are separated by exactly one line feed each *)
Theorem C06_br_is_line_feed : forall fmt a cs, e_kind a = KBr -> chars_of (srt_inline fmt (Elem a cs)) = [10].
Proof. exact br_is_line_feed. Qed.
Theorem C06_breaks_between_paragraphs : forall fmt ps,
  chars_of (flat_map (srt_inline fmt) (join_paragraphs ps)) = join_text [10] (map (para_chars fmt) ps).
Proof. exact join_paragraphs_chars. Qed.
Theorem C06_breaks_between_paragraphs_vtt : forall ps s,
  chars_of (fst (vtt_inlines (join_paragraphs ps) s)) = join_text [10] (map (para_chars false) ps).
Proof. exact join_paragraphs_chars_vtt. Qed.

(* which cues exist: every cue holds visible text (no hypothesis); a snapshot that shows visible text gets a cue; one that shows none
   gets none *)
Theorem C06_cues_nonblank_srt : forall fmt seq cs, srt_cues fmt seq = Ok cs -> Forall (fun c => visc (cue_chars c) <> []) cs.
Proof. exact srt_cues_nonblank. Qed.
Theorem C06_cues_nonblank_vtt : forall cfg seq cs css, vtt_cues cfg seq = Ok (cs, css) -> Forall (fun c => visc (cue_chars c) <> []) cs.
Proof. exact vtt_cues_nonblank. Qed.
Theorem C06_cues_exist_srt : forall fmt seq cs, srt_cues fmt seq = Ok cs ->
  cue_groups (fun _ _ regions group =>
                snapshot_shape regions = true -> srt_sees_all (apply_filters srt_filters regions) = true ->
                (visc (flat_map base_text regions) <> [] -> group <> []) /\
                (visc (flat_map base_text regions) = [] -> group = [])) seq cs.
Proof. exact srt_cues_exist. Qed.
Theorem C06_cues_exist_vtt : forall cfg fs seq cs css, vtt_filters cfg = Some fs -> vtt_cues cfg seq = Ok (cs, css) ->
  cue_groups (fun _ _ regions group =>
                snapshot_shape regions = true -> vtt_sees_all (apply_filters fs regions) = true ->
                (visc (flat_map base_text regions) <> [] -> group <> []) /\
                (visc (flat_map base_text regions) = [] -> group = [])) seq cs.
Proof. exact vtt_cues_exist. Qed.

(* the shape hypothesis holds for every snapshot of the sequence of a document whose body follows the content model of model.py
   (body > div > (div | p)*; regions are regions): snapshot generation and the per-region clones of the cache keep kinds *)
Theorem C06_sequence_shape : forall d seq, doc_block_wf d = true -> isd_sequence d = Ok seq -> seq_shape seq = true.
Proof. exact sequence_shape. Qed.
(* ... and for a document that follows the whole content model (p > span | br | ruby, span > span | br | text, the ruby patterns)
   the dispatch of both writers reaches every text leaf outside ruby annotations, in every snapshot, after the filters *)
Theorem C06_content_sees_all : forall d seq, doc_content_wf d = true -> isd_sequence d = Ok seq ->
  seq_shape seq = true /\ (forall cfg, trig_lost_vtt cfg seq = false) /\ (has_lt (seq_text seq) = false -> trig_lost_srt seq = false).
Proof. exact content_sees_all. Qed.
(* hence, document level: every visible character of every snapshot outside ruby annotations — ruby base text, the text of second
   and later divisions, of nested divisions, of every region — is in the cues, once, in order, and nothing else is *)
Theorem C06_text_document_vtt : forall d cfg seq cs css,
  doc_content_wf d = true -> isd_sequence d = Ok seq -> vtt_cues cfg seq = Ok (cs, css) ->
  visc (flat_map cue_chars cs) = visc (seq_text seq).
Proof. exact vtt_text_content. Qed.
Theorem C06_text_document_srt : forall d fmt seq cs,
  doc_content_wf d = true -> isd_sequence d = Ok seq -> has_lt (seq_text seq) = false -> srt_cues fmt seq = Ok cs ->
  visc (flat_map cue_chars cs) = visc (seq_text seq).
Proof. exact srt_text_content. Qed.

(* what the leaves of an uncached snapshot are: per region, the leaves the per-leaf TTML specification of C01 selects (the cached
   snapshots the sequence holds are the uncached ones: C14) *)
Theorem C06_snapshot_leaves_spec : forall d t rs,
  Forall (fun r => e_kind (eattrs r) = KRegion) (d_regions d) ->
  match d_body d with Some b => leaf_wf b = true | None => True end ->
  isd d t = Ok rs ->
  flat_map shown_leaves rs = flat_map (fun r => leaves_spec d t (eattrs r) (region_sel d r)) (doc_regions d).
Proof. exact isd_leaves. Qed.

(* S to S: the visible text Spec/CueSpec.v prescribes at t (`vis`, with ruby annotations) holds exactly the non-blank characters
   (`nb`) of the leaves C01's per-leaf specification selects, region by region, when all Br/Text leaves of the body sit in paragraphs *)
Theorem C06_spec_vis_is_leaves : forall d t,
  match d_body d with Some b => leaves_in_p b = true | None => True end ->
  tok_chars (vis true d t) = nb (flat_map leaf_chars (flat_map (fun r => leaves_spec d t (eattrs r) (region_sel d r)) (doc_regions d))).
Proof. exact vis_leaves. Qed.
(* end to end for one (uncached) snapshot: document -> snapshot (C01) -> filters -> SubRip cues = the visible text of S at t
   (snapshots without annotation text) *)
Theorem C06_srt_snapshot_spec_partial : forall d t fmt b en n regions cs n',
  Forall (fun r => e_kind (eattrs r) = KRegion) (d_regions d) ->
  match d_body d with Some bd => leaf_wf bd = true /\ leaves_in_p bd = true | None => True end ->
  isd d t = Ok regions -> snapshot_shape regions = true -> srt_sees_all (apply_filters srt_filters regions) = true ->
  flat_map base_text regions = flat_map leaves_text regions ->
  srt_add_isd fmt b en (apply_filters srt_filters regions) n = (cs, n') ->
  visc (flat_map cue_chars cs) = visc (tok_chars (vis true d t)).
Proof. exact srt_snapshot_spec. Qed.

(* the same outside ruby annotations: the base leaves of an uncached snapshot are the leaves the per-leaf specification selects whose
   chain of ancestors holds no rt / rtc / rp; `vis false` of Spec/CueSpec.v holds exactly their non-blank characters; hence, end to end
   for one snapshot, ruby included: document -> snapshot (C01) -> filters -> cues of either writer = the visible text S prescribes
   at t under the reading "annotation text is not part of the payload" *)
Theorem C06_snapshot_base_spec : forall d t rs,
  Forall (fun r => e_kind (eattrs r) = KRegion) (d_regions d) ->
  match d_body d with Some b => leaf_wf b = true | None => True end ->
  isd d t = Ok rs ->
  flat_map base_leaves rs = flat_map (fun r => base_spec d t (eattrs r) (region_sel d r)) (doc_regions d).
Proof. exact isd_base. Qed.
Theorem C06_spec_vis_is_base : forall d t,
  match d_body d with Some b => leaves_in_p b = true | None => True end ->
  tok_chars (vis false d t) = nb (flat_map leaf_chars (flat_map (fun r => base_spec d t (eattrs r) (region_sel d r)) (doc_regions d))).
Proof. exact vis_base. Qed.
Theorem C06_srt_snapshot_spec : forall d t fmt b en n regions cs n',
  Forall (fun r => e_kind (eattrs r) = KRegion) (d_regions d) ->
  match d_body d with Some bd => leaf_wf bd = true /\ leaves_in_p bd = true | None => True end ->
  isd d t = Ok regions -> snapshot_shape regions = true -> srt_sees_all (apply_filters srt_filters regions) = true ->
  srt_add_isd fmt b en (apply_filters srt_filters regions) n = (cs, n') ->
  visc (flat_map cue_chars cs) = visc (tok_chars (vis false d t)).
Proof. exact srt_snapshot_base. Qed.
Theorem C06_vtt_snapshot_spec : forall d t cfg fs b en st regions cs st',
  Forall (fun r => e_kind (eattrs r) = KRegion) (d_regions d) ->
  match d_body d with Some bd => leaf_wf bd = true /\ leaves_in_p bd = true | None => True end ->
  vtt_filters cfg = Some fs -> isd d t = Ok regions -> snapshot_shape regions = true -> vtt_sees_all (apply_filters fs regions) = true ->
  vtt_regions cfg b en (apply_filters fs regions) st = Ok (cs, st') ->
  visc (flat_map cue_chars cs) = visc (tok_chars (vis false d t)).
Proof. exact vtt_snapshot_base. Qed.

(* the hypotheses are satisfiable, non-vacuously (Proofs/C06/Text.v c06_example: two regions, two divisions, nested span, br) *)
Example C06_hypotheses_satisfiable :
  seq_shape c06_example = true /\ trig_lost_srt c06_example = false /\
  trig_lost_vtt (mkVttConfig false false true) c06_example = false /\
  exists cs, srt_cues true c06_example = Ok cs /\ flat_map cue_chars cs = [97; 32; 98; 10; 10; 99; 10; 100] /\
             visc (seq_text c06_example) = [97; 98; 99; 100].
Proof. exact c06_example_ok. Qed.
(* the witnesses of the repaired defects, on the model: ruby base text, nested divisions, tags-only paragraphs *)
Example C06_fixed_ruby :
  payloads (srt_from_model w_ruby true) srt_parse = Some [[112;114;101;66;65;83;69;112;111;115;116]] /\
  payloads (vtt_from_model w_ruby dflt) vtt_parse = Some [[112;114;101;66;65;83;69;112;111;115;116]].
Proof. exact fixed_ruby. Qed.
Example C06_fixed_nested_div :
  payloads (vtt_from_model w_nested dflt) vtt_parse = Some [[110;101;115;116;101;100]] /\
  payloads (srt_from_model w_nested true) srt_parse = Some [[110;101;115;116;101;100]].
Proof. exact fixed_nested_div. Qed.
Example C06_fixed_tags_only :
  srt_from_model w_tagsonly true = Ok [] /\ payloads (vtt_from_model w_tagsonly dflt) vtt_parse = Some [].
Proof. exact fixed_tags_only. Qed.
Example C06_content_wf_satisfiable : doc_content_wf w_ruby = true /\ doc_content_wf w_nested = true.
Proof. split; reflexivity. Qed.

Print Assumptions C06_merge_regions_preserves_leaves.  Print Assumptions C06_merge_paragraphs_preserves_leaves.
Print Assumptions C06_merge_regions_preserves_base.  Print Assumptions C06_merge_paragraphs_preserves_base.
Print Assumptions C06_style_filters_preserve_leaves.  Print Assumptions C06_filters_preserve_text.  Print Assumptions C06_filters_preserve_base.
Print Assumptions C06_srt_filters_form.  Print Assumptions C06_vtt_filters_form.
Print Assumptions C06_times_srt.  Print Assumptions C06_times_vtt.  Print Assumptions C06_sequence_times.
Print Assumptions C06_blank_test_vtt.  Print Assumptions C06_blank_test_srt.
Print Assumptions C06_text_srt.  Print Assumptions C06_text_vtt.
Print Assumptions C06_text_total_srt.  Print Assumptions C06_text_total_vtt.
Print Assumptions C06_br_is_line_feed.  Print Assumptions C06_breaks_between_paragraphs.  Print Assumptions C06_breaks_between_paragraphs_vtt.
Print Assumptions C06_cues_nonblank_srt.  Print Assumptions C06_cues_nonblank_vtt.
Print Assumptions C06_cues_exist_srt.  Print Assumptions C06_cues_exist_vtt.
Print Assumptions C06_sequence_shape.  Print Assumptions C06_content_sees_all.
Print Assumptions C06_text_document_srt.  Print Assumptions C06_text_document_vtt.
Print Assumptions C06_snapshot_leaves_spec.  Print Assumptions C06_spec_vis_is_leaves.  Print Assumptions C06_srt_snapshot_spec_partial.
Print Assumptions C06_snapshot_base_spec.  Print Assumptions C06_spec_vis_is_base.  Print Assumptions C06_srt_snapshot_spec.  Print Assumptions C06_vtt_snapshot_spec.
