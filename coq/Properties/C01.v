(* C01 — a snapshot shows exactly what TTML makes active at t.  M = Model/Isd.v, S = Spec/IsdSpec.v. *)
From TT Require Import Model.Doc Gen.StyleTables Model.Isd Spec.IsdSpec Proofs.C01.Leaves.

(* time containment: begin inclusive, end exclusive, offsets relative to the parent's begin, end clipped *)
Theorem C01_interval : forall b e pb pe, make_absolute b e (Some pb) pe = resolve (pb, pe) b e.
Proof. exact make_absolute_resolve. Qed.
Theorem C01_interval_root : forall b e, make_absolute b e None None = resolve root_interval b e.
Proof. exact make_absolute_root. Qed.
Theorem C01_active : forall t iv, active_at t iv = is_active t iv.
Proof. exact active_at_is_active. Qed.

Print Assumptions C01_interval.  Print Assumptions C01_interval_root.  Print Assumptions C01_active.
