(* C01 — a snapshot shows exactly what TTML makes active at t.
   M = Model/Isd.v (transcription of ISD._process_element and helpers), S = Spec/IsdSpec.v (per-leaf, path-based
   reading of TTML2 time containment, region association and display).  For every document and rational t. *)
From TT Require Import Model.Doc Gen.StyleTables Model.Isd Spec.IsdSpec Spec.DocWf.
From TT Require Import Proofs.C01.Leaves Proofs.C01.Display Proofs.C01.Lwsp Proofs.C01.Main.

(* time containment: begin inclusive, end exclusive, offsets relative to the parent's begin, end clipped *)
Theorem C01_interval : forall b e pb pe, make_absolute b e pb pe = resolve (pint pb pe) b e.
Proof. exact make_absolute_pint. Qed.
Theorem C01_active : forall t iv, active_at t iv = is_active t iv.
Proof. exact active_at_is_active. Qed.

(* display: the value M's style resolution gives tts:display is the cascade set step > specified > initial > auto *)
Theorem C01_display : forall d t a par iv st,
  style_phase d t a par iv = Ok st -> display_none st = negb (displayed d t iv a).
Proof. exact style_phase_display. Qed.

(* white-space handling never adds, drops, duplicates or reorders a line break or a non-white-space character *)
Theorem C01_lwsp_conservative : forall a cs, flat_map shown_leaves (lwsp_children a cs) = flat_map shown_leaves cs.
Proof. exact lwsp_children_keeps. Qed.

(* MAIN: below any element, the snapshot shows exactly the Br/Text leaves whose whole chain of ancestors is active
   at t, selected for the region and not display:none — once each, in document order (the specification filters
   the document-order list of leaf chains; nothing is added, lost, duplicated or moved) *)
Theorem C01_leaves_element : forall d t sel dflt e inh par pb pe r, leaf_wf e = true ->
  proc d t sel inh par pb pe e = Ok r -> leaves_opt r = spec_rec d t sel dflt (pint pb pe) inh e.
Proof. exact proc_leaves. Qed.
(* ... and for a whole region of the snapshot: also requires the region itself to be active and displayed *)
Theorem C01_leaves_region : forall d t sel r res,
  e_kind (eattrs r) = KRegion -> match d_body d with Some b => leaf_wf b = true | None => True end ->
  proc_region d t sel r = Ok res -> leaves_opt res = leaves_spec d t (eattrs r) sel.
Proof. exact region_leaves. Qed.
(* the snapshot is the list of surviving regions in region order (nothing moves to another region) *)
Theorem C01_snapshot_regions : forall l rs, collect_regions l = Ok rs ->
  exists outs, Forall2 (fun r o => r = Ok o) l outs /\ rs = flat_map (fun o => match o with Some e => [e] | None => [] end) outs.
Proof. exact collect_regions_spec. Qed.

(* the hypothesis `leaf_wf` of the two theorems above is a consequence of the content model the model API enforces *)
Theorem C01_wf_leaves : forall e, cm_ok e = true -> leaf_wf e = true.
Proof. exact cm_ok_leaf_wf. Qed.

(* TOP LEVEL: for every well-formed document (Spec/DocWf.v: the type tests of model.py's push_child methods; C15 shows the
   API keeps documents inside it), every time and every snapshot the transcription produces: region by region, in
   region order, each source region (the document's regions, or the default region when it declares none) either
   appears under its own id showing exactly the leaves the per-leaf TTML2 specification prescribes — active chain,
   region-selected, displayed; once each, in document order — or is absent and the specification prescribes no leaf *)
Theorem C01_snapshot : forall d t rs, doc_wf d = true -> isd d t = Ok rs ->
  exists outs, Forall2 (region_matches d t) (snapshot_sources d) outs /\
               rs = flat_map (fun o => match o with Some e => [e] | None => [] end) outs.
Proof. exact snapshot_spec. Qed.
(* `isd d t = Ok rs` fails only through the recorded finding ruby-inactive-annotation (Ruby/Rtc.push_children) or a
   style computation that raises (C03/C18) *)

Example C01_snapshot_example :
  doc_wf c01_ex_doc = true /\
  (exists rs, isd c01_ex_doc (Qmake 1 1) = Ok rs /\ map (fun r => leaves_opt (Some r)) rs = [[LText [120%Z]]; []]) /\
  (exists rs, isd c01_ex_doc (Qmake 2 1) = Ok rs /\ map (fun r => leaves_opt (Some r)) rs = [[]; []]).
Proof. exact snapshot_spec_example. Qed.

(* non-vacuity and boundary inclusivity: begin is inclusive, end exclusive *)
Example C01_boundaries :
  is_active (Qmake 2 1) (Qmake 2 1, Some (Qmake 5 1)) = true /\ is_active (Qmake 5 1) (Qmake 2 1, Some (Qmake 5 1)) = false.
Proof. split; reflexivity. Qed.

Print Assumptions C01_interval.  Print Assumptions C01_active.  Print Assumptions C01_display.
Print Assumptions C01_lwsp_conservative.  Print Assumptions C01_leaves_element.  Print Assumptions C01_leaves_region.
Print Assumptions C01_snapshot_regions.  Print Assumptions C01_wf_leaves.  Print Assumptions C01_snapshot.
Print Assumptions C01_snapshot_example.
