(* C08 — the SCC reader shows what a CEA-608 decoder displays, when it displays it.
   Only statements, `exact`, and Print Assumptions.  M = Model/SccReader.v (transcription of ttconv/scc/line.py,
   context.py, caption_paragraph.py, caption_line.py, caption_text.py, reader.py, utils.py over the C17 word decoder
   and the C12 time-code arithmetic), S = Spec/Cea608Screen.v (reference CEA-608 decoder).  All statements are for
   every list of lines / every state and word; none is restricted to the protocol grammars.

   What is proved here: the time side of the property (frame grid, not before the line, inside the line's
   transmission window, frames per word), the channel filter and the single action of doubled control codes.
   Of the display side the protocol skeleton is proved, on the model: what is loaded in pop-on style is not visible
   before the EOC; EOC starts the buffered caption and ends the displayed one at its stamp; EDM ends the displayed
   caption one frame later; after a carriage return a roll-up caption has at most `depth` rows; while the cursor is at
   the end of the row being written, characters are appended in the order received (three styles), a backspace removes
   the preceding character and an extended character replaces it.
   What is NOT proved: the simulation `rows_of_doc (to_model ..) f = screen .. f` (C08_popon and its roll-up /
   paint-on analogues, DESIGN section 5) - which characters sit on which rows with which attributes.  It is false at
   full strength of the faithful model (Findings/C08.v, fourteen recorded findings) and is compared by the
   correspondence run only (harness/c08.py, oracle 2).  The intended statement is
     forall ws in PopOnGrammar, no trigger of Spec/Cea608Screen.v fires on ws -> S_word ws df (to_model ws) = None
   and is left unproved. *)
From Coq Require Import QArith.
From TT Require Import Base.Prelude Base.SccTypes Base.SccDoc Model.SccWord Model.TimeCode Model.SccReader.
From TT Require Import Proofs.C08.Stamps Proofs.C08.Words Proofs.C08.Protocol Proofs.C08.Text.
Open Scope Z_scope.

(* every time code stored in a pushed paragraph (begin, end, span begins) is the time code of one of the file's
   lines after k additions of one frame, 1 <= k <= number of words + 1 *)
Theorem C08_stamps : forall talign lines, C_ok (line_stamp lines) (run_lines talign lines).
Proof. exact stamps_run. Qed.

(* in the document: begin and end of every paragraph are frame T+k of a line of the file at that line's rate
   (30 for ':' time codes, 30000/1001 for ';'), 1 <= k <= len+1; so is the absolute begin of every span (paint-on
   span begins are written relative to the paragraph) *)
Theorem C08_times_on_line_grid : forall talign lines rs ps, to_model talign lines = Doc rs ps ->
  forall p, In p ps ->
    (forall b, q_begin p = Some b -> on_line_grid lines b) /\
    (forall e, q_end p = Some e -> on_line_grid lines e) /\
    exists paint, Forall (span_ok lines (q_begin p) paint) (q_children p).
Proof. exact doc_times. Qed.

(* ... hence an exact multiple of the frame duration ... *)
Theorem C08_times_on_grid : forall lines q, on_line_grid lines q -> exists n : Z, q = Qmake n 30 \/ q = Qmake (n * 1001) 30000.
Proof. exact grid_multiple. Qed.
(* ... later than the line's own time code and at most one frame after the line's last word *)
Theorem C08_not_before_line : forall lines q, on_line_grid lines q ->
  exists line lab r ws, In line lines /\ from_str line = LOk (lab, r) ws /\
    (tc_offset (lab, r) < q)%Q /\ (q <= Qmake ((to_frames r lab + zlen ws + 1) * rd r) (Z.to_pos (rn r)))%Q.
Proof. exact not_before_line. Qed.

(* frames per word: a word advances the line's time code by exactly one frame, except that a word dropped as the
   second copy of a doubled control code advances it by none (the recorded finding doubled-code-no-frame) *)
Theorem C08_frames_per_word : forall c w, c_tc (step c w) = if c_err c || is_dup c w then c_tc c else tc_next (c_tc c).
Proof. exact tc_step. Qed.
(* within the transmission window of the triggering word — partial: on a run without dropped copies (trigger
   `run_clean c ws = false`), the stamp available to the i-th word is exactly T+i+1, inside [T+i, T+i+2];
   the full statement (every run) is refuted in Findings/C08.v (C08_doubled_code_no_frame_refuted) *)
Theorem C08_within_word_window_partial : forall ws c, run_clean c ws = true ->
  c_tc (fold_left step ws c) = iter_n (length ws) tc_next (c_tc c).
Proof. exact frames_clean. Qed.
(* in every run the stamps are never late: at most one frame per word *)
Theorem C08_stamp_never_late : forall ws c, exists k, (k <= length ws)%nat /\ c_tc (fold_left step ws c) = iter_n k tc_next (c_tc c).
Proof. exact frames_at_most. Qed.

(* channel filter: a block of null padding, control-range words not attributed to channel 1 and characters received
   while another channel is addressed changes nothing but the elapsed frames and the channel being addressed ... *)
Theorem C08_channel_block : forall b c, c_err c = false -> (forall w, In w b -> is_dup c w = false) ->
  block_ok (c_chan c) b = true ->
  fold_left step b c = with_chan (with_tc c (iter_n (length b) tc_next (c_tc c))) (chan_end (c_chan c) b).
Proof. exact channel_block. Qed.
(* ... and the channel-1 code after it is processed as if only the frames had elapsed — partial: unless that code
   repeats previous_word (trigger `is_dup c w`; refuted without it: Findings/C08.v C08_channel_filter_refuted) *)
Theorem C08_channel_filter_partial : forall b w c, c_err c = false -> (forall x, In x b -> is_dup c x = false) ->
  block_ok (c_chan c) b = true -> ch1_code w = true -> is_dup c w = false ->
  fold_left step (b ++ [w]) c = step (with_tc c (iter_n (length b) tc_next (c_tc c))) w.
Proof. exact channel_filter. Qed.

(* doubled control codes act once: the second copy of a channel-1 control-range word only clears previous_word;
   it also consumes no frame (which is the recorded finding, Findings/C08.v C08_doubled_frame_refuted) *)
Theorem C08_doubled_once : forall c w, c_err c = false -> is_dup c w = false -> ch1_code w = true -> c_err (step c w) = false ->
  step (step c w) w = with_prev (step c w) None /\ c_tc (step (step c w) w) = c_tc (step c w).
Proof. exact doubled_once. Qed.

(* pop-on captions appear at the flip: in pop-on style the words that load the non-displayed memory (PACs, attribute and
   mid-row codes, characters, RCL, ENM, tab offsets, backspace) leave the displayed caption, the paragraphs written so
   far and the regions untouched ... *)
Theorem C08_popon_invisible_until_eoc : forall c w, c_style c = sPopOn -> loads_buffer w = true -> visible (step c w) = visible c.
Proof. exact popon_invisible. Qed.
(* ... EOC makes the buffered caption the displayed one, beginning at the EOC's stamp, and writes the caption displayed
   until then with that stamp as its end ("vanishes when replaced") ... *)
Theorem C08_popon_eoc_flip : forall c w, c_err c = false -> is_dup c w = false -> ctl w kEOC ->
  let t1 := tc_next (c_tc c) in
  (exists b, c_act (step c w) = Some b /\ p_begin b = Some t1 /\ p_lines b = p_lines (c_buf c)) /\
  match c_act c with
  | None => c_out (step c w) = c_out c
  | Some a => if para_is_empty a then c_out (step c w) = c_out c
              else exists o, c_out (step c w) = o :: c_out c /\ o_begin o = p_begin a /\ o_end o = Some t1
  end.
Proof. exact popon_eoc. Qed.
(* ... and EDM leaves nothing displayed, writing the displayed caption with the frame after its stamp as exclusive end *)
Theorem C08_edm_erases : forall c w, c_err c = false -> is_dup c w = false -> ctl w kEDM ->
  let t1 := tc_next (c_tc c) in
  c_act (step c w) = None /\
  match c_act c with
  | None => c_out (step c w) = c_out c
  | Some a => if para_is_empty a then c_out (step c w) = c_out c
              else exists o, c_out (step c w) = o :: c_out c /\ o_begin o = p_begin a /\ o_end o = Some (tc_next t1)
  end.
Proof. exact edm_erases. Qed.
(* roll-up shows at most the selected number of rows: after a carriage return the new displayed caption holds at most
   `depth` rows (the rows kept from the previous one plus the base row) *)
Theorem C08_rollup_depth : forall c w a, c_err c = false -> is_dup c w = false -> ctl w kCR -> c_act c = Some a -> p_style a = sRollUp ->
  exists a', c_act (step c w) = Some a' /\ zlen (p_lines a') <= Z.max (c_depth c) 1.
Proof. exact rollup_depth. Qed.

(* text accumulates as received: while the cursor is at the end of the row being written (the situation of the three
   protocols while a row is transmitted), a run of characters is appended to that row, in pop-on style (buffer), roll-up
   style and paint-on style (displayed, paint-on styled caption), and the cursor is at the end of the row again *)
Theorem C08_text_accumulates : forall c word,
  (c_style c = sPopOn \/ c_style c = sRollUp \/ (c_style c = sPaintOn /\ exists a, c_act c = Some a /\ p_style a = sPaintOn)) ->
  target_ready c -> word <> [] ->
  target_ready (process_text c word) /\ target_text (process_text c word) = target_text c ++ word.
Proof. exact text_accumulates. Qed.
(* backspace erases the preceding character (when the last text element of the row holds it) ... *)
Theorem C08_backspace_removes_last : forall c p, target c = Some p -> row_ready_ne p ->
  exists p', target (backspace c) = Some p' /\ row_ready p' /\ row_text p' = removelast (row_text p) /\
             c_style (backspace c) = c_style c /\ p_style p' = p_style p.
Proof. exact backspace_removes_last. Qed.
(* ... and an extended character replaces it (SccLine.process: backspace(), then the character) *)
Theorem C08_extended_replaces : forall c p ch, target c = Some p -> row_ready_ne p ->
  (c_style c = sPopOn \/ c_style c = sRollUp \/ (c_style c = sPaintOn /\ p_style p = sPaintOn)) ->
  target_ready (process_text (backspace c) [ch]) /\
  target_text (process_text (backspace c) [ch]) = removelast (row_text p) ++ [ch].
Proof. exact extended_replaces. Qed.

(* non-vacuity: the hypotheses are met by concrete, non-trivial values *)
(* after RCL, PAC row 15, "AB" the buffer is ready at the end of its row, which reads AB *)
Example C08_example_ready : exists p, target (fold_left step [5152; 5232; 16706] (ctx_init 0)) = Some p /\
                                      row_ready_ne p /\ row_ready p /\ row_text p = [65; 66].
Proof.
  eexists. split; [vm_compute; reflexivity|]. split; [|split].
  - exists 15, (mkL 15 0 2 [mkT None [65; 66] 2 (mkTS (-1) false false (-1))] 0), [], (mkT None [65; 66] 2 (mkTS (-1) false false (-1))).
    repeat split; try reflexivity; try discriminate; try lia. cbn. repeat constructor; cbn; intuition discriminate.
  - exists 15, (mkL 15 0 2 [mkT None [65; 66] 2 (mkTS (-1) false false (-1))] 0).
    split; [reflexivity|]. split; [reflexivity|]. split; [|split; reflexivity].
    exists [], (mkT None [65; 66] 2 (mkTS (-1) false false (-1))). repeat split.
  - reflexivity.
Qed.
Example C08_example_ctl : ctl 5167 kEOC /\ ctl 37932 kEDM /\ ctl 5165 kCR /\ loads_buffer 5232 = true /\ loads_buffer 16706 = true /\
                          loads_buffer 5167 = false.
Proof. vm_compute. repeat split. Qed.
Example C08_example_block : block_ok 1 [7200; 16706; 0; 7212] = true /\ ch1_code 5152 = true /\ ch1_code 7200 = false.
Proof. vm_compute. repeat split. Qed.
Example C08_example_clean : run_clean (ctx_init 0) [5152; 5166; 5232; 16706; 5167] = true /\
                            run_clean (ctx_init 0) [5152; 5152] = false.
Proof. vm_compute. split; reflexivity. Qed.

Print Assumptions C08_stamps.  Print Assumptions C08_times_on_line_grid.  Print Assumptions C08_times_on_grid.
Print Assumptions C08_not_before_line.  Print Assumptions C08_frames_per_word.  Print Assumptions C08_within_word_window_partial.
Print Assumptions C08_stamp_never_late.  Print Assumptions C08_channel_block.  Print Assumptions C08_channel_filter_partial.
Print Assumptions C08_doubled_once.  Print Assumptions C08_popon_invisible_until_eoc.  Print Assumptions C08_popon_eoc_flip.
Print Assumptions C08_edm_erases.  Print Assumptions C08_rollup_depth.  Print Assumptions C08_text_accumulates.
Print Assumptions C08_backspace_removes_last.  Print Assumptions C08_extended_replaces.
