(* C08 — the SCC reader shows what a CEA-608 decoder displays, when it displays it.
   Only statements, `exact`, and Print Assumptions.  M = Model/SccReader.v (transcription of ttconv/scc/line.py,
   context.py, caption_paragraph.py, caption_line.py, caption_text.py, reader.py, utils.py over the C17 word decoder
   and the C12 time-code arithmetic), S = Spec/Cea608Screen.v (reference CEA-608 decoder).  All statements are for
   every list of lines / every state and word; none is restricted to the protocol grammars.

   What is proved here: the time side of the property (frame grid, not before the line, inside the line's
   transmission window, frames per word, no negative time), that no word raises (to_model raises exactly on a malformed
   word of a line; since the repair of backspace / tab offset / extended character without a caption being processed),
   the channel filter (full statement since the repair of previous_word) and the
   single action of doubled control codes; the protocol skeleton (pop-on loading invisible before EOC, EOC / EDM stamps,
   roll-up depth, text accumulation, backspace / extended characters on the model); and, for the pop-on protocol, the
   display half itself:
     C08_popon_word / C08_popon_memories   for every stream of the pop-on class (executable membership test `pop_word`,
         Proofs/C08/ScreenPopOn.v) the reader's buffered caption shows the reference decoder's non-displayed memory and
         its displayed caption the displayed memory, cell by cell (character, colour, italics, underline, row, column);
     C08_popon_display   for every file of that class without doubled codes, for every text_align, at every frame that is
         not the frame right after an EDM, `rows_of_doc (to_model ..)` at the instant the frame starts equals
         `screen .. f` of Spec/Cea608Screen.v (vrows_eqb: rows, characters, colour, italics, underline).
     C08_rollup_word / C08_rollup_memories   for roll-up streams with base row 15 and a fixed depth (class `ru_word`), after every
         word the displayed caption shows the decoder's displayed memory cell by cell (contents, not times).
   What is NOT proved: the times of roll-up streams and everything about paint-on streams (false at word granularity: recorded
   findings text-shown-from-paragraph-begin, rollup-base-row-forced-15, painton-pac-clears-row, region-above-attached), pop-on
   streams outside the class (PACs returning to a row that already holds text - recorded findings pac-left-of-row-content and
   overwrite-keeps-element-style -, BS, background attribute codes, CR in pop-on mode - recorded finding
   cr-erases-non-rollup-caption), and the timing of streams with doubled codes (recorded finding doubled-code-no-frame:
   C08_popon_memories still gives the contents).  Those are compared by the correspondence run only (harness/c08.py,
   oracle 2; the run also checks that every generated stream of the theorem's class is accepted by the strict oracle). *)
From Coq Require Import QArith.
From TT Require Import Base.Prelude Base.SccTypes Base.SccDoc Model.SccWord Model.TimeCode Model.SccReader.
From TT Require Import Spec.Cea608Screen.
From TT Require Import Proofs.C08.Stamps Proofs.C08.Words Proofs.C08.Protocol Proofs.C08.Text.
From TT Require Import Proofs.C08.ScreenMem Proofs.C08.ScreenLine Proofs.C08.ScreenPopOn Proofs.C08.ScreenFile Proofs.C08.ScreenFinal.
From TT Require Import Proofs.C08.ScreenRollUp Proofs.C08.ScreenRollStep.
Open Scope Z_scope.

(* every time code stored in a pushed paragraph (begin, end, span begins) is the time code of one of the file's
   lines after k additions of one frame, 1 <= k <= number of words + 1 *)
Theorem C08_stamps : forall talign lines, C_ok (line_stamp lines) (run_lines talign lines).
Proof. exact stamps_run. Qed.

(* in the document: begin and end of every paragraph are frame T+k of a line of the file at that line's rate
   (30 for ':' time codes, 30000/1001 for ';'), 1 <= k <= len+1; so is the absolute begin g of every span; a paint-on
   span begin is written relative to the paragraph's begin b as max(g - b, 0) (`span_ok`; since the repair of
   to_paragraph: text painted before its paragraph begins is shown from the beginning of the paragraph) *)
Theorem C08_times_on_line_grid : forall talign lines rs ps, to_model talign lines = Doc rs ps ->
  forall p, In p ps ->
    (forall b, q_begin p = Some b -> on_line_grid lines b) /\
    (forall e, q_end p = Some e -> on_line_grid lines e) /\
    exists paint, Forall (span_ok lines (q_begin p) paint) (q_children p).
Proof. exact doc_times. Qed.

(* no time of the document is negative: begin and end of every paragraph are positive, every span begin (absolute or
   relative to its paragraph) is >= 0 - full statement since the repair of the paint-on span begin (it was false: a
   paint-on caption flipped to the buffer and back by two EOCs got spans with a negative begin) *)
Theorem C08_times_never_negative : forall talign lines rs ps, to_model talign lines = Doc rs ps ->
  forall p, In p ps ->
    (forall b, q_begin p = Some b -> (0 < b)%Q) /\ (forall e, q_end p = Some e -> (0 < e)%Q) /\
    Forall span_nonneg (q_children p).
Proof. exact doc_times_nonneg. Qed.
(* the clamp is exact: max(x, 0) is x when x >= 0 and 0 otherwise *)
Theorem C08_relative_begin_clamped : forall x, ((0 <= x)%Q -> qmax0 x = x) /\ ((x < 0)%Q -> qmax0 x = 0%Q).
Proof. exact (fun x => conj (qmax0_pos x) (qmax0_neg x)). Qed.

(* no word raises: a word never changes the exception flag (backspace, tab offset and extended character are ignored /
   reduced to the character when no caption is being processed, since the repair of context.py) ... *)
Theorem C08_no_word_raises : forall c w, c_err (step c w) = c_err c.
Proof. exact noerr_step. Qed.
(* ... so to_model raises exactly when a line of the file holds a malformed word (SccWord.from_str ValueError) *)
Theorem C08_raises_iff_malformed_word : forall talign lines,
  to_model talign lines = DocErr <-> exists l, In l lines /\ from_str l = LErr.
Proof. exact to_model_raises_iff. Qed.
(* when no caption is being processed (roll-up or paint-on style and nothing displayed) backspace and tab offsets do nothing *)
Theorem C08_code_without_caption_ignored : forall c, cap_to_process c = None ->
  backspace c = c /\ (forall k, k = kTO1 \/ k = kTO2 \/ k = kTO3 -> process_control c k = c) /\ process_control c kBS = c.
Proof. exact no_caption_ignored. Qed.

(* ... hence an exact multiple of the frame duration ... *)
Theorem C08_times_on_grid : forall lines q, on_line_grid lines q -> exists n : Z, q = Qmake n 30 \/ q = Qmake (n * 1001) 30000.
Proof. exact grid_multiple. Qed.
(* ... later than the line's own time code and at most one frame after the line's last word *)
Theorem C08_not_before_line : forall lines q, on_line_grid lines q ->
  exists line lab r ws, In line lines /\ from_str line = LOk (lab, r) ws /\
    (tc_offset (lab, r) < q)%Q /\ (q <= Qmake ((to_frames r lab + zlen ws + 1) * rd r) (Z.to_pos (rn r)))%Q.
Proof. exact not_before_line. Qed.

(* frames per word: a word advances the line's time code by exactly one frame, except that a word dropped as the
   second copy of a doubled control code advances it by none (the recorded finding doubled-code-no-frame) *)
Theorem C08_frames_per_word : forall c w, c_tc (step c w) = if c_err c || is_dup c w then c_tc c else tc_next (c_tc c).
Proof. exact tc_step. Qed.
(* within the transmission window of the triggering word — partial: on a run without dropped copies (trigger
   `run_clean c ws = false`), the stamp available to the i-th word is exactly T+i+1, inside [T+i, T+i+2];
   the full statement (every run) is refuted in Findings/C08.v (C08_doubled_code_no_frame_refuted) *)
Theorem C08_within_word_window_partial : forall ws c, run_clean c ws = true ->
  c_tc (fold_left step ws c) = iter_n (length ws) tc_next (c_tc c).
Proof. exact frames_clean. Qed.
(* in every run the stamps are never late: at most one frame per word *)
Theorem C08_stamp_never_late : forall ws c, exists k, (k <= length ws)%nat /\ c_tc (fold_left step ws c) = iter_n k tc_next (c_tc c).
Proof. exact frames_at_most. Qed.

(* channel filter: a (non-empty) block of null padding, control-range words not attributed to channel 1 and characters
   received while another channel is addressed changes nothing but the elapsed frames and the channel being addressed,
   and makes the reader forget previous_word (only the first word of the block could itself be taken for a second copy) ... *)
Theorem C08_channel_block : forall w b c, c_err c = false -> is_dup c w = false -> block_ok (c_chan c) (w :: b) = true ->
  fold_left step (w :: b) c = skip_to c (iter_n (length (w :: b)) tc_next (c_tc c)) (chan_end (c_chan c) (w :: b)).
Proof. exact channel_block. Qed.
(* ... and the channel-1 code after it is processed as if only the frames had elapsed - full statement since the repair
   of previous-word-survives-padding (fix: previous_word reset by padding and other-channel words): whatever the code
   is, also when it repeats the code received before the block *)
Theorem C08_channel_filter : forall x b w c, c_err c = false -> is_dup c x = false ->
  block_ok (c_chan c) (x :: b) = true -> ch1_code w = true ->
  fold_left step ((x :: b) ++ [w]) c = step (with_prev (with_tc c (iter_n (length (x :: b)) tc_next (c_tc c))) None) w.
Proof. exact channel_filter. Qed.

(* doubled control codes act once: the second copy of a channel-1 control-range word only clears previous_word;
   it also consumes no frame (which is the recorded finding, Findings/C08.v C08_doubled_frame_refuted).  Full statement
   since the repair of backspace / tab offset: the hypothesis that the first copy raises no exception is gone *)
Theorem C08_doubled_once : forall c w, c_err c = false -> is_dup c w = false -> ch1_code w = true ->
  step (step c w) w = with_prev (step c w) None /\ c_tc (step (step c w) w) = c_tc (step c w).
Proof. exact doubled_once. Qed.

(* pop-on captions appear at the flip: in pop-on style the words that load the non-displayed memory (PACs, attribute and
   mid-row codes, characters, RCL, ENM, tab offsets, backspace) leave the displayed caption, the paragraphs written so
   far and the regions untouched ... *)
Theorem C08_popon_invisible_until_eoc : forall c w, c_style c = sPopOn -> loads_buffer w = true -> visible (step c w) = visible c.
Proof. exact popon_invisible. Qed.
(* ... EOC makes the buffered caption the displayed one, beginning at the EOC's stamp, and writes the caption displayed
   until then with that stamp as its end ("vanishes when replaced") ... *)
Theorem C08_popon_eoc_flip : forall c w, c_err c = false -> is_dup c w = false -> ctl w kEOC ->
  let t1 := tc_next (c_tc c) in
  (exists b, c_act (step c w) = Some b /\ p_begin b = Some t1 /\ p_lines b = p_lines (c_buf c)) /\
  match c_act c with
  | None => c_out (step c w) = c_out c
  | Some a => if para_is_empty a then c_out (step c w) = c_out c
              else exists o, c_out (step c w) = o :: c_out c /\ o_begin o = p_begin a /\ o_end o = Some t1
  end.
Proof. exact popon_eoc. Qed.
(* ... and EDM leaves nothing displayed, writing the displayed caption with the frame after its stamp as exclusive end *)
Theorem C08_edm_erases : forall c w, c_err c = false -> is_dup c w = false -> ctl w kEDM ->
  let t1 := tc_next (c_tc c) in
  c_act (step c w) = None /\
  match c_act c with
  | None => c_out (step c w) = c_out c
  | Some a => if para_is_empty a then c_out (step c w) = c_out c
              else exists o, c_out (step c w) = o :: c_out c /\ o_begin o = p_begin a /\ o_end o = Some (tc_next t1)
  end.
Proof. exact edm_erases. Qed.
(* roll-up shows at most the selected number of rows: after a carriage return the new displayed caption holds at most
   `depth` rows (the rows kept from the previous one plus the base row) *)
Theorem C08_rollup_depth : forall c w a, c_err c = false -> is_dup c w = false -> ctl w kCR -> c_act c = Some a -> p_style a = sRollUp ->
  exists a', c_act (step c w) = Some a' /\ zlen (p_lines a') <= Z.max (c_depth c) 1.
Proof. exact rollup_depth. Qed.

(* text accumulates as received: while the cursor is at the end of the row being written (the situation of the three
   protocols while a row is transmitted), a run of characters is appended to that row, in pop-on style (buffer), roll-up
   style and paint-on style (displayed, paint-on styled caption), and the cursor is at the end of the row again *)
Theorem C08_text_accumulates : forall c word,
  (c_style c = sPopOn \/ c_style c = sRollUp \/ (c_style c = sPaintOn /\ exists a, c_act c = Some a /\ p_style a = sPaintOn)) ->
  target_ready c -> word <> [] ->
  target_ready (process_text c word) /\ target_text (process_text c word) = target_text c ++ word.
Proof. exact text_accumulates. Qed.
(* backspace erases the preceding character (when the last text element of the row holds it) ... *)
Theorem C08_backspace_removes_last : forall c p, target c = Some p -> row_ready_ne p ->
  exists p', target (backspace c) = Some p' /\ row_ready p' /\ row_text p' = removelast (row_text p) /\
             c_style (backspace c) = c_style c /\ p_style p' = p_style p.
Proof. exact backspace_removes_last. Qed.
(* ... and an extended character replaces it (SccLine.process: backspace(), then the character) *)
Theorem C08_extended_replaces : forall c p ch, target c = Some p -> row_ready_ne p ->
  (c_style c = sPopOn \/ c_style c = sRollUp \/ (c_style c = sPaintOn /\ p_style p = sPaintOn)) ->
  target_ready (process_text (backspace c) [ch]) /\
  target_text (process_text (backspace c) [ch]) = removelast (row_text p) ++ [ch].
Proof. exact extended_replaces. Qed.

(* ------------------------------------------------------------------ the display half: pop-on streams *)
(* The reference decoder S = Spec/Cea608Screen.v (`feed dev0`: the standard, no deviation admitted).  `pop_word s g w`
   (Proofs/C08/ScreenPopOn.v) is the executable membership test of the stream class, evaluated on the decoder's state:
   null padding, data channel 2, doubled codes, RCL / ENM / EDM / EOC / ignored miscellaneous codes, PACs for rows not yet
   addressed in the non-displayed memory, and - once the cursor is positioned - characters, special and extended characters,
   mid-row codes, tab offsets, DER.  One word: the relation `Rpop` (the buffered caption shows the non-displayed memory,
   the displayed caption the displayed memory, cell by cell: character, colour, italics, underline, row and column; same
   pen, same channel, same notion of "second copy") is preserved ... *)
Theorem C08_popon_word : forall c s g w g', Rpop c s g -> pop_word s g w = Some g' -> Rpop (step c w) (feed dev0 s w) g'.
Proof. exact step_pop. Qed.
(* ... hence, for every file whose lines are in the class (`pop_lines`), from the reader's and the decoder's initial
   states: no exception, and at the end of every prefix of lines the reader's buffered caption shows exactly the
   decoder's non-displayed memory and its displayed caption exactly the displayed memory (a blank cell is a transparent
   cell or a space) *)
Theorem C08_popon_memories : forall ta ls s' g', pop_lines scr0 g0 ls = Some (s', g') ->
  let c := run_words (ctx_init ta) ls in
  s' = fold_left (fun s l => fold_left (feed dev0) (snd l) s) ls scr0 /\
  c_err c = false /\ shows (c_buf c) (nond s') /\
  match c_act c with Some a => shows a (disp s') | None => forall r k, is_blank (mcell (disp s') r k) = true end.
Proof. exact popon_memories. Qed.
(* the words of a file are those of its lines that SccLine.from_str accepts (no malformed word) *)
Theorem C08_file_words : forall ta lines, no_bad_word lines ->
  to_model ta lines = finish (flush (run_words (ctx_init ta) (parsed_lines lines))).
Proof. exact to_model_words. Qed.

(* The display theorem for pop-on streams (C08_popon of the design, under the stream class instead of the trigger list):
   for every file
     - whose lines carry labels of one rate (30 for ':' / 30000/1001 for ';'), in order, each line starting after the
       previous one has been transmitted, and whose labels S counts as the reader does (`slines_frames_ok`, `stream_ok`),
     - whose words are in the pop-on class `pop_word` and contain no second copy of a doubled control code
       (`pop_lines_nc`: the second copy consumes no frame in the reader - recorded finding doubled-code-no-frame),
   and for every text_align configuration, at every frame f that is not the frame right after an EDM (`stable`: the reader
   keeps an erased caption until the frame after its stamp, the end being exclusive), the rows of the document rendered by
   S's comparison function `rows_of_doc` at the instant frame f starts are equal (`vrows_eqb`: row numbers, characters,
   colour, italics, underline; blank cells trimmed at both ends) to the reference display `screen sls f` = the displayed
   memory of the decoder after the words transmitted before f.  Tighter than S_word: the frames of an EOC window are
   included, of an EDM window only the middle frame is excluded. *)
Theorem C08_popon_display : forall df ta sls s' g', slines_frames_ok df sls -> stream_ok df 0 (lines_of_slines df sls) ->
  pop_lines_nc scr0 g0 (lines_of_slines df sls) = Some (s', g') ->
  forall f, stable (twords (lines_of_slines df sls)) f ->
  vrows_eqb (screen sls f) (rows_of_doc (finish (flush (run_words (ctx_init ta) (lines_of_slines df sls)))) (time_of df f)) = true.
Proof. exact popon_display_S. Qed.

(* ------------------------------------------------------------------ the display half: roll-up streams (contents) *)
(* Roll-up with base row 15 and a fixed depth n: `ru_word n s g w` (Proofs/C08/ScreenRollStep.v) is the executable membership test
   (null padding, data channel 2, doubled codes, CR, EDM, RUx of the same depth, a PAC for row 15 while nothing has been written
   on the base row, and - once the cursor is positioned - characters, special and extended characters, mid-row codes, tab
   offsets, DER).  One word: the relation `Rru n` (the displayed roll-up caption shows the displayed memory cell by cell, its
   rows are the rows lo .. 15 of the window without a gap, same pen, channel and notion of second copy) is preserved - the
   carriage return included: every row of the window moves up one row, the row leaving the window is dropped, the base row
   is cleared ... *)
Theorem C08_rollup_word : forall n c s g w g', Rru n c s g -> ru_word n s g w = Some g' -> Rru n (step c w) (feed dev0 s w) g'.
Proof. exact step_ru. Qed.
(* ... hence for every file that starts with RUx and stays in the class: no exception, and at the end of every prefix of lines
   the reader's displayed caption shows exactly the decoder's displayed memory ("roll-up shows at most the selected number of
   most recent rows": the rows of the window).  This is a statement about contents; the times at which the document shows
   them are those of the paragraph opened by the CR / PAC (recorded finding text-shown-from-paragraph-begin). *)
Theorem C08_rollup_memories : forall ta t0 w0 ws0 rest n s1 g1 s' g', ru_start w0 = Some n ->
  ru_words n (feed dev0 scr0 w0) (mkGR true true true) ws0 = Some (s1, g1) -> ru_lines n s1 g1 rest = Some (s', g') ->
  let c := run_words (ctx_init ta) ((t0, w0 :: ws0) :: rest) in
  s' = fold_left (fun s l => fold_left (feed dev0) (snd l) s) ((t0, w0 :: ws0) :: rest) scr0 /\
  c_err c = false /\ md s' = RollUp n /\
  match c_act c with Some a => shows a (disp s') | None => forall r k, is_blank (mcell (disp s') r k) = true end.
Proof. exact rollup_memories. Qed.

(* non-vacuity: the hypotheses are met by concrete, non-trivial values *)
(* after RCL, PAC row 15, "AB" the buffer is ready at the end of its row, which reads AB *)
Example C08_example_ready : exists p, target (fold_left step [5152; 5232; 16706] (ctx_init 0)) = Some p /\
                                      row_ready_ne p /\ row_ready p /\ row_text p = [65; 66].
Proof.
  eexists. split; [vm_compute; reflexivity|]. split; [|split].
  - exists 15, (mkL 15 0 2 [mkT None [65; 66] 2 (mkTS (-1) false false (-1))] 0), [], (mkT None [65; 66] 2 (mkTS (-1) false false (-1))).
    repeat split; try reflexivity; try discriminate; try lia. cbn. repeat constructor; cbn; intuition discriminate.
  - exists 15, (mkL 15 0 2 [mkT None [65; 66] 2 (mkTS (-1) false false (-1))] 0).
    split; [reflexivity|]. split; [reflexivity|]. split; [|split; reflexivity].
    exists [], (mkT None [65; 66] 2 (mkTS (-1) false false (-1))). repeat split.
  - reflexivity.
Qed.
Example C08_example_ctl : ctl 5167 kEOC /\ ctl 37932 kEDM /\ ctl 5165 kCR /\ loads_buffer 5232 = true /\ loads_buffer 16706 = true /\
                          loads_buffer 5167 = false.
Proof. vm_compute. repeat split. Qed.
Example C08_example_block : block_ok 1 [7200; 16706; 0; 7212] = true /\ ch1_code 5152 = true /\ ch1_code 7200 = false.
Proof. vm_compute. repeat split. Qed.
Example C08_example_clean : run_clean (ctx_init 0) [5152; 5166; 5232; 16706; 5167] = true /\
                            run_clean (ctx_init 0) [5152; 5152] = false.
Proof. vm_compute. split; reflexivity. Qed.

(* RDC at the start of a file: paint-on style and nothing displayed, no caption is being processed; the backspace, the tab
   offset and the extended character that follow raise nothing (the extended character is written alone) *)
Example C08_example_no_caption :
  cap_to_process (step (ctx_init 0) 5161) = None /\
  c_err (fold_left step [5161; 5153; 5922; 4658] (ctx_init 0)) = false /\
  target_text (fold_left step [5161; 5153; 5922; 4658] (ctx_init 0)) = [199].
Proof. vm_compute. repeat split. Qed.
(* a paint-on caption ("A ", then "BB" with a span begin) that an EOC moves to the buffer, where "CC" is appended, and a second
   EOC displays again four seconds later: the span painted at 10 s is shown from the beginning of the paragraph (begin 0) *)
Example C08_example_clamped :
  exists rs p1 p2 b1, finish (flush (run_words (ctx_init 0)
      [(((0, 0, 10, 0), r30), [5161; 5232; 16672; 16962]); (((0, 0, 12, 0), r30), [5152; 5167]); (((0, 0, 14, 0), r30), [17219; 5167])])) = Doc rs [p1; p2] /\
    q_children p1 = [QSpan None (mkTS (-1) false false 255) [65; 32]; QSpan (Some b1) (mkTS (-1) false false 255) [66; 66]] /\ (b1 == 1 # 30)%Q /\
    q_children p2 = [QSpan None (mkTS (-1) false false 255) [65; 32]; QSpan (Some 0%Q) (mkTS (-1) false false 255) [66; 66; 67; 67]].
Proof. eexists. eexists. eexists. eexists. split; [vm_compute; reflexivity|]. repeat split; reflexivity. Qed.

(* the pop-on class is inhabited by a stream with doubled codes, two rows, a colour PAC, a tab offset, a mid-row italics code,
   a special and an extended character, null padding, a channel-2 block, EDM and EOC; the display then shows two rows *)
Example C08_example_popon :
  exists s g, pop_lines scr0 g0 [(((0, 0, 10, 0), r30), [5152; 5152; 5166; 5166; 5232; 16706; 4398; 17220; 4400; 16640; 4640; 5186; 5922; 17220; 0;
                                                         7200; 7200; 16706; 5164; 5167; 5167])] = Some (s, g) /\
              map fst (rows_of_mem (disp s)) = [14; 15].
Proof. eexists. eexists. split; [vm_compute; reflexivity|vm_compute; reflexivity]. Qed.

(* the hypotheses of the display theorem are met by a two-line drop-frame stream (a caption of two rows with attributes, erased
   by the second line); frame 18060 lies inside the caption's display, 18282 is the frame right after the EDM *)
Definition ex_sls : list sline :=
  [mkSL true 0 10 0 0 [5152; 5166; 5232; 16706; 4398; 17220; 4400; 16640; 4640; 5186; 5922; 17220; 0; 7200; 16706; 5164; 5167];
   mkSL true 0 10 8 0 [5164]].
Example C08_example_display :
  slines_frames_ok true ex_sls /\ stream_ok true 0 (lines_of_slines true ex_sls) /\
  pop_lines_nc scr0 g0 (lines_of_slines true ex_sls) <> None /\
  stable (twords (lines_of_slines true ex_sls)) 18060 /\ map fst (screen ex_sls 18060) = [14; 15] /\
  stable_b (twords (lines_of_slines true ex_sls)) 18223 = false.
Proof.
  split; [repeat constructor|]. split; [cbn; repeat split; vm_compute; congruence|]. split; [vm_compute; discriminate|].
  split; [apply stable_b_ok; vm_compute; reflexivity|]. split; vm_compute; reflexivity.
Qed.

(* the roll-up class is inhabited: depth 3, doubled codes, a mid-row code, special and extended characters, a blank line
   (CR, null, CR), a colour PAC with a tab offset; the decoder then shows two of the three rows of its window *)
Example C08_example_rollup :
  ru_start 5158 = Some 3 /\
  exists s1 g1 s g, ru_words 3 (feed dev0 scr0 5158) (mkGR true true true) [5158; 5165; 5165; 5232; 16706; 4398; 17220; 4400] = Some (s1, g1) /\
    ru_lines 3 s1 g1 [(((0, 0, 20, 0), r30), [5165; 5232; 17220; 16640; 4640]); (((0, 0, 30, 0), r30), [5165; 0; 5165; 5218; 5922; 16706])] = Some (s, g) /\
    map fst (rows_of_mem (disp s)) = [13; 15].
Proof. split; [reflexivity|]. eexists. eexists. eexists. eexists. split; [vm_compute; reflexivity|]. split; vm_compute; reflexivity. Qed.

Print Assumptions C08_stamps.  Print Assumptions C08_times_on_line_grid.  Print Assumptions C08_times_never_negative.
Print Assumptions C08_relative_begin_clamped.  Print Assumptions C08_no_word_raises.  Print Assumptions C08_raises_iff_malformed_word.
Print Assumptions C08_code_without_caption_ignored.  Print Assumptions C08_times_on_grid.
Print Assumptions C08_not_before_line.  Print Assumptions C08_frames_per_word.  Print Assumptions C08_within_word_window_partial.
Print Assumptions C08_stamp_never_late.  Print Assumptions C08_channel_block.  Print Assumptions C08_channel_filter.
Print Assumptions C08_doubled_once.  Print Assumptions C08_popon_invisible_until_eoc.  Print Assumptions C08_popon_eoc_flip.
Print Assumptions C08_edm_erases.  Print Assumptions C08_rollup_depth.  Print Assumptions C08_text_accumulates.
Print Assumptions C08_backspace_removes_last.  Print Assumptions C08_extended_replaces.
Print Assumptions C08_popon_word.  Print Assumptions C08_popon_memories.  Print Assumptions C08_file_words.
Print Assumptions C08_popon_display.  Print Assumptions C08_rollup_word.  Print Assumptions C08_rollup_memories.
