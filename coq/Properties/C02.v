(* C02 — the presentation changes only at the reported significant times.
   M = Model/Isd.v (isd), Model/SigTimes.v (sig = the code's list, sig_fixed = the corrected transcription,
   isd_sequence).  All statements are for every document and every rational time. *)
From Coq Require Import Sorting.Sorted.
From TT Require Import Model.Doc Gen.StyleTables Model.Isd Model.SigTimes Model.CloneTrigger Spec.RenderSpec Spec.DocWf.
From TT Require Import Proofs.C02.Stable Proofs.C02.Sig Proofs.C02.Complete Proofs.C02.BeforeFirst Proofs.C02.Timeline Proofs.C14.Sequence.

(* strictly increasing *)
Theorem C02_sorted : forall fixed d l, sig_gen fixed d = Ok l -> StronglySorted Qlt l.
Proof. exact sig_sorted. Qed.

(* nothing is shown before the first significant time: no region of the snapshot has content *)
Theorem C02_before_first : forall fixed d l t rs,
  sig_gen fixed d = Ok l -> (forall s, In s l -> Qlt t s) -> isd d t = Ok rs -> Forall (fun r => echildren r = []) rs.
Proof. exact before_first. Qed.

(* complete (corrected transcription, unconditional): two times that no significant time separates give the same
   snapshot; in particular the snapshot at t is the snapshot at the greatest significant time not after t *)
Theorem C02_stable_fixed : forall d l t1 t2,
  sig_fixed d = Ok l -> same_side l t1 t2 -> Qle 0 t1 -> Qle 0 t2 -> isd d t1 = isd d t2.
Proof. exact stable_fixed. Qed.
Theorem C02_complete_fixed : forall d l t f,
  sig_fixed d = Ok l -> floor_sig l t = Some f -> Qle 0 f -> isd d t = isd d f.
Proof. exact complete_fixed. Qed.

(* complete (the code's own list) outside the recorded finding: whenever the code's list contains every time of
   the corrected list.  The unconditional statement is refuted in Findings/C02.v. *)
Theorem C02_stable_partial : forall d l t1 t2,
  sig d = Ok l -> sig_misses d = false -> same_side l t1 t2 -> Qle 0 t1 -> Qle 0 t2 -> isd d t1 = isd d t2.
Proof. exact stable_partial. Qed.

(* the generated sequence is exactly the list of (cached) snapshots at the significant times, in order *)
Theorem C02_sequence : forall d s, isd_sequence d = Ok s ->
  exists l, sig d = Ok l /\ map fst s = l /\ Forall (fun p => isd_cached d (fst p) = Ok (snd p)) s.
Proof. exact sequence_spec. Qed.

(* the snapshot at t is the snapshot at the greatest significant time not after t — for the code's own list, outside the
   recorded finding *)
Theorem C02_complete_partial : forall d l t f,
  sig d = Ok l -> sig_misses d = false -> floor_sig l t = Some f -> Qle 0 f -> isd d t = isd d f.
Proof. exact complete_partial. Qed.

(* ... and each entry of the sequence (computed WITH the significant-times cache) renders like the snapshot computed
   without it at that time: it is that snapshot minus regions that paint nothing (Spec/RenderSpec.v; proof shared with
   C14; `clone_empties_doc` is the trigger of the recorded C14 finding ruby-base-emptied-by-region) *)
Theorem C02_sequence_uncached_partial : forall d s,
  doc_wf d = true -> clone_empties_doc d = false -> isd_sequence d = Ok s ->
  exists l, sig d = Ok l /\ map fst s = l /\
            Forall (fun p => isd_cached d (fst p) = Ok (snd p) /\
                             forall rs, isd d (fst p) = Ok rs -> omits_only (fun r => paints r = false) (snd p) rs /\ render (snd p) = render rs) s.
Proof. exact sequence_render. Qed.

(* the sequence describes the whole timeline: for every t at or after the first entry, the entry at the greatest
   significant time not after t renders like the snapshot at t *)
Theorem C02_timeline_partial : forall d s t f rs,
  doc_wf d = true -> clone_empties_doc d = false -> sig_misses d = false ->
  isd_sequence d = Ok s -> floor_sig (map fst s) t = Some f -> Qle 0 f -> isd d t = Ok rs ->
  exists i, In (f, i) s /\ render i = render rs.
Proof. exact timeline. Qed.
Example C02_timeline_hypotheses :
  doc_wf ex_doc = true /\ clone_empties_doc ex_doc = false /\ sig_misses ex_doc = false /\
  exists s, isd_sequence ex_doc = Ok s /\ map fst s = [0%Q; Qmake 2 1; Qmake 4 1] /\ floor_sig (map fst s) (Qmake 3 1) = Some (Qmake 2 1).
Proof. exact timeline_example. Qed.

Print Assumptions C02_sorted.  Print Assumptions C02_before_first.  Print Assumptions C02_stable_fixed.
Print Assumptions C02_complete_fixed.  Print Assumptions C02_stable_partial.  Print Assumptions C02_sequence.
Print Assumptions C02_complete_partial.  Print Assumptions C02_sequence_uncached_partial.  Print Assumptions C02_timeline_partial.
Print Assumptions C02_timeline_hypotheses.
