(* C12 — time-code arithmetic is exact, monotone and invertible.
   Only statements, `exact`, and Print Assumptions.  M = Model/TimeCode.v (transcription of
   ttconv/time_code.py), S = Spec/Smpte12M.v.  All statements are for unbounded n. *)
From TT Require Import Base.Prelude Model.TimeCode Spec.Smpte12M.
From TT Require Import Proofs.C12.Integer Proofs.C12.DropFrame Proofs.C12.Derived.
(* second tie: Gen/TimeCodeSrc.v is regenerated from ttconv/time_code.py by harness/pytrans.py on every run;
   its definitions src_* are written over Base/PyNum.v (exact Python numerics); see the last section *)
From TT Require Import Base.PyNum Gen.TimeCodeSrc Proofs.C12.SrcRefines.

(* frame count -> label -> frame count is the identity *)
Theorem C12_roundtrip_24 : forall n, 0 <= n -> to_frames r24 (from_frames r24 n) = n.  Proof. exact rt24. Qed.
Theorem C12_roundtrip_25 : forall n, 0 <= n -> to_frames r25 (from_frames r25 n) = n.  Proof. exact rt25. Qed.
Theorem C12_roundtrip_30 : forall n, 0 <= n -> to_frames r30 (from_frames r30 n) = n.  Proof. exact rt30. Qed.
Theorem C12_roundtrip_50 : forall n, 0 <= n -> to_frames r50 (from_frames r50 n) = n.  Proof. exact rt50. Qed.
Theorem C12_roundtrip_60 : forall n, 0 <= n -> to_frames r60 (from_frames r60 n) = n.  Proof. exact rt60. Qed.
Theorem C12_roundtrip_2997 : forall n, 0 <= n -> to_frames r2997 (from_frames r2997 n) = n.  Proof. exact rt2997. Qed.
Theorem C12_roundtrip_5994 : forall n, 0 <= n -> to_frames r5994 (from_frames r5994 n) = n.  Proof. exact rt5994. Qed.

(* labels are valid: fields in range, and the addresses SMPTE 12M skips are never produced *)
Theorem C12_valid_24 : forall n, 0 <= n -> valid 24 0 (from_frames r24 n).  Proof. exact valid24. Qed.
Theorem C12_valid_25 : forall n, 0 <= n -> valid 25 0 (from_frames r25 n).  Proof. exact valid25. Qed.
Theorem C12_valid_30 : forall n, 0 <= n -> valid 30 0 (from_frames r30 n).  Proof. exact valid30. Qed.
Theorem C12_valid_50 : forall n, 0 <= n -> valid 50 0 (from_frames r50 n).  Proof. exact valid50. Qed.
Theorem C12_valid_60 : forall n, 0 <= n -> valid 60 0 (from_frames r60 n).  Proof. exact valid60. Qed.
Theorem C12_valid_2997 : forall n, 0 <= n -> valid 30 2 (from_frames r2997 n).  Proof. exact valid2997. Qed.
Theorem C12_valid_5994 : forall n, 0 <= n -> valid 60 4 (from_frames r5994 n).  Proof. exact valid5994. Qed.

(* successive frame counts give exactly the SMPTE counting sequence ... *)
Theorem C12_succ_24 : forall n, 0 <= n -> from_frames r24 (n + 1) = succ 24 0 (from_frames r24 n).  Proof. exact succ24. Qed.
Theorem C12_succ_25 : forall n, 0 <= n -> from_frames r25 (n + 1) = succ 25 0 (from_frames r25 n).  Proof. exact succ25. Qed.
Theorem C12_succ_30 : forall n, 0 <= n -> from_frames r30 (n + 1) = succ 30 0 (from_frames r30 n).  Proof. exact succ30. Qed.
Theorem C12_succ_50 : forall n, 0 <= n -> from_frames r50 (n + 1) = succ 50 0 (from_frames r50 n).  Proof. exact succ50. Qed.
Theorem C12_succ_60 : forall n, 0 <= n -> from_frames r60 (n + 1) = succ 60 0 (from_frames r60 n).  Proof. exact succ60. Qed.
Theorem C12_succ_2997 : forall n, 0 <= n -> from_frames r2997 (n + 1) = succ 30 2 (from_frames r2997 n).  Proof. exact succ2997. Qed.
Theorem C12_succ_5994 : forall n, 0 <= n -> from_frames r5994 (n + 1) = succ 60 4 (from_frames r5994 n).  Proof. exact succ5994. Qed.
(* ... hence equal the n-th element of that sequence ... *)
Theorem C12_label_spec_2997 : forall n : nat, from_frames r2997 (Z.of_nat n) = label_spec 30 2 n.  Proof. exact spec2997. Qed.
Theorem C12_label_spec_5994 : forall n : nat, from_frames r5994 (Z.of_nat n) = label_spec 60 4 n.  Proof. exact spec5994. Qed.
Theorem C12_label_spec_25 : forall n : nat, from_frames r25 (Z.of_nat n) = label_spec 25 0 n.  Proof. exact spec25. Qed.
(* ... which is strictly increasing in display order on valid labels *)
Theorem C12_succ_increasing : forall F D l, 0 <= D < F -> valid F D l -> lt_label l (succ F D l).  Proof. exact succ_lt. Qed.

(* adding k frames equals k single additions; the rational offset is frames / rate exactly
   (stated under the round-trip hypothesis, which holds for the seven rates above) *)
Theorem C12_add_frames : forall r, (forall n, 0 <= n -> to_frames r (from_frames r n) = n) ->
  forall (k : nat) l, 0 <= to_frames r l ->
  iter_n k (add_frames r 1) l = (if (k =? 0)%nat then l else add_frames r (Z.of_nat k) l).
Proof. exact add_frames_iter_gen. Qed.
Theorem C12_offset : forall r, (forall n, 0 <= n -> to_frames r (from_frames r n) = n) ->
  forall n, 0 <= n -> to_temporal_offset r (from_frames r n) = (n * rd r, rn r).
Proof. exact offset_gen. Qed.

(* a time lying exactly on a frame boundary k/fps converts to frame k; in general floor(t*fps) *)
Theorem C12_boundary : forall r k, 0 < rn r -> 0 < rd r -> from_seconds r (k * rd r) (rn r) = from_frames r k.
Proof. exact boundary_gen. Qed.
Theorem C12_from_seconds_floor : forall r sn sd k, 0 < rn r -> 0 < rd r -> 0 < sd ->
  k * (sd * rd r) <= sn * rn r < (k + 1) * (sd * rd r) -> from_seconds r sn sd = from_frames r k.
Proof. exact from_seconds_floor. Qed.

(* parsing a printed time code returns it (hours below 100, the two-digit field of the pattern) *)
Theorem C12_parse_print : forall r F D l, 0 < rn r -> 0 < rd r -> valid F D l -> F <= 100 ->
  (let '(h, _, _, _) := l in h < 100) -> parse_tc (print_tc r l) r = Some (l, r).
Proof. exact parse_print_gen. Qed.

(* millisecond clock times: nearest millisecond, monotone, fields in range, exact on multiples *)
Theorem C12_clock_nearest : forall n d, 0 < d -> 2 * Z.abs (clock_ms n d * d - 1000 * n) <= d.
Proof. exact clock_nearest. Qed.
Theorem C12_clock_monotone : forall n1 d1 n2 d2, 0 < d1 -> 0 < d2 -> n1 * d2 <= n2 * d1 -> clock_ms n1 d1 <= clock_ms n2 d2.
Proof. exact clock_monotone. Qed.
Theorem C12_clock_fields : forall ms, 0 <= ms ->
  let '(h, m, s, f) := clock_fields ms in
  0 <= h /\ 0 <= m < 60 /\ 0 <= s < 60 /\ 0 <= f < 1000 /\ ((h * 60 + m) * 60 + s) * 1000 + f = ms.
Proof. exact clock_fields_range. Qed.
Theorem C12_clock_exact : forall k, clock_ms k 1000 = k.
Proof. exact clock_ms_exact. Qed.

(* the 24000/1001 round trip is a recorded finding: Findings/C12.v *)

(* non-vacuity: the hypotheses are met by concrete, non-trivial values *)
Example C12_example_skip : from_frames r2997 1800 = (0, 1, 0, 2) /\ from_frames r2997 17982 = (0, 10, 0, 0).
Proof. split; reflexivity. Qed.

Print Assumptions C12_roundtrip_24.  Print Assumptions C12_roundtrip_25.  Print Assumptions C12_roundtrip_30.
Print Assumptions C12_roundtrip_50.  Print Assumptions C12_roundtrip_60.  Print Assumptions C12_roundtrip_2997.
Print Assumptions C12_roundtrip_5994.
Print Assumptions C12_valid_24.  Print Assumptions C12_valid_25.  Print Assumptions C12_valid_30.
Print Assumptions C12_valid_50.  Print Assumptions C12_valid_60.  Print Assumptions C12_valid_2997.
Print Assumptions C12_valid_5994.
Print Assumptions C12_succ_24.  Print Assumptions C12_succ_25.  Print Assumptions C12_succ_30.
Print Assumptions C12_succ_50.  Print Assumptions C12_succ_60.  Print Assumptions C12_succ_2997.
Print Assumptions C12_succ_5994.
Print Assumptions C12_label_spec_2997.  Print Assumptions C12_label_spec_5994.  Print Assumptions C12_label_spec_25.
Print Assumptions C12_succ_increasing.
Print Assumptions C12_add_frames.  Print Assumptions C12_offset.
Print Assumptions C12_boundary.  Print Assumptions C12_from_seconds_floor.
Print Assumptions C12_parse_print.
Print Assumptions C12_clock_nearest.  Print Assumptions C12_clock_monotone.  Print Assumptions C12_clock_fields.
Print Assumptions C12_clock_exact.

(* ==================================================================================================
   The model regenerated from the current source refines to M.  inj / inj_frac / inj_rate / inj_tc /
   inj_clock inject M's integers, fractions, rates, labels into the Python values of Base/PyNum.v;
   rate_ok r: numerator and denominator positive and coprime (as fractions.Fraction holds a rate) -
   in particular the 8 rates of the property.  All for unbounded frame counts, labels and rationals.   *)
Theorem C12_source_refines_is_drop_frame : forall r l, rate_ok r -> src_is_drop_frame (inj_tc r l) = is_df r.
Proof. exact src_is_drop_frame_refines. Qed.
Theorem C12_source_refines_to_seconds : forall r h m s f,
  src_hhmmss_to_seconds (inj_tc r (h, m, s, f)) = inj (h * 3600 + m * 60 + s).
Proof. exact src_hhmmss_to_seconds_refines. Qed.
Theorem C12_source_refines_to_frames : forall r l, rate_ok r -> label_nonneg l ->
  src_to_frames (inj_tc r l) = inj (to_frames r l).
Proof. exact src_to_frames_refines. Qed.
Theorem C12_source_refines_to_temporal_offset : forall r l, rate_ok r -> label_nonneg l ->
  src_to_temporal_offset (inj_tc r l) = inj_frac (fst (to_temporal_offset r l)) (snd (to_temporal_offset r l)).
Proof. exact src_to_temporal_offset_refines. Qed.
Theorem C12_source_refines_from_frames : forall r n, rate_ok r ->
  src_from_frames (inj n) (Some (inj_rate r)) = Ok (inj_tc r (from_frames r n)).
Proof. exact src_from_frames_refines. Qed.
Theorem C12_source_refines_from_frames_none : forall x, src_from_frames x None = Raise ValueError.
Proof. exact src_from_frames_none. Qed.
Theorem C12_source_refines_add_frames : forall r k l, rate_ok r -> label_nonneg l ->
  src_add_frames (inj_tc r l) (inj k) = Ok (inj_tc r (add_frames r k l)).
Proof. exact src_add_frames_refines. Qed.
Theorem C12_source_refines_from_seconds : forall r sn sd, rate_ok r -> 0 <= sn -> 0 < sd ->
  src_from_seconds (Exact (inj_frac sn sd)) (Some (inj_rate r)) = Ok (inj_tc r (from_seconds r sn sd)).
Proof. exact src_from_seconds_refines. Qed.
(* a float argument leaves the exact model: the translator emits Unsupported, nothing is claimed *)
Theorem C12_source_refines_from_seconds_float : forall r, exists why, src_from_seconds Inexact (Some (inj_rate r)) = Unsupported why.
Proof. exact src_from_seconds_float. Qed.
Theorem C12_source_refines_clock_from_seconds : forall n d, 0 < d ->
  src_clock_from_seconds (inj_frac n d) =
  match clock_from_seconds n d with Some l => Ok (inj_clock l) | None => Raise ValueError end.
Proof. exact src_clock_from_seconds_refines. Qed.
(* the f-strings of the two __str__ methods are the text functions of M (fields below 10^20, the fuel of M's printer) *)
Theorem C12_source_refines_tc_str : forall r l, rate_ok r -> label_printable l -> src_tc_str (inj_tc r l) = print_tc r l.
Proof. exact src_tc_str_refines. Qed.
Theorem C12_source_refines_clock_str : forall sep l, label_printable l ->
  src_clock_str (ClockTime_set_ms_separator (inj_clock l) [sep]) = print_clock sep l.
Proof. exact src_clock_str_refines. Qed.

(* the headline theorems restated about the regenerated model; smpte_rates = the 7 rates with their (F, D);
   src_frames_label r n l := src_from_frames (inj n) (Some (inj_rate r)) = Ok (inj_tc r l) *)
Theorem C12_src_roundtrip : forall r F D n, In (r, F, D) smpte_rates -> 0 <= n ->
  exists tc, src_from_frames (inj n) (Some (inj_rate r)) = Ok tc /\ src_to_frames tc = inj n.
Proof. exact src_roundtrip. Qed.
Theorem C12_src_valid : forall r F D n, In (r, F, D) smpte_rates -> 0 <= n ->
  exists l, src_frames_label r n l /\ valid F D l.
Proof. exact src_valid. Qed.
Theorem C12_src_succ : forall r F D n, In (r, F, D) smpte_rates -> 0 <= n ->
  exists l, src_frames_label r n l /\ src_frames_label r (n + 1) (succ F D l).
Proof. exact src_succ. Qed.
Theorem C12_src_monotone : forall r F D n m, In (r, F, D) smpte_rates -> 0 <= n < m ->
  exists l l', src_frames_label r n l /\ src_frames_label r m l' /\ lt_label l l'.
Proof. exact src_monotone. Qed.
Theorem C12_src_boundary : forall r k, rate_ok r -> 0 <= k ->
  src_from_seconds (Exact (inj_frac (k * rd r) (rn r))) (Some (inj_rate r)) = src_from_frames (inj k) (Some (inj_rate r)).
Proof. exact src_boundary. Qed.
Theorem C12_src_clock_nearest : forall n d, 0 <= n -> 0 < d ->
  exists h m s ms, src_clock_from_seconds (inj_frac n d) = Ok (ClockTime_new (inj h) (inj m) (inj s) (inj ms)) /\
    0 <= h /\ 0 <= m < 60 /\ 0 <= s < 60 /\ 0 <= ms < 1000 /\
    2 * Z.abs ((((h * 60 + m) * 60 + s) * 1000 + ms) * d - 1000 * n) <= d.
Proof. exact src_clock_nearest. Qed.

(* non-vacuity: the 8 rates satisfy rate_ok; concrete values through the regenerated model *)
Example C12_src_rates_ok : rate_ok r24 /\ rate_ok r25 /\ rate_ok r30 /\ rate_ok r50 /\ rate_ok r60 /\
                           rate_ok r2997 /\ rate_ok r5994 /\ rate_ok r23976.
Proof. exact rate_ok_8. Qed.
Example C12_src_example_skip :
  src_frames_label r2997 1800 (0, 1, 0, 2) /\ src_frames_label r2997 17982 (0, 10, 0, 0) /\ In (r5994, 60, 4) smpte_rates.
Proof. exact src_example_skip. Qed.

Print Assumptions C12_source_refines_is_drop_frame.  Print Assumptions C12_source_refines_to_seconds.
Print Assumptions C12_source_refines_to_frames.  Print Assumptions C12_source_refines_to_temporal_offset.
Print Assumptions C12_source_refines_from_frames.  Print Assumptions C12_source_refines_from_frames_none.
Print Assumptions C12_source_refines_add_frames.  Print Assumptions C12_source_refines_from_seconds.
Print Assumptions C12_source_refines_from_seconds_float.  Print Assumptions C12_source_refines_clock_from_seconds.
Print Assumptions C12_source_refines_tc_str.  Print Assumptions C12_source_refines_clock_str.
Print Assumptions C12_src_roundtrip.  Print Assumptions C12_src_valid.  Print Assumptions C12_src_succ.
Print Assumptions C12_src_monotone.  Print Assumptions C12_src_boundary.  Print Assumptions C12_src_clock_nearest.
