(* C10 - the SRT reader reproduces every cue's time, lines and formatting exactly.
   M = Model/SrtReader.v (transcription of ttconv/srt/reader.py to_model / _TextParser and utils.parse_color, with a
   hand-written stand-in for html.parser), S = Spec/SrtCueSpec.v (abstract cue files: `cues` is what must be
   read, `print_file` is the concrete syntax, `wf_file` the grammar's side conditions).
   `read_cues_file` reads through a text-mode file with universal newlines (as tt.py opens SRT files),
   `read_cues` through a stream that does not translate newlines (io.StringIO).

   Full statement (false of the faithful model because of the recorded findings, see Findings/C10.v):
     forall f, wf_file f = true -> read_cues_file (print_file f) = Ok (cues f).
   Proved below: the statement for every file of the grammar on which none of the three triggers
   (short brace tags {b} {i} {u}; a closing tag with no opener; the four characters backslash-n-backslash-r)
   fires - i.e. any number of cues, any counters, leading / separating / trailing blank-line runs, 2- or 3-digit hours,
   minutes and seconds 00-99, any blanks around the arrow, any tail on the timing line, LF or CR LF terminators, last
   line with or without terminator, cue text of 1..n non-blank lines made of literal characters, character
   references (&amp; &lt; &gt; &quot; &nbsp; &#d; &#xh;), b/i/u tags in angle syntax (short, long, upper-case
   names) and in the long brace syntax, <font color=..> tags (#rrggbb, #rrggbbaa, named colour, either case, double /
   single / no quotes), nested and adjacent at will, spanning lines or not.
   For a stream without newline translation the statement is proved for LF files (CR LF there is the fourth
   recorded finding).
   Not covered by theorems: the outputs of ttconv's SRT writer as such (they are grammar files: compared on
   generated documents by harness/c10.py), and inputs outside the grammar (malformed stream: model = code only). *)
From TT Require Import Base.Prelude Base.SrtTypes Gen.SrtTables Model.SrtReader Spec.SrtCueSpec
  Proofs.C10.Time Proofs.C10.Brace Proofs.C10.Witness.
From Coq Require Import QArith.
Local Open Scope Z_scope.

(* every digit string of the pattern HH(H):MM:SS,mmm --> HH(H):MM:SS,mmm, whatever the white space around the
   arrow and whatever follows: begin and end are h*3600 + m*60 + s + ms/1000 of the printed digits, as rationals in
   lowest terms (structurally Qred of the specification's value) and hence equal as rationals *)
Theorem C10_exact_time : forall bh bm bs bms ws1 ws2 eh em es ems tail,
  clock_digits bh bm bs bms -> clock_digits eh em es ems ->
  ws1 <> [] -> forallb is_space ws1 = true -> ws2 <> [] -> forallb is_space ws2 = true ->
  exists g, search_tc (timing_text bh bm bs bms ws1 ws2 eh em es ems tail) = Some g /\
    seconds_of (g_bh g) (g_bm g) (g_bs g) (g_bms g) = Qred (printed_seconds bh bm bs bms) /\
    seconds_of (g_eh g) (g_em g) (g_es g) (g_ems g) = Qred (printed_seconds eh em es ems) /\
    Qeq (seconds_of (g_bh g) (g_bm g) (g_bs g) (g_bms g)) (printed_seconds bh bm bs bms) /\
    Qeq (seconds_of (g_eh g) (g_em g) (g_es g) (g_ems g)) (printed_seconds eh em es ems).
Proof. exact exact_time. Qed.

(* round trip: one paragraph per cue, exact times, lines in order separated by line breaks, every character with
   exactly the styles of the tags that enclose it *)
Theorem C10_roundtrip_partial : forall f, wf_file f = true ->
  trigger_brace_short f = false -> trigger_stray_end f = false -> trigger_backslash f = false ->
  read_cues_file (print_file f) = Ok (cues f).
Proof. exact roundtrip_partial. Qed.
Theorem C10_roundtrip_stringio_partial : forall f, wf_file f = true -> f_crlf f = false ->
  trigger_brace_short f = false -> trigger_stray_end f = false -> trigger_backslash f = false ->
  read_cues (print_file f) = Ok (cues f).
Proof. exact roundtrip_stringio_partial. Qed.

(* tag scoping at the level of one cue text: what _TextParser builds from the (rewritten) text flattens to the
   payload's characters in order, each with exactly the styles of its enclosing tags (`items_list`), for every
   payload without short brace tags and stray closers *)
Theorem C10_tags_scope_partial : forall p,
  forallb markup_node p = true -> forallb wf_node p = true ->
  forallb (fun l => negb (all_ws l)) (payload_lines p) = true ->
  has_sub [92;110;92;114] (print_nodes p) = false ->
  exists kids, parse_text true (rewrite_text (print_nodes p)) = Ok kids /\ flat_list st0 kids = items_list st0 p.
Proof. exact tags_scope_partial. Qed.

(* counters, blank-line runs, 2- or 3-digit hour fields, white space, tails and terminators are tolerated: two files
   that agree on clock fields and payloads read the same *)
Theorem C10_tolerates : forall f f',
  wf_file f = true -> wf_file f' = true ->
  trigger_brace_short f = false -> trigger_stray_end f = false -> trigger_backslash f = false ->
  trigger_brace_short f' = false -> trigger_stray_end f' = false -> trigger_backslash f' = false ->
  Forall2 same_content (f_cues f) (f_cues f') ->
  read_cues_file (print_file f) = read_cues_file (print_file f') /\ read_cues_file (print_file f) = Ok (cues f).
Proof. exact tolerates_partial. Qed.

(* non-vacuity: a file meeting every hypothesis (leading blank lines, odd counters, a three-digit hour, tabs around the
   arrow, a tail, nested and adjacent tags in all syntaxes over two lines, references, font colours, several blank lines
   between cues, CR LF terminators), and what is read from it *)
Example C10_example : wf_file f_example = true /\ trigger_brace_short f_example = false /\ trigger_stray_end f_example = false /\
  trigger_backslash f_example = false /\
  read_cues_file (print_file f_example) = Ok (cues f_example) /\
  cues f_example = [(Qmake 363599999 1000, Qmake 3602439 1,
                     [Ch 97 (mkSt true false false None); Ch 98 (mkSt true true false None); Brk; Ch 99 (mkSt true true false None);
                      Ch 100 (mkSt true false true None); Ch 101 (mkSt false false false (Some (255, 0, 128, 255)));
                      Ch 102 (mkSt false false false (Some (0, 0, 255, 255))); Ch 38 (mkSt false true false None); Ch 8364 (mkSt false true false None);
                      Ch 92 st0; Ch 62 st0]);
                    (Qmake 1 1, Qmake 5 2, [Ch 8364 st0; Brk; Ch 120 st0])].
Proof. exact example_ok. Qed.
(* 00:00:00,280 is 7/25 (it was 0.28000000000000003 before the fix) *)
Example C10_example_280 : read_cues (print_file (mkFile [] [mkCue [49] (mkClock 0 false 0 0 280) [32] [32] (mkClock 0 false 0 1 70) [] [NChar 120] [[]]] false true))
  = Ok [(Qmake 7 25, Qmake 107 100, [Ch 120 st0])].
Proof. exact example_280. Qed.

Print Assumptions C10_exact_time.
Print Assumptions C10_roundtrip_partial.  Print Assumptions C10_roundtrip_stringio_partial.
Print Assumptions C10_tags_scope_partial.
Print Assumptions C10_tolerates.
