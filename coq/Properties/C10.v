(* C10 - the SRT reader reproduces every cue's time, lines and formatting exactly.
   M = Model/SrtReader.v (transcription of ttconv/srt/reader.py to_model / _TextParser and utils.parse_color, with a
   hand-written stand-in for html.parser), S = Spec/SrtCueSpec.v (abstract cue files: `cues` is what must be
   read, `print_file` is the concrete syntax, `wf_file` the grammar's side conditions) and Spec/SrtWriterOut.v (the
   texts ttconv's SRT writer emits: `wprint`, and what they say: `wmeaning`).
   `read_cues_file` reads through a text-mode file with universal newlines (as tt.py opens SRT files),
   `read_cues` through a stream that does not translate newlines (io.StringIO, open(newline="")).

   The property's statement is proved at full strength for the cue grammar:
     forall f, wf_file f = true -> read_cues_file (print_file f) = Ok (cues f)  /\  read_cues (print_file f) = Ok (cues f)
   i.e. for any number of cues, any counters, leading / separating / trailing blank-line runs, hour fields of any width from
   two digits up to the longest digit string the interpreter converts (4 300 digits; beyond that int() raises ValueError, which
   M transcribes: C10_long_hours_value_error),
   minutes and seconds 00-99, any blanks around the arrow, any tail on the timing line, LF or CR LF terminators through
   either kind of stream, last line with or without terminator, cue text of 1..n non-blank lines made of literal
   characters, character references (&amp; &lt; &gt; &quot; &nbsp; &#d; &#xh;), b/i/u tags in angle syntax (short, long,
   upper-case names) and in brace syntax (short and long), <font color=..> tags (#rrggbb, #rrggbbaa, named colour, either
   case, double / single / no quotes), nested and adjacent at will, spanning lines or not, and closing tags that close
   nothing (no open tag, or not the name of the innermost open tag) anywhere.
   The five findings that were recorded here (short brace tags, stray / mismatched closers, the literal characters
   backslash-n-backslash-r, CR kept through a non-translating stream, hour fields of more than three digits - which the
   writer prints from 1000 h on - rejected) are repaired in the code; their witnesses are `C10_repaired_witnesses` and
   `C10_writer_hours_example`.  No finding is recorded: `C10_writer_roundtrip` has no trigger.
   `<font color>` (a color attribute without a value) used to raise TypeError and is now passed over
   (`C10_font_color_without_value`); no exception other than ValueError is left in M (`C10_only_value_error`).
   utils.parse_color (repaired for C19: whole-value match, components above 255 and digits outside ASCII rejected) is
   transcribed for every attribute value, ASCII or not; its colours are bytes (`C10_colors_are_bytes`).
   Not covered by theorems: that ttconv's SRT writer only emits texts of the form `wprint cs` (compared on generated
   documents by harness/c10.py, which parses each output into a `list wcue` and has Coq check `wprint` of it against
   the output), and inputs outside the grammar (malformed / unconstrained streams: model = code only). *)
From TT Require Import Base.Prelude Base.SrtTypes Gen.SrtTables Model.SrtReader Spec.SrtCueSpec Spec.SrtWriterOut
  Proofs.C10.Time Proofs.C10.Brace Proofs.C10.Writer Proofs.C10.Witness Proofs.C10.Outcomes.
From Coq Require Import QArith.
Local Open Scope Z_scope.

(* every digit string of the pattern H..HH:MM:SS,mmm --> H..HH:MM:SS,mmm (`clock_digits`: hour fields of ANY length from two
   digits on, minutes and seconds of two, milliseconds of three), whatever the white space around the arrow and whatever
   follows: begin and end are h*3600 + m*60 + s + ms/1000 of the printed digits, as rationals in
   lowest terms (structurally Qred of the specification's value) and hence equal as rationals *)
Theorem C10_exact_time : forall bh bm bs bms ws1 ws2 eh em es ems tail,
  clock_digits bh bm bs bms -> clock_digits eh em es ems ->
  ws1 <> [] -> forallb is_space ws1 = true -> ws2 <> [] -> forallb is_space ws2 = true ->
  exists g, search_tc (timing_text bh bm bs bms ws1 ws2 eh em es ems tail) = Some g /\
    seconds_of (g_bh g) (g_bm g) (g_bs g) (g_bms g) = Qred (printed_seconds bh bm bs bms) /\
    seconds_of (g_eh g) (g_em g) (g_es g) (g_ems g) = Qred (printed_seconds eh em es ems) /\
    Qeq (seconds_of (g_bh g) (g_bm g) (g_bs g) (g_bms g)) (printed_seconds bh bm bs bms) /\
    Qeq (seconds_of (g_eh g) (g_em g) (g_es g) (g_ems g)) (printed_seconds eh em es ems).
Proof. exact exact_time. Qed.
(* the same over the clocks that can be written - an hour field of every width w >= 2 (no upper bound) holding any hour
   below 10^w, minute and second 00-99, millisecond 000-999: the value read is the clock's value, which is the millisecond
   total over 1000 *)
Theorem C10_exact_time_grammar : forall k1 k2 ws1 ws2 tail, clock_shape k1 = true -> clock_shape k2 = true ->
  ws1 <> [] -> forallb is_space ws1 = true -> ws2 <> [] -> forallb is_space ws2 = true ->
  exists g, search_tc (print_clock k1 ++ ws1 ++ [45;45;62] ++ ws2 ++ print_clock k2 ++ tail) = Some g /\
    seconds_of (g_bh g) (g_bm g) (g_bs g) (g_bms g) = clock_seconds k1 /\
    seconds_of (g_eh g) (g_em g) (g_es g) (g_ems g) = clock_seconds k2 /\
    Qeq (clock_seconds k1) (Qmake (total_ms k1) 1000) /\ Qeq (clock_seconds k2) (Qmake (total_ms k2) 1000).
Proof. exact exact_time_grammar. Qed.
(* "conversion to frame-based outputs lands on the intended frame": a time that is n frames at the rate fn/fd
   multiplies out to exactly n *)
Theorem C10_frames_exact : forall k (fn : Z) (fd : positive) n, total_ms k * fn = n * 1000 * Zpos fd ->
  Qeq (Qmult (clock_seconds k) (Qmake fn fd)) (inject_Z n).
Proof. exact frames_exact. Qed.

(* round trip: one paragraph per cue, exact times, lines in order separated by line breaks, every character with
   exactly the styles of the tags that enclose it - every file of the grammar, through either kind of stream *)
Theorem C10_roundtrip : forall f, wf_file f = true -> read_cues_file (print_file f) = Ok (cues f).
Proof. exact roundtrip_file_full. Qed.
Theorem C10_roundtrip_stringio : forall f, wf_file f = true -> read_cues (print_file f) = Ok (cues f).
Proof. exact roundtrip_stream_full. Qed.

(* tag scoping at the level of one cue text: what _TextParser builds from the (rewritten) text flattens to the
   payload's characters in order, each with exactly the styles of its enclosing tags (`items_list`), for every
   payload of the grammar *)
Theorem C10_tags_scope : forall p,
  forallb wf_node p = true -> forallb (stray_ok None) p = true ->
  forallb (fun l => negb (all_ws l)) (payload_lines p) = true ->
  exists kids, parse_text (rewrite_text (print_nodes p)) = Ok kids /\ flat_list st0 kids = items_list st0 p.
Proof. exact tags_scope. Qed.

(* counters, blank-line runs, the width of the hour fields (two digits or more), white space, tails, terminators and the kind of stream are
   tolerated: two files that agree on clock fields and payloads read the same, whichever way they are read *)
Theorem C10_tolerates : forall f f',
  wf_file f = true -> wf_file f' = true -> Forall2 same_content (f_cues f) (f_cues f') ->
  read_cues_file (print_file f) = Ok (cues f) /\ read_cues (print_file f) = Ok (cues f) /\
  read_cues_file (print_file f') = Ok (cues f) /\ read_cues (print_file f') = Ok (cues f).
Proof. exact tolerates. Qed.

(* reading the SRT writer's own output returns the cues that were written: every text of the form the writer emits
   (any counters, times on millisecond multiples - hours printed with two digits or as many as the number has, 1000 h
   and beyond included -, payload lines non-blank, characters other than '<' '&' '{', tags of the writer's repertoire
   properly nested) is read as exactly the cues it was printed from.  No trigger: the finding hours-beyond-999-rejected
   is repaired. *)
Theorem C10_writer_roundtrip : forall cs, wwf cs = true ->
  read_cues (wprint cs) = Ok (map wmeaning cs) /\ read_cues_file (wprint cs) = Ok (map wmeaning cs).
Proof. exact writer_roundtrip. Qed.

(* outcomes, for EVERY input text (no grammar assumed): the transcribed reader raises nothing but ValueError - TypeError,
   which <font color> used to cause (parse_color(None)), cannot occur any more *)
Theorem C10_only_value_error : forall content,
  value_error_only (to_model content) /\ value_error_only (to_model_file content) /\
  value_error_only (read_cues content) /\ value_error_only (read_cues_file content).
Proof. exact only_value_error. Qed.
(* the repaired statement itself: a color attribute without a value is passed over wherever it stands - the font tag is
   styled by the first color attribute that has a value, and by none when there is none *)
Theorem C10_font_color_without_value : forall attrs,
  tag_style t_font ((t_color, None) :: attrs) = tag_style t_font attrs /\ tag_style t_font [(t_color, None)] = Ok st0.
Proof. intro attrs. exact (conj (font_color_novalue_ignored attrs) font_color_only_novalue). Qed.
(* with the repair of utils.parse_color (whole-value match, components above 255 and digits outside ASCII rejected) a
   colour with a component outside 0..255 cannot be returned any more: for EVERY attribute value what parse_color returns,
   and hence the colour a start tag gives its span, has four byte components *)
Theorem C10_colors_are_bytes : forall v c, parse_color v = Ok c -> bytes c = true.
Proof. exact parse_color_bytes. Qed.
Theorem C10_span_colors_are_bytes : forall tag attrs st c, tag_style tag attrs = Ok st -> st_c st = Some c -> bytes c = true.
Proof. exact tag_style_bytes. Qed.
(* the grammar's bound on the hour width is the interpreter's: a timing line with a longer hour field raises ValueError *)
Theorem C10_long_hours_value_error : forall k1 k2 ws1 ws2 tail d tm att tx, clock_shape k1 = true -> clock_shape k2 = true ->
  ws1 <> [] -> forallb is_space ws1 = true -> ws2 <> [] -> forallb is_space ws2 = true ->
  int_max_str_digits < Z.of_nat (k_hw k1) \/ int_max_str_digits < Z.of_nat (k_hw k2) ->
  step (mkM TC d tm att tx) (print_clock k1 ++ ws1 ++ [45;45;62] ++ ws2 ++ print_clock k2 ++ tail) = Stop (Raised EValueError).
Proof. exact long_hours_value_error. Qed.

(* non-vacuity: a file meeting every hypothesis (leading blank lines, odd counters, a three-digit hour, tabs around the
   arrow, a tail, nested and adjacent tags in all syntaxes over two lines, closers that close nothing, references, font
   colours, several blank lines between cues, CR LF terminators), and what is read from it *)
Example C10_example : wf_file f_example = true /\
  read_cues_file (print_file f_example) = Ok (cues f_example) /\ read_cues (print_file f_example) = Ok (cues f_example) /\
  cues f_example = [(Qmake 363599999 1000, Qmake 3602439 1,
                     [Ch 97 (mkSt true false false None); Ch 98 (mkSt true true false None); Brk; Ch 99 (mkSt true true false None);
                      Ch 100 (mkSt true false true None); Ch 101 (mkSt false false false (Some (255, 0, 128, 255)));
                      Ch 102 (mkSt false false false (Some (0, 0, 255, 255))); Ch 38 (mkSt false true false None); Ch 8364 (mkSt false true false None);
                      Ch 92 st0; Ch 62 st0]);
                    (Qmake 1 1, Qmake 5 2, [Ch 8364 st0; Brk; Ch 120 st0])].
Proof. exact example_ok. Qed.
(* 00:00:00,280 is 7/25 (it was 0.28000000000000003 before the fix) *)
Example C10_example_280 : read_cues (print_file (mkFile [] [mkCue [49] (mkClock 0 2 0 0 280) [32] [32] (mkClock 0 2 0 1 70) [] [NChar 120] [[]]] false true))
  = Ok [(Qmake 7 25, Qmake 107 100, [Ch 120 st0])].
Proof. exact example_280. Qed.
(* the witnesses of the four repaired findings ({b}x{/b};  a</b>c;  <b>x</i>y</b>;  C:\n\rx;  a CR LF b CR LF unread by
   universal newlines) are files of the grammar and are read as written *)
Example C10_repaired_witnesses : reads_ok f_brace /\ reads_ok f_stray /\ reads_ok f_mismatch /\ reads_ok f_backslash /\ reads_ok f_crlf2 /\
  cues f_brace = [(Qmake 1 1, Qmake 5 2, [Ch 120 (mkSt true false false None)])] /\
  cues f_mismatch = [(Qmake 1 1, Qmake 5 2, [Ch 120 (mkSt true false false None); Ch 121 (mkSt true false false None)])] /\
  cues f_crlf2 = [(Qmake 1 1, Qmake 5 2, [Ch 97 st0; Brk; Ch 98 st0])].
Proof. exact repaired_witnesses. Qed.
(* the writer theorem's hypotheses are satisfiable: two cues as the writer prints them, and what is read *)
Example C10_writer_example : wwf w_example = true /\
  read_cues (wprint w_example) = Ok (map wmeaning w_example) /\
  map wmeaning w_example =
    [(Qmake 1 1, Qmake 5 2, [Ch 97 (mkSt true false false (Some (255, 0, 0, 255))); Ch 98 (mkSt true true false (Some (255, 0, 0, 255))); Brk;
                              Ch 99 (mkSt false false true (Some (255, 0, 0, 255))); Ch 33 st0]);
     (Qmake 359999999 1000, Qmake 360000001 1000, [Ch 120 st0; Brk; Ch 121 st0])].
Proof. destruct writer_example as (A & _ & C & D). exact (conj A (conj C D)). Qed.
(* the witness of the repaired finding hours-beyond-999-rejected: 999:59:59,000 --> 1000:00:00,000 and
   1000:00:00,000 --> 1234567901234:34:04,444 as the writer prints them are read as written *)
Example C10_writer_hours_example : wwf w_hours = true /\
  read_cues (wprint w_hours) = Ok (map wmeaning w_hours) /\ read_cues_file (wprint w_hours) = Ok (map wmeaning w_hours) /\
  map wmeaning w_hours = [(Qmake 3599999 1, Qmake 3600000 1, [Ch 120 st0]);
                          (Qmake 3600000 1, Qmake 1111111111111111111 250, [Ch 121 st0])].
Proof. destruct writer_hours_read as (A & _ & B & C & D). exact (conj A (conj B (conj C D))). Qed.
(* hour fields of two, four and twelve digits are clocks of the time theorem *)
Example C10_clock_shape_example :
  clock_shape (mkClock 7 2 0 0 0) = true /\ clock_shape (mkClock 1000 4 0 0 0) = true /\
  clock_shape (mkClock 123456789012 12 59 59 999) = true /\
  print_clock (mkClock 1000 4 0 0 0) = [49;48;48;48;58;48;48;58;48;48;44;48;48;48] /\
  clock_seconds (mkClock 1000 4 0 0 1) = Qmake 3600000001 1000.
Proof. exact clock_shape_examples. Qed.
(* values that parse_color used to accept and now rejects - #00ff00x, "rgb(1,2,3) ", rgb(256,0,0), rgb(U+0661,2,3) - and two
   it accepts: rgb(255, 0,0), and blac + U+212A KELVIN SIGN (str.lower gives "black") *)
Example C10_parse_color_example :
  parse_color [35;48;48;102;102;48;48;120] = Raised EValueError /\
  parse_color [114;103;98;40;49;44;50;44;51;41;32] = Raised EValueError /\
  parse_color [114;103;98;40;50;53;54;44;48;44;48;41] = Raised EValueError /\
  parse_color [114;103;98;40;1633;44;50;44;51;41] = Raised EValueError /\
  parse_color [114;103;98;40;50;53;53;44;32;48;44;48;41] = Ok (255, 0, 0, 255) /\
  parse_color [98;108;97;99;8490] = Ok (0, 0, 0, 255).
Proof. exact parse_color_rejects. Qed.
(* <font color>x</font>, <font color color=red>x, <font color="">x *)
Example C10_font_novalue_example :
  parse_text [60;102;111;110;116;32;99;111;108;111;114;62; 120; 60;47;102;111;110;116;62]
    = Ok [ESpan st0 [ESpan st0 [EText [120]]]] /\
  parse_text [60;102;111;110;116;32;99;111;108;111;114;32;99;111;108;111;114;61;114;101;100;62; 120]
    = Ok [ESpan (mkSt false false false (Some (255, 0, 0, 255))) [ESpan st0 [EText [120]]]] /\
  parse_text [60;102;111;110;116;32;99;111;108;111;114;61;34;34;62; 120] = Raised EValueError.
Proof. exact font_novalue_examples. Qed.

Print Assumptions C10_exact_time.  Print Assumptions C10_exact_time_grammar.  Print Assumptions C10_frames_exact.
Print Assumptions C10_roundtrip.  Print Assumptions C10_roundtrip_stringio.
Print Assumptions C10_tags_scope.
Print Assumptions C10_tolerates.
Print Assumptions C10_writer_roundtrip.
Print Assumptions C10_colors_are_bytes.  Print Assumptions C10_span_colors_are_bytes.
Print Assumptions C10_only_value_error.  Print Assumptions C10_font_color_without_value.  Print Assumptions C10_long_hours_value_error.
