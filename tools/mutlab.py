#!/usr/bin/env python3
"""Confirm a seeded change and run checks against it in an isolated laboratory (neither /repo nor /verif's build tree
is touched, so several changes can be tried while other work goes on).

usage: mutlab.py <name> <patch.diff> <demo.py> <property> [more properties to run...]   [--keep] [--no-save]

 1. lab = /var/tmp/mutlab-<name>/{repo,verif}: repo is a detached git worktree of /repo's HEAD, verif is a copy of /verif's
    working tree including its compiled Coq files (rsync; .git, replay and evidence left out);
 2. confirms: demo exits 0 on the clean worktree, the patch applies, the 446 baseline tests stay green with it, the demo
    exits non-zero with it;
 3. runs  TTCONV_REPO=<lab>/repo <lab>/verif/check <property> --tier quick  for each property given (the check regenerates
    its tables from the patched source, rebuilds its Coq cone, and runs the correspondence against the patched code);
 4. writes /verif/seeded/<name>/{patch.diff, demo.py, notes.md, meta.json} when step 2 holds; removes the lab.
The same change can afterwards be replayed against /repo itself with tools/try_mutant.py (apply, check, checkout)."""
import json, os, shutil, subprocess, sys, time
args = [a for a in sys.argv[1:] if not a.startswith("--")]
flags = {a for a in sys.argv[1:] if a.startswith("--")}
name, patch, demo, props = args[0], os.path.abspath(args[1]), os.path.abspath(args[2]), args[3:]
LAB = "/var/tmp/mutlab-" + name
W, V = LAB + "/repo", LAB + "/verif"
def sh(cmd, **kw): return subprocess.run(cmd, shell=True, capture_output=True, text=True, **kw)
def demo_rc(root):
    env = dict(os.environ, PYTHONPATH=root + "/src/main/python", PYTHONHASHSEED="0")
    env.pop("TTCONV_VERIF", None)
    try:
        p = subprocess.run(["/venv/bin/python", demo], capture_output=True, text=True, env=env, timeout=900, cwd="/var/tmp")
        return p.returncode, (p.stdout + p.stderr)[-600:]
    except subprocess.TimeoutExpired:
        return 124, "demo timed out (900 s)"
sh(f"git -C /repo worktree remove --force {W}"); shutil.rmtree(LAB, ignore_errors=True); os.makedirs(LAB)
r = sh(f"git -C /repo worktree add -q --detach {W} HEAD"); assert r.returncode == 0, r.stderr
meta = dict(name=name, property=props[0], ran=[], mode="lab (isolated copy of /verif with TTCONV_REPO=scratch worktree)")
confirmed = False; refreshed = None
try:
    rc0, out0 = demo_rc(W)
    a = sh(f"git -C {W} apply {patch}")
    if a.returncode != 0:
        # the code moved on since the change was written (repairs): re-apply with fuzz and refresh the stored patch
        a = sh(f"cd {W} && patch -p1 -F3 --no-backup-if-mismatch < {patch}")
        if a.returncode == 0:
            sh(f"find {W} -name '*.orig' -delete; find {W} -name '*.rej' -delete")
            newp = LAB + "/refreshed.diff"; open(newp, "w").write(sh(f"git -C {W} diff").stdout)
            meta["patch_refreshed"] = True; refreshed = newp
    rc1, out1 = demo_rc(W)
    b = sh(f"python3 /verif/tools/baseline.py {W}")
    meta.update(applies=(a.returncode == 0), demo_clean_rc=rc0, demo_clean_output=out0 if rc0 else "", demo_mutant_rc=rc1, demo_mutant_output=out1,
                baseline=b.stdout.strip().splitlines()[0] if b.stdout else b.stderr[-200:],
                baseline_missing=[l.strip() for l in b.stdout.splitlines()[1:]])
    confirmed = a.returncode == 0 and rc0 == 0 and rc1 != 0 and b.returncode == 0
    meta["confirmed"] = confirmed
    print(json.dumps({k: meta[k] for k in ("applies", "demo_clean_rc", "demo_mutant_rc", "baseline", "confirmed")}), flush=True)
    if confirmed and props:
        r = sh(f"rsync -a --exclude .git --exclude replay --exclude evidence --exclude seeded --exclude design-probes /verif/ {V}/")
        assert r.returncode == 0, r.stderr
        os.makedirs(V + "/replay", exist_ok=True); os.makedirs(V + "/evidence", exist_ok=True)
        for p in props:
            t0 = time.time()
            c = sh(f"./check {p} --tier quick", cwd=V, env=dict(os.environ, TTCONV_REPO=W))
            viol = [l.replace(V, "/verif") for l in c.stdout.splitlines() if l.startswith("VIOLATION")]
            tail = [l.replace(V, "/verif")[:300] for l in c.stdout.strip().splitlines() if not l.startswith("KNOWN-FINDING")][-6:]
            meta["ran"].append(dict(check=p, exit=c.returncode, violation_lines=viol[:8], n_violations=len(viol), wall_s=round(time.time() - t0, 1), tail=tail))
            print(f"  check {p}: exit {c.returncode} {'DETECTED' if c.returncode == 1 and viol else 'missed'} {viol[:1]}", flush=True)
            # keep the first replay file next to the change, as the concrete input the check reported
            if viol and "--no-save" not in flags:
                rp = viol[0].split("replay=")[1].split()[0].replace("/verif", V, 1)
                d = f"/verif/seeded/{name}"; os.makedirs(d, exist_ok=True)
                if os.path.exists(rp) and os.path.getsize(rp) < 400000: shutil.copy(rp, f"{d}/replay-{p}.json")
finally:
    refreshed_text = open(refreshed).read() if refreshed and os.path.exists(refreshed) else None
    if "--keep" not in flags:
        sh(f"git -C /repo worktree remove --force {W}"); shutil.rmtree(LAB, ignore_errors=True); sh("git -C /repo worktree prune")
if confirmed and "--no-save" not in flags:
    d = f"/verif/seeded/{name}"; os.makedirs(d, exist_ok=True)
    def cp(a, b):
        if os.path.abspath(a) != os.path.abspath(b): shutil.copy(a, b)
    if refreshed_text: open(d + "/patch.diff", "w").write(refreshed_text)
    else: cp(patch, d + "/patch.diff")
    cp(demo, d + "/demo.py")
    md = patch[:-5] + ".md"
    if os.path.exists(md): cp(md, d + "/notes.md")
    meta["detected_by"] = [r["check"] for r in meta["ran"] if r["exit"] == 1 and r["violation_lines"]]
    json.dump(meta, open(d + "/meta.json", "w"), indent=1)
sys.exit(0 if confirmed else 2)
