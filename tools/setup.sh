#!/bin/sh
# MANIFEST.setup_cmd: build the framework offline from files on disk (run in /verif)
set -e
cd "$(dirname "$0")/.."
export PYTHONPATH="/verif/harness:${TTCONV_REPO:-/repo}/src/main/python" PYTHONHASHSEED=0 PYTHONDONTWRITEBYTECODE=1
mkdir -p coq/Gen evidence replay
/venv/bin/python harness/gen_tables.py
sh tools/mkproject.sh
cd coq
coq_makefile -f _CoqProject -o Makefile > /dev/null
timeout 7000 make -j16 > /var/tmp/verif-setup-make.log 2>&1 || { tail -40 /var/tmp/verif-setup-make.log; exit 1; }
sh extract/build.sh
echo "setup ok"
