#!/bin/sh
# MANIFEST.setup_cmd: build the framework offline from files on disk (run in /verif)
set -e
cd "$(dirname "$0")/.."
export PYTHONPATH="$(pwd -P)/harness:${TTCONV_REPO:-/repo}/src/main/python" PYTHONHASHSEED=0 PYTHONDONTWRITEBYTECODE=1
mkdir -p coq/Gen evidence replay
/venv/bin/python harness/gen_tables.py
sh tools/mkproject.sh
cd coq
coq_makefile -f _CoqProject -o Makefile > /dev/null
# -k: a file that does not compile only affects the checks whose cone contains it (each check rebuilds and
# reports its own cone); the shared base must build
timeout 7000 make -j16 -k > /var/tmp/verif-setup-make.log 2>&1 || { echo "setup: some Coq files did not build:"; grep -B2 -A6 "^Error" /var/tmp/verif-setup-make.log | head -60; }
test -f Base/Prelude.vo || { echo "setup: base did not build"; exit 1; }
sh extract/build.sh
echo "setup ok"
