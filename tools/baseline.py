#!/usr/bin/env python3
"""Run the repository's pinned baseline suite (guard off) and compare with /root/.vp/BASELINE.json.
usage: baseline.py [repo_root]   (exit 0 iff every stable_pass test passes)"""
import json, os, subprocess, sys, tempfile, xml.etree.ElementTree as ET
root = sys.argv[1] if len(sys.argv) > 1 else "/repo"
base = json.load(open("/root/.vp/BASELINE.json"))
want = set(base["stable_pass"])
fd, out = tempfile.mkstemp(suffix=".xml", dir="/var/tmp"); os.close(fd)
env = dict(os.environ); env.pop("TTCONV_VERIF", None)
env["PYTHONPATH"] = root + "/src/main/python"
subprocess.run(["/venv/bin/python", "-m", "pytest", "-q", "-p", "no:cacheprovider", "--timeout=900",
                "--continue-on-collection-errors", "--junitxml=" + out], cwd=root, env=env,
               stdout=subprocess.DEVNULL, stderr=subprocess.DEVNULL)
ok = set()
for tc in ET.parse(out).getroot().iter("testcase"):
    if not any(c.tag in ("failure", "error", "skipped") for c in tc):
        ok.add(tc.get("classname") + "::" + tc.get("name"))
os.unlink(out)
missing = sorted(want - ok)
print(f"baseline: {len(want & ok)}/{len(want)} stable tests pass")
for m in missing[:20]: print("  NOT PASSING:", m)
sys.exit(1 if missing else 0)
