#!/usr/bin/env python3
"""Maintain KNOWN_FINDINGS.txt (by the maintainer, never at check time).
  kf.py fixed Cnn <finding-id> <repo-commit> [<what failed>]   finding line -> fixed: line (witness = finding id)
  kf.py drop  Cnn <finding-id>                                  remove a finding line (e.g. merged into another)
  kf.py merge Cnn                                               append the lines of findings_proposed/Cnn.txt that are not listed yet
  kf.py list  [Cnn]"""
import re, sys
P = "/verif/KNOWN_FINDINGS.txt"
lines = open(P, encoding="utf-8").read().split("\n")
cmd = sys.argv[1]
def is_finding(l, prop, fid): return re.match(rf"finding\s+property={prop}\s+id={re.escape(fid)}\s", l)
if cmd == "fixed":
    prop, fid, commit = sys.argv[2:5]; what = " ".join(sys.argv[5:])
    hit = [l for l in lines if is_finding(l, prop, fid)]
    if not what and hit: what = re.sub(r"^.*?what=", "", hit[0])[:160]
    lines = [l for l in lines if not is_finding(l, prop, fid)]
    new = f"fixed: property={prop} {commit} witness={fid} {what}"
    # keep fixed lines of one property together: insert after the last fixed line of that property, else at the end
    idx = max([i for i, l in enumerate(lines) if l.startswith(f"fixed: property={prop} ")], default=None)
    if idx is None:
        while lines and lines[-1] == "": lines.pop()
        lines += [new, ""]
    else: lines.insert(idx + 1, new)
    print(("replaced finding by " if hit else "added (no finding line found) ") + new[:120])
elif cmd == "drop":
    prop, fid = sys.argv[2:4]; n = len(lines)
    lines = [l for l in lines if not is_finding(l, prop, fid)]; print("dropped", n - len(lines))
elif cmd == "merge":
    prop = sys.argv[2]; have = {(m.group(1), m.group(2)) for l in lines for m in [re.match(r"finding\s+property=(\S+)\s+id=(\S+)", l)] if m}
    add = []
    for l in open(f"/verif/findings_proposed/{prop}.txt", encoding="utf-8"):
        m = re.match(r"finding\s+property=(\S+)\s+id=(\S+)\s+what=", l)
        if m and (m.group(1), m.group(2)) not in have: add.append(l.rstrip("\n"))
    while lines and lines[-1] == "": lines.pop()
    lines += add + [""]; print("merged", len(add))
elif cmd == "list":
    for l in lines:
        if (l.startswith("finding") or l.startswith("fixed:")) and (len(sys.argv) < 3 or f"property={sys.argv[2]} " in l): print(l[:170])
    sys.exit(0)
open(P, "w", encoding="utf-8").write("\n".join(lines))
