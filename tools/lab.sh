#!/bin/sh
# Isolated laboratories for building / deepening one property's check without disturbing /verif or /repo.
#   lab.sh new  <name>     /var/tmp/lab-<name>/verif = git worktree of /verif HEAD whose files (incl. the compiled Coq
#                          files, mtimes preserved) are copied from /verif; /var/tmp/lab-<name>/repo = worktree of /repo HEAD.
#                          In the lab:  cd /var/tmp/lab-<name>/verif && TTCONV_REPO=/var/tmp/lab-<name>/repo ./check Cnn
#   lab.sh diff <name>     files the lab changed (verif and repo)
#   lab.sh pull <name>     apply the lab's /verif changes to /verif (3-way), leave /repo patches in /var/tmp/lab-<name>/repo.patch
#   lab.sh rm   <name>     remove the lab
set -e
cmd="$1"; name="$2"; L="/var/tmp/lab-$name"
case "$cmd" in
  new)
    rm -rf "$L"; git -C /verif worktree prune; git -C /repo worktree prune; mkdir -p "$L"
    git -C /verif worktree add -q --detach --no-checkout "$L/verif" HEAD
    rsync -a --exclude .git --exclude replay /verif/ "$L/verif/"
    git -C "$L/verif" reset -q
    mkdir -p "$L/verif/replay"
    git -C /repo worktree add -q --detach "$L/repo" HEAD
    echo "lab ready: $L (verif at $(git -C /verif rev-parse --short HEAD), repo at $(git -C /repo rev-parse --short HEAD))";;
  diff)
    git -C "$L/verif" add -A -N . ; git -C "$L/verif" status --short | grep -v '^?? evidence' || true
    echo "--- repo:"; git -C "$L/repo" status --short; git -C "$L/repo" log --oneline HEAD --not $(git -C /repo rev-parse HEAD) 2>/dev/null || true;;
  pull)
    git -C "$L/verif" add -A . ; git -C "$L/verif" reset -q -- evidence coq/.lia.cache coq/.nia.cache coq/_CoqProject 2>/dev/null || true
    git -C "$L/verif" diff --cached --binary HEAD > "$L/verif.patch"
    git -C "$L/repo" diff --binary HEAD > "$L/repo.patch"
    if [ -s "$L/verif.patch" ]; then (cd /verif && git apply --3way --whitespace=nowarn "$L/verif.patch") && echo "verif changes applied"; sh /verif/tools/mkproject.sh >/dev/null; else echo "no verif changes"; fi
    [ -s "$L/repo.patch" ] && echo "uncommitted repo changes in $L/repo.patch" || true;;
  rm)
    git -C /verif worktree remove --force "$L/verif" 2>/dev/null || true
    git -C /repo worktree remove --force "$L/repo" 2>/dev/null || true
    rm -rf "$L"; git -C /verif worktree prune; git -C /repo worktree prune;;
  *) echo "usage: lab.sh new|diff|pull|rm <name>"; exit 2;;
esac
