#!/bin/sh
# regenerate coq/_CoqProject from the files present (Gen/ tables included, case files excluded)
cd "$(dirname "$0")/../coq"
{
  echo "-Q . TT"
  echo "-arg -w -arg -notation-overridden,-deprecated-hint-without-locality,-deprecated-instance-without-locality,-ambiguous-paths"
  find Base Model Spec Proofs Gen -name '*.v' ! -name 'Cases_*' | sort
} > _CoqProject.new
if cmp -s _CoqProject.new _CoqProject; then rm _CoqProject.new; else mv _CoqProject.new _CoqProject; fi
