#!/usr/bin/env python3
"""Confirm a seeded change and run checks against it.
usage: try_mutant.py <name> <patch.diff> <demo.py> <property> [more properties to run...]
 1. confirms in a scratch worktree (outside /repo and /verif): patch applies, baseline suite still has every
    stable test passing, demo exits 0 without and non-zero with the change;
 2. applies the patch to /repo, runs ./check <property>... (quick tier), reverts /repo straight afterwards;
 3. writes /verif/seeded/<name>/{patch.diff, demo.py, meta.json} when step 1 holds."""
import json, os, shutil, subprocess, sys, time
name, patch, demo, props = sys.argv[1], os.path.abspath(sys.argv[2]), os.path.abspath(sys.argv[3]), sys.argv[4:]
W = "/var/tmp/confirm-" + name
def sh(cmd, **kw): return subprocess.run(cmd, shell=True, capture_output=True, text=True, **kw)
def demo_rc(root):
    env = dict(os.environ, PYTHONPATH=root + "/src/main/python", PYTHONHASHSEED="0")
    p = subprocess.run(["/venv/bin/python", demo], capture_output=True, text=True, env=env, timeout=600, cwd="/var/tmp")
    return p.returncode, (p.stdout + p.stderr)[-400:]
sh(f"git -C /repo worktree remove --force {W}"); sh(f"git -C /repo worktree add -q --detach {W} HEAD")
meta = dict(name=name, property=props[0], ran=[])
try:
    rc0, out0 = demo_rc(W)
    a = sh(f"git -C {W} apply {patch}")
    rc1, out1 = demo_rc(W)
    b = sh(f"python3 /verif/tools/baseline.py {W}")
    meta.update(applies=(a.returncode == 0), demo_clean_rc=rc0, demo_mutant_rc=rc1, demo_mutant_output=out1, baseline=b.stdout.strip().splitlines()[-1] if b.stdout else b.stderr[-200:])
    confirmed = a.returncode == 0 and rc0 == 0 and rc1 != 0 and b.returncode == 0
    meta["confirmed"] = confirmed
finally:
    sh(f"git -C /repo worktree remove --force {W}"); shutil.rmtree(W, ignore_errors=True)
print(json.dumps({k: meta[k] for k in ("applies", "demo_clean_rc", "demo_mutant_rc", "baseline", "confirmed")}))
if confirmed:
    assert sh("git -C /repo status --porcelain").stdout.strip() == "", "/repo not clean"
    try:
        r = sh(f"git -C /repo apply {patch}"); assert r.returncode == 0, r.stderr
        for p in props:
            t0 = time.time()
            c = sh(f"./check {p} --tier quick", cwd="/verif")
            viol = [l for l in c.stdout.splitlines() if l.startswith("VIOLATION")]
            meta["ran"].append(dict(check=p, exit=c.returncode, violation_lines=viol, wall_s=round(time.time() - t0, 1),
                                    tail=c.stdout.strip().splitlines()[-3:]))
            print(f"  check {p}: exit {c.returncode} {'DETECTED' if c.returncode == 1 and viol else 'missed'} {viol[:1]}")
    finally:
        sh("git -C /repo checkout -- ."); 
        assert sh("git -C /repo status --porcelain").stdout.strip() == "", "/repo not restored"
    d = f"/verif/seeded/{name}"; os.makedirs(d, exist_ok=True)
    shutil.copy(patch, d + "/patch.diff"); shutil.copy(demo, d + "/demo.py")
    md = patch[:-5] + ".md"
    if os.path.exists(md): shutil.copy(md, d + "/notes.md")
    meta["detected_by"] = [r["check"] for r in meta["ran"] if r["exit"] == 1 and r["violation_lines"]]
    json.dump(meta, open(d + "/meta.json", "w"), indent=1)
