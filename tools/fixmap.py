#!/usr/bin/env python3
"""fixmap.py <lab> Cnn  — for the `fixed:` lines of findings_proposed/Cnn.txt that name a lab commit, find the cherry-picked
commit in /repo with the same subject and move the finding to a fixed: line in KNOWN_FINDINGS.txt (tools/kf.py)."""
import re, subprocess, sys
lab, prop = sys.argv[1], sys.argv[2]
def git(repo, *a): return subprocess.run(["git", "-C", repo, *a], capture_output=True, text=True).stdout
labsub = {l.split(" ", 1)[0]: l.split(" ", 1)[1] for l in git(f"/var/tmp/lab-{lab}/repo", "log", "--format=%h %s", "-80").splitlines()}
repo = {l.split(" ", 1)[1]: l.split(" ", 1)[0] for l in git("/repo", "log", "--format=%h %s", "-300").splitlines()}
have = open("/verif/KNOWN_FINDINGS.txt").read()
for line in open(f"/verif/findings_proposed/{prop}.txt", encoding="utf-8"):
    m = re.match(rf"fixed:\s+property={prop}\s+(\S+)\s+witness=(\S+)\s+(.*)", line.strip())
    if not m: continue
    c, w, what = m.groups()
    if re.search(rf"fixed: property={prop} \S+ witness={re.escape(w)} ", have): continue
    sub = next((s for h, s in labsub.items() if h.startswith(c) or c.startswith(h)), None)
    new = repo.get(sub) if sub else None
    if not new: print("NO MATCH for", c, w); continue
    print(subprocess.run(["python3", "/verif/tools/kf.py", "fixed", prop, w, new, what[:200]], capture_output=True, text=True).stdout.strip())
