#!/bin/sh
# run every registered check (quick tier unless VERIF_TIER is set) on the current tree; prints one line per check
cd "$(dirname "$0")/.."
for p in $(cat tools/accepted.txt); do
  start=$(date +%s)
  ./check "$p" > "/var/tmp/runall-$p.log" 2>&1; rc=$?
  end=$(date +%s)
  nk=$(grep -c '^KNOWN-FINDING' "/var/tmp/runall-$p.log")
  nv=$(grep -c '^VIOLATION' "/var/tmp/runall-$p.log")
  echo "$p exit=$rc violations=$nv known=$nk wall=$((end-start))s  $(tail -1 /var/tmp/runall-$p.log | cut -c1-110)"
done
