#!/bin/sh
# re-run every stored seeded change against the current tree in isolated laboratories (4 at a time); results in seeded/*/meta.json
cd /verif
ls seeded | sed 's/-m.*//' | sort -u > /var/tmp/remut-props.txt
run() { P=$1; for d in seeded/$P-m*; do n=$(basename $d); python3 tools/mutlab.py $n $d/patch.diff $d/demo.py $P > /var/tmp/remut-$n.log 2>&1; echo "$n $(grep -c DETECTED /var/tmp/remut-$n.log) $(grep -o '"confirmed": [a-z]*' /var/tmp/remut-$n.log)"; done; }
for P in $(cat /var/tmp/remut-props.txt); do
  run $P &
  while [ $(jobs | grep -c Running) -ge 4 ]; do sleep 5; done
done
wait
