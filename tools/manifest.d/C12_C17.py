chk("C12", "proof",
    "Unbounded theorems (all n >= 0) in coq/Properties/C12.v about a Z transcription of time_code.py: round trip, validity "
    "(SMPTE-skipped labels never produced), successor = SMPTE counting sequence, strict increase, add_frames, offsets, exact frame "
    "boundaries, parse-of-print, ClockTime nearest/monotone/fields; closed under the global context. The transcription is tied to "
    "the code twice on every run. (1) Translation: harness/pytrans.py (fail-closed Python ast -> Gallina) regenerates "
    "coq/Gen/TimeCodeSrc.v from the current source (from_frames, to_frames, to_temporal_offset, is_drop_frame, add_frames, from_seconds "
    "int/Fraction branch, the integer part of to_seconds, ClockTime.from_seconds on Fractions, both __str__) over coq/Base/PyNum.v "
    "(exact Python int/Fraction arithmetic on Qc: floor, ceil, round half-even, round(x, n), int, //, %, comparisons, f'{x:02}'); "
    "the C12_source_refines_* theorems prove, for every rate in lowest terms and every frame count / label / rational, that each "
    "generated function equals the hand-written model on injected inputs, and C12_src_roundtrip/valid/succ/monotone/boundary/"
    "clock_nearest restate the headline theorems about the generated functions; the generated functions are also evaluated by "
    "vm_compute against the code on about 1 500 inputs. (2) Differential: extracted-OCaml-model correspondence run over frame counts "
    "(every count of 24 h at 8 rates in the thorough tier).",
    "Trusted: Coq kernel; harness/pytrans.py and the reading of CPython numerics in Base/PyNum.v (exercised by vm_compute against "
    "CPython on every run); extraction (ExtrOcamlBasic only) and driver.ml; Python float/true-division exactness below 2^53 at the "
    "places the translator lists in the evidence (modelled as exact rational operations; exercised exhaustively, not proved); "
    "ZeroDivisionError not modelled (no divisor is 0 for rates >= 9/1001). Tied by differential runs only: both parse functions "
    "(regular expressions), float arguments of from_seconds (Unsupported in the generated model) and of ClockTime.from_seconds "
    "(compared with S only). 24000/1001 round trip is a recorded finding.",
    "Coq theorems by lia over normal-form lemmas + source-to-Gallina translation with refinement theorems + extracted-model differential run",
    "DESIGN.md section 5 C12")
chk("C17", "proof",
    "The domain is finite (65 536 words): coq/Properties/C17.v decides inside the kernel (vm_compute over every word, bound in the "
    "statement) that the transcribed lookup logic over the enum tables regenerated from the source gives exactly one class, ignores "
    "parity, has no overlapping table entries, attributes only channel-1 field-1 codes to channel 1, and equals an independently "
    "written bit-layout decoder of CTA-608 on class, channel, code identity, PAC attributes and characters. The model is compared "
    "with SccWord on all 65 536 values on every run, and the specification is evaluated on the implementation's own output; at the reader "
    "(ttconv.scc.reader.to_model) a caption AA <w> BB must read as AA for control-range words w that are not channel-1 field-1 codes. "
    "Second tie: harness/pytrans_scc.py (fail-closed Python-ast translator) regenerates coq/Gen/SccWordSrc.v from scc/word.py on every run "
    "(SccWord.__init__, _decipher_parity_bit, from_value, from_bytes, is_code, the _find_code or-chain, get_channel, to_text) and "
    "C17_source_refines (all 65 536 values, in the kernel) plus four unbounded range/parity theorems show the generated definitions equal "
    "to the hand-written model; the calls into scc/codes/*.py stay hand-written externs (Model/SccWordExt.v) tied by the exhaustive run.",
    "Trusted: Coq kernel/vm_compute; gen_tables.py (fail-closed translator); my reading of CTA-608 tables 50-53 in Spec/Cea608Words.v "
    "(accepts sets for glyph-only characters and for 'green'); impl_row in harness/c17.py; harness/pytrans_scc.py and the PyNum semantics (Base/PyNum.v) of the translated subset. Disassembly is checked on the code only "
    "(every word, random lines), not modelled. Recorded finding: 0x132C decodes to U+028C instead of ^.",
    "finite-domain Coq theorem (vm_compute, all words) + regenerated tables + exhaustive in-Coq correspondence", "DESIGN.md section 5 C17")
