chk("C12", "proof",
    "Unbounded theorems (all n >= 0) in coq/Properties/C12.v about a Z transcription of time_code.py: round trip, validity "
    "(SMPTE-skipped labels never produced), successor = SMPTE counting sequence, strict increase, add_frames, offsets, exact frame "
    "boundaries, parse-of-print, ClockTime nearest/monotone/fields; closed under the global context. The transcription is tied to "
    "the code by an extracted-OCaml-model correspondence run over frame counts (every count of 24 h at 8 rates in the thorough tier).",
    "Trusted: Coq kernel; extraction (ExtrOcamlBasic only) and driver.ml; Python float/true-division exactness below 2^53 "
    "(exercised exhaustively, not proved); ClockTime.from_seconds on floats compared with S only. 24000/1001 round trip is a recorded finding.",
    "Coq theorems by lia over normal-form lemmas + extracted-model differential run", "DESIGN.md section 5 C12")
chk("C17", "proof",
    "The domain is finite (65 536 words): coq/Properties/C17.v decides inside the kernel (vm_compute over every word, bound in the "
    "statement) that the transcribed lookup logic over the enum tables regenerated from the source gives exactly one class, ignores "
    "parity, has no overlapping table entries, attributes only channel-1 field-1 codes to channel 1, and equals an independently "
    "written bit-layout decoder of CTA-608 on class, channel, code identity, PAC attributes and characters. The model is compared "
    "with SccWord on all 65 536 values on every run, and the specification is evaluated on the implementation's own output.",
    "Trusted: Coq kernel/vm_compute; gen_tables.py (fail-closed translator); my reading of CTA-608 tables 50-53 in Spec/Cea608Words.v "
    "(accepts sets for glyph-only characters and for 'green'); impl_row in harness/c17.py. Disassembly is checked on the code only "
    "(every word, random lines), not modelled. Recorded finding: 0x132C decodes to U+028C instead of ^.",
    "finite-domain Coq theorem (vm_compute, all words) + regenerated tables + exhaustive in-Coq correspondence", "DESIGN.md section 5 C17")
