chk("C03", "proof",
    "Coq theorems (coq/Properties/C03.v) relate the transcription of ISD style resolution (animation, specified, direction, inheritance, "
    "initial values, ordered computation of the 12 length-bearing properties) to an independently organised, by-property specification of "
    "TTML2 cascade and length resolution. Proved for every document, time and ancestor chain, for ALL 36 properties "
    "(C03_all_properties: sget st p = computed_spec d t chain p): the cascade of the 21 plain properties, the computed font size incl. ruby "
    "halving, tts:textDecoration merging per component, tts:direction with the writing-mode semantics on regions, the region's writing mode, "
    "tts:extent, tts:origin/tts:position (edges, computed extent), tts:padding (axis by writing mode), tts:disparity (C03_disparity: resolved like a width after the font size), tts:lineHeight, tts:linePadding, "
    "tts:rubyReserve, tts:textOutline, tts:textShadow, tts:textEmphasis; _compute_length = spec `rel`; and, by rose-tree induction over "
    "_process_element, for every element of every snapshot `isd d t` (C03_snapshot_values: each element other than br/text carries, for "
    "every applicable property, the computed value of its source element along its ancestor chain). Hypotheses: chain shape (chain_ok) "
    "resp. content model (styles_wf), and td_typed (textDecoration values in effect are TextDecoration values, which ttconv.model "
    "enforces when a value is set). Compared, not proved: M = ISD.from_model on style-heavy generated documents (all 36 properties, all "
    "units the validators admit, resolutions, writing modes, initial values, animation, all element kinds; boosted for ruby text, vertical "
    "regions with emphasis auto, position as initial value, partial text decoration) evaluated in Coq, and the specification evaluated in "
    "Coq on every styled element of the code's snapshots; the measured input distribution is in the evidence.",
    "Trusted: Coq kernel; harness literal printer; Spec/StyleSpec.v as a reading of TTML2 10.4 / IMSC. Numbers are rationals in the model; "
    "the code's binary64 results are accepted within relative 1e-9. No recorded finding left: textEmphasis auto is repaired "
    "(fix: the region's writing mode is carried down by StyleProcessors.WritingMode.inherit).",
    "Coq theorems + in-Coq evaluation of model and by-property specification on generated documents", "DESIGN.md section 5 C03")
