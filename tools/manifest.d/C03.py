chk("C03", "proof",
    "Coq theorems (coq/Properties/C03.v) relate the transcription of ISD style resolution (animation, specified, direction, inheritance, "
    "initial values, ordered computation of the 11 length-bearing properties) to an independently organised, by-property specification of "
    "TTML2 cascade and length resolution (see the file for the exact list and for what remains `_partial`). The transcription is compared "
    "with ISD.from_model inside Coq on style-heavy generated documents (all 36 properties, all units, resolutions, writing modes, initial "
    "values, animation, all element kinds) and the specification is evaluated in Coq on every styled element of the code's snapshots.",
    "Trusted: Coq kernel; harness literal printer; Spec/StyleSpec.v as a reading of TTML2 10.4 / IMSC. Numbers are rationals in the model; "
    "the code's binary64 results are accepted within relative 1e-9. Recorded finding: textEmphasis auto uses the parent's writing mode.",
    "Coq theorems + in-Coq evaluation of model and by-property specification on generated documents", "DESIGN.md section 5 C03")
