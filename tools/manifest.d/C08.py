chk("C08", "proof",
    "Unbounded theorems (every list of lines, every state and word; closed under the global context) in coq/Properties/C08.v about a "
    "Gallina transcription of the SCC reader (SccLine.from_str/process, SccContext, SccCaptionParagraph incl. regions, SccCaptionLine, "
    "SccCaptionText, reader.to_model, utils) over the C17 word decoder and the C12 time codes: every begin/end of every paragraph and the "
    "absolute begin of every span is frame T+k of one of the file's lines at that line's rate (30 for ':' or 30000/1001 for ';' time codes), "
    "1 <= k <= number of words + 1 - hence on the frame grid, later than the line's time code and inside the line's transmission window; "
    "frames per word (exactly one, none for a dropped second copy); stamps never late; a block of other-channel words / padding changes only "
    "the elapsed frames and the addressed channel; the second copy of a doubled channel-1 code only clears previous_word; pop-on loading is invisible "
    "until EOC, EOC/EDM start and end captions at their stamps, a roll-up caption has at most depth rows after CR; with the cursor at the end of "
    "the row, characters are appended in order (three styles), backspace removes and an extended character replaces the preceding character. The transcription is "
    "tied to the code on every run by comparing, inside Coq, its whole document (ids, begin/end, regions, br/span runs, styles, text) with "
    "ttconv.scc.reader.to_model on generated protocol streams x text_align, unconstrained word streams (all word classes, both channels, malformed "
    "words, exceptions) and the literal streams of test_scc_reader.py. The display half of the property (same characters, rows and attributes as a "
    "CEA-608 decoder at every frame) is NOT proved: a reference decoder (coq/Spec/Cea608Screen.v, two 15x32 memories, CTA-608 section 6/7 word semantics) is "
    "evaluated inside Coq against the implementation's document at every frame around every line, with S_word / S_line granularities.",
    "Trusted: Coq kernel/vm_compute; harness/c08.py (canonical form of the ContentDocument, parser of the generated files cross-checked against "
    "the model's from_str, verdict ladder); gen_tables.py; my reading of CTA-608 in Spec/Cea608Screen.v; str.splitlines (applied by the harness). "
    "Compared only (no theorem): all cursor / text / region bookkeeping, guess_text_alignment, region extents, and the agreement with the reference "
    "screen. The simulation theorem C08_popon of the design is not proved (it is false at full strength: 14 recorded findings with refuted theorems "
    "in coq/Findings/C08.v, each delimited by an executable trigger; three of them excuse a whole stream). The property's clause 'within the "
    "transmission window of the word that triggers the change' is proved only for runs without dropped second copies (C08_within_word_window_partial) "
    "and refuted in general (doubled control codes consume no frame).",
    "Coq invariants by induction over step (parametric stamp predicate) + C12 round-trip theorems; in-Coq differential run of the model and of a reference decoder",
    "DESIGN.md section 5 C08")
