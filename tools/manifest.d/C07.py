chk("C07", "proof",
    "Coq theorems (coq/Properties/C07.v), for every snapshot sequence and hence every document, about the same transcription of the "
    "writers as C06: the items of every cue are characters and matching open/close tag pairs, properly nested (C07_tags_balanced_*); "
    "no tag at all and payload = normalised text when SRT text formatting is disabled (C07_no_tags_when_disabled); SubRip counters and "
    "WebVTT cue identifiers are 1, 2, 3, ... (C07_counters_*); whenever the writer gets as far as printing, every cue has begin < end "
    "and an earlier cue ends no later than a later one begins unless both cover the very same interval, using C02's sortedness of the "
    "significant times and C12's monotone millisecond rounding (C07_wf_partial_*); SubRip writes at most one cue per snapshot and its "
    "cues never overlap (C07_srt_non_overlapping, from the content model of the document); a content character is printed as itself, "
    "&amp; or &lt; in WebVTT (C07_vtt_text_escaped); the line / align settings written are the ones Spec/CueSettings.v prescribes for "
    "the region / element process_p is handed, the region geometry survives the filters, and every cue takes its settings from its own "
    "snapshot (C07_cue_settings_*); the file is the WEBVTT header, the STYLE block, then "
    "the cues (C07_*_file_shape); the writers return a string unless a cue collapses after rounding or is left without an end "
    "(C07_total_partial_*, the full statement refuted in coq/Findings/C07.v). That the string is accepted by the grammar recognisers "
    "srt_wf / vtt_wf (written from WebVTT section 4 and the de-facto SubRip grammar), that `runs` of every payload gives each visible "
    "character the style the snapshot prescribes (classes resolved through the STYLE block) is NOT proved: both are evaluated in Coq on "
    "the implementation's output for generated documents with arbitrary span styles and markup-significant text, next to the string "
    "comparison of the model with the implementation; so is Spec/CueSettings.v (line = the region edge displayAlign selects, align = the "
    "alignment the paragraphs of the cue agree on) on every WebVTT cue.",
    "Trusted: Coq kernel/vm_compute; harness literal printer; table translators; the recognisers of Spec/CueSpec.v as my reading of the "
    "two grammars. C07_runs is not proved and C07_cue_settings only in part (both tested through S-on-code and M=code). Recorded findings: ValueError on "
    "a collapsed interval and on several cues in the unbounded interval; --> in payloads; blank-looking payload lines; line percentages "
    "outside 0..100; a nested span that resets bold/italic/underline stays inside the outer tags; the align setting is lost when "
    "paragraphs are merged.",
    "Coq theorems (structural induction, lia) + in-Coq evaluation of grammar recognisers and run decoder on the implementation's output",
    "DESIGN.md section 5 C07")
