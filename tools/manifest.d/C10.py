chk("C10", "proof",
    "Unbounded Coq theorems (coq/Properties/C10.v, closed under the global context) about a Gallina transcription of "
    "srt/reader.py (line machine COUNTER/TC/TEXT/TEXT_MORE over readlines, _TIMECODE_RE as a recogniser over code points, the "
    "strip/replace chain, _TextParser.handle_starttag/endtag/data on a zipper, utils.parse_color): (1) C10_exact_time - for every "
    "digit string of the pattern HH(H):MM:SS,mmm --> HH(H):MM:SS,mmm the times read are h*3600+m*60+s+ms/1000 as exact rationals; "
    "(2) C10_roundtrip_partial / C10_tags_scope_partial - for every file of the cue grammar (Spec/SrtCueSpec.v: any number of cues, any "
    "counters, leading/separating/trailing blank-line runs, 2- or 3-digit hours, minutes/seconds 00-99, any white space around the "
    "arrow, LF or CR LF) whose cue text is plain characters and line breaks under arbitrarily nested/adjacent b/i/u tags in angle "
    "syntax, reading the printed file returns exactly one cue per cue written with the exact times, the lines in order and each "
    "character carrying exactly the styles of its enclosing tags; (3) C10_tolerates - counters, blank runs, hour width, white space, "
    "tails and terminators do not influence the result. Font-colour tags, character references, the brace syntax, files without final "
    "terminator and outputs of the SRT writer are not covered by theorems: they are compared in Coq on generated files (model = code on "
    "the paragraph tree and exact Fraction times; code's flattened cues = S's cues; S's printer = text fed to the code).",
    "Trusted: Coq kernel/vm_compute; html.parser is replaced in the model by a hand-written tokenizer whose agreement with CPython 3.12's "
    "HTMLParser is established only by the correspondence run (model answers Unmodelled on <!, <?, unterminated tags, script/style); "
    "harness/gen_c10.py (re \\s/\\d sets, NamedColors, html.unescape tables, fail-closed); harness/c10.py canon_doc (Python document -> "
    "Span/Br/Text tree with FontWeight/FontStyle/TextDecoration/Color, fail-closed on anything else); my reading of the SubRip "
    "conventions in Spec/SrtCueSpec.v (bare '<', '&', '{' in cue text are outside the grammar; a closer without opener encloses "
    "nothing). Recorded findings (refuted in coq/Findings/C10.v, witnesses re-run on the code): {b}/{i}/{u} not recognised; stray or "
    "mismatched closing tag (TypeError/AttributeError or wrong scope); literal backslash-n-backslash-r turned into a line break; "
    "CR kept in multi-line cues when the stream does not translate newlines.",
    "Coq theorems by induction over cue lists, lines and markup forests + in-Coq differential run of the model against the code "
    "on grammar-generated files, SRT-writer outputs and a malformed stream", "DESIGN.md section 5 C10")
