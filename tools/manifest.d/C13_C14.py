chk("C13", "proof",
    "Coq theorems (coq/Properties/C13.v) about the transcription of ISD._process_element prove ALL eleven clauses of the shape checker "
    "(Spec/IsdShape.v, written from doc/isd.md and the property text) for every document and every rational time, and their conjunction "
    "C13_shape: forall d t rs, doc_wf d = true -> isd d t = Ok rs -> isd_shape rs = true, with no property and no element excepted: no "
    "timing, no animation, no region reference, exactly the applicable styles, no display:none (no hypothesis); content model incl. the ruby / "
    "rtc patterns, origin = position, no empty text / childless span, white space collapsed (text below rp included), empty regions only "
    "with showBackground=always (under doc_content_wf: the source content model of data_model.md minus the ruby patterns); every length "
    "rh/rw incl. tts:disparity (under doc_values_wf: non-computed properties carry no other length). Both hypotheses are executable "
    "booleans, are what C15 establishes for API-built documents, and are evaluated in Coq on every generated document. The transcription is "
    "compared with ISD.from_model inside Coq on style-heavy documents and on documents built for white-space handling, span pruning and "
    "ruby containers, and the strict checker is evaluated in Coq on every snapshot the implementation produces; document parameters and "
    "ownership are compared on the Python objects (not proved: they are about the Python object graph).",
    "Trusted: Coq kernel; harness literal printer; the checker as a reading of doc/isd.md; doc_wf as a reading of what model.py enforces (C15). "
    "No recorded finding: tts:disparity and white space below rp were repaired (fix: commits, witnesses in harness/witnesses_c13.py).",
    "Coq theorems by rose-tree induction (inversion of proc, loop invariant of _compute_styles, _process_lwsp/_prune_empty_spans lemmas) + "
    "in-Coq evaluation of model and shape checker on generated documents", "DESIGN.md section 5 C13")
chk("C14", "proof",
    "Coq theorems (coq/Properties/C14.v) about the transcription of the significant-times cache (per-region clones, content interval) "
    "relate cached and uncached snapshot generation (see the file for the exact list); the transcription of from_model-with-cache is "
    "compared with the code inside Coq and the render-equivalence specification is evaluated in Coq on the code's cached/uncached pairs. "
    "The half 'the source is unchanged and repeated calls are equal' holds by construction in an immutable model and is therefore "
    "established by random operation histories over one Python document with a structural fingerprint after every call (testing).",
    "Trusted: Coq kernel; harness literal printer and fingerprint (isdlit.doc_lit). Process-global writer state is observed only under C19.",
    "Coq theorems + in-Coq differential evaluation + fingerprinted operation histories", "DESIGN.md section 5 C14")
