chk("C13", "proof",
    "Coq theorems (coq/Properties/C13.v) about the transcription of ISD._process_element show shape clauses of every snapshot for every "
    "document and time (see the file for the exact list and for what remains `_partial`); the transcription is compared with ISD.from_model "
    "on style-heavy generated documents inside Coq, and an executable shape checker (Spec/IsdShape.v, 11 clauses written from doc/isd.md and "
    "the property text) is evaluated in Coq on every snapshot the implementation produces; document parameters and ownership are compared "
    "on the Python objects.",
    "Trusted: Coq kernel; harness literal printer; the checker as a reading of doc/isd.md. Recorded findings: tts:disparity is never "
    "computed (lengths not rh/rw); text below rp is not white-space processed.",
    "Coq theorems by rose-tree induction + in-Coq evaluation of model and shape checker on generated documents", "DESIGN.md section 5 C13")
chk("C14", "proof",
    "Coq theorems (coq/Properties/C14.v) about the transcription of the significant-times cache (per-region clones, content interval) "
    "relate cached and uncached snapshot generation (see the file for the exact list); the transcription of from_model-with-cache is "
    "compared with the code inside Coq and the render-equivalence specification is evaluated in Coq on the code's cached/uncached pairs. "
    "The half 'the source is unchanged and repeated calls are equal' holds by construction in an immutable model and is therefore "
    "established by random operation histories over one Python document with a structural fingerprint after every call (testing).",
    "Trusted: Coq kernel; harness literal printer and fingerprint (isdlit.doc_lit). Process-global writer state is observed only under C19.",
    "Coq theorems + in-Coq differential evaluation + fingerprinted operation histories", "DESIGN.md section 5 C14")
