chk("C19", "proof",
    "Proved (coq/Properties/C19.v, for all command lines / all JSON values, closed under the global context) about Model/Cli.v `plan`, a "
    "transcription of tt.py convert/get_file_type/read_config_from_json, config.py validate/parse, every */config.py decoder, lcd.py's "
    "decoders and the filter registry over an abstract JSON type: the reader/writer type is the one named by --itype/--otype else by the "
    "file extension, case-insensitively, iff the specification's type_ok holds, and is unique; unresolvable input types, unknown or "
    "unwritable output types and unknown sub-commands give an error; an error or the usage text never names an output action, and an "
    "output action implies convert + resolved types + readable configuration; a configuration file overrides an inline one; the applied "
    "filters are the known names of the command line in order, configured from their section; document_lang of the configuration in force "
    "overrides the language; for 16 of the 19 documented keys the decoder accepts a non-null JSON value iff README documents it, outside the "
    "executable triggers of three recorded findings (refutations in coq/Findings/C19.v); colours and font stacks only in part "
    "(non-strings rejected; every documented colour below the int() digit limit accepted; single family names accepted; the converse for colour "
    "strings and multi-family / quoted font stacks are compared, not proved). NOT proved, established by differential execution "
    "on every run: that the bytes written by the real `tt` process equal the library pipeline executed on that plan, and that they do not "
    "depend on PYTHONHASHSEED, progress/log settings or earlier conversions in the same interpreter (M is pure, so this half is testing).",
    "Tie of M to the code: (1) tables regenerated from the source and the running CPython (file types, filter registry, dataclass fields, "
    "decoded defaults, named colours, logging levels, int()/re/str.lower character classes) and every decoder on ~1100 fixed probes, compared "
    "by vm_compute in Proofs/C19/Tables.v; (2) per run 150 (quick) / 3000 (thorough) generated command lines over all 5x3 format pairs, each run "
    "as a fresh process, observed by running the real tt.main with readers/filters/writers replaced by recorders (monkey-patched in a worker, "
    "/repo untouched), compared in Coq with M's plan, executed through the library API with configuration objects built by constructors and "
    "compared byte for byte with the output file, and judged by S in Coq; plus 1500/30000 random decoder probes and paths. Trusted: Coq "
    "kernel/vm_compute; gen_c19.py and the recorders/canonicaliser/executor in c19.py; my reading of README in Spec/CliSpec.v (null = not "
    "specified; RFC 5646, TTML2 colour and font-families grammars approximated as stated there); argparse, the file system and process "
    "globals are exercised, not modelled. Recorded findings (findings_proposed/C19.txt): bool decoders accept anything by truthiness; "
    "undocumented values coerced/accepted for 11 keys; one-character font family rejected.",
    "Coq theorems (induction over text/lists, lia, finite case analysis) about a hand model + regenerated tables + in-Coq correspondence on "
    "observed plans + subprocess-vs-library byte comparison + determinism reruns",
    "DESIGN.md section 5 C19, section 10")
