chk("C11", "proof",
    "Unbounded theorems in coq/Properties/C11.v about Gallina transcriptions of ttconv/vtt/tokenizer.py (complete state machine, "
    "html.unescape included) and ttconv/vtt/reader.py (line machine, timestamps, parse_vtt_pct/int, _get_or_make_region over Q, "
    "_TextCueParser as a zipper): the tokenizer inverts the WebVTT token syntax for every normal-form token list; every well-formed "
    "timestamp (hours optional, any number of hour digits) is read as exactly value/1000; for every list of setting strings outside "
    "the recorded triggers the region lies inside the root container with non-negative extent; equal settings find the same region "
    "whatever was added in between; and, by induction on the cue tree, parsing the printed text of any tree of text lines and "
    "b/i/u/c.classes/lang/v elements (any depth) yields exactly the span tree carrying each style on exactly the enclosed text; and, by "
    "induction on the list of cues, a file of cue blocks (optional identifier, hours optional, any setting words, zero or more payload lines) is "
    "read as exactly one paragraph per cue that has a payload, with the printed begin/end as rationals, the selected region and the parsed payload. "
    "On every run the models are compared with the code on grammar-generated files (all combinations of representative cue "
    "settings in the thorough tier), mutated and corpus files, writer outputs under the 8 writer configurations and cue texts, and "
    "the specification (Spec/VttSpec.v: grammar + printer, styled/timed runs, region clauses) judges the code's own output.",
    "Trusted: Coq kernel/vm_compute; harness/gen_c11.py (tables from CPython's html module, str.isspace, NamedColors; fail-closed); the "
    "harness mapping of ttconv objects to outcome literals; float geometry compared with the rational model within 1e-9; "
    "round(float(s)) taken as exact half-even rounding (<= 15 significant digits), \\d as ASCII; files read through io.StringIO; my "
    "reading of WebVTT in Spec/VttSpec.v.  Only compared, not proved: NOTE/STYLE/REGION skipping, timestamps, character references and ruby in cue text, "
    "the S region clauses (mode/alignment/line edge) and the writer round trip.  Eight defects are recorded as findings "
    "(region never clamped, non-positive line numbers, vertical center, annotation `&`, timestamp span nesting, character references "
    "without `;`, ruby structure, <rt> outside <ruby>; cue without payload and the empty file were repaired in /repo and are regression witnesses), each with a refuted witness in Findings/C11.v.",
    "Coq theorems (induction on token lists / cue trees, lra+field over Q) + regenerated tables + in-Coq differential run and S evaluation",
    "DESIGN.md section 5 C11")
