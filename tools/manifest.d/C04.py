chk("C04", "proof",
    "Unbounded theorems in coq/Properties/C04.v about a Gallina transcription of the IMSC reader (imsc/utils.py parse_time_expression, "
    "the ttp:frameRate/frameRateMultiplier/tickRate extractors, imsc/elements.py ContentElement.ParsingContext.process with its "
    "styling steps) on ElementTree structures: every member of the TTML2 <time-expression> grammar, in each of the 8 syntaxes, is "
    "parsed to its value (C04_time_syntax) and a string outside the grammar is rejected unless the trigger of finding "
    "lax-value-syntax fires (C04_time_reject_partial); for every XML tree and parsing context the desired begin/end the reader "
    "computes equal the TTML2 par/seq/begin/end/dur interval semantics written independently in Spec/TtmlTimingSpec.v "
    "(C04_interval, induction on the tree); a tree without seq containers is always read (C04_read_total_partial); a malformed "
    "begin/dur/end, xml:space, timeContainer or style attribute leaves exactly the result of the element without it "
    "(C04_bad_attr_ignored_*); look-up equations for inline > nested > referential precedence with later references first "
    "(C04_styles_*); effective frame rate and tick rate on well-formed parameters. The model is compared with "
    "ttconv.imsc.reader.to_model on grammar-generated timing documents and style graphs (kinds, relative begin/end, xml:space, "
    "xml:lang, region, specified styles, set steps, anonymous spans, pruning, initial values), and the specifications judge the "
    "code through the text presented by ISD.from_model at every interval boundary and through the specified style sets; "
    "single-attribute corruptions check 'ignored and logged'.",
    "Trusted: Coq kernel/vm_compute; expat/ElementTree parsing (the model starts from the element tree); harness/imsc_common.py "
    "(literal printer, generators, dump of the ContentDocument), gen_c04.py; my reading of TTML2 sections 12, 7.2, 10.4.2 in "
    "Spec/TtmlTimingSpec.v and Spec/TtmlStyleSpec.v; S values attribute strings through tables made by the generator (time "
    "expressions: the abstract syntax they were printed from; style values: well-formedness) and compares style values through "
    "the code's own extract in isolation; tts:fontFamily/opacity/luminanceGain values are opaque to the model. Not proved: "
    "totality for seq containers (refuted: finding seq-indefinite-sibling), the flattening of chained style references "
    "(compared on generated graphs), log records (not modelled), non-ASCII digits (outside the model). Recorded findings: "
    "seq-indefinite-sibling, tickrate-default, lax-value-syntax, zero-rate-division, tt-parameter-abort, bad-ruby-drops-span, "
    "unknown-attribute-not-logged, lax-style-syntax, style-invalid-value-abort, textshadow-comma-space.",
    "Coq theorems (structural induction over rose trees, inversion of the recognisers, Q arithmetic by lra/ring) + in-Coq differential run of model and specs on generated cases",
    "DESIGN.md section 5 C04")
