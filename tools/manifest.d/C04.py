chk("C04", "proof",
    "Unbounded theorems in coq/Properties/C04.v about a Gallina transcription of the IMSC reader's time-expression parser "
    "(imsc/utils.py parse_time_expression, the ttp:frameRate/frameRateMultiplier/tickRate extractors) and of its temporal "
    "resolution (imsc/elements.py ContentElement.ParsingContext.process) on ElementTree structures: every member of the TTML2 "
    "<time-expression> grammar, in each of the 8 syntaxes, is parsed to its value (C04_time_syntax); for every XML tree and "
    "parsing context the desired begin/end the reader computes equal the TTML2 par/seq/begin/end/dur interval semantics written "
    "independently in Spec/TtmlTimingSpec.v (C04_interval, induction on the tree); with non-zero rates a tree without seq "
    "containers is always read (C04_read_total_partial); effective frame rate and tick rate on well-formed parameters. "
    "The model is compared with ttconv.imsc.reader.to_model on grammar-generated documents (element kinds, relative begin/end, "
    "xml:space, xml:lang, region, set steps, anonymous spans, pruning) and the specification judges the code through the text "
    "presented by ISD.from_model at every interval boundary; single-attribute corruptions check 'ignored and logged'.",
    "Trusted: Coq kernel/vm_compute; expat/ElementTree parsing (the model starts from the element tree); harness/imsc_common.py "
    "(literal printer, generator, dump of the ContentDocument), gen_c04.py; my reading of TTML2 section 12 / 7.2 in "
    "Spec/TtmlTimingSpec.v; S values attribute strings through the table of abstract expressions they were printed from. "
    "Not proved: rejection of every string outside the grammar (refuted for '10fx' and a trailing line feed, finding "
    "lax-value-syntax), totality for seq containers (refuted, finding seq-indefinite-sibling), style precedence and the "
    "bad-attribute clause (compared on generated documents only); non-ASCII digits are outside the model. Recorded findings: "
    "seq-indefinite-sibling, tickrate-default, lax-value-syntax, zero-rate-division, tt-parameter-abort, bad-ruby-drops-span, "
    "unknown-attribute-not-logged, lax-style-syntax.",
    "Coq theorems (structural induction over rose trees, Q arithmetic by lra/ring) + in-Coq differential run of model and spec on generated cases",
    "DESIGN.md section 5 C04")
