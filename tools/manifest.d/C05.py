chk("C05", "proof",
    "Unbounded theorems in coq/Properties/C05.v about a Gallina transcription of the IMSC writer's value printers and the IMSC "
    "reader's value parsers: clock-time printing of every millisecond multiple below 100 h is read back exactly; frames printing "
    "ceil(t*fps) is read back as a time never earlier than t, later by less than one frame, exact on whole frames and monotone; "
    "clock time with frames is read back as floor(t*F)/F; the written ttp:frameRate/frameRateMultiplier are read back as the rate (7 rates); "
    "attribute round trips extract(print v) = v for the 16 enumeration-valued properties (decided on the tables regenerated from "
    "the source), itts:fillLineGap, every RGBA8 colour, and - with Python's format(x,'g') transcribed exactly over Q - every length "
    "x in every unit is read back rounded to six significant digits whenever the writer stays in fixed notation (tts:fontSize, "
    "tts:disparity, tts:lineHeight, ebutts:linePadding in c, tts:extent, tts:origin, tts:padding, tts:position, tts:rubyReserve, "
    "tts:textOutline, tts:textShadow with one shadow); all 27 tts:textDecoration values; tts:textEmphasis (7 styles x 3 positions, with any colour or none) "
    "- 32 of the 36 properties. The transcription is compared "
    "with StyleProperties.*.from_model / has_px / extract, format(x,'g'), to_time_format and FrameRateAttribute.set on generated "
    "values, and the round trip itself is run on generated documents x 5 writer configurations x 7 frame rates and judged by "
    "Spec/ImscRoundTripSpec.v (offsets, order, values) and by snapshot comparison.",
    "Trusted: Coq kernel/vm_compute; XML serialisation and parsing; harness/imsc_docgen.py (generator, value literals), the harness's "
    "tree comparison and snapshot comparison; floats identified with the rationals they denote. Not proved (round trip compared on "
    "generated documents only): tts:fontFamily, opacity, shear, luminanceGain, and the tree-level statement read(write d) ~ d. Recorded findings: "
    "none-special-value, adjacent-text, lang-not-written, g-exponent, number-as-fraction, linepadding-units, fontfamily-syntax, "
    "transparent-background, negative-time, shear-clamped, textshadow-list, px-not-scanned.",
    "Coq theorems (digit-list induction, Q arithmetic, finite tables by vm_compute) + in-Coq differential run of model and spec on generated cases",
    "DESIGN.md section 5 C05")
