chk("C02", "proof",
    "Unbounded Coq theorems (coq/Properties/C02.v, closed under the global context) about a statement-by-statement transcription "
    "of ISD.significant_times / ISD._process_element / ISD.from_model: the list is strictly increasing; no content before the first "
    "time; for the corrected transcription two rational times that no significant time separates give EQUAL snapshots (hence the "
    "snapshot at t is the snapshot at the greatest significant time not after t) for every document, by rose-tree induction; for "
    "the code's own list the same under the executable trigger of the recorded finding (refuted otherwise, Findings/C02.v); the "
    "generated sequence is the list of (cached) snapshots at those times, each rendering like the snapshot computed without the cache, and "
    "the entry at the greatest significant time not after t renders like the snapshot at t (C02_timeline_partial: well-formed documents, "
    "outside the two recorded triggers). The models are tied to the code by differential runs (sig list here, "
    "snapshots under C01) and the specification is checked on the code itself by probes strictly between consecutive times.",
    "Trusted: Coq kernel; harness literal printer; that the transcription marks every use of t (checked by correspondence only). "
    "Recorded finding: animation steps offset by the parent's interval (the 2-line repair was re-tried in the deepening phase: "
    "test_isd.ContentDocument0Test.test_significant_times pins the behaviour, 445/446). The multiprocessing branch is not reachable/modelled.",
    "Coq theorems by rose-tree induction over Q + differential runs + between-times probes on the code", "DESIGN.md section 5 C02")
chk("C01", "proof",
    "Coq theorems (coq/Properties/C01.v) about the transcription of ISD._process_element: time containment (begin inclusive, end "
    "exclusive, relative to the parent, clipped), display cascade, conservative white-space handling, and the top-level statement "
    "C01_snapshot: for every document satisfying the content model the model API enforces (Spec/DocWf.v — this discharges the former "
    "hypothesis `br/text are leaves`), every rational time and every snapshot produced, region by region in region order each source "
    "region (or the default region) either appears under its own id showing exactly the leaves of the per-leaf TTML2 specification "
    "(chain active, region-selected, not display:none; once each, in document order) or is absent and the specification prescribes no "
    "leaf for it. The transcription (whole snapshot: structure, ids, "
    "text, all computed styles) is compared with ISD.from_model on generated documents x boundary/epsilon/midpoint times inside Coq, and "
    "the specification is evaluated in Coq on the implementation's own snapshots.",
    "Trusted: Coq kernel; harness literal printer; Spec/IsdSpec.v as a reading of TTML2 ISD construction; Spec/DocWf.v as what model.py "
    "enforces (evaluated on every generated document). "
    "Recorded finding: snapshots raise when a ruby child is pruned.",
    "Coq theorems by rose-tree induction + in-Coq differential evaluation of model and spec on generated documents", "DESIGN.md section 5 C01")
