chk("C09", "proof",
    "Unbounded theorems in coq/Properties/C09.v (closed under the global context) carry the text and time core: (a) for EVERY list of "
    "integers the one-pass machine transcribed from stl/tf.py to_model (look-ahead/look-behind, span bookkeeping, teletext style reset) "
    "yields exactly the pieces of an independently structured Tech 3264 interpretation (cut at the first 0x8F, tokens by neighbour rules, "
    "attribute folding) - by induction with the _Context record as invariant; (b) the ISO 6937 decoder over the regenerated "
    "_CCT0_DECODE_MAP equals, on all 256 bytes and all 65 536 byte pairs (decided in the kernel, bound in the statement) and hence on byte "
    "strings of any length, a decoder over a repertoire derived from unicodedata without reading ttconv (156 diacritic+letter pairs, 10 "
    "spacing forms) and a hand-written G2 table; CPython's iso8859_5..8 tables equal the standard's formulas on all 256 bytes; (c) TCI/TCO "
    "conversion: the n-th address of the SMPTE 12M counting sequence is presented n frame periods after zero at 24, 25, 50 and 30000/1001 "
    "fps (from the C12 lemmas) and the conversion equals S's closed form on every label; (d) strip(0x8F) = cut for well-shaped fields, rows "
    "needed, VP -> top/bottom anchored region equal to S's and inside the safe area (over Q); (e) `is not` on subtitle numbers behaves as "
    "`!=` outside a narrow trigger (lock-step induction over the whole reader). Eleven recorded findings each have a refutation "
    "(coq/Findings/C09.v), an executable trigger (Model/StlTriggers.v) and the partial theorem.",
    "NOT proved, only compared on every run: the whole-file pipeline (GSI field decoding, int(bytes), EBN grouping, cumulative sets, "
    "divisions per SGN, region sharing, drop rules) of Model/StlDatafile.v against S's `presentation` - the check evaluates M = code and "
    "S-accepts-code inside Coq on the 50 corpus files x configurations and on byte-level generated files (300 quick / 5 000 thorough), on "
    "2 500 / 30 000 random text fields, and exhaustively on ISO 6937 single bytes and diacritic pairs (thorough: all 65 536 pairs). "
    "Trusted: Coq kernel/vm_compute; harness/gen_c09.py (fail-closed translator); canon_doc in harness/c09.py; my reading of Tech 3264, "
    "ISO 6937 (single-byte table cross-checked by hand against glibc's ISO_6937 charmap: differs from the code only at 0xA4), ISO 8859-5..8; "
    "region geometry is float in the code and Q in M/S (compared up to 1e-9); CPython small-int cache, int(bytes), bytes.strip, struct "
    "layouts are modelled and exercised, not proved. S's whitespace rules (a space or an attribute position counts only between two "
    "printable characters; new-line at the end of the text ignored) are taken from the code's documented behaviour, not from the standard.",
    "Coq theorems by induction/lia/ring + finite-domain vm_compute (all bytes, all byte pairs) + regenerated tables + in-Coq correspondence "
    "on generated files and exhaustive tables", "DESIGN.md section 5 C09")
