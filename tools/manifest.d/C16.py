chk("C16", "proof",
    "Coq theorems for every document and every configuration (coq/Properties/C16.v, rose-tree induction over a statement-by-statement "
    "transcription of LCDDocFilter.process, _replace_regions, _apply_bg_color, SupportedStylePropertiesFilter, RemoveAnimationFilter and "
    "remove_region, coq/Model/Lcd.v): no animation step is left; every region has origin (sa,sa) and extent (100-2sa,100-2sa) in %; style keys "
    "of elements, regions and initial values are within the configured whitelist (partial: tts:position outside regions survives, recorded); "
    "every region reference names a remaining region; the remaining regions are pairwise different in (timing, resulting displayAlign); the "
    "filter applied to its own result returns it unchanged; the filter succeeds outside two recorded triggers; and (C16_timeline_partial) the "
    "leaves visible at any time under the TTML2 leaf specification of C01 are the same multiset before and after, for documents without "
    "display/visibility/opacity and outside two recorded triggers. The transcription is compared inside Coq with the filtered document (or "
    "the exception class) on generated documents x configurations, the clauses of Spec/LcdSpec.v are evaluated in Coq on the implementation's "
    "result (static clauses, timeline at boundary times, computed colour/background/alignment through the snapshot model), and the harness "
    "compares real snapshots before/after and a second application on the Python objects.",
    "Trusted: Coq kernel; harness/isdlit.py literal printer; docgen + c16.redress generator; well-formedness hypotheses (unique style keys, "
    "regions with unique ids, references name regions) taken from C15; exception classes compared as two codes; a model/code disagreement is "
    "excused only when an origin/extent sum computed through floats lies within 1e-6 of 50 (counted). The snapshot semantics used for the "
    "timeline is Spec/IsdSpec.v (tied to ISD.from_model by C01), not isd.py itself; the real-snapshot comparison is testing. Recorded "
    "findings: failure on tts:position, on bg_color without body, tts:position surviving on content, end=0 treated as unbounded, nested "
    "conflicting region attributes becoming visible, preserve_text_align not preserved across merged regions.",
    "Coq theorems by rose-tree/list induction + in-Coq differential evaluation of model and specification on generated documents",
    "DESIGN.md section 5 C16")
