chk("C16", "proof",
    "Coq theorems for every document, every configuration and (timeline) every rational time (coq/Properties/C16.v; rose-tree and list "
    "induction over a statement-by-statement transcription of LCDDocFilter.process, _replace_regions, _apply_bg_color, "
    "SupportedStylePropertiesFilter, RemoveAnimationFilter and remove_region, coq/Model/Lcd.v, which reuses the transcription of "
    "StyleProcessors.Origin/Position/Extent.compute of Model/Isd.v): C16_no_anim (no animation step is left), C16_safe_area (every region "
    "has origin (sa,sa) and extent (100-2sa,100-2sa) in %), C16_whitelist_partial (style keys of elements, regions and initial values within "
    "the configured whitelist, configured colours the only values of their keys; partial: tts:position outside regions survives, refuted in "
    "Findings/C16.v), C16_merged (remaining regions are source regions, pairwise different in timing/writing mode/resulting displayAlign), "
    "C16_refs_redirected (every reference names a remaining region), C16_idempotent (lcd cfg (lcd cfg d) = lcd cfg d for safe_area < 50), "
    "C16_total_partial (the filter succeeds outside the two recorded failure triggers), C16_timeline_partial / C16_timeline_leaves_partial "
    "(at every time the leaves visible under the TTML2 leaf specification of C01, tagged by paragraph, are the same multiset before and "
    "after, for documents without display/visibility/opacity and outside the two recorded triggers; the unconditional statement is refuted). "
    "The transcription is compared inside Coq with the filtered document (or the exception class) on generated documents x configurations "
    "(300 x 3 quick, 4000 x 3 thorough), including dictionary key order; the clauses of Spec/LcdSpec.v are evaluated in Coq on the "
    "implementation's result (static clauses, timeline at boundary/epsilon/midpoint times, computed colour/background/alignment through the "
    "snapshot model, model applied to the result); the harness compares the real snapshots (ISD.from_model) before/after as multisets of "
    "(paragraph, leaf), the computed colour/background/alignment on the real snapshots, and a second application, on the Python objects.",
    "Trusted: Coq kernel; harness/isdlit.py literal printer; docgen + c16.redress generator; well-formedness hypotheses (unique style keys, "
    "regions with unique ids, references name regions, region geometry of its value class and not in em) taken from C15 / validate and "
    "evaluated on every generated document (all inside); exception classes compared as two codes; a model/code disagreement is excused only "
    "when an origin/extent sum that the code computes through floats lies within 1e-6 of 50 (counted; 0 so far). The timeline theorem is about "
    "Spec/IsdSpec.v (tied to ISD.from_model by C01), not isd.py itself; 'the configured colour/background/alignment are what snapshots "
    "compute' and the element-by-element redirection clause are compared, not proved. Recorded findings (findings_proposed/C16.txt): failure on "
    "tts:position, failure on bg_color without body, tts:position surviving on content elements / initial values, end=0 treated as "
    "unbounded, nested conflicting region attributes becoming visible after merging, preserve_text_align not preserved across merged regions. "
    "Observation proved in Findings/C16.v: tts:writingMode never reaches the fingerprint (stripped before it is read).",
    "Coq theorems by rose-tree/list induction (incl. a permutation argument for the timeline) + in-Coq differential evaluation of model "
    "and specification on generated documents + snapshot comparison on the implementation",
    "DESIGN.md section 5 C16")
