chk("C15", "proof",
    "Unbounded theorems in coq/Properties/C15.v about a heap-machine transcription of ttconv/model.py (coq/Model/Heap.v: nodes with the "
    "private link fields, one operation per public method with the order of checks and writes): the initial universe is well formed "
    "(C15_wf_init); every call preserves WF = links/child lists agree + acyclic + one document per tree + content model of "
    "doc/data_model.md + region references registered + stored values valid (C15_wf_step_partial), hence every reachable state is well "
    "formed by induction over the call list (C15_reachable_partial); a rejected single-element call leaves the state unchanged "
    "(C15_atomic_partial); push_child/remove_child against the abstraction children : element -> list element (C15_push_child_dll, "
    "C15_remove_child_dll); no element is its own ancestor (C15_acyclic); validate accepts only values of the property's type, each "
    "font-family item included (C15_validate_sound); the executable checker wf_b is sound for WF (C15_wf_b_sound). All closed under the "
    "global context. The `_partial` theorems exclude, by executable triggers (coq/Model/HeapTriggers.v), the eight recorded call shapes "
    "that Findings/C15.v proves to break WF (each with a reachable well-formed pre-state); nothing else is excluded. The model is tied to the code by operation-sequence correspondence: random histories of 1-40 calls over 22 elements of "
    "all 13 kinds and 2 documents run on the real objects; after every call the dumped object graph must equal M's heap, the outcome "
    "class must equal M's and wf_b/atomicity are evaluated on the dump inside Coq; validate is compared on every (property, sample value) pair.",
    "Trusted: Coq kernel/vm_compute; harness/c15.py (object graph -> heap literal through public getters, value shape classifier, per-step "
    "differences rebuilt by HeapCases.apply_delta); my reading of doc/data_model.md and of the value type of each style property in "
    "Spec/ModelWF.v (bool counts as a number, the empty font-family tuple is accepted); text content, time values and language tags are "
    "abstracted to set/unset; EFuel models non-termination of link walks (never observed on the code; that M never produces it on a "
    "well-formed heap is not proved). Completeness of wf_b (WF -> wf_b = true) is not proved, only its soundness. Recorded findings: put-region-replace, "
    "remove-region-outside-body, set-region-by-id, set-doc-none-half-applied, set-doc-on-child, push-children-half-applied, rtc-lone-rp, "
    "rtc-push-children-appends.",
    "Coq invariant proof by induction over call sequences of a heap machine + differential operation-history correspondence with in-Coq "
    "evaluation of the specification on the implementation's states", "DESIGN.md section 5 C15")
