#!/usr/bin/env python3
"""validate MANIFEST.json and every evidence file against the schemas (run with python3-vt)"""
import json, sys, glob, jsonschema
man = json.load(open("/verif/MANIFEST.json"))
jsonschema.validate(man, json.load(open("/root/.vp/MANIFEST.schema.json")))
props = [json.loads(l)["id"] for l in open("/verif/properties.jsonl")]
claimed = [c["property_id"] for c in man["checks"]]; na = [c["property_id"] for c in man.get("not_applicable", [])]
assert sorted(claimed + na) == sorted(props), (sorted(set(props) - set(claimed + na)), "unaccounted")
es = json.load(open("/root/.vp/EVIDENCE.schema.json"))
bad = 0
for c in man["checks"]:
    try:
        e = json.load(open(c["evidence_file"])); jsonschema.validate(e, es)
        assert e["level"] == c["level_claimed"]["category"], "level mismatch"
        if e["level"] == "proof": assert e["coverage"]["obligations"] == e["coverage"]["discharged"], "undischarged"
    except Exception as ex:
        bad += 1; print("EVIDENCE PROBLEM", c["property_id"], str(ex)[:200])
print("manifest ok;", len(claimed), "claimed,", len(na), "not applicable;", bad, "evidence problems")
sys.exit(1 if bad else 0)
